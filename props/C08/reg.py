WRAPS = ['psGetEntropy', 'psGetTime', 'psDiffMsecs', 'psCompareTime', 'time']
SRC = ['props/C08/netfuzz.cc', 'harness/wraps.c', 'harness/shim.c']
def tgt(name, dtls, vclient, engine):
    d = dict(name=name + ('_lf' if engine == 'libfuzzer' else ''), src=SRC, wraps=WRAPS, env={'VERIF_DIR': '/verif'}, defs=['C08_DTLS=%d' % dtls, 'C08_VCLIENT=%d' % vclient],
             hang_is_violation=False)
    if engine == 'libfuzzer':
        d.update(engine='libfuzzer', corpus=['corpus/C08/seeds', 'corpus/C08/' + name], max_len=512, timeout=25,
                 quick=dict(secs=12, shards=8), thorough=dict(secs=420, shards=16))
    else:
        d.update(quick=dict(cases=1200, secs=15), thorough=dict(cases=200000, secs=300))
    return d
PROP = dict(
    level='exploration',
    level_text='Structure-aware fuzzing of the four session kinds (TLS/DTLS x client/server): the input is decoded into a configuration and a script that delivers the legit peer\'s real records/datagrams unchanged, with structured mutations (bit/byte/length-field edits, truncation, extension, duplication, insertion, record/handshake/fragment header rewrites) or as raw bytes, interleaved with application calls and chunking changes. Oracles inside the target: ASan+UBSan, LeakSanitizer after teardown, documented return codes, buffer-size invariants, per-input time bound. Run as a seeded campaign and coverage-guided (libFuzzer) from a committed corpus.',
    level_note='Parsers behind record protection are reached only through records the legit peer produced (a keyed mutating peer is not built). Timeouts are treated as load noise unless reproduced. Sampling, not proof.',
    technique='coverage-guided and seeded structure-aware fuzzing with sanitizer + invariant oracles in the target',
    rule='input = (config byte: version/suite/client-auth/resumption/tickets/PMTU; script of <= 64 steps); non-trivial = >= 2 steps and at least one mutated or raw unit; distinct by (version, suite class, client-auth, resumed, deepest handshake state reached, outcome)',
    assumptions=['harness respects the caller contract (bytes reported <= buffer offered)'],
    targets=[tgt('c08_tls_server', 0, 0, 'tape'), tgt('c08_tls_client', 0, 1, 'tape'), tgt('c08_dtls_server', 1, 0, 'tape'), tgt('c08_dtls_client', 1, 1, 'tape'),
             tgt('c08_tls_server', 0, 0, 'libfuzzer'), tgt('c08_tls_client', 0, 1, 'libfuzzer'), tgt('c08_dtls_server', 1, 0, 'libfuzzer'), tgt('c08_dtls_client', 1, 1, 'libfuzzer')],
)
# ---- TLS 1.3 parsers behind record protection: a keyed mutating peer (harness/puppet13) sends grammar-aware mutations of
# ServerHello / HelloRetryRequest extension blocks (plaintext, but kept well-formed: cookie 0..65535 bytes, key_share and supported_versions with odd lengths, duplicates, unknown types) and of EncryptedExtensions / CertificateRequest / Certificate / CertificateVerify / Finished / NewSessionTicket / KeyUpdate / EndOfEarlyData
# sealed under the real traffic keys, to a client or server victim (props/C08/keyed13.cc)
_SRC_K13 = ['props/C08/keyed13.cc', 'harness/puppet13.cc', 'harness/wraps.c', 'harness/shim.c']
PROP['targets'] += [
    dict(name='c08_tls13_keyed', src=_SRC_K13, libs=['-lcrypto'], wraps=WRAPS, env={'VERIF_DIR': '/verif'}, hang_is_violation=True,
         quick=dict(cases=2800, secs=25), thorough=dict(cases=250000, secs=420)),
]
PROP['level_note'] = PROP['level_note'].replace('(a keyed mutating peer is not built)', '(except TLS 1.3, where c08_tls13_keyed is a keyed mutating peer)')
PROP['rule'] += (' || c08_tls13_keyed: input = (victim role, RSA/ECDSA, client-auth, group, client session-id object, 0-2 target messages, grammar-aware body with generated fields and 1-2 inconsistent length prefixes, '
                 'truncation at a structural boundary / trailing bytes / bit flips / inconsistent handshake header, record framing and receive chunking); non-trivial = the mutated message was sealed under the right keys and reached a live victim '
                 '(no bad_record_mac); distinct by (role, cert, client-auth, targets, outcome, alert, mutation classes)')


# ---- bounded-exhaustive: every short record body length x content type against an established session of every (version, suite, role)
PROP['targets'] += [
    dict(name='c08_short_records', src=['props/C08/short_records.cc', 'harness/wraps.c', 'harness/shim.c'], wraps=WRAPS, env={'VERIF_DIR': '/verif'}, enumerate=True,
         quick=dict(cases=0, secs=90, stride=1), thorough=dict(cases=0, secs=300, stride=1)),
]
PROP['rule'] += ' || c08_short_records: index -> (version, suite, role, content type 20..24, body length 0..96) delivered to an established session; non-trivial = every evaluated index'


# ---- DTLS handshake reassembly: generated fragment sets (offset/length pairs in and out of order, overlapping, duplicated, zero-length,
# inconsistent total length / message_seq / type, nested handshake headers, synthetic HelloVerifyRequests) replace messages of the legit
# peer's flights; a hang is a violation; heap blocks are pre-filled (ld --wrap=malloc, props/C08/c08_fill.c) and scenarios whose fragment
# set leaves a hole are run under two fill bytes and must behave identically (use of uninitialised memory)
PROP['targets'] += [
    dict(name='c08_dtls_frags', src=['props/C08/dtls_frags.cc', 'props/C08/c08_fill.c', 'harness/wraps.c', 'harness/shim.c'], wraps=WRAPS + ['malloc'], env={'VERIF_DIR': '/verif'},
         hang_is_violation=True, quick=dict(cases=4800, secs=25), thorough=dict(cases=400000, secs=300)),
]
PROP['rule'] += (' || c08_dtls_frags: input = (victim role, DTLS 1.0/1.2, suite, client-auth, PMTU, tickets, timer firings; up to two (message ordinal, base message, message_seq, declared length/tail, '
                 '0-8 fragment tiling with coinciding cut points, 0-3 fragment edits, order, framing)); non-trivial = a generated fragment set was delivered; distinct by (role, version, client-auth, outcome, '
                 'per mutation: message type, base, declared-length class, message_seq class, fragment count, zero-length/overlap/hole flags, edit count)')
