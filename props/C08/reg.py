WRAPS = ['psGetEntropy', 'psGetTime', 'psDiffMsecs', 'psCompareTime', 'time']
SRC = ['props/C08/netfuzz.cc', 'harness/wraps.c', 'harness/shim.c']
def tgt(name, dtls, vclient, engine):
    d = dict(name=name + ('_lf' if engine == 'libfuzzer' else ''), src=SRC, wraps=WRAPS, env={'VERIF_DIR': '/verif'}, defs=['C08_DTLS=%d' % dtls, 'C08_VCLIENT=%d' % vclient],
             hang_is_violation=False)
    if engine == 'libfuzzer':
        d.update(engine='libfuzzer', corpus=['corpus/C08/seeds', 'corpus/C08/' + name], max_len=512, timeout=25,
                 quick=dict(secs=12, shards=8), thorough=dict(secs=420, shards=16))
    else:
        d.update(quick=dict(cases=1200, secs=15), thorough=dict(cases=200000, secs=300))
    return d
PROP = dict(
    level='exploration',
    level_text='Structure-aware fuzzing of the four session kinds (TLS/DTLS x client/server): the input is decoded into a configuration and a script that delivers the legit peer\'s real records/datagrams unchanged, with structured mutations (bit/byte/length-field edits, truncation, extension, duplication, insertion, record/handshake/fragment header rewrites) or as raw bytes, interleaved with application calls and chunking changes. Oracles inside the target: ASan+UBSan, LeakSanitizer after teardown, documented return codes, buffer-size invariants, per-input time bound. Run as a seeded campaign and coverage-guided (libFuzzer) from a committed corpus.',
    level_note='Parsers behind record protection are reached only through records the legit peer produced (a keyed mutating peer is not built). Timeouts are treated as load noise unless reproduced. Sampling, not proof.',
    technique='coverage-guided and seeded structure-aware fuzzing with sanitizer + invariant oracles in the target',
    rule='input = (config byte: version/suite/client-auth/resumption/tickets/PMTU; script of <= 64 steps); non-trivial = >= 2 steps and at least one mutated or raw unit; distinct by (version, suite class, client-auth, resumed, deepest handshake state reached, outcome)',
    assumptions=['harness respects the caller contract (bytes reported <= buffer offered)'],
    targets=[tgt('c08_tls_server', 0, 0, 'tape'), tgt('c08_tls_client', 0, 1, 'tape'), tgt('c08_dtls_server', 1, 0, 'tape'), tgt('c08_dtls_client', 1, 1, 'tape'),
             tgt('c08_tls_server', 0, 0, 'libfuzzer'), tgt('c08_tls_client', 0, 1, 'libfuzzer'), tgt('c08_dtls_server', 1, 0, 'libfuzzer'), tgt('c08_dtls_client', 1, 1, 'libfuzzer')],
)
