// C08, DTLS handshake reassembly: structure-aware fragment sets.
//
// A DTLS 1.0 / 1.2 MatrixSSL client or server (the victim) runs a handshake against the legit MatrixSSL peer.  Every flight of
// the peer is taken apart into handshake messages (epoch 0, plaintext) and re-emitted by this target with its own record sequence
// numbers; records of later epochs travel unchanged.  Up to two messages of the whole exchange (chosen by ordinal: HelloVerifyRequest,
// ServerHello, Certificate, ServerKeyExchange, CertificateRequest, ServerHelloDone, NewSessionTicket / ClientHello, second
// ClientHello, Certificate, ClientKeyExchange, CertificateVerify) are replaced by a GENERATED fragment set:
//   base message   the message itself | a synthetic HelloVerifyRequest (cookie 0/1/16/32/255/n bytes) replacing it or inserted in
//                  front of it | the message with a hello-aware body edit (an extension made empty and moved last, ...)
//   message_seq    expected | +1 | -1 | 0
//   declared len   exact | body + a nested handshake header (type = what the state machine expects next, itself a fragment or
//                  complete) | body + filler | shorter than the body
//   fragments      k = 0..8 pieces of a tiling of [0, declared) whose cut points may coincide (zero-length pieces at any offset),
//                  then 0..3 edits: insert a zero-length fragment (offset 0 / end / a cut point / anywhere, at any position of the
//                  sequence), duplicate, shift a suffix back or a prefix forward (overlap + hole), arbitrary (offset, length),
//                  fragment data shorter / longer than fragment_length, other message_seq, other declared total length, other
//                  handshake type, swap; order as is / reversed / rotated / shuffled
//   framing        every fragment in its own datagram | own record in the previous datagram | same record as the previous fragment
// Everything comes from the tape; the all-zero tape is an untouched handshake followed by application data.
//
// Oracles: ASan/UBSan/LSan; documented return codes and buffer invariants (c08_oracle.h); TERMINATION (per-case alarm of 10 s, a
// hang is a violation for this target); and initialised-memory use: malloc() is interposed (c08_fill.c) and pre-fills every block,
// a scenario whose fragment set can complete although it leaves bytes of the reassembly buffer unwritten (and a sample of the
// others) is run twice with different fill bytes - every return code and every byte the victim emits must be identical.
#include "c08_oracle.h"
using namespace vf; using namespace mxh;
extern "C" { extern int c08_fill_on; extern unsigned char c08_fill_byte; }

namespace {
struct HsMsg { uint8_t type = 0; uint16_t msn = 0; Bytes body; uint8_t v1 = 0xfe, v2 = 0xfd; };
struct Item { bool is_msg = false; HsMsg m; Bytes rec; };
struct Edit { uint8_t kind, idx; uint16_t val; };
struct Slot { uint8_t when, src, cl, msnmode, dl, t2sel, l2, m2, f2, nf; uint16_t cut[7]; uint8_t ne; Edit ed[3]; uint8_t order, oseed; uint16_t pack; uint8_t be, be1, be2; };
struct Plan { uint8_t cfg, suite, misc, timeouts, hv; Slot s[2]; };
struct Frag { uint32_t off, flen, decl; uint16_t msn; uint8_t type; int dlen; };
struct Obs { std::vector<int> rcs; std::vector<Bytes> out; std::vector<size_t> out_at; size_t outbytes = 0; int state = 0; bool failed = false, complete = false; };

const uint8_t HSTYPES[10] = { 2, 3, 11, 12, 14, 1, 16, 20, 4, 13 };
const char *hsname(int t) { switch (t) { case 0: return "HelloRequest"; case 1: return "ClientHello"; case 2: return "ServerHello"; case 3: return "HelloVerifyRequest"; case 4: return "NewSessionTicket"; case 11: return "Certificate"; case 12: return "ServerKeyExchange"; case 13: return "CertificateRequest"; case 14: return "ServerHelloDone"; case 15: return "CertificateVerify"; case 16: return "ClientKeyExchange"; case 20: return "Finished"; case 22: return "CertificateStatus"; default: return "?"; } }

Slot read_slot(Tape &t) {
    Slot s; s.when = t.u8(); s.src = t.u8(); s.cl = t.u8(); s.msnmode = t.u8(); s.dl = t.u8(); s.t2sel = t.u8(); s.l2 = t.u8(); s.m2 = t.u8(); s.f2 = t.u8(); s.nf = t.u8();
    for (int i = 0; i < 7; i++) s.cut[i] = t.u16();
    s.ne = t.u8(); for (int i = 0; i < 3; i++) { s.ed[i].kind = t.u8(); s.ed[i].idx = t.u8(); s.ed[i].val = t.u16(); }
    s.order = t.u8(); s.oseed = t.u8(); s.pack = t.u16(); s.be = t.u8(); s.be1 = t.u8(); s.be2 = t.u8();
    return s;
}

void put24(Bytes &b, uint32_t v) { b.push_back((uint8_t) (v >> 16)); b.push_back((uint8_t) (v >> 8)); b.push_back((uint8_t) v); }
void put16(Bytes &b, uint32_t v) { b.push_back((uint8_t) (v >> 8)); b.push_back((uint8_t) v); }

// one handshake fragment (12-byte header + data) for `fr`, data taken from `body` (pattern bytes where the body has none)
Bytes frag_bytes(const Frag &f, const Bytes &body) {
    Bytes o; o.push_back(f.type); put24(o, f.decl); put16(o, f.msn); put24(o, f.off); put24(o, f.flen);
    size_t n = f.dlen < 0 ? f.flen : (size_t) f.dlen;
    for (size_t i = 0; i < n; i++) { size_t p = (size_t) f.off + i; o.push_back(p < body.size() ? body[p] : (uint8_t) (0xE0 + (p & 15))); }
    return o;
}
Bytes record(uint8_t type, uint8_t v1, uint8_t v2, uint64_t seq, const Bytes &payload) {
    Bytes r = { type, v1, v2, 0, 0 }; for (int i = 5; i >= 0; i--) r.push_back((uint8_t) (seq >> (8 * i))); put16(r, (uint32_t) payload.size()); r.insert(r.end(), payload.begin(), payload.end()); return r;
}

// locate the extension block of a ClientHello / ServerHello body (DTLS); returns offset of the 2-byte block length or npos
size_t hello_ext_off(const HsMsg &m) {
    const Bytes &b = m.body; size_t o = 34; if (b.size() < 35) return (size_t) -1;
    o += 1 + b[o]; if (o > b.size()) return (size_t) -1;
    if (m.type == 1) { if (o + 1 > b.size()) return (size_t) -1; o += 1 + b[o]; if (o + 2 > b.size()) return (size_t) -1; o += 2 + ((size_t) b[o] << 8 | b[o + 1]); if (o + 1 > b.size()) return (size_t) -1; o += 1 + b[o]; }
    else o += 3;
    return o <= b.size() ? o : (size_t) -1;
}
// hello-aware body edit: rewrite the extension block (all length fields stay consistent)
bool edit_hello(HsMsg &m, const Slot &s, std::string &what) {
    size_t eo = hello_ext_off(m); if (eo == (size_t) -1) return false;
    std::vector<std::pair<uint16_t, Bytes>> ex; Bytes &b = m.body;
    if (eo + 2 <= b.size()) { size_t p = eo + 2, end = std::min(b.size(), p + ((size_t) b[eo] << 8 | b[eo + 1])); while (p + 4 <= end) { uint16_t ty = (uint16_t) (b[p] << 8 | b[p + 1]); size_t l = (size_t) b[p + 2] << 8 | b[p + 3]; if (p + 4 + l > end) break; ex.emplace_back(ty, Bytes(b.begin() + p + 4, b.begin() + p + 4 + l)); p += 4 + l; } }
    switch (s.be % 4) {
    case 0: { for (size_t i = 0; i < ex.size();) { if (ex[i].first == 11) ex.erase(ex.begin() + i); else i++; } ex.emplace_back((uint16_t) 11, Bytes()); what = "empty ec_point_formats last"; break; }
    case 1: { static const uint16_t TY[] = { 11, 10, 13, 35, 0xff01, 23, 22, 1, 4, 5, 16, 0 }; ex.emplace_back(TY[s.be1 % 12], Bytes()); what = fmt("empty extension %u appended", TY[s.be1 % 12]); break; }
    case 2: { if (ex.empty()) return false; size_t i = s.be1 % ex.size(); auto e = ex[i]; e.second.clear(); ex.erase(ex.begin() + i); ex.push_back(e); what = fmt("extension %u emptied and moved last", e.first); break; }
    default: { if (ex.empty()) return false; size_t i = s.be1 % ex.size(); auto e = ex[i]; e.second.resize(std::min<size_t>(e.second.size(), s.be2 % 4)); ex.erase(ex.begin() + i); ex.push_back(e); what = fmt("extension %u cut to %zu bytes and moved last", e.first, e.second.size()); break; }
    }
    Bytes blk; for (auto &e : ex) { put16(blk, e.first); put16(blk, (uint32_t) e.second.size()); blk.insert(blk.end(), e.second.begin(), e.second.end()); }
    b.resize(eo); put16(b, (uint32_t) blk.size()); b.insert(b.end(), blk.begin(), blk.end());
    return true;
}

struct Run {
    const Plan &pl; Ctx &c; bool stats; Obs obs; std::string desc;
    struct SidHolder { sslSessionId_t *s = nullptr; ~SidHolder() { if (s) matrixSslDeleteSessionId(s); } } sidh;   // declared before the pair: outlives the sessions
    struct KeyHolder { sslKeys_t *k = nullptr; ~KeyHolder() { if (k) matrixSslDeleteKeys(k); } } ck, sk;             // freshly loaded per run: the ephemeral-key cache inside sslKeys_t must not carry over from one run to the next
    Pair p; Endpoint *V = nullptr, *P = nullptr; bool vclient = false;
    bool verbose2 = false; bool hv_on = false; int hv_stage = 0; uint8_t recv2 = 0xfd; uint64_t seq0 = 0; unsigned ordinal = 0, deliveries = 0; bool want_second = false; bool applied[2] = { false, false }; bool scripted = false;
    std::string shape, mutdesc;
    Run(const Plan &plan, Ctx &ctx, bool st) : pl(plan), c(ctx), stats(st) {}

    void deliver(const Bytes &d) {
        if (!V->ssl || deliveries++ > 600) return;
        if ((c.verbose && stats) || verbose2) fprintf(stderr, "  deliver %zu bytes: %s\n", d.size(), hex(d.data(), d.size(), 48).c_str());
        int rc = V->feed_dgram(d);
        if (((c.verbose && stats) || verbose2) && V->ssl) fprintf(stderr, "    -> rc=%d state=%d\n", rc, vfh_hs_state(V->ssl));
        obs.rcs.push_back(rc);
        c08::check_rc(rc, "matrixSslReceivedData/ProcessedData", desc); c08::check_bufs(*V, desc);
        give_to_peer(); c08::check_bufs(*V, desc);
    }
    void give_to_peer() {
        V->pump_out();
        while (!V->dgram_out.empty()) { Bytes x = V->dgram_out.front(); V->dgram_out.pop_front(); obs.out.push_back(x); obs.out_at.push_back(obs.rcs.size()); obs.outbytes += x.size(); if (P->ssl && !P->failed) P->feed_dgram(x); }
    }
    // the peer's pending flight -> handshake messages (reassembled) and opaque records, in order
    std::vector<Item> take_flight() {
        std::vector<Item> items; P->pump_out();
        struct Part { uint8_t type; uint16_t msn; uint32_t len, have; Bytes body; uint8_t v1, v2; bool done; };
        std::vector<Part> parts;
        while (!P->dgram_out.empty()) {
            Bytes d = P->dgram_out.front(); P->dgram_out.pop_front();
            for (auto &r : parse_records(d, true)) {
                const uint8_t *pl = d.data() + r.off + 13; bool ok = (r.type == 22 && r.epoch == 0 && r.len >= 12);
                if (ok) {   // every fragment in the record must be well-formed, else keep the record opaque
                    size_t o = 0; while (o + 12 <= r.len) { size_t fl = (size_t) pl[o + 9] << 16 | (size_t) pl[o + 10] << 8 | pl[o + 11]; if (o + 12 + fl > r.len) { ok = false; break; } o += 12 + fl; } if (o != r.len) ok = false;
                }
                if (!ok) { Item it; it.rec.assign(d.begin() + r.off, d.begin() + r.off + 13 + r.len); items.push_back(it); continue; }
                size_t o = 0;
                while (o + 12 <= r.len) {
                    uint8_t ty = pl[o]; uint32_t len = (uint32_t) pl[o + 1] << 16 | (uint32_t) pl[o + 2] << 8 | pl[o + 3]; uint16_t msn = (uint16_t) (pl[o + 4] << 8 | pl[o + 5]);
                    uint32_t fo = (uint32_t) pl[o + 6] << 16 | (uint32_t) pl[o + 7] << 8 | pl[o + 8], fl = (uint32_t) pl[o + 9] << 16 | (uint32_t) pl[o + 10] << 8 | pl[o + 11];
                    Part *pp = nullptr; for (auto &q : parts) if (!q.done && q.msn == msn && q.type == ty) pp = &q;
                    if (!pp) { parts.push_back(Part{ ty, msn, len, 0, Bytes(len), d[r.off + 1], d[r.off + 2], false }); pp = &parts.back(); }
                    if (fl && (size_t) fo + fl <= pp->body.size()) { memcpy(pp->body.data() + fo, pl + o + 12, fl); pp->have += fl; }
                    if (pp->have >= pp->len) { pp->done = true; Item it; it.is_msg = true; it.m.type = pp->type; it.m.msn = pp->msn; it.m.body = pp->body; it.m.v1 = pp->v1; it.m.v2 = pp->v2; items.push_back(it); }
                    o += 12 + fl;
                }
            }
        }
        return items;
    }
    HsMsg synth_hvr(int cl, uint16_t msn, uint8_t salt) { HsMsg m; m.type = 3; m.msn = msn; m.v1 = 0xfe; m.v2 = recv2; m.body = { 0xfe, recv2, (uint8_t) cl }; for (int i = 0; i < cl; i++) m.body.push_back((uint8_t) (0xC0 + (i & 31) + salt)); return m; }
    void send_plain(const HsMsg &m) {   // the message as a well-behaved sender would put it on the wire
        size_t L = m.body.size(), step = L <= 1400 ? std::max<size_t>(L, 1) : 1100;
        for (size_t o = 0; o == 0 || o < L; o += step) { Frag f{ (uint32_t) o, (uint32_t) std::min(step, L - o), (uint32_t) L, m.msn, m.type, -1 }; deliver(record(22, m.v1, m.v2, seq0++, frag_bytes(f, m.body))); }
    }
    void mutate(const Slot &s, const HsMsg &orig, const std::vector<Item> &flight, size_t pos) {
        HsMsg m = orig; bool deliver_orig_after = false; std::string what = "itself";
        switch (s.src % 4) {
        case 0: break;
        case 1: case 2: { static const int CL[] = { 0, 1, 32, 255, 16, -1 }; int cl = CL[s.cl % 6]; if (cl < 0) cl = s.cl; m.type = 3; m.body = { 0xfe, orig.v2, (uint8_t) cl }; for (int i = 0; i < cl; i++) m.body.push_back((uint8_t) (0xC0 + (i & 31) + s.cl)); deliver_orig_after = (s.src % 4 == 2); what = fmt("synthetic HelloVerifyRequest cookie=%d%s", cl, deliver_orig_after ? " inserted before" : " replacing"); break; }
        default: if (orig.type == 1 || orig.type == 2) { std::string w; if (edit_hello(m, s, w)) what = "body edit: " + w; } else if (!m.body.empty()) { size_t o = ((size_t) s.be1 << 4 | (s.be >> 4)) % m.body.size(); m.body[o] = s.be2; what = fmt("body byte %zu := %02x", o, s.be2); } break;
        }
        switch (s.msnmode % 8) { case 4: m.msn = (uint16_t) (orig.msn + 1); break; case 5: if (m.msn) m.msn--; break; case 6: m.msn = 0; break; case 7: m.msn = (uint16_t) (orig.msn + 2); break; default: break; }
        // declared length and tail
        Bytes body = m.body; size_t L = body.size(); const char *dlname = "exact"; if (m.type == 3) m.v2 = recv2;
        uint8_t next_type = 0; for (size_t j = pos + 1; j < flight.size(); j++) if (flight[j].is_msg) { next_type = flight[j].m.type; break; }
        if (m.type == 3) next_type = 2; if (!next_type) next_type = orig.type;
        auto nested = [&](bool fragment) { Bytes h; uint8_t t2 = (s.t2sel & 3) <= 1 ? next_type : (s.t2sel & 3) == 2 ? m.type : HSTYPES[(s.t2sel >> 2) % 10]; uint32_t l2 = s.l2, f2 = fragment ? std::min<uint32_t>(s.f2 % 16, l2) : l2; if (fragment && f2 == l2) l2 = f2 + 1 + (s.l2 & 63);
            h.push_back(t2); put24(h, l2); put16(h, (uint16_t) (m.msn + ((s.m2 & 3) == 3 ? 0 : 1) + ((s.m2 & 12) == 12 ? 1 : 0))); put24(h, (s.m2 & 0x30) == 0x30 ? (s.m2 >> 6) : 0); put24(h, f2); for (uint32_t i = 0; i < f2; i++) h.push_back((uint8_t) (0x30 + i)); return h; };
        switch (s.dl % 8) {
        case 1: case 7: { Bytes n = nested(true); body.insert(body.end(), n.begin(), n.end()); dlname = "nested-fragment-tail"; break; }
        case 2: { size_t n = 1 + s.l2 % 16; for (size_t i = 0; i < n; i++) body.push_back((uint8_t) (0x70 + i)); dlname = "filler-tail"; break; }
        case 3: if (L) { body.resize(L - (1 + s.l2 % std::min<size_t>(L, 16))); dlname = "shorter"; } break;
        case 4: { Bytes n = nested(false); body.insert(body.end(), n.begin(), n.end()); dlname = "nested-message-tail"; break; }
        default: break;
        }
        uint32_t D = (uint32_t) body.size();
        // tiling
        unsigned k = s.nf % 9; std::vector<Frag> fr; Frag proto{ 0, 0, D, m.msn, m.type, -1 };
        if (k) { std::vector<uint32_t> cp; uint32_t prev = 0; for (unsigned i = 0; i + 1 < k; i++) { uint16_t v = s.cut[i]; uint32_t x; if ((v >> 14) == 3) { switch ((v >> 12) & 3) { case 0: x = 0; break; case 1: x = D; break; case 2: x = prev; break; default: x = D / 2; } } else x = v % (D + 1); cp.push_back(x); prev = x; }
            std::sort(cp.begin(), cp.end()); cp.push_back(D); uint32_t a = 0; for (uint32_t x : cp) { Frag f = proto; f.off = a; f.flen = x - a; fr.push_back(f); a = x; } }
        unsigned ne = s.ne % 4;
        for (unsigned e = 0; e < ne; e++) { const Edit &ed = s.ed[e]; size_t n = fr.size(); size_t idx = n ? ed.idx % n : 0; uint16_t val = ed.val;
            if (n == 0 && ed.kind % 10 != 0) continue;
            switch (ed.kind % 10) {
            case 0: { Frag z = proto; switch (val & 3) { case 0: z.off = 0; break; case 1: z.off = D; break; case 2: z.off = n ? fr[(val >> 2) % n].off : 0; break; default: z.off = (val >> 2) % (D + 1); } fr.insert(fr.begin() + (ed.idx % (n + 1)), z); break; }
            case 1: { Frag f = fr[idx]; fr.insert(fr.begin() + (val % (n + 1)), f); break; }
            case 2: { uint32_t dlt = 1 + val % 32; for (size_t j = idx; j < n; j++) fr[j].off = fr[j].off > dlt ? fr[j].off - dlt : 0; break; }
            case 3: { uint32_t dlt = 1 + val % 32; for (size_t j = 0; j <= idx; j++) fr[j].off += dlt; break; }
            case 4: { fr[idx].off = val % (D + 1); fr[idx].flen = (uint32_t) ((val * 2654435761u) >> 16) % (D - fr[idx].off + 1); break; }
            case 5: { uint32_t fl = fr[idx].flen; if (val & 1) fr[idx].dlen = (int) (fl - std::min<uint32_t>(fl, 1 + (val >> 1) % 8)); else fr[idx].dlen = (int) (fl + 1 + (val >> 1) % 24); break; }
            case 6: switch (val & 3) { case 0: fr[idx].msn++; break; case 1: fr[idx].msn--; break; case 2: fr[idx].msn += 2; break; default: fr[idx].msn = 0; } break;
            case 7: switch (val & 3) { case 0: fr[idx].decl = D + 1 + (val >> 2) % 64; break; case 1: fr[idx].decl = D - std::min<uint32_t>(D, 1 + (val >> 2) % 64); break; case 2: fr[idx].decl = fr[idx].flen; break; default: fr[idx].decl = val; } break;
            case 8: fr[idx].type = HSTYPES[val % 10]; break;
            default: std::swap(fr[idx], fr[val % n]); break;
            } }
        size_t n = fr.size();
        switch (s.order % 4) { case 1: std::reverse(fr.begin(), fr.end()); break; case 2: if (n) std::rotate(fr.begin(), fr.begin() + s.oseed % n, fr.end()); break; case 3: { uint32_t x = s.oseed * 2654435761u + 12345; for (size_t i = n; i > 1; i--) { x = x * 1664525u + 1013904223u; std::swap(fr[i - 1], fr[(x >> 16) % i]); } break; } default: break; }
        // classify
        uint64_t sum = 0; bool zero = false, overlap = false; std::vector<uint8_t> cov(D, 0);
        for (auto &f : fr) { sum += f.flen; if (f.flen == 0 && D) zero = true; for (uint32_t i = 0; i < f.flen; i++) { uint32_t q = f.off + i; if (q < D) { if (cov[q]) overlap = true; cov[q] = 1; } } }
        bool full = true; for (uint32_t i = 0; i < D; i++) if (!cov[i]) full = false;
        bool hole = !full && n > 0; if (hole && sum >= D) want_second = true;
        bool live = V->ssl && !V->failed;
        if (stats) { c.count(fmt("mut:base:%s", (s.src % 4) == 0 ? "itself" : (s.src % 4) == 3 ? "body-edit" : "synthetic-hvr")); c.count(fmt("mut:declared:%s", dlname)); c.count(fmt("mut:fragments:%zu", std::min<size_t>(n, 9)));
            if (zero) c.count("mut:zero-length-fragment"); if (overlap) c.count("mut:overlap"); if (hole) c.count("mut:hole"); if (hole && sum >= D) c.count("mut:hole-but-length-sum-reaches-total"); if (full && !overlap && n > 1) c.count("mut:exact-tiling-several-fragments"); if (ne) c.count("mut:edited"); c.count(fmt("mut:target:%s", hsname(orig.type))); if (live) c.count("mut:reached-live-victim");
            mutdesc += fmt(" [%s(msn %u, %zu bytes) -> %s, msn %u, declared %u (%s), %zu fragments:", hsname(orig.type), orig.msn, orig.body.size(), what.c_str(), m.msn, D, dlname, n);
            for (auto &f : fr) mutdesc += fmt(" (%u,%u%s)", f.off, f.flen, f.dlen >= 0 ? "*" : ""); mutdesc += "]";
            shape += fmt("|%u:%u:%u:%u:%zu:%d%d%d:%u", orig.type, s.src % 4, s.dl % 8, s.msnmode % 8, std::min<size_t>(n, 9), zero, overlap, hole, ne); }
        if (c.verbose && stats) fprintf(stderr, "  mutation:%s\n", mutdesc.c_str());
        // framing and delivery
        std::vector<Bytes> dgrams; Bytes payload, dgram; bool have_rec = false;
        auto close_rec = [&]() { if (have_rec) { Bytes r = record(22, m.v1, m.v2, seq0++, payload); dgram.insert(dgram.end(), r.begin(), r.end()); payload.clear(); have_rec = false; } };
        auto close_dg = [&]() { close_rec(); if (!dgram.empty()) { dgrams.push_back(dgram); dgram.clear(); } };
        for (size_t i = 0; i < n; i++) { unsigned pk = i < 8 ? (s.pack >> (2 * i)) & 3 : 0; Bytes fb = frag_bytes(fr[i], body);
            if (i > 0 && pk == 2 && payload.size() + fb.size() <= 12000) { payload.insert(payload.end(), fb.begin(), fb.end()); have_rec = true; }
            else if (i > 0 && pk == 1 && dgram.size() + payload.size() + fb.size() <= 12000) { close_rec(); payload = fb; have_rec = true; }
            else { close_dg(); payload = fb; have_rec = true; } }
        close_dg();
        for (auto &d : dgrams) deliver(d);
        if (deliver_orig_after) send_plain(orig);
    }
    void go(uint8_t fill) {
        const bool d10 = pl.cfg & 2; vclient = !(pl.cfg & 1); int ver = d10 ? DTLS10 : DTLS12;
        auto cand = suites_for(ver); const Suite &su = cand[pl.suite % cand.size()];
        bool cauth = (pl.cfg & 4) && su.auth != AUTH_PSK;
        desc = fmt("%s victim=%s suite=%s cauth=%d pmtu=%s", ver_name(ver), vclient ? "client" : "server", su.name, cauth, (pl.cfg & 8) ? "400" : "default");
        if (c.verbose && stats) fprintf(stderr, "case: %s\n", desc.c_str());
        vfh_entropy_reset(5200 + pl.cfg); vfh_clock_set_ms(1000000);
        matrixSslClose(); matrixSslOpen();
        matrixDtlsSetPmtu((pl.cfg & 8) ? 400 : -1);
        c08_fill_byte = fill; c08_fill_on = 1;
        struct Fin { ~Fin() { c08_fill_on = 0; matrixDtlsSetPmtu(-1); } } fin;
        Config cc, sc; cc.client = true; sc.client = false; cc.versions = sc.versions = { ver }; cc.suites = { su.id }; cc.auth = sc.auth = su.auth; cc.entropy_stream = 1; sc.entropy_stream = 2; cc.client_auth = sc.client_auth = cauth; sc.cert_cb = cb_strict; cc.tickets = (pl.cfg & 16) != 0;
        if (pl.cfg & 16) { if (matrixSslNewSessionId(&sidh.s, NULL) < 0) throw Discard{}; cc.sid = sidh.s; }
        ck.k = KeyStore::fresh(false, su.auth, cauth); sk.k = KeyStore::fresh(true, su.auth, true); if (!ck.k || !sk.k) throw Discard{}; cc.keys = ck.k; sc.keys = sk.k;
        if (p.s.open(sc) < 0 || p.c.open(cc) < 0) throw Discard{};
        V = vclient ? &p.c : &p.s; P = vclient ? &p.s : &p.c;
        unsigned timeouts = pl.timeouts % 3, sent_app = 0;
        recv2 = d10 ? 0xff : 0xfd; hv_on = vclient && (pl.hv & 3) == 3;
        for (int round = 0; round < 48; round++) {
            give_to_peer();
            if (hv_on && hv_stage == 1) {   // HelloVerifyRequest script, second request: arrives after the client has answered the first one with its cookie-bearing ClientHello
                static const int CL2[] = { 0, 1, 8, 17, 32, 64, 255, 16 }; int cl = CL2[(pl.hv >> 5) & 7]; uint16_t msn = (pl.misc >> 6) == 3 ? 0 : (pl.misc >> 6) == 2 ? 2 : 1; hv_stage = 2;
                if (stats) { c.count("hvr-script:second-request"); mutdesc += fmt(" [second HelloVerifyRequest msn %u cookie=%d]", msn, cl); shape += fmt("|hv2:%d:%u", cl, msn); }
                send_plain(synth_hvr(cl, msn, 0x11));
            }
            std::vector<Item> fl = take_flight();
            if (fl.empty()) {
                if (V->hs_complete() && P->hs_complete() && P->alive() && V->alive() && sent_app < 2) { Bytes a(5 + sent_app, 0x61), b(9, 0x62); P->send(a); V->send(b); sent_app++; continue; }
                if (timeouts) { timeouts--; if (pl.timeouts & 4) { V->dtls_timeout(); give_to_peer(); } else P->dtls_timeout(); continue; }
                break;
            }
            for (size_t i = 0; i < fl.size(); i++) {
                Item &it = fl[i];
                if (!it.is_msg) { Bytes r = it.rec; if (r.size() >= 13 && r[3] == 0 && r[4] == 0) { uint64_t q = seq0++; for (int k = 0; k < 6; k++) r[5 + k] = (uint8_t) (q >> (8 * (5 - k))); } deliver(r); continue; }
                unsigned ord = ordinal++; bool done = false;
                for (int si = 0; si < 2 && !done; si++) if (pl.s[si].when && (unsigned) ((pl.s[si].when - 1) % 8) == ord && !applied[si]) { applied[si] = true; mutate(pl.s[si], it.m, fl, i); done = true; }
                if (!done && hv_on && hv_stage == 0 && ord == 0 && it.m.type == 3) {   // HelloVerifyRequest script, first request: the server's, or one with another cookie length
                    static const int CL1[] = { -1, 0, 1, 8, 16, 32, 255, 200 }; int cl = CL1[(pl.hv >> 2) & 7]; hv_stage = 1; done = true; scripted = true;
                    if (stats) { c.count("hvr-script:first-request"); mutdesc += fmt(" [first HelloVerifyRequest cookie=%d]", cl < 0 ? (int) it.m.body.size() - 3 : cl); shape += fmt("|hv1:%d", cl); }
                    if (cl < 0) send_plain(it.m); else send_plain(synth_hvr(cl, it.m.msn, 0));
                }
                if (!done) send_plain(it.m);
            }
        }
        obs.state = V->ssl ? vfh_hs_state(V->ssl) : -1; obs.failed = V->failed; obs.complete = V->hs_complete();
        if (stats) { c.count(vclient ? "victim:client" : "victim:server"); c.count(obs.complete ? "outcome:victim-completed" : V->failed ? "outcome:victim-error" : "outcome:victim-waiting"); c.count("messages-from-peer", ordinal); if (V->delivered.size()) c.count("application-data-delivered"); }
    }
};
} // namespace

static void prop(Tape &t, Ctx &c) {
    Plan pl; pl.cfg = t.u8(); pl.suite = t.u8(); pl.misc = t.u8(); pl.timeouts = t.u8(); pl.hv = t.u8(); pl.s[0] = read_slot(t); pl.s[1] = read_slot(t);
    Obs a; bool second; std::string desc, mut, shape; bool any;
    { Run r(pl, c, true); r.go(0x00); a = r.obs; second = r.want_second || (pl.misc & 7) == 7; desc = r.desc; mut = r.mutdesc; shape = r.shape; any = r.applied[0] || r.applied[1] || r.scripted; }
    if (any) c.nontrivial(fmt("%u|%u", pl.cfg & 7, a.failed ? 1 : a.complete ? 2 : 0) + shape); else c.count("no-mutation-applied");
    if (!c.replaying && ((c.evaluations & 31) == 0 || c.verbose)) c.sample(desc + mut + fmt(" -> victim %s", a.complete ? "completed" : a.failed ? "error" : "waiting"));
    if (second) {
        c.count("run-twice-with-different-heap-fill");
        Obs b; { if (c.verbose) fprintf(stderr, "second run, heap fill 0xA7\n"); Run r(pl, c, false); r.verbose2 = c.verbose; r.go(0xA7); b = r.obs; }
        bool same = a.rcs == b.rcs && a.out == b.out && a.state == b.state && a.failed == b.failed && a.complete == b.complete;
        if (!same) { size_t i = 0; while (i < a.rcs.size() && i < b.rcs.size() && a.rcs[i] == b.rcs[i]) i++;
            size_t j = 0; while (j < a.out.size() && j < b.out.size() && a.out[j] == b.out[j]) j++;
            std::string od = "-"; if (j < a.out.size() || j < b.out.size()) { const Bytes e; const Bytes &x = j < a.out.size() ? a.out[j] : e, &y = j < b.out.size() ? b.out[j] : e; size_t q = 0; while (q < x.size() && q < y.size() && x[q] == y[q]) q++;
                od = fmt("datagram #%zu emitted after receive call #%zu differs from byte %zu: %s vs %s", j, j < a.out_at.size() ? a.out_at[j] : (size_t) 0, q, hex(x.data(), x.size(), 40).c_str(), hex(y.data(), y.size(), 40).c_str()); }
            VF_FAIL("uninitialised-heap-memory-used", "the victim behaves differently when malloc'ed blocks are pre-filled with 0x00 and with 0xA7 (return codes: %zu receive calls, first difference at #%zu: %d vs %d; output: %s; final state %d vs %d); %s%s",
                    a.rcs.size(), i, i < a.rcs.size() ? a.rcs[i] : 0, i < b.rcs.size() ? b.rcs[i] : 0, od.c_str(), a.state, b.state, desc.c_str(), mut.c_str()); }
    }
}
VF_TARGET("C08.dtls_frags", prop, 96, 10)
namespace vf { void vf_global_init(int, char **) { mxh::global_open(); vf::leak_check_interval() = 50; } }
