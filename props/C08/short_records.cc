// C08, bounded-exhaustive: once a read cipher is active, every record body length from 0 to 96 bytes (arbitrary bytes, well-formed
// header, the session's own record version, every content type) is delivered to an established session of every enabled
// (version, suite) pair in both roles.  The length sanity tests in front of CBC / AEAD decryption must keep every computation
// inside the record: sanitizers are the oracle, plus documented return codes and the buffer invariants.  TLS sessions take one such
// record each (the first one is fatal), DTLS sessions (which drop bad records silently) take all content types in a row.
#include "mxh.h"
using namespace vf; using namespace mxh;
extern "C" { int vfh_inlen(const ssl_t *); int vfh_insize(const ssl_t *); int vfh_outlen(const ssl_t *); int vfh_outsize(const ssl_t *); }

struct Combo { int ver; Suite su; bool vclient; };
static std::vector<Combo> &combos() { static std::vector<Combo> v; if (v.empty()) for (int ver = 0; ver < NVER; ver++) for (auto &su : suites_for(ver)) for (int r = 0; r < 2; r++) v.push_back({ ver, su, r == 1 }); return v; }
static const unsigned MAXLEN = 96, NTYPES = 5;   // content types 20..24
namespace vf { uint64_t vf_enum_total() { return (uint64_t) combos().size() * (MAXLEN + 1) * NTYPES; } }

static void prop(Tape &t, Ctx &c) {
    uint64_t idx = t.u64();
    if (idx >= (uint64_t) combos().size() * (MAXLEN + 1) * NTYPES) throw Discard{};
    // index order: content type is the slowest dimension (application data and alerts first), so that a run that hits its time budget
    // has covered whole types for every length, suite and role
    static const unsigned TYPES[NTYPES] = { 23, 21, 22, 20, 24 };
    const Combo &k = combos()[(size_t) (idx % combos().size())]; idx /= combos().size(); const bool dt = is_dtls(k.ver);
    size_t len = (size_t) (idx % (MAXLEN + 1)); idx /= (MAXLEN + 1); unsigned type = TYPES[idx % NTYPES];
    std::string desc = fmt("%s %s victim=%s record type=%u body=%zu bytes", ver_name(k.ver), k.su.name, k.vclient ? "client" : "server", type, len);
    if (len == 32 && type == 23) c.sample(desc);
    vfh_entropy_reset(8100 + k.su.id + k.ver); vfh_clock_set_ms(1000000);
    Pair p; if (!connect_pair(p, k.ver, k.su, false, nullptr, 1)) VF_FAIL("harness-handshake-failed", "%s", desc.c_str());
    p.run(10);
    Endpoint &V = k.vclient ? p.c : p.s, &P = k.vclient ? p.s : p.c;
    // one genuine record first: gives the record version / epoch the session really uses and moves the sequence numbers off zero
    P.wire_out.clear(); P.dgram_out.clear(); Bytes m(7, 0x61); if (P.send(m) < 0) VF_FAIL("harness-send-failed", "%s", desc.c_str());
    Bytes g; if (dt) { if (P.dgram_out.empty()) VF_FAIL("harness-send-failed", "%s", desc.c_str()); g = P.dgram_out.front(); P.dgram_out.clear(); } else g = P.take_wire();
    if (dt) V.feed_dgram(g); else V.feed(g);
    VF_CHECK(V.delivered == m, "harness-genuine-record-not-delivered", "%s", desc.c_str());
    auto one = [&](unsigned ty) {
        Bytes r; r.push_back((uint8_t) ty); r.push_back(g[1]); r.push_back(g[2]);
        if (dt) { r.insert(r.end(), g.begin() + 3, g.begin() + 5); for (int i = 0; i < 5; i++) r.push_back(0); r.push_back((uint8_t) (2 + ty)); }   // same epoch, fresh sequence number
        r.push_back((uint8_t) (len >> 8)); r.push_back((uint8_t) len);
        for (size_t i = 0; i < len; i++) r.push_back((uint8_t) (0x5b + 37 * i + 11 * ty + len));
        int rc = dt ? V.feed_dgram(r) : V.feed(r);
        VF_CHECK((rc >= 0 && rc <= 11) || (rc < 0 && rc > -200), "undocumented-return-code", "receive call returned %d; %s", rc, desc.c_str());
        if (V.ssl) { int il = vfh_inlen(V.ssl), is = vfh_insize(V.ssl), ol = vfh_outlen(V.ssl), os = vfh_outsize(V.ssl);
            VF_CHECK(il >= 0 && il <= is && is <= SSL_MAX_BUF_SIZE && ol >= 0 && ol <= os && os <= SSL_MAX_BUF_SIZE, "input-buffer-invariant-broken", "inlen=%d insize=%d outlen=%d outsize=%d; %s", il, is, ol, os, desc.c_str()); }
        VF_CHECK(V.delivered == m, "forged-record-delivered", "%zu bytes delivered after a forged record; %s", V.delivered.size(), desc.c_str());
    };
    if (dt) { if (type != 23) { c.count("dtls-covered-by-type-23-case"); return; } for (unsigned ty = 20; ty < 20 + NTYPES; ty++) one(ty); }
    else one(type);
    c.count(V.failed || V.req_close ? "victim-ended-session" : "victim-dropped-record");
    c.nontrivial(fmt("%d|%04x|%d|%u|%zu", k.ver, k.su.id, k.vclient, type, len));
}
VF_TARGET("C08.short_records", prop, 16, 60)
namespace vf { void vf_global_init(int, char **) { mxh::global_open(); } }
