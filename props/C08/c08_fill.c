/* c08_fill.c - link-time interposer (ld --wrap=malloc) for the C08 DTLS fragment target: while c08_fill_on is set every block that
 * malloc() hands to MatrixSSL (psMalloc is a macro for malloc) is pre-filled with c08_fill_byte.  A scenario is a pure function of
 * the bytes delivered to the session, so running it under two different fill bytes and comparing everything the session returns
 * and emits exposes a use of uninitialised heap memory (which neither ASan nor UBSan can see).  calloc/realloc are left alone. */
#include <stddef.h>
#include <string.h>
void *__real_malloc(size_t n);
int c08_fill_on = 0;
unsigned char c08_fill_byte = 0;
void *__wrap_malloc(size_t n)
{
    void *p = __real_malloc(n);
    if (p && c08_fill_on && n)
    {
        memset(p, c08_fill_byte, n);
    }
    return p;
}
