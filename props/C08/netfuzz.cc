// C08: for every sequence of bytes/datagrams fed to a client or server session in any state, each API call returns
// in bounded time with a documented status and the library never faults, executes UB, overgrows a buffer or leaks.
//
// The input (tape) is decoded into (configuration; script).  Script steps: deliver the legit peer's next wire
// unit unchanged / with a structured mutation / deliver raw bytes / application calls / chunking changes.  An
// all-zero tape is a clean full handshake with data, so every mutation of a tape stays close to real traffic.
// Built four times: {TLS,DTLS} x {victim=server,client}; as tape target (seeded campaign) and as libFuzzer target.
#include "mxh.h"
using namespace vf; using namespace mxh;
extern "C" { int vfh_inlen(const ssl_t *); int vfh_insize(const ssl_t *); int vfh_outlen(const ssl_t *); int vfh_outsize(const ssl_t *); int vfh_hs_state(const ssl_t *); int vfh_session_id_len(const ssl_t *); }

#ifndef C08_DTLS
#define C08_DTLS 0
#endif
#ifndef C08_VCLIENT
#define C08_VCLIENT 0
#endif

static void check_rc(int rc, const char *api, const std::string &desc) {
    bool ok = (rc >= 0 && rc <= 11) || (rc < 0 && rc > -200);
    VF_CHECK(ok, "undocumented-return-code", "%s returned %d; %s", api, rc, desc.c_str());
}
static void check_bufs(Endpoint &e, const std::string &desc) {
    if (!e.ssl) return;
    int il = vfh_inlen(e.ssl), is = vfh_insize(e.ssl), ol = vfh_outlen(e.ssl), os = vfh_outsize(e.ssl);
    VF_CHECK(il >= 0 && il <= is && is <= SSL_MAX_BUF_SIZE, "input-buffer-invariant-broken", "inlen=%d insize=%d max=%d; %s", il, is, SSL_MAX_BUF_SIZE, desc.c_str());
    VF_CHECK(vfh_session_id_len(e.ssl) <= SSL_MAX_SESSION_ID_SIZE, "embedded-array-overrun:sessionId", "ssl->sessionIdLen=%d exceeds the %d-byte array inside ssl_t; %s", vfh_session_id_len(e.ssl), SSL_MAX_SESSION_ID_SIZE, desc.c_str());
    VF_CHECK(ol >= 0 && ol <= os && os <= SSL_MAX_BUF_SIZE, "output-buffer-invariant-broken", "outlen=%d outsize=%d max=%d; %s", ol, os, SSL_MAX_BUF_SIZE, desc.c_str());
}

static void prop(Tape &t, Ctx &c) {
    const bool dt = C08_DTLS, vclient = C08_VCLIENT;
    // ---- configuration
    uint8_t cfgb = t.u8();
    int ver; if (dt) ver = (cfgb & 1) ? DTLS10 : DTLS12; else ver = (cfgb & 3) == 0 ? TLS13 : (cfgb & 3) == 1 ? TLS12 : (cfgb & 3) == 2 ? TLS11 : -1; // -1: library default version set
    auto cand = suites_for(ver < 0 ? TLS13 : ver);
    uint8_t sb = t.u8(); const Suite *su = (ver < 0 && (sb & 0x80)) ? nullptr : &cand[sb % cand.size()];
    bool cauth = (cfgb & 4) && (!su || su->auth != AUTH_PSK);
    bool resumed = (cfgb & 8) != 0;
    bool tickets = (cfgb & 16) != 0;
    std::string desc = fmt("%s victim=%s ver=%s suite=%s cauth=%d resumed=%d tickets=%d", dt ? "DTLS" : "TLS", vclient ? "client" : "server", ver < 0 ? "default" : ver_name(ver), su ? su->name : "(default)", cauth, resumed, tickets);
    if (c.verbose) fprintf(stderr, "case: %s\n", desc.c_str());
    vfh_entropy_reset(4000 + cfgb); vfh_clock_set_ms(1000000);
    matrixSslClose(); matrixSslOpen();      // nothing may leak between iterations (global session cache)
    if (dt) matrixDtlsSetPmtu((cfgb & 32) ? 400 : -1);
    struct Fin { ~Fin() { if (C08_DTLS) matrixDtlsSetPmtu(-1); } } fin;

    sslSessionId_t *sid = nullptr; struct SG { sslSessionId_t *&s; ~SG() { if (s) matrixSslDeleteSessionId(s); } } sg{ sid };
    auto mk = [&](Pair &p, sslSessionId_t *s) { Config cc, sc; cc.client = true; sc.client = false; if (ver >= 0) cc.versions = sc.versions = { ver }; if (su) { cc.suites = { su->id }; cc.auth = sc.auth = su->auth; }
        cc.entropy_stream = 1; sc.entropy_stream = 2; cc.client_auth = sc.client_auth = cauth; sc.cert_cb = cb_strict; cc.sid = s; cc.tickets = tickets; return p.s.open(sc) >= 0 && p.c.open(cc) >= 0; };
    if (resumed || (vclient && (cfgb & 64))) { if (matrixSslNewSessionId(&sid, NULL) < 0) throw Discard{}; }   // (cfgb&64): client victim holds a sid so that NewSessionTicket storage paths run
    if (resumed) { Pair p0; if (!mk(p0, sid) || !p0.run(60)) throw Discard{}; }
    // ticket history (TLS <= 1.2 client victims that keep a session id structure): earlier connections in which the server's plaintext
    // NewSessionTicket was re-issued with another length (a middlebox edit: that handshake then fails at Finished, but the client has
    // stored the ticket by then) - the stored ticket is replaced by shorter / longer / empty / oversized ones before the fuzzed session
    if (!dt && vclient && tickets && sid && ver != TLS13 && (cfgb & 128)) {
        int rounds = 1 + (sb & 1);
        for (int r = 0; r < rounds; r++) {
            Pair ph; if (!mk(ph, sid)) break;
            static const int NL[] = { 0, 1, 47, 80, 127, 129, 168, 300, 4000, 15361, 16000 }; size_t nl = (size_t) NL[(sb / 2 + r * 5) % 11];
            ph.mitm = [&](int dir, Bytes &d) { if (dir != 1) return; Bytes out; size_t last = 0; bool done = false;
                for (auto &rec : parse_records(d, false)) { size_t b = rec.off + rec.hdr; if (done || rec.type != 22 || rec.len < 10 || d[b] != 4) continue;
                    size_t have = rec.len - 10; Bytes body(d.begin() + b + 4, d.begin() + b + 8); body.push_back((uint8_t) (nl >> 8)); body.push_back((uint8_t) nl); for (size_t i = 0; i < nl; i++) body.push_back(i < have ? d[b + 10 + i] : (uint8_t) (0xA0 + i % 7));
                    size_t hl = body.size(), rl = hl + 4; out.insert(out.end(), d.begin() + last, d.begin() + rec.off); Bytes nu = { 22, d[rec.off + 1], d[rec.off + 2], (uint8_t) (rl >> 8), (uint8_t) rl, 4, (uint8_t) (hl >> 16), (uint8_t) (hl >> 8), (uint8_t) hl }; nu.insert(nu.end(), body.begin(), body.end());
                    out.insert(out.end(), nu.begin(), nu.end()); last = rec.off + rec.hdr + rec.len; done = true; }
                if (done) { out.insert(out.end(), d.begin() + last, d.end()); d.swap(out); c.count("history:nst-reissued-with-other-length"); } };
            ph.run(60);
            check_bufs(ph.c, desc);
        }
    }
    Pair p; if (!mk(p, sid)) throw Discard{};
    Endpoint &V = vclient ? p.c : p.s, &P = vclient ? p.s : p.c;

    std::deque<Bytes> pending; unsigned steps = 0, mutated = 0, raw = 0; size_t chunk = (size_t) -1; int maxstate = 0;
    auto take_from_peer = [&]() { P.pump_out();
        if (dt) { while (!P.dgram_out.empty()) { pending.push_back(P.dgram_out.front()); P.dgram_out.pop_front(); } }
        else if (!P.wire_out.empty()) { Bytes x = P.take_wire(); auto rs = parse_records(x, false); size_t end = 0; for (auto &r : rs) { pending.emplace_back(x.begin() + r.off, x.begin() + r.off + r.hdr + r.len); end = r.off + r.hdr + r.len; } if (end < x.size()) pending.emplace_back(x.begin() + end, x.end()); } };
    auto give_to_peer = [&]() { V.pump_out();
        if (dt) { while (!V.dgram_out.empty()) { Bytes x = V.dgram_out.front(); V.dgram_out.pop_front(); if (P.ssl && !P.failed) P.feed_dgram(x); } }
        else if (!V.wire_out.empty()) { Bytes x = V.take_wire(); if (P.ssl && !P.failed) P.feed(x); } };
    auto deliver = [&](const Bytes &u) { if (!V.ssl) return; if (c.verbose) fprintf(stderr, "  deliver %zu bytes: %s (inlen before=%d)\n", u.size(), hex(u.data(), u.size(), 40).c_str(), vfh_inlen(V.ssl)); int rc = dt ? V.feed_dgram(u) : V.feed(u, chunk, true); if (c.verbose && V.ssl) fprintf(stderr, "    -> rc=%d inlen=%d outlen=%d state=%d\n", rc, vfh_inlen(V.ssl), vfh_outlen(V.ssl), vfh_hs_state(V.ssl)); check_rc(rc, "matrixSslReceivedData/ProcessedData", desc); check_bufs(V, desc); if (V.ssl) maxstate = std::max(maxstate, vfh_hs_state(V.ssl)); give_to_peer(); check_bufs(V, desc); };
    int mi = 0;
    for (int guard = 0; guard < 64 && !t.exhausted(); guard++) {
        give_to_peer(); take_from_peer();
        uint8_t op = t.u8(); steps++;
        if (op < 150) {                       // deliver next legit unit unchanged
            if (pending.empty()) { if (dt && (op & 1)) { V.dtls_timeout(); give_to_peer(); } else if (V.hs_complete() && P.alive() && P.hs_complete()) { Bytes m(1 + op, (uint8_t) mi++); P.send(m); } else if (guard > 8) break; continue; }
            Bytes u = pending.front(); pending.pop_front(); deliver(u);
        } else if (op < 215) {                // deliver next legit unit with a structured mutation
            Bytes u; if (!pending.empty()) { u = pending.front(); pending.pop_front(); } else u = { 22, 3, 3, 0, 4, 1, 0, 0, 0 };
            uint8_t kind = t.u8(); size_t o = u.empty() ? 0 : t.u16() % u.size(); mutated++;
            switch (kind % 12) {
            case 0: u[o] ^= (uint8_t) (1 << (t.u8() & 7)); break;
            case 1: u[o] = t.u8(); break;
            case 2: if (o + 1 < u.size()) { uint16_t v = t.u16(); u[o] = (uint8_t) (v >> 8); u[o + 1] = (uint8_t) v; } break;      // length fields
            case 3: u.resize(o); break;                                                                                              // truncate
            case 4: { size_t n = t.u8(); for (size_t i = 0; i < n; i++) u.push_back(t.u8()); break; }                              // append
            case 5: { Bytes d = u; u.insert(u.end(), d.begin(), d.end()); break; }                                                  // duplicate inside one unit
            case 6: { size_t n = 1 + t.u8() % 16; Bytes ins = t.vec(n); u.insert(u.begin() + o, ins.begin(), ins.end()); break; }  // insert
            case 7: if (u.size() >= (dt ? 13u : 5u)) { size_t h = dt ? 11 : 3; uint16_t v = (kind & 0x80) ? 0xffff : (uint16_t) (u.size() - (dt ? 13 : 5) + (int8_t) t.u8()); u[h] = (uint8_t) (v >> 8); u[h + 1] = (uint8_t) v; } break; // record length
            case 8: if (u.size() >= (dt ? 25u : 9u)) { size_t h = (dt ? 13 : 5) + 1; uint32_t v = t.u8() & 1 ? 0xffffff : (uint32_t) t.u16(); u[h] = (uint8_t) (v >> 16); u[h + 1] = (uint8_t) (v >> 8); u[h + 2] = (uint8_t) v; } break; // handshake length
            case 9: if (dt && u.size() >= 25) { size_t h = 13 + 6; for (int i = 0; i < 6; i++) u[h + i] = t.u8() & ((kind & 0x80) ? 0xff : 0x03); } else if (!u.empty()) u[0] = (uint8_t) (20 + t.u8() % 5); break;   // DTLS fragment offset/length, or record type
            case 10: { // hello-aware: session-id length / following vector lengths of a ClientHello/ServerHello in this unit
                size_t hb = (dt ? 13 + 12 : 5 + 4);
                if (!dt && !(kind & 0x80) && (kind & 0x40) && u.size() > hb + 38 && u[0] == 22 && u[5] == 2 && u.size() == 9 + ((size_t) u[6] << 16 | (size_t) u[7] << 8 | u[8])) {
                    // ServerHello (TLS <= 1.2, alone in its record) re-issued with an extension made empty and placed last (ec_point_formats, or the
                    // k-th one it carries), all lengths consistent, and cut into two records: the client parses the reassembled message from an
                    // exact-size heap block, so a parser that reads a byte of an empty extension reads past the block
                    size_t o = hb + 34; o += 1 + u[o]; o += 3;
                    if (o <= u.size()) { std::vector<std::pair<uint16_t, Bytes>> ex; if (o + 2 <= u.size()) { size_t p = o + 2, e = u.size(); while (p + 4 <= e) { size_t l = (size_t) u[p + 2] << 8 | u[p + 3]; if (p + 4 + l > e) break; ex.emplace_back((uint16_t) (u[p] << 8 | u[p + 1]), Bytes(u.begin() + p + 4, u.begin() + p + 4 + l)); p += 4 + l; } }
                        uint8_t sel = t.u8(); uint16_t ty = 11; if ((sel & 1) && !ex.empty()) ty = ex[(sel >> 1) % ex.size()].first;
                        for (size_t i = 0; i < ex.size();) { if (ex[i].first == ty) ex.erase(ex.begin() + i); else i++; } ex.emplace_back(ty, Bytes());
                        Bytes body(u.begin() + hb, u.begin() + o), blk; for (auto &x : ex) { blk.push_back((uint8_t) (x.first >> 8)); blk.push_back((uint8_t) x.first); blk.push_back((uint8_t) (x.second.size() >> 8)); blk.push_back((uint8_t) x.second.size()); blk.insert(blk.end(), x.second.begin(), x.second.end()); }
                        body.push_back((uint8_t) (blk.size() >> 8)); body.push_back((uint8_t) blk.size()); body.insert(body.end(), blk.begin(), blk.end());
                        Bytes hs = { 2, (uint8_t) (body.size() >> 16), (uint8_t) (body.size() >> 8), (uint8_t) body.size() }; hs.insert(hs.end(), body.begin(), body.end());
                        size_t cut = 4 + 1 + t.u8() % (hs.size() - 5); Bytes nu;
                        for (int part = 0; part < 2; part++) { size_t a = part ? cut : 0, b = part ? hs.size() : cut; nu.push_back(22); nu.push_back(u[1]); nu.push_back(u[2]); nu.push_back((uint8_t) ((b - a) >> 8)); nu.push_back((uint8_t) (b - a)); nu.insert(nu.end(), hs.begin() + a, hs.begin() + b); }
                        u.swap(nu); c.count("serverhello-empty-extension-last-two-records"); }
                    break;
                }
                if (u.size() > hb + 35 && u[0] == 22 && (u[dt ? 13 : 5] == 1 || u[dt ? 13 : 5] == 2)) { size_t sidoff = hb + 34; uint8_t v = t.u8(); if (kind & 0x80) { size_t rem = u.size() - sidoff - 1; /* lengths just past the 32-byte maximum that still fit into the message are the interesting ones */ switch (v & 3) { case 0: v = 33; break; case 1: v = (uint8_t) (33 + (v >> 2) % 32); break; case 2: v = (uint8_t) std::min<size_t>(rem, 255); break; default: break; } u[sidoff] = v; } else { size_t o2 = sidoff + 1 + u[sidoff]; if (o2 + 1 < u.size()) { u[o2] = v; u[o2 + 1] = t.u8(); } } } break; }
            case 11: { // first bytes of the handshake body (vector length prefixes of Certificate, KeyExchange, CertificateRequest, NewSessionTicket...)
                size_t hb = (dt ? 13 + 12 : 5 + 4);
                if (!dt && (kind & 0x40) && u.size() >= hb + 6 && u[0] == 22 && u[5] == 4) {
                    // NewSessionTicket (TLS <= 1.2, plaintext): re-issue the ticket with a different length, all length fields consistent - the
                    // client's stored ticket is replaced by a shorter / longer / empty / very large one (the handshake fails later at Finished,
                    // the ticket has been stored by then)
                    size_t have = u.size() - hb - 6; static const int NL[] = { 0, 1, 47, 80, 127, 129, 168, 300, 4000, 15361, 16000 }; size_t nl = (size_t) NL[t.u8() % 11]; if (nl == have) nl = have / 2;
                    Bytes body(u.begin() + hb, u.begin() + hb + 4); body.push_back((uint8_t) (nl >> 8)); body.push_back((uint8_t) nl); for (size_t i = 0; i < nl; i++) body.push_back(i < have ? u[hb + 6 + i] : (uint8_t) (0xA0 + i % 7));
                    size_t hl = body.size(), rl = hl + 4; Bytes nu = { 22, u[1], u[2], (uint8_t) (rl >> 8), (uint8_t) rl, 4, (uint8_t) (hl >> 16), (uint8_t) (hl >> 8), (uint8_t) hl }; nu.insert(nu.end(), body.begin(), body.end());
                    if (rl <= 16384) { u.swap(nu); c.count("nst-reissued-with-other-length"); }
                    break;
                }
                if (u.size() > hb + 8 && u[0] == 22) { size_t k = t.u8() % 8; u[hb + k] = t.u8(); } break; }
            }
            deliver(u);
            if (t.u8() & 1 && !pending.empty()) { /* also deliver the original afterwards */ }
        } else if (op < 235) {                // raw bytes
            size_t n = t.u8(); if (op & 1) n += 200;
            // short records with a well-formed header whose body length sits on a block / MAC / nonce / tag boundary (what the length sanity
            // tests in front of the CBC and AEAD decryption have to get right once a read cipher is active)
            bool boundary = (op & 4) != 0; if (boundary) { static const int BL[] = { 0, 1, 7, 8, 9, 15, 16, 17, 20, 21, 23, 24, 25, 31, 32, 33, 36, 37, 40, 47, 48, 49, 52, 53, 63, 64, 65, 80 }; n = (dt ? 13 : 5) + (size_t) BL[t.u8() % (sizeof BL / sizeof BL[0])]; c.count("raw-boundary-length-record"); }
            Bytes u = t.vec(n); raw++;
            if (dt && boundary && n >= 13) { u[3] = 0; u[4] = V.hs_complete() ? 1 : 0; u[5] = u[6] = u[7] = 0; }   // current epoch, else DTLS drops the record unread
            if (((op & 2) || boundary) && n >= 5) { u[0] = (uint8_t) (20 + u[0] % 5); u[1] = dt ? 0xfe : 3; u[2] = dt ? 0xfd : 3; if (!dt) { size_t L = n - 5; u[3] = (uint8_t) (L >> 8); u[4] = (uint8_t) L; } else if (n >= 13) { size_t L = n - 13; u[11] = (uint8_t) (L >> 8); u[12] = (uint8_t) L; } }
            deliver(u);
        } else if (op < 245) {                // application calls on the victim
            uint8_t k = t.u8();
            if ((k & 3) == 0) { Bytes m(1 + t.u8() * ((k & 0x80) ? 64 : 1), 0x61); if (dt && m.size() > 900) m.resize(900); if (V.ssl) { int rc = V.send(m, (k >> 2) & 1); VF_CHECK(rc > -200 && rc <= SSL_MAX_BUF_SIZE, "undocumented-return-code", "encode returned %d; %s", rc, desc.c_str()); } }
            else if ((k & 3) == 1) { if (V.ssl) check_rc(V.send_close(), "matrixSslEncodeClosureAlert", desc); }
            else if ((k & 3) == 2) { if (V.ssl) { unsigned char *b; V.sel(); int32 n = matrixSslGetReadbufOfSize(V.ssl, 1 + t.u16() % 20000, &b); VF_CHECK(n <= SSL_MAX_BUF_SIZE, "readbuf-larger-than-maximum", "GetReadbufOfSize returned %d; %s", n, desc.c_str()); } }
            else { V.out_piece = 1 + t.u8(); }
            check_bufs(V, desc); give_to_peer();
        } else {                              // chunking of the receive stream
            chunk = (op & 1) ? (size_t) -1 : 1 + t.u8() % 64;
        }
    }
    // drain a little so that post-handshake paths run, then tear down (sessions and ids are freed by the destructors)
    for (int r = 0; r < 6; r++) { give_to_peer(); take_from_peer(); if (pending.empty()) break; while (!pending.empty()) { Bytes u = pending.front(); pending.pop_front(); deliver(u); } }
    c.count(fmt("maxstate:%d", maxstate)); if (V.hs_complete()) c.count("victim-completed"); if (V.failed || V.req_close) c.count("victim-died");
    c.count("steps", steps); c.count("mutated-units", mutated); c.count("raw-units", raw);
    if (steps >= 2 && (mutated || raw)) c.nontrivial(fmt("%d|%d|%d|%d|%d|%d", ver, su ? su->auth * 2 + su->aead : 9, cauth, resumed, maxstate, V.failed ? 1 : V.req_close ? 2 : V.hs_complete() ? 3 : 0));
    if (!c.replaying && (c.evaluations & 63) == 0) c.sample(desc + fmt(" steps=%u mutated=%u raw=%u maxstate=%d", steps, mutated, raw, maxstate));
}
#define STR2(x) #x
#define STR(x) STR2(x)
VF_TARGET("C08.net." STR(C08_DTLS) "." STR(C08_VCLIENT), prop, 192, 20)
namespace vf { void vf_global_init(int, char **) { mxh::global_open(); vf::leak_check_interval() = 50; } }
