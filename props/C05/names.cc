// C05: the expected-name check accepts only certificates issued for that name.
//
// A case is (expected name E, nameType, mFlags, subject CN or none, subjectAltName multiset).  For a set of
// permutations of the SAN multiset a leaf certificate is minted with OpenSSL (mint.cc; arbitrary bytes in
// names), signed by a /verif/pki test CA (RSA-2048 for 15/16 of the cases because its verification is ~10x cheaper under ASan, ECDSA P-256 for 1/16), parsed with psX509ParseCert and validated with
// matrixValidateCertsExt (CA = trust anchor) - so only the name decides.  A sample of cases is also run
// through matrixSslNewClientSession(expectedName) + a real in-memory handshake (harness/mxh.h).
//
// Oracles (all grounded in the property statement):
//   1. ONE-DIRECTIONAL: MatrixSSL accepts  =>  the reference matcher (ref_accept, written from the property
//      text) accepts.  Anything stricter than the property is never flagged.
//   2. METAMORPHIC: the verdict is the same for every generated permutation of the SAN list.
//   3. COMPLETENESS SMOKE: E byte-identical to a dNSName entry of an otherwise clean certificate, nameType in
//      {ANY, HOSTNAME, SAN_DNS}  =>  accepted.
//   4. Root-cause monitor for (2): every parsed SAN entry has the length that was minted (a trailing NUL
//      removed), i.e. the "NUL-terminated copy" of x509.c is really a copy of the whole entry.
//   5. NON-SUBJECT NAMES: about half of the leaves also carry names in places that do not name the subject for this
//      check - an issuerAltName extension (1-4 GeneralNames from the same grammar as the SAN entries: equal to E,
//      wildcard forms of E, near misses, names present nowhere else), cRLDistributionPoints fullName GeneralNames,
//      authorityInfoAccess URIs, an authorityKeyIdentifier authorityCertIssuer directoryName, and the subject DN
//      attributes OU / emailAddress.  The reference matcher does not see them (matching is decided by the
//      subjectAltName entries, or by the CN only when no supported SAN exists), so oracle 1 flags every accept they
//      cause; in addition the identical certificate without these fields is evaluated whenever the one with them
//      is accepted: "accepted with, rejected without" is a failure (soundness direction only; the opposite
//      direction - e.g. an issuerAltName that suppresses the CN fallback - is stricter than the property, it is
//      counted (extras-turn-accept-into-reject), not flagged, because the model asserts no completeness for the
//      CN fallback).
//   6. SCENARIOS (late-drawn, see SC_* below): the same oracles with "accepts" read off what the API reports to a caller that tolerates one soft
//      defect: a leaf that is expired / not yet valid counts as accepted when authStatus == PS_CERT_AUTH_FAIL_EXTENSION and authFailFlags is the date
//      flag alone (in the handshake sample: a certificate callback that continues on CERTIFICATE_EXPIRED only for such a chain); a self-signed leaf is
//      validated with issuerCerts == NULL.  A wrong name must show up as PS_CERT_AUTH_FAIL_SUBJECT_FLAG / a refused handshake there too.
//   7. SINGLE-BIT NEIGHBOURS and HIDDEN NULs (late-drawn, see gen_late): names that differ from E in one bit of one character (CN: raw, SAN: printable),
//      E+NUL+tail in a CN of every encoding incl. a BIT STRING with raw content octets - all judged by oracle 1.
//   + ASan/UBSan on everything.
//
// Deliberate tolerances (documented behaviour, never flagged):
//   * one trailing NUL in a dNSName/rfc822Name/URI entry is stripped by the parser (interop feature
//     DISABLE_X509_GENERAL_NAME_SUPPORT_C_NULL off); "a.b\0" therefore may match "a.b";
//   * NAME_TYPE_ANY matches E against every supported field with that field's rule (legacy behaviour), so an
//     IP literal may match a dNSName with the same text;
//   * an expected name starting with '.' may match "*.rest" (empty label; such an E is not a valid host name);
//   * wildcards are honoured in the subject CN as well as in dNSName entries;
//   * a CN encoded as BIT STRING whose content octets are a printable name may match like an 8-bit string (CN_BITRAW); with a NUL or another
//     non-printable byte it never may;
//   * expected names that themselves contain non-printable bytes are not judged by oracle 1 (the documented
//     precondition of psX509ValidateGeneralName/matrixValidateCerts is a sane, application-chosen name);
//     oracles 2 and 4 and the sanitizers still apply.
#include "mxh.h"
#include "mint.h"
#include <memory>
using namespace vf;
typedef std::string S;
using c05::Bytes;
using c05::LeafSpec;
using c05::SanEntry;

static psX509Cert_t *g_ca[2] = { nullptr, nullptr }; // [ISS_EC], [ISS_RSA]
static bool g_allperm = false;     // --allperm: all permutations of lists up to length 5
static unsigned g_hs_den = 16;     // 1 in g_hs_den cases also runs a handshake
static bool g_monitor = true;      // --no-monitor (development aid): let the behavioural oracles / ASan show the consequence of a short SAN copy

// ------------------------------------------------------------------ small string helpers
static S esc(const S &s) {
    S o;
    for (unsigned char ch : s) {
        if (ch >= 0x20 && ch <= 0x7e && ch != '\\' && ch != '"') o += (char) ch;
        else { char b[8]; snprintf(b, sizeof b, "\\x%02x", ch); o += b; }
    }
    return o;
}
static bool printable(const S &s) {
    if (s.empty()) return false;
    for (unsigned char ch : s) if (ch < 0x20 || ch > 0x7e) return false;
    return true;
}
static char lc(char ch) { return (ch >= 'A' && ch <= 'Z') ? (char) (ch + 32) : ch; }
static S lower(S s) { for (auto &ch : s) ch = lc(ch); return s; }
static bool ieq(const S &a, const S &b) { return a.size() == b.size() && lower(a) == lower(b); }
static bool is_alpha(char ch) { return (ch >= 'a' && ch <= 'z') || (ch >= 'A' && ch <= 'Z'); }
static S ip_text(const uint8_t *o) { char b[32]; snprintf(b, sizeof b, "%u.%u.%u.%u", o[0], o[1], o[2], o[3]); return b; }
static std::vector<S> split_labels(const S &s) {
    std::vector<S> v; size_t st = 0;
    for (;;) { size_t i = s.find('.', st); if (i == S::npos) { v.push_back(s.substr(st)); break; } v.push_back(s.substr(st, i - st)); st = i + 1; }
    return v;
}
static S join_labels(const std::vector<S> &v, size_t from = 0) {
    S o; for (size_t i = from; i < v.size(); i++) { if (i > from) o += '.'; o += v[i]; } return o;
}
static size_t edit_distance(const S &a, const S &b, size_t cap = 3) {
    if (a.size() > b.size() + cap || b.size() > a.size() + cap) return cap + 1;
    std::vector<size_t> p(b.size() + 1), q(b.size() + 1);
    for (size_t j = 0; j <= b.size(); j++) p[j] = j;
    for (size_t i = 1; i <= a.size(); i++) {
        q[0] = i;
        for (size_t j = 1; j <= b.size(); j++) q[j] = std::min({ p[j] + 1, q[j - 1] + 1, p[j - 1] + (a[i - 1] == b[j - 1] ? 0 : 1) });
        p.swap(q);
    }
    return p[b.size()];
}

// ------------------------------------------------------------------ REFERENCE MATCHER (from the property text)
enum { NT_ANY = 0, NT_HOSTNAME, NT_CN, NT_SAN_DNS, NT_SAN_EMAIL, NT_SAN_IP, NT_COUNT };
static const char *NTN[] = { "ANY", "HOSTNAME", "CN", "SAN_DNS", "SAN_EMAIL", "SAN_IP" };
static_assert(NT_ANY == NAME_TYPE_ANY && NT_HOSTNAME == NAME_TYPE_HOSTNAME && NT_CN == NAME_TYPE_CN && NT_SAN_DNS == NAME_TYPE_SAN_DNS &&
              NT_SAN_EMAIL == NAME_TYPE_SAN_EMAIL && NT_SAN_IP == NAME_TYPE_SAN_IP_ADDRESS, "expectedNameType_t layout changed");

// A certificate-side name can match only if it is entirely printable ASCII; for SAN strings one trailing NUL
// is tolerated (see header).  Returns false when the name can never match anything.
static bool cert_string(const S &raw, bool tolerate_trailing_nul, S &out) {
    out = raw;
    if (tolerate_trailing_nul && out.size() >= 2 && out.back() == '\0') out.pop_back();
    return printable(out);
}
// dNSName / CN rule: case-insensitive equality, or "*." + rest where rest is E minus exactly its left-most label.
static bool ref_dns(const S &pat, const S &E) {
    if (ieq(pat, E)) return true;
    if (pat.size() >= 2 && pat[0] == '*' && pat[1] == '.') {
        size_t i = E.find('.');
        if (i == S::npos) return false;
        return ieq(pat.substr(1), E.substr(i));
    }
    return false;
}
struct CertNames {
    bool has_cn = false; int cn_type = 0; S cn;
    std::vector<SanEntry> san;
};
static bool supported_kind(int k) { return k == c05::SK_DNS || k == c05::SK_EMAIL || k == c05::SK_IP; }
// The CN as a byte string as any X.509 consumer would see it; false if it can never match.
static bool ref_cn_string(const CertNames &cn, S &out) {
    if (!cn.has_cn) return false;
    if (cn.cn_type == c05::CN_BIT) return false; // not a character string
    // CN_BITRAW (BIT STRING whose content octets are the name itself): a consumer that treats the content as an 8-bit string is tolerated, so the
    // content is judged like the 8-bit string types - in particular it can never match when it contains a NUL or another non-printable byte
    if (cn.cn_type == c05::CN_BMP) {
        if (cn.cn.size() % 2) return false;
        out.clear();
        for (size_t i = 0; i < cn.cn.size(); i += 2) { if (cn.cn[i] != 0) return false; out += cn.cn[i + 1]; }
        return printable(out);
    }
    return cert_string(cn.cn, false, out);
}
static bool ref_accept(const S &E, int nameType, unsigned mFlags, const CertNames &cn) {
    bool supported = false;
    for (auto &e : cn.san) if (supported_kind(e.kind)) supported = true;
    bool dnsOK = nameType == NT_ANY || nameType == NT_HOSTNAME || nameType == NT_SAN_DNS;
    bool emailOK = nameType == NT_ANY || nameType == NT_SAN_EMAIL;
    bool ipOK = nameType == NT_ANY || nameType == NT_SAN_IP;
    bool cnOK = (nameType == NT_ANY || nameType == NT_HOSTNAME || nameType == NT_CN) &&
                (!supported || (mFlags & VCERTS_MFLAG_ALWAYS_CHECK_SUBJECT_CN));
    S n;
    for (auto &e : cn.san) {
        if (e.kind == c05::SK_DNS && dnsOK && cert_string(e.data, true, n) && ref_dns(n, E)) return true;
        if (e.kind == c05::SK_EMAIL && emailOK && cert_string(e.data, true, n) && ieq(n, E)) return true;
        if (e.kind == c05::SK_IP && ipOK && e.data.size() == 4 && ip_text((const uint8_t *) e.data.data()) == E) return true;
    }
    if (cnOK && ref_cn_string(cn, n) && ref_dns(n, E)) return true;
    return false;
}

// Relation of a certificate-side string to E (for statistics / the non-trivial rule only).
static bool bit_neighbour(const S &a, const S &b) { // equal length, exactly one byte differs, and that byte in exactly one bit
    if (a.size() != b.size()) return false;
    int diff = -1;
    for (size_t i = 0; i < a.size(); i++) if (a[i] != b[i]) { if (diff >= 0) return false; diff = (int) i; }
    if (diff < 0) return false;
    unsigned x = (unsigned char) (a[diff] ^ b[diff]);
    return (x & (x - 1)) == 0;
}
static const char *relation(const S &E, const S &N) {
    if (bit_neighbour(E, N) && !ieq(E, N)) return printable(N) ? "bit1" : (N.find('\0') != S::npos ? "bit1-nul" : "bit1-nonprintable");
    if (N.find('\0') != S::npos) return (N.size() >= 2 && N.find('\0') == N.size() - 1) ? "nul-trailing" : "nul-embedded";
    if (!printable(N)) return "nonprintable";
    if (N == E) return "equal";
    if (ieq(N, E)) return "case-variant";
    if (N.find('*') != S::npos) return ref_dns(N, E) ? "wildcard-one-label" : "wildcard-near-miss";
    S a = lower(N), b = lower(E);
    if (a.size() < b.size() && b.compare(b.size() - a.size(), a.size(), a) == 0) return b[b.size() - a.size() - 1] == '.' ? "label-shift" : "suffix";
    if (b.size() < a.size() && a.compare(a.size() - b.size(), b.size(), b) == 0) return a[a.size() - b.size() - 1] == '.' ? "label-shift" : "suffix";
    if (a.size() < b.size() && b.compare(0, a.size(), a) == 0) return "prefix";
    if (b.size() < a.size() && a.compare(0, b.size(), b) == 0) return "prefix";
    size_t d = edit_distance(a, b);
    if (d == 1) return "edit1";
    if (d == 2) return "edit2";
    return "far";
}
static bool near_miss(const char *rel) { return strcmp(rel, "far") != 0 && strcmp(rel, "equal") != 0; }

// ------------------------------------------------------------------ GENERATORS
enum { EK_HOST = 0, EK_EMAIL, EK_IP, EK_WEIRD };
static const char *EKN[] = { "host", "email", "ipv4", "weird" };
struct Exp { S text; int kind = EK_HOST; uint8_t ip[4] = { 0, 0, 0, 0 }; bool judged = true; };

static S gen_label(Tape &t) {
    static const char *common[] = { "a", "b", "ab", "1" };
    static const char *rare[] = { "aa", "ba", "a1", "b1", "10", "-a", "a-", "abc", "0", "255", "a-b", "bb", "A", "aB", "1a", "x" };
    unsigned m = (unsigned) t.below(32);
    return m < 16 ? common[m % 4] : rare[m - 16];
}
static S gen_host(Tape &t, int maxl = 5) {
    static const int NL[] = { 1, 2, 2, 2, 3, 3, 3, 4, 2, 3, 5, 4, 1, 2, 3, 5 };
    int nl = NL[t.below(16)]; if (nl > maxl) nl = maxl;
    S h; for (int i = 0; i < nl; i++) { if (i) h += '.'; h += gen_label(t); }
    return h;
}
static S gen_local(Tape &t) {
    static const char *L[] = { "a", "b", "ab", "A", "a1", "a.b", "Ab", "ba" };
    return L[t.below(8)];
}
static S gen_email(Tape &t) { return gen_local(t) + "@" + gen_host(t, 3); }
static void gen_ip(Tape &t, uint8_t *o) {
    static const int OCT[] = { 0, 1, 9, 10, 99, 100, 199, 255 };
    unsigned mode = (unsigned) t.below(4);
    if (mode == 3) { // long form: 14/15-character texts
        static const int BIG[] = { 100, 199, 255, 100 };
        for (int i = 0; i < 3; i++) o[i] = (uint8_t) BIG[t.below(4)];
        o[3] = t.coin() ? (uint8_t) BIG[t.below(4)] : (uint8_t) (10 + t.below(16));
        return;
    }
    for (int i = 0; i < 4; i++) o[i] = t.below(16) < 14 ? (uint8_t) OCT[t.below(8)] : t.u8();
}
static S case_flip(Tape &t, S s) {
    bool any = false; int firsta = -1;
    for (size_t i = 0; i < s.size(); i++) {
        if (!is_alpha(s[i])) continue;
        if (firsta < 0) firsta = (int) i;
        if (t.coin()) { s[i] ^= 0x20; any = true; }
    }
    if (!any && firsta >= 0) s[firsta] ^= 0x20;
    return s;
}
static S gen_name_of_kind(Tape &t, int ek) {
    if (ek == EK_EMAIL) return gen_email(t);
    if (ek == EK_IP) { uint8_t o[4]; gen_ip(t, o); return ip_text(o); }
    return gen_host(t);
}
static Exp gen_expected(Tape &t) {
    Exp e;
    unsigned k = (unsigned) t.below(16);
    if (k < 8) e.kind = EK_HOST; else if (k < 10) e.kind = EK_EMAIL; else if (k < 14) e.kind = EK_IP; else e.kind = EK_WEIRD;
    if (e.kind == EK_IP) { gen_ip(t, e.ip); e.text = ip_text(e.ip); return e; }
    if (e.kind == EK_EMAIL) { e.text = gen_email(t); if (t.below(4) == 0) e.text = case_flip(t, e.text); return e; }
    e.text = gen_host(t);
    if (e.kind == EK_HOST) { if (t.below(4) == 0) e.text = case_flip(t, e.text); return e; }
    // weird expected names (still a C string: no NUL inside)
    switch (t.below(8)) {
    case 0: e.text += '.'; break;                                    // trailing dot
    case 1: e.text = "." + e.text; break;                            // leading dot (empty first label)
    case 2: e.text = "*." + e.text; break;                           // the application asks for a wildcard literally
    case 3: e.text.insert(t.below(e.text.size() + 1), 1, (char) (1 + t.below(31))); break;   // control character
    case 4: e.text.insert(t.below(e.text.size() + 1), 1, (char) (0x80 + t.below(128))); break; // 8-bit
    case 5: e.text += ' '; break;
    case 6: e.text = "*"; break;
    default: e.text = case_flip(t, e.text) + "."; break;
    }
    e.judged = printable(e.text);
    return e;
}

// derivation operators: how a certificate-side string is made from a base string (usually E)
enum Rel { R_SAME = 0, R_CASE, R_PREFIX, R_EXTEND, R_SUFFIX, R_PREPEND, R_DROP_LABEL, R_ADD_LABEL, R_DROP_LAST, R_ADD_LAST, R_WILD1, R_WILD2,
           R_WILD_ALL, R_WILD_MID, R_WILD_PART, R_WILD_DBL, R_WILD_PLUS, R_TRAIL_DOT, R_NUL_EMBED, R_NUL_TRAIL, R_NUL_TRAIL2, R_CTRL, R_BIT8,
           R_EDIT1, R_EDIT2, R_SWAP, R_LOCAL_DIFF, R_EMAIL_WRAP, R_BITFLIP, R_NREL };
static const char *RELN[] = { "same", "case", "prefix", "extend", "suffix", "prepend", "drop-label", "add-label", "drop-last", "add-last", "wild1", "wild2",
                              "wild-all", "wild-mid", "wild-part", "wild-dbl", "wild-plus", "trail-dot", "nul-embed", "nul-trail", "nul-trail2", "ctrl", "bit8",
                              "edit1", "edit2", "swap", "local-diff", "email-wrap", "bitflip" };
// R_BITFLIP has weight 0 here: it is applied by the late-drawn override step of prop() (gen_late) so that tapes recorded before it existed decode unchanged
static const uint8_t RELW[R_NREL] = { 6, 4, 3, 3, 3, 2, 3, 3, 2, 2, 5, 3, 1, 2, 2, 2, 2, 2, 2, 5, 1, 1, 1, 3, 1, 1, 2, 1, 0 };
static int pick_rel(Tape &t) {
    unsigned tot = 0; for (int i = 0; i < R_NREL; i++) tot += RELW[i];
    unsigned x = (unsigned) t.below(tot);
    for (int i = 0; i < R_NREL; i++) { if (x < RELW[i]) return i; x -= RELW[i]; }
    return R_SAME;
}
static S subst_char(Tape &t, S s) {
    static const char A[] = { 'a', 'b', '1', '.', 'c', '0', '-' };
    if (s.empty()) return "a";
    size_t k = t.below(s.size());
    char n = A[t.below(sizeof A)];
    if (lc(n) == lc(s[k])) n = (lc(s[k]) == 'c') ? 'a' : 'c';
    s[k] = n; return s;
}
static S derive(Tape &t, const S &base, int op) {
    std::vector<S> L = split_labels(base);
    switch (op) {
    case R_SAME: return base;
    case R_CASE: return case_flip(t, base);
    case R_PREFIX: { size_t k = 1 + t.below(2); return base.size() > k ? base.substr(0, base.size() - k) : base.substr(0, 1); }
    case R_EXTEND: { static const char *X[] = { "a", "b", ".", "1", ".a", "a.b", "-", "ab" }; return base + X[t.below(8)]; }
    case R_SUFFIX: { size_t k = 1 + t.below(2); return base.size() > k ? base.substr(k) : base.substr(base.size() - 1); }
    case R_PREPEND: { static const char *X[] = { "a", "b", "1", "x", "ab", "-", "a-", "aa" }; return X[t.below(8)] + base; }
    case R_DROP_LABEL: return L.size() >= 2 ? join_labels(L, 1) : base.substr(base.size() > 1 ? 1 : 0);
    case R_ADD_LABEL: return gen_label(t) + "." + base;
    case R_DROP_LAST: { if (L.size() < 2) return base; L.pop_back(); return join_labels(L); }
    case R_ADD_LAST: return base + "." + gen_label(t);
    case R_WILD1: return L.size() >= 2 ? "*." + join_labels(L, 1) : "*." + base;
    case R_WILD2: return L.size() >= 3 ? "*." + join_labels(L, 2) : (L.size() == 2 ? "*." + L[1] : S("*"));
    case R_WILD_ALL: return "*";
    case R_WILD_MID: return L.size() >= 3 ? L[0] + ".*." + join_labels(L, 2) : L[0] + ".*";
    case R_WILD_PART: {
        S rest = L.size() >= 2 ? "." + join_labels(L, 1) : S("");
        switch (t.below(4)) {
        case 0: return L[0].substr(0, 1) + "*" + rest;                 // f*.a.b
        case 1: return "*" + L[0].substr(L[0].size() ? L[0].size() - 1 : 0) + rest; // *o.a.b
        case 2: return L[0] + "*" + rest;                               // foo*.a.b
        default: return "*" + base;                                      // *foo.a.b
        }
    }
    case R_WILD_DBL: return L.size() >= 3 ? "*.*." + join_labels(L, 2) : S("*.*") + (L.size() == 2 ? "." + L[1] : S(""));
    case R_WILD_PLUS: return "*." + base;
    case R_TRAIL_DOT: return (!base.empty() && base.back() == '.') ? base.substr(0, base.size() - 1) : base + ".";
    case R_NUL_EMBED: {
        switch (t.below(5)) {
        case 0: return base + S(1, '\0') + ".b";
        case 1: return base + S(1, '\0') + "x";
        case 2: { S s = base; s.insert(base.size() > 1 ? 1 + t.below(base.size() - 1) : 0, 1, '\0'); return s; }
        case 3: return S(1, '\0') + base;
        default: return (L.size() >= 2 ? "*." + join_labels(L, 1) : base) + S(1, '\0') + ".a.b";
        }
    }
    case R_NUL_TRAIL: return base + S(1, '\0');
    case R_NUL_TRAIL2: return base + S(2, '\0');
    case R_CTRL: { static const char C[] = { 0x01, 0x09, 0x0a, 0x0d, 0x1f, 0x7f }; S s = base; s.insert(t.below(s.size() + 1), 1, C[t.below(6)]); return s; }
    case R_BIT8: { static const unsigned char C[] = { 0x80, 0xa0, 0xe9, 0xff }; S s = base; s.insert(t.below(s.size() + 1), 1, (char) C[t.below(4)]); return s; }
    case R_EDIT1: return subst_char(t, base);
    case R_EDIT2: return subst_char(t, subst_char(t, base));
    case R_SWAP: { S s = base; for (size_t i = 0; i + 1 < s.size(); i++) if (s[i] != s[i + 1]) { size_t k = (i + t.below(s.size() - 1 - i)); if (s[k] == s[k + 1]) k = i; std::swap(s[k], s[k + 1]); break; } return s; }
    case R_LOCAL_DIFF: {
        size_t at = base.find('@');
        if (at == S::npos) return gen_local(t) + "@" + base;
        S l = base.substr(0, at), nl = gen_local(t);
        if (t.coin()) { nl = l; nl = subst_char(t, nl); if (nl.find('@') != S::npos) nl = "zz"; } // same length, different content
        if (ieq(nl, l)) nl += "x";
        return nl + base.substr(at);
    }
    case R_EMAIL_WRAP: { size_t at = base.find('@'); return at == S::npos ? gen_local(t) + "@" + base : base.substr(at + 1); }
    case R_BITFLIP: { // one character replaced by a byte that differs from it in exactly one bit (any of the 8 bits, letter and non-letter positions alike)
        if (base.empty()) return "a";
        S s = base; size_t k = t.below(s.size()); s[k] = (char) ((unsigned char) s[k] ^ (1u << t.below(8))); return s;
    }
    }
    return base;
}

struct Ent { SanEntry e; S how; bool fromE = false; };
static const char KCH[] = { 'D', 'E', 'I', 'U', 'O', 'X' };

static S gen_string_value(Tape &t, const Exp &E, int natural, S &how, bool &fromE) {
    fromE = t.below(10) < 7;
    S base = fromE ? E.text : gen_name_of_kind(t, natural);
    int op = pick_rel(t);
    S v = derive(t, base, op);
    how = S(fromE ? "E:" : "rnd:") + RELN[op];
    if (op != R_SAME && op != R_CASE && t.below(6) == 0) { v = case_flip(t, v); how += "+case"; }
    return v;
}
static S gen_ip_value(Tape &t, const Exp &E, int form /*4,16,0=odd*/, S &how, bool &fromE) {
    uint8_t o[4];
    fromE = E.kind == EK_IP && t.below(4) != 0;
    if (fromE) memcpy(o, E.ip, 4); else gen_ip(t, o);
    S pre = fromE ? "E:" : "rnd:";
    if (form == 4) {
        unsigned op = fromE ? (unsigned) t.below(8) : 0;
        switch (op) {
        case 0: case 1: how = fromE ? "E:ip-same" : "rnd:ip4"; break;
        case 2: case 3: { // last octet extended/shortened by one decimal digit: text of one is a prefix of the other
            unsigned v = o[3] * 10u + (unsigned) t.below(10);
            if (v <= 255 && o[3] != 0) { o[3] = (uint8_t) v; how = pre + "ip-last-digit-appended"; }
            else { o[3] = (uint8_t) (o[3] / 10); how = pre + "ip-last-digit-dropped"; }
            break;
        }
        case 4: { int j = (int) t.below(4); unsigned v = o[j] * 10u + (unsigned) t.below(10); if (v <= 255 && o[j] != 0) o[j] = (uint8_t) v; else o[j] = (uint8_t) (o[j] / 10); how = pre + "ip-octet-digit"; break; }
        case 5: { int j = (int) t.below(4); o[j] = (uint8_t) (o[j] + (t.coin() ? 1 : 255)); how = pre + "ip-octet-off-by-one"; break; }
        case 6: { int j = (int) t.below(3); std::swap(o[j], o[j + 1]); how = pre + "ip-octets-swapped"; break; }
        default: gen_ip(t, o); how = "rnd:ip4"; fromE = false; break;
        }
        return S((const char *) o, 4);
    }
    if (form == 16) {
        S v;
        switch (t.below(4)) {
        case 0: v = S((const char *) o, 4) + S(12, '\0'); how = pre + "ip16-prefix"; break;
        case 1: { v = S((const char *) o, 4); for (int i = 0; i < 12; i++) v += (char) t.u8(); how = pre + "ip16-prefix-rnd"; break; }
        case 2: v = S(10, '\0') + S(2, (char) 0xff) + S((const char *) o, 4); how = pre + "ip16-v4mapped"; break;
        default: v = S(12, '\0') + S((const char *) o, 4); how = pre + "ip16-suffix"; break;
        }
        return v;
    }
    switch (t.below(4)) {
    case 0: how = pre + "ip5"; return S((const char *) o, 4) + S(1, (char) t.u8());
    case 1: how = pre + "ip8"; return S((const char *) o, 4) + S((const char *) o, 4);
    case 2: how = pre + "ip3"; return S((const char *) o, 3);
    default: how = pre + "ip-text-octets"; return ip_text(o); // the text put into the OCTET STRING
    }
}
static int natural_kind(int ek) { return ek == EK_EMAIL ? c05::SK_EMAIL : ek == EK_IP ? c05::SK_IP : c05::SK_DNS; }
static int natural_ek(int sk) { return sk == c05::SK_EMAIL ? EK_EMAIL : (sk == c05::SK_IP ? EK_IP : EK_HOST); }

static Ent gen_entry(Tape &t, const Exp &E) {
    Ent r;
    int kind, ipform = 4;
    unsigned m = (unsigned) t.below(64);
    if (m < 24) { kind = natural_kind(E.kind); }
    else if (m < 40) kind = c05::SK_DNS;
    else if (m < 46) kind = c05::SK_EMAIL;
    else if (m < 51) kind = c05::SK_IP;
    else if (m < 54) { kind = c05::SK_IP; ipform = 16; }
    else if (m < 56) { kind = c05::SK_IP; ipform = 0; }
    else if (m < 59) kind = c05::SK_URI;
    else if (m < 62) kind = c05::SK_OTHER;
    else kind = c05::SK_DIR;
    r.e.kind = kind;
    if (kind == c05::SK_IP) { r.e.data = gen_ip_value(t, E, ipform, r.how, r.fromE); return r; }
    r.e.data = gen_string_value(t, E, natural_ek(kind), r.how, r.fromE);
    if (kind == c05::SK_URI && t.coin()) { r.e.data = "http://" + r.e.data + "/"; r.how += "+scheme"; }
    return r;
}
// an entry that the property requires to match E under E's natural name type
static Ent gen_matching_entry(Tape &t, const Exp &E) {
    Ent r; r.fromE = true;
    r.e.kind = natural_kind(E.kind);
    if (E.kind == EK_IP) { r.e.data = S((const char *) E.ip, 4); r.how = "E:ip-same!"; return r; }
    unsigned m = (unsigned) t.below(4);
    std::vector<S> L = split_labels(E.text);
    if (E.kind != EK_EMAIL && m == 2 && L.size() >= 2 && !L[0].empty()) { r.e.data = "*." + join_labels(L, 1); r.how = "E:wild1!"; }
    else if (m == 1) {
        if (E.kind == EK_EMAIL) { size_t at = E.text.find('@'); r.e.data = E.text.substr(0, at) + case_flip(t, E.text.substr(at)); r.how = "E:hostcase!"; } // host part only
        else { r.e.data = case_flip(t, E.text); r.how = "E:case!"; }
    }
    else { r.e.data = E.text; r.how = "E:same!"; }
    return r;
}

// ------------------------------------------------------------------ names that must NOT take part in subject matching
struct Extras {
    std::vector<Ent> ian; bool ian_first = false;            // issuerAltName
    std::vector<std::vector<Ent>> crldp;                      // cRLDistributionPoints fullName lists
    std::vector<c05::AiaEntry> aia;                           // authorityInfoAccess URIs
    bool aki = false; S aki_cn;                               // authorityKeyIdentifier.authorityCertIssuer = directoryName{CN}
    bool ou = false; S ouv;                                   // subject OU
    bool dnemail = false; S dnemailv;                         // subject emailAddress attribute
    bool any() const { return !ian.empty() || !crldp.empty() || !aia.empty() || aki || ou || dnemail; }
    void apply(LeafSpec &sp) const {
        sp.ian.clear(); for (auto &e : ian) sp.ian.push_back(e.e);
        sp.ian_before_san = ian_first;
        sp.crldp.clear(); for (auto &dp : crldp) { sp.crldp.emplace_back(); for (auto &e : dp) sp.crldp.back().push_back(e.e); }
        sp.aia = aia; sp.aki_issuer = aki; sp.aki_issuer_cn = aki_cn; sp.has_ou = ou; sp.ou = ouv; sp.has_dn_email = dnemail; sp.dn_email = dnemailv;
    }
};
static const Extras *g_cur_x = nullptr; // extras of the case being described (describe() appends them)
enum { XF_IAN = 1, XF_CRLDP = 2, XF_AIA = 4, XF_AKI = 8, XF_OU = 16, XF_DNEMAIL = 32 };

// A GeneralName for a non-subject extension: same grammar as the SAN entries.  Non-printable strings / malformed IP lengths make
// psX509ParseCert refuse the whole certificate (legitimately), which tells nothing about matching, so they are kept rare.
static Ent gen_foreign_entry(Tape &t, const Exp &E, bool matching, bool clean) {
    Ent e = matching ? gen_matching_entry(t, E) : gen_entry(t, E);
    bool keep_dirty = !clean && !matching && t.below(8) == 0;
    if (!keep_dirty) {
        bool str = e.e.kind != c05::SK_IP;
        if (str && !printable(e.e.data) && !(matching && !clean)) { e.e.data = t.coin() ? gen_name_of_kind(t, natural_ek(e.e.kind)) : (printable(E.text) ? E.text : S("a.b")); e.how = "clean"; e.fromE = false; }
        if (!str && e.e.data.size() != 4 && e.e.data.size() != 16) { uint8_t o[4]; gen_ip(t, o); e.e.data = S((const char *) o, 4); e.how = "clean"; e.fromE = false; }
    }
    return e;
}
// the host part a URL about E would contain
static S url_host(const Exp &E) {
    if (E.kind == EK_EMAIL) { size_t at = E.text.find('@'); return at == S::npos ? E.text : E.text.substr(at + 1); }
    return printable(E.text) ? E.text : S("a.b");
}
static S gen_url(Tape &t, const Exp &E, const char *leaf) {
    S h = t.below(4) == 0 ? gen_host(t, 3) : url_host(E);
    switch (t.below(6)) {
    case 0: return "http://" + h + "/" + leaf;
    case 1: return "http://" + h;
    case 2: return h;                               // bare host name in a URI field
    case 3: return "ldap://" + h + "/cn=ca?certificateRevocationList";
    case 4: return "https://" + h + ":443/" + leaf;
    default: return "http://" + E.text + "/";      // E verbatim (may be an e-mail address / IP literal / weird)
    }
}
static Extras gen_extras(Tape &t, const Exp &E, bool clean) {
    static const uint8_t XM[32] = { 0, 0, 0, 0, 0, 0, 0, 0, 0, 0, 0, 0,                                     // 12/32 none (all-zero tape = no extras)
                                    XF_IAN, XF_IAN, XF_IAN, XF_IAN, XF_IAN, XF_IAN, XF_IAN, XF_IAN, XF_IAN, XF_IAN, // 10/32 issuerAltName only
                                    XF_IAN | XF_CRLDP, XF_IAN | XF_CRLDP, XF_IAN | XF_AIA, 63,                  // issuerAltName + others, everything
                                    XF_CRLDP, XF_AIA, XF_AKI, XF_OU, XF_DNEMAIL, 63 & ~XF_IAN };               // one of the others, all others
    Extras x;
    unsigned f = XM[t.below(32)];
    if (f & XF_IAN) {
        static const int N[] = { 1, 2, 1, 3, 2, 4, 1, 2 };
        int n = N[t.below(8)];
        int forced = t.below(8) < 5 ? (int) t.below(n) : -1;   // 5/8: one entry that would match E if it were a subjectAltName
        for (int i = 0; i < n; i++) x.ian.push_back(gen_foreign_entry(t, E, i == forced, clean));
        x.ian_first = t.coin();
    }
    if (f & XF_CRLDP) {
        int ndp = t.below(4) == 0 ? 2 : 1;
        for (int d = 0; d < ndp; d++) {
            x.crldp.emplace_back();
            int n = t.below(4) == 0 ? 2 : 1;
            for (int i = 0; i < n; i++) {
                Ent e;
                unsigned m = (unsigned) t.below(8);
                if (m < 4) { e.e.kind = c05::SK_URI; e.e.data = gen_url(t, E, "ca.crl"); e.how = "url"; }   // the usual form
                else if (m < 6) e = gen_foreign_entry(t, E, true, clean);                                    // dNSName/rfc822Name/iPAddress equal to / wildcard of E
                else e = gen_foreign_entry(t, E, false, clean);
                if (e.e.kind != c05::SK_IP && !printable(e.e.data) && (clean || t.below(8) != 0)) { e.e.data = "http://" + url_host(E) + "/ca.crl"; e.e.kind = c05::SK_URI; e.how = "clean"; }
                x.crldp.back().push_back(e);
            }
        }
    }
    if (f & XF_AIA) {
        int n = t.below(4) == 0 ? 2 : 1;
        for (int i = 0; i < n; i++) {
            c05::AiaEntry a; a.method = (int) t.below(2); a.uri = gen_url(t, E, a.method ? "ca.cer" : "ocsp");
            if (!printable(a.uri) && (clean || t.below(8) != 0)) a.uri = "http://" + url_host(E) + "/ocsp";
            x.aia.push_back(a);
        }
    }
    auto plain = [&](void) -> S { // E, a wildcard form of E, or a case variant
        unsigned m = (unsigned) t.below(4);
        S v = m == 1 ? derive(t, E.text, R_WILD1) : m == 2 ? case_flip(t, E.text) : E.text;
        if (!printable(v) && (clean || t.below(8) != 0)) v = url_host(E);
        return v;
    };
    if (f & XF_AKI) { x.aki = true; x.aki_cn = plain(); }
    if (f & XF_OU) { x.ou = true; x.ouv = plain(); }
    if (f & XF_DNEMAIL) { x.dnemail = true; x.dnemailv = E.kind == EK_EMAIL || t.coin() ? plain() : "a@" + plain(); }
    return x;
}

// Validation scenario (late-drawn).  What "MatrixSSL accepts the name" means in each:
//   SC_PLAIN  leaf valid in time, signed by the trusted test CA:          rc == PS_SUCCESS, authStatus PASS, no SUBJECT flag.
//   SC_DATED  leaf expired / not yet valid (single-certificate chain), caller tolerates exactly that: the API reports authStatus ==
//             PS_CERT_AUTH_FAIL_EXTENSION with authFailFlags == PS_CERT_AUTH_FAIL_DATE_FLAG and nothing else ("all can be accessed with
//             authFailFlags", x509.c; MatrixSSL_API.pdf, certificate callback: a callback for which CERTIFICATE_EXPIRED can be ignored walks the chain
//             and looks at authStatus / authFailFlags; the dev guide tells platforms without a date function to do exactly this).  A name mismatch has
//             to show up as PS_CERT_AUTH_FAIL_SUBJECT_FLAG next to the date flag, otherwise such a caller accepts a certificate issued for another name.
//   SC_SELF   self-signed leaf validated with issuerCerts == NULL (the documented way "to validate a single, self-signed certificate",
//             MatrixSSL_CertificatesAndCRLs.pdf 2.1.5; matrixssl/test/certValidate.c does it): same criterion as SC_PLAIN.
enum { SC_PLAIN = 0, SC_DATED, SC_SELF };
static const char *SCN[] = { "plain", "dated-leaf+date-tolerant-caller", "self-signed+no-issuer-list" };
// ------------------------------------------------------------------ late-drawn dimensions (drawn after gen_extras: older tapes decode unchanged, all-zero = none)
// (a) single-bit neighbours: the subject CN or one subjectAltName entry is replaced by E (or the one-label wildcard of E, or a case variant of E) with ONE
//     character replaced by the byte that differs from it in exactly one bit - all 8 bit positions, letter and non-letter positions ('.' ~ 0x0e '/' ',' '*' '&' ...,
//     '-' ~ 0x0d, digits ~ 0x10-0x19 'p'-'y', '@' ~ '`' NUL ...).  Control characters can reach the matcher only through the CN (SAN strings with
//     non-printable bytes make the parser refuse the certificate), so the CN gets the raw neighbour and SAN entries prefer a printable one.
// (b) hidden NUL in a CN of every string type incl. BIT STRING with raw content octets (CN_BITRAW): E / wildcard of E + NUL + tail.
// (c) CN of type CN_BITRAW with an ordinary derived value.
// (d) the validation scenario (SC_*).
struct Late { int scen = SC_PLAIN; int validity = c05::VAL_OK; S what = "-"; };
static S flip_printable(Tape &t, const S &base) { // R_BITFLIP, but keep the result printable when some bit of the chosen character allows it
    if (base.empty()) return "a";
    S s = base; size_t k = t.below(s.size()); unsigned b = (unsigned) t.below(8);
    bool keep_raw = t.below(8) == 0;
    for (unsigned i = 0; i < 8; i++, b = (b + 1) & 7) {
        unsigned char ch = (unsigned char) s[k] ^ (unsigned char) (1u << b);
        if (keep_raw || (ch >= 0x20 && ch <= 0x7e)) { s[k] = (char) ch; return s; }
    }
    s[k] = (char) ((unsigned char) s[k] ^ 1u); return s;
}
static Late gen_late(Tape &t, const Exp &E, bool smoke, CertNames &cn, S &cn_how, std::vector<Ent> &ents) {
    Late L;
    static const int ALLT[] = { c05::CN_UTF8, c05::CN_PRINTABLE, c05::CN_IA5, c05::CN_T61, c05::CN_BMP, c05::CN_BIT, c05::CN_BITRAW, c05::CN_BITRAW };
    unsigned m = (unsigned) t.below(16);
    auto base_form = [&](void) -> S { // E, the one-label wildcard of E, or a case variant
        unsigned f = (unsigned) t.below(4);
        return f == 2 ? derive(t, E.text, R_WILD1) : f == 3 ? case_flip(t, E.text) : E.text;
    };
    auto set_cn = [&](const S &v, int type, const char *how) {
        cn.has_cn = true; cn.cn_type = type; cn.cn = v.empty() ? S("a") : v; cn_how = how;
        if (type == c05::CN_BMP) { S w; for (unsigned char ch : cn.cn) { w += '\0'; w += (char) ch; } cn.cn = w; }
    };
    if (!smoke && m >= 9) {
        if (m <= 11 || (m <= 13 && ents.empty())) {            // (a) CN := single-bit neighbour
            static const int CT8[] = { c05::CN_UTF8, c05::CN_UTF8, c05::CN_PRINTABLE, c05::CN_IA5, c05::CN_T61, c05::CN_UTF8, c05::CN_BMP, c05::CN_BITRAW };
            S v = derive(t, base_form(), R_BITFLIP);
            set_cn(v, cn.has_cn && cn.cn_type != c05::CN_BIT ? cn.cn_type : CT8[t.below(8)], "E:bitflip");
            L.what = "cn-bitflip";
        } else if (m <= 13) {                                   // (a) one SAN entry := single-bit neighbour (entry of any kind)
            Ent &e = ents[t.below(ents.size())];
            if (e.e.kind == c05::SK_IP) {
                S o = E.kind == EK_IP ? S((const char *) E.ip, 4) : (e.e.data.size() >= 4 ? e.e.data.substr(0, 4) : S("\x0a\x00\x00\x01", 4));
                e.e.data = derive(t, o, R_BITFLIP); e.how = "E:ip-bitflip";
            } else { e.e.data = flip_printable(t, base_form()); e.how = "E:bitflip"; }
            e.fromE = true;
            L.what = "san-bitflip";
        } else if (m == 14) {                                   // (b) hidden NUL, every CN encoding
            static const char *TAIL[] = { ".b", ".evil.org", "x", "" };
            S v = base_form() + S(1, '\0') + TAIL[t.below(4)];
            set_cn(v, ALLT[t.below(8)], "E:hidden-nul");
            L.what = "cn-hidden-nul";
        } else {                                                // (c) raw BIT STRING CN with an ordinary derived value
            bool fromE = t.below(4) != 0; int op = pick_rel(t);
            S v = derive(t, fromE ? E.text : gen_host(t), op);
            set_cn(v, c05::CN_BITRAW, "bitraw");
            cn_how = S(fromE ? "E:" : "rnd:") + RELN[op] + "/bitraw";
            L.what = "cn-bitraw";
        }
    }
    // (d) scenario: 10/16 plain, 4/16 dated leaf (expired or not yet valid), 2/16 self-signed without issuer list
    unsigned sm = (unsigned) t.below(16);
    if (sm >= 10 && sm < 14) { L.scen = SC_DATED; L.validity = (sm & 1) ? c05::VAL_NOT_YET : c05::VAL_EXPIRED; }
    else if (sm >= 14) L.scen = SC_SELF;
    return L;
}

// ------------------------------------------------------------------ running the real code
struct Verdict { int parse_rc = 0; int rc = 0; int auth = 0; int flags = 0; bool parsed = false; bool accept = false; bool san_misaligned = false; size_t san_parsed = 0; S structural; };

static Verdict evaluate(const Bytes &der, const LeafSpec &sp, const char *expected /* may be NULL */, int nameType, unsigned mFlags, unsigned vflags, int scen = SC_PLAIN) {
    Verdict v;
    psX509Cert_t *leaf = nullptr;
    v.parse_rc = psX509ParseCert(NULL, der.data(), (uint32) der.size(), &leaf, CERT_STORE_UNPARSED_BUFFER);
    if (v.parse_rc < 0 || !leaf) { if (leaf) psX509FreeCert(leaf); return v; }
    v.parsed = true;
    // root-cause monitor: the stored entries must be complete copies of the minted ones
    if (g_monitor) {
        static const int GN_ID[c05::SK_NKINDS] = { GN_DNS, GN_EMAIL, GN_IP, GN_URI, GN_OTHER, GN_DIR };
        x509GeneralName_t *n = leaf->extensions.san; size_t cnt = 0; bool aligned = true;
        for (; n; n = n->next, cnt++) if (cnt >= sp.san.size() || (int) n->id != GN_ID[sp.san[cnt].kind]) aligned = false;
        if (cnt != sp.san.size()) aligned = false;
        v.san_misaligned = !aligned; v.san_parsed = cnt;
        n = leaf->extensions.san;
        for (size_t i = 0; aligned && n; n = n->next, i++) {
            const S &d = sp.san[i].data;
            int k = sp.san[i].kind;
            if (k != c05::SK_DNS && k != c05::SK_EMAIL && k != c05::SK_URI && k != c05::SK_IP) continue;
            bool tnul = k != c05::SK_IP && !d.empty() && d.back() == '\0';
            bool ok = (size_t) n->dataLen == d.size() || (tnul && (size_t) n->dataLen == d.size() - 1);
            if (!ok && v.structural.empty())
                v.structural = fmt("SAN entry #%zu (%s, %zu bytes minted: \"%s\") is stored with dataLen=%u: the copy is short and not NUL-terminated",
                                   i, (const char *) n->name, d.size(), k == c05::SK_IP ? hex(d.data(), d.size()).c_str() : esc(d).c_str(), (unsigned) n->dataLen);
        }
    }
    if (v.structural.empty()) {
        matrixValidateCertsOptions_t o; memset(&o, 0, sizeof o);
        o.nameType = (expectedNameType_t) nameType; o.mFlags = mFlags; o.flags = vflags;
        std::unique_ptr<char[]> e;
        if (expected) { size_t l = strlen(expected); e.reset(new char[l + 1]); memcpy(e.get(), expected, l + 1); } // exact-size heap copy: over-reads are visible to ASan
        psX509Cert_t *found = nullptr;
        v.rc = matrixValidateCertsExt(NULL, leaf, scen == SC_SELF ? NULL : g_ca[sp.issuer & 1], e.get(), &found, NULL, NULL, &o);
        v.auth = leaf->authStatus; v.flags = (int) leaf->authFailFlags;
        v.accept = v.rc == PS_SUCCESS && leaf->authStatus == PS_CERT_AUTH_PASS && !(leaf->authFailFlags & PS_CERT_AUTH_FAIL_SUBJECT_FLAG);
        if (scen == SC_DATED && !v.accept) // the date is the only thing the API has against this certificate
            v.accept = v.rc == PS_CERT_AUTH_FAIL_EXTENSION && leaf->authStatus == PS_CERT_AUTH_FAIL_EXTENSION && leaf->authFailFlags == PS_CERT_AUTH_FAIL_DATE_FLAG;
    }
    psX509FreeCert(leaf);
    return v;
}

struct HsResult { bool ran = false; bool client_complete = false; bool server_complete = false; int open_rc = 0; int alert_at_server = -1; int srv_load_rc = 0; };
// A certificate callback written after MatrixSSL_API.pdf "The Certificate Validation Callback Function" for a use case in which CERTIFICATE_EXPIRED can
// be ignored: it does not simply return 0 for that alert but walks the chain and continues only if every certificate either authenticated fully or
// has nothing against it but its validity dates.
static int32 date_tolerant_cb(ssl_t *ssl, psX509Cert_t *cert, int32 alert) {
    (void) ssl;
    if (alert == 0) return 0;
    if (alert != SSL_ALERT_CERTIFICATE_EXPIRED) return alert;
    for (psX509Cert_t *c = cert; c; c = c->next) {
        if (c->authStatus == PS_CERT_AUTH_PASS) continue;
        if (c->authStatus == PS_CERT_AUTH_FAIL_EXTENSION && c->authFailFlags == PS_CERT_AUTH_FAIL_DATE_FLAG) continue;
        return SSL_ALERT_BAD_CERTIFICATE;
    }
    return 0;
}
static HsResult handshake(int issuer, const Bytes &leaf, const S &E, int nameType, unsigned mFlags, unsigned vflags, int ver, uint64_t eseed, int client_trust = -1, sslCertCb_t client_cb = nullptr) {
    HsResult r;
    sslKeys_t *sk = nullptr;
    if (matrixSslNewKeys(&sk, NULL) < 0) return r;
    const Bytes &key = c05::leaf_key_der(issuer);
    int auth = issuer == c05::ISS_RSA ? mxh::AUTH_RSA : mxh::AUTH_EC;
    matrixSslLoadKeysOpts_t lo; memset(&lo, 0, sizeof lo);
    lo.flags = LOAD_KEYS_OPT_ALLOW_OUT_OF_DATE_CERT_PARSE; // the *server* may present an expired certificate (SC_DATED); what the client makes of it is the subject
    lo.key_type = issuer == c05::ISS_RSA ? PS_RSA : PS_ECC;
    r.srv_load_rc = matrixSslLoadKeysMem(sk, leaf.data(), (int32) leaf.size(), key.data(), (int32) key.size(), NULL, 0, &lo);
    if (r.srv_load_rc >= 0) {
        vfh_entropy_reset(eseed);
        mxh::Pair p;
        mxh::Config sc, cc;
        sc.client = false; sc.versions = { ver }; sc.auth = auth; sc.keys = sk; sc.entropy_stream = 1;
        cc.client = true; cc.versions = { ver }; cc.auth = client_trust >= 0 ? client_trust : auth; cc.expected_name = E.c_str(); cc.entropy_stream = 0; cc.cert_cb = client_cb;
        cc.suites = { (uint16_t) (ver == mxh::TLS13 ? 0x1301 : issuer == c05::ISS_RSA ? 0xC02F : 0xC02B) };
        cc.tweak = [&](sslSessOpts_t &o) { o.validateCertsOpts.nameType = (expectedNameType_t) nameType; o.validateCertsOpts.mFlags = mFlags; o.validateCertsOpts.flags = vflags; };
        if (p.s.open(sc) >= 0) {
            r.open_rc = p.c.open(cc);
            if (r.open_rc >= 0) {
                r.ran = true;
                p.run();
                r.client_complete = p.c.hs_complete();
                r.server_complete = p.s.hs_complete();
                r.alert_at_server = p.s.fatal_alert_recv;
            }
        }
        p.c.close(); p.s.close();
    }
    matrixSslDeleteKeys(sk);
    return r;
}

// ------------------------------------------------------------------ permutations
static std::vector<std::vector<int>> choose_perms(Tape &t, int n) {
    std::vector<std::vector<int>> out;
    std::vector<int> id(n); for (int i = 0; i < n; i++) id[i] = i;
    if (n <= 1) { out.push_back(id); return out; }
    int full_upto = g_allperm ? 5 : 3;
    if (n <= full_upto) { std::vector<int> p = id; do out.push_back(p); while (std::next_permutation(p.begin(), p.end())); return out; }
    out.push_back(id);
    { std::vector<int> r(id.rbegin(), id.rend()); out.push_back(r); }
    for (int k = 1; k < n; k++) { std::vector<int> r(n); for (int i = 0; i < n; i++) r[i] = id[(i + k) % n]; out.push_back(r); } // every entry is first once / last once
    int extra = g_allperm ? 16 : 2;
    for (int k = 0; k < extra; k++) { std::vector<int> r = id; for (int i = n - 1; i > 0; i--) std::swap(r[i], r[t.below(i + 1)]); out.push_back(r); }
    return out;
}

static S describe(const Exp &E, int nameType, unsigned mFlags, unsigned vflags, const CertNames &cn, const std::vector<Ent> &ents, const std::vector<int> *perm) {
    S s = fmt("E=\"%s\"(%s) type=%s mFlags=%u flags=%u CN=", esc(E.text).c_str(), EKN[E.kind], NTN[nameType], mFlags, vflags);
    s += cn.has_cn ? fmt("t%d:\"%s\"", cn.cn_type, esc(cn.cn).c_str()) : S("-");
    s += " SAN=[";
    for (size_t i = 0; i < ents.size(); i++) {
        const Ent &e = ents[perm ? (*perm)[i] : (int) i];
        if (i) s += ", ";
        s += KCH[e.e.kind]; s += ':';
        s += e.e.kind == c05::SK_IP ? hex(e.e.data.data(), e.e.data.size()) : "\"" + esc(e.e.data) + "\"";
    }
    s += "]";
    if (g_cur_x && g_cur_x->any()) {
        const Extras &x = *g_cur_x;
        auto gn = [](const Ent &e) { return S(1, KCH[e.e.kind]) + ":" + (e.e.kind == c05::SK_IP ? hex(e.e.data.data(), e.e.data.size()) : "\"" + esc(e.e.data) + "\""); };
        if (!x.ian.empty()) { s += x.ian_first ? " issuerAltName(before SAN)=[" : " issuerAltName(after SAN)=["; for (size_t i = 0; i < x.ian.size(); i++) s += (i ? ", " : "") + gn(x.ian[i]); s += "]"; }
        for (auto &dp : x.crldp) { s += " crlDP=["; for (size_t i = 0; i < dp.size(); i++) s += (i ? ", " : "") + gn(dp[i]); s += "]"; }
        for (auto &a : x.aia) s += fmt(" AIA-%s=\"%s\"", a.method ? "caIssuers" : "ocsp", esc(a.uri).c_str());
        if (x.aki) s += " AKI-issuer-CN=\"" + esc(x.aki_cn) + "\"";
        if (x.ou) s += " OU=\"" + esc(x.ouv) + "\"";
        if (x.dnemail) s += " DN-email=\"" + esc(x.dnemailv) + "\"";
    }
    return s;
}

// classify an accept that the reference refuses, so that distinct root causes get distinct stable signatures.  A specific
// signature is given only when the suspected entry alone (certificate without CN and without other SAN entries) reproduces it.
static const char *classify_wrong_accept(const S &E, int nameType, int issuer, const CertNames &cn) {
    bool ipOK = nameType == NT_ANY || nameType == NT_SAN_IP;
    if (ipOK) {
        for (auto &e : cn.san) {
            if (e.kind != c05::SK_IP || e.data.size() < 4) continue;
            S txt = ip_text((const uint8_t *) e.data.data());
            const char *sig = nullptr;
            if (e.data.size() == 4 && txt.size() == 15 && txt.substr(0, 14) == E) sig = "ipv4-truncated-compare";
            else if (e.data.size() != 4 && (txt == E || (txt.size() == 15 && txt.substr(0, 14) == E))) sig = "ip-san-length-ignored";
            if (!sig) continue;
            LeafSpec one; one.issuer = issuer; one.san.push_back(e);
            Bytes der;
            if (c05::mint_leaf(one, der) && evaluate(der, one, E.c_str(), NT_SAN_IP, 0, 0).accept) return sig;
        }
    }
    return "accepts-name-not-in-cert";
}

// ------------------------------------------------------------------ the property
static void prop(Tape &t, Ctx &c) {
    // ---- generate the case
    bool smoke = t.below(16) == 15; // completeness smoke: clean certificate containing E as a dNSName
    Exp E = gen_expected(t);
    if (smoke) { E.kind = EK_HOST; E.text = gen_host(t); if (t.coin()) E.text = case_flip(t, E.text); E.judged = true; }
    int nameType; { unsigned m = (unsigned) t.below(8); nameType = m < 6 ? (int) m : (E.kind == EK_EMAIL ? NT_SAN_EMAIL : E.kind == EK_IP ? NT_SAN_IP : (m == 6 ? NT_HOSTNAME : NT_SAN_DNS)); }
    static const unsigned MF[] = { 0, 0, 0, VCERTS_MFLAG_ALWAYS_CHECK_SUBJECT_CN, VCERTS_MFLAG_ALWAYS_CHECK_SUBJECT_CN, VCERTS_MFLAG_SAN_EMAIL_CASE_INSENSITIVE_LOCAL_PART,
                                   VCERTS_MFLAG_SAN_EMAIL_CASE_INSENSITIVE_LOCAL_PART, VCERTS_MFLAG_ALWAYS_CHECK_SUBJECT_CN | VCERTS_MFLAG_SAN_EMAIL_CASE_INSENSITIVE_LOCAL_PART };
    unsigned mFlags = MF[t.below(8)];
    if ((mFlags & VCERTS_MFLAG_ALWAYS_CHECK_SUBJECT_CN) && nameType >= NT_SAN_DNS && t.below(8) != 0)
        mFlags &= ~VCERTS_MFLAG_ALWAYS_CHECK_SUBJECT_CN; // the combination is refused with PS_ARG_FAIL; keep it rare
    unsigned vflags = t.below(8) == 7 ? VCERTS_FLAG_VALIDATE_EXPECTED_GENERAL_NAME : 0;
    if (smoke) { static const int ST[] = { NT_ANY, NT_HOSTNAME, NT_SAN_DNS }; nameType = ST[t.below(3)]; if (nameType == NT_SAN_DNS) mFlags &= ~VCERTS_MFLAG_ALWAYS_CHECK_SUBJECT_CN; vflags = 0; }

    CertNames cn;
    S cn_how = "-";
    { unsigned m = (unsigned) t.below(16);
      if (m >= 5) {
          cn.has_cn = true;
          bool fromE = m < 13; int op = pick_rel(t);
          S base = fromE ? E.text : gen_name_of_kind(t, E.kind == EK_WEIRD ? EK_HOST : E.kind);
          cn.cn = derive(t, base, op); cn_how = S(fromE ? "E:" : "rnd:") + RELN[op];
          if (smoke && !printable(cn.cn)) { cn.cn = base; cn_how = "clean"; }
          static const int CT[] = { c05::CN_UTF8, c05::CN_UTF8, c05::CN_UTF8, c05::CN_UTF8, c05::CN_PRINTABLE, c05::CN_PRINTABLE, c05::CN_IA5, c05::CN_T61,
                                    c05::CN_UTF8, c05::CN_PRINTABLE, c05::CN_IA5, c05::CN_T61, c05::CN_UTF8, c05::CN_UTF8, c05::CN_BMP, c05::CN_BIT };
          cn.cn_type = smoke ? c05::CN_UTF8 : CT[t.below(16)];
          if (cn.cn.empty()) cn.cn = "a";
          if (cn.cn_type == c05::CN_BMP) { S w; for (unsigned char ch : cn.cn) { w += '\0'; w += (char) ch; } cn.cn = w; }
      } }
    std::vector<Ent> ents;
    // list sizes: mostly small (all permutations are tried), some long ones - real certificates carry dozens of names and the parser
    // documents no limit
    { static const int NS[] = { 0, 1, 2, 2, 3, 3, 4, 9, 1, 3, 5, 6, 4, 12, 17, 33 };
      int n = NS[t.below(16)];
      if (smoke && n == 0) n = 1;
      int forced = -1;
      if (n > 0 && (smoke || t.below(16) < 5)) forced = (int) t.below(n);
      for (int i = 0; i < n; i++) {
          if (i == forced) {
              if (smoke) { Ent e; e.e.kind = c05::SK_DNS; e.e.data = E.text; e.how = "E:identical!"; e.fromE = true; ents.push_back(e); }
              else ents.push_back(gen_matching_entry(t, E));
              continue;
          }
          Ent e = gen_entry(t, E);
          if (smoke) { // keep the certificate clean: printable strings, well-formed IP lengths
              bool str = e.e.kind != c05::SK_IP;
              if (str && !printable(e.e.data)) { e.e.data = gen_host(t); e.how = "clean"; }
              if (!str && e.e.data.size() != 4 && e.e.data.size() != 16) { e.e.data = S("\x0a\x00\x00\x01", 4); e.how = "clean"; }
          }
          ents.push_back(e);
      } }
    bool crit = t.below(8) == 0;
    int issuer = t.below(16) == 15 ? c05::ISS_EC : c05::ISS_RSA; // RSA verification is ~10x cheaper under ASan; EC keeps the ECDSA path covered
    bool do_hs = t.below(g_hs_den) == 0;
    int hs_ver = t.coin() ? mxh::TLS13 : mxh::TLS12;
    uint64_t hs_seed = t.u16();
    std::vector<std::vector<int>> perms = choose_perms(t, (int) ents.size());
    g_cur_x = nullptr;
    Extras X = gen_extras(t, E, smoke); // drawn last: tapes recorded before this dimension existed decode to the same (E, CN, SAN, permutations)
    g_cur_x = &X;
    Late late = gen_late(t, E, smoke, cn, cn_how, ents); // drawn after everything else (see gen_late)
    const int scen = late.scen;
    for (auto &e : ents) cn.san.push_back(e.e);

    // ---- statistics and the non-trivial rule
    std::set<S> rels; bool nm = false;
    for (auto &e : ents) {
        S txt = e.e.kind == c05::SK_IP ? (e.e.data.size() >= 4 ? ip_text((const uint8_t *) e.e.data.data()) : S("?")) : e.e.data;
        const char *r = relation(E.text, txt);
        if (e.e.kind == c05::SK_IP && e.e.data.size() != 4 && !strcmp(r, "equal")) r = "ip-length-mismatch";
        rels.insert(S(1, KCH[e.e.kind]) + ":" + r);
        c.count(S("rel-san-") + r); c.count(S("san-kind-") + KCH[e.e.kind]); c.count("how-" + e.how.substr(0, e.how.find('+')));
        if (near_miss(r)) nm = true;
    }
    if (cn.has_cn) { S s; const char *r = ref_cn_string(cn, s) ? relation(E.text, s) : relation(E.text, cn.cn); rels.insert(S("C:") + r); c.count(S("rel-cn-") + r); c.count(fmt("cn-type-%d", cn.cn_type)); if (near_miss(r)) nm = true; }
    else c.count("cn-absent");
    // non-subject names: would they match if they were subject names?  (statistics + non-trivial rule only; the reference never sees them)
    S xkey; bool ian_would = false, other_would = false;
    {   auto would = [&](const SanEntry &e) { CertNames one; one.san.push_back(e); return ref_accept(E.text, nameType, 0, one); };
        auto cn_would = [&](const S &v) { CertNames one; one.has_cn = true; one.cn = v; one.cn_type = c05::CN_UTF8; return ref_accept(E.text, nameType, 0, one); };
        auto elsewhere = [&](const Ent &e) { for (auto &s2 : ents) if (s2.e.kind == e.e.kind && s2.e.data == e.e.data) return true; return cn.has_cn && cn.cn == e.e.data; };
        if (!X.any()) c.count("x-none");
        if (!X.ian.empty()) {
            c.count("x-ian"); c.count(fmt("ian-len-%zu", X.ian.size())); c.count(X.ian_first ? "ian-before-san" : "ian-after-san");
            std::set<S> irels; bool only = false;
            for (auto &e : X.ian) {
                S txt = e.e.kind == c05::SK_IP ? (e.e.data.size() >= 4 ? ip_text((const uint8_t *) e.e.data.data()) : S("?")) : e.e.data;
                const char *r = relation(E.text, txt);
                c.count(S("ian-kind-") + KCH[e.e.kind]); c.count(S("rel-ian-") + r);
                irels.insert(S(1, KCH[e.e.kind]) + ":" + r);
                if (would(e.e)) ian_would = true;
                if (!elsewhere(e)) only = true;
                if (near_miss(r) || !strcmp(r, "equal")) nm = true;
                xkey += KCH[e.e.kind];
            }
            xkey = "ian=" + xkey + ":"; for (auto &r : irels) xkey += r + ",";
            if (only) c.count("ian-has-name-present-nowhere-else");
            if (ian_would) c.count("ian-would-match-E");
            bool supported = false; for (auto &e : ents) if (supported_kind(e.e.kind)) supported = true;
            bool isup = false; for (auto &e : X.ian) if (supported_kind(e.e.kind)) isup = true;
            if (cn.has_cn && !supported) { c.count("ian-with-cn-and-no-supported-san"); if (isup) c.count("ian-supported-kind-with-cn-and-no-supported-san"); }
        }
        if (!X.crldp.empty()) { c.count("x-crldp"); for (auto &dp : X.crldp) for (auto &e : dp) { c.count(S("crldp-kind-") + KCH[e.e.kind]); if (would(e.e)) other_would = true; if (e.e.data.find(E.text) != S::npos) c.count("crldp-contains-E"); } xkey += "|dp"; }
        if (!X.aia.empty()) { c.count("x-aia"); for (auto &a : X.aia) if (a.uri.find(E.text) != S::npos) c.count("aia-contains-E"); xkey += "|aia"; }
        if (X.aki) { c.count("x-aki-issuer"); if (cn_would(X.aki_cn)) other_would = true; xkey += "|aki"; }
        if (X.ou) { c.count("x-dn-ou"); if (cn_would(X.ouv)) other_would = true; xkey += "|ou"; }
        if (X.dnemail) { c.count("x-dn-email"); SanEntry e{ c05::SK_EMAIL, X.dnemailv }; if (would(e) || cn_would(X.dnemailv)) other_would = true; xkey += "|dnemail"; }
        if (other_would) c.count("other-non-subject-name-would-match-E");
    }
    c.count(S("late-") + late.what); c.count(S("scenario-") + SCN[scen]); if (scen == SC_DATED) c.count(late.validity == c05::VAL_EXPIRED ? "leaf-expired" : "leaf-not-yet-valid");
    if (cn.has_cn && cn.cn_type != c05::CN_BMP && cn.cn.find('\0') != S::npos) c.count(fmt("cn-with-nul-type-%d", cn.cn_type));
    c.count(fmt("san-len-%zu", ents.size())); c.count(issuer == c05::ISS_EC ? "issuer-ec" : "issuer-rsa"); c.count(S("nameType-") + NTN[nameType]); c.count(fmt("mFlags-%u", mFlags)); c.count(S("E-kind-") + EKN[E.kind]);
    if (!E.judged) c.count("E-nonprintable-unjudged");
    if (smoke) c.count("smoke-cases");
    S shape;
    for (auto &e : ents) shape += KCH[e.e.kind];
    if (nm || ents.size() >= 2) {
        S key = shape + "|" + NTN[nameType] + "|" + std::to_string(mFlags) + "|";
        for (auto &r : rels) key += r + ",";
        key += "|" + xkey + "|" + SCN[scen];
        c.nontrivial(key);
        c.count("nontrivial");
    }
    bool ref = ref_accept(E.text, nameType, mFlags, cn);
    c.count(ref ? "ref-accept" : "ref-reject");
    if (ian_would) c.count(ref ? "ian-would-match-E&ref-accept" : "ian-would-match-E&ref-reject");
    if (other_would && !ref) c.count("other-non-subject-name-would-match-E&ref-reject");
    if (!X.ian.empty() && ref) { bool sanhit = false; { CertNames nocn = cn; nocn.has_cn = false; sanhit = ref_accept(E.text, nameType, mFlags, nocn); } if (!sanhit) c.count("ian-present&ref-accept-by-cn-only"); }

    // ---- run every permutation through the real code
    LeafSpec sp; sp.has_cn = cn.has_cn; sp.cn_type = cn.cn_type; sp.cn = cn.cn; sp.san_critical = crit; sp.issuer = issuer;
    sp.validity = late.validity; sp.self_signed = scen == SC_SELF;
    X.apply(sp);
    // An accept the reference refuses: name the root cause.  In a non-plain scenario the same names are first put into a plain certificate (valid dates,
    // CA-signed, validated against the CA); only if that one is refused is the scenario itself what let the name through.
    auto wrong_accept_sig = [&](void) -> S {
        if (scen != SC_PLAIN) {
            LeafSpec pl = sp; pl.validity = c05::VAL_OK; pl.self_signed = false; Extras none; none.apply(pl);
            pl.san.clear(); for (auto &e : ents) pl.san.push_back(e.e);
            Bytes d;
            if (c05::mint_leaf(pl, d)) { Verdict pv = evaluate(d, pl, E.text.c_str(), nameType, mFlags, vflags, SC_PLAIN);
                if (pv.parsed && !pv.accept) return scen == SC_DATED ? "name-not-checked-on-dated-leaf" : "name-not-checked-without-issuer-list"; }
        }
        if (cn.has_cn && cn.cn_type != c05::CN_BMP && cn.cn.find('\0') != S::npos) { // does the CN alone do it?
            LeafSpec one; one.issuer = issuer; one.has_cn = true; one.cn_type = cn.cn_type; one.cn = cn.cn;
            Bytes d;
            if (c05::mint_leaf(one, d) && evaluate(d, one, E.text.c_str(), nameType == NT_ANY || nameType == NT_HOSTNAME ? nameType : NT_CN, 0, 0).accept) return "cn-hidden-nul-accepted";
        }
        return classify_wrong_accept(E.text, nameType, issuer, cn);
    };
    std::vector<Verdict> vs; Bytes first_der;
    for (size_t pi = 0; pi < perms.size(); pi++) {
        sp.san.clear(); for (int i : perms[pi]) sp.san.push_back(ents[i].e);
        sp.serial = 0x1000 + pi;
        Bytes der;
        if (!c05::mint_leaf(sp, der)) { c.count("mint-failed"); throw Discard(); }
        if (pi == 0) first_der = der;
        Verdict v = evaluate(der, sp, E.text.c_str(), nameType, mFlags, vflags, scen);
        c.count("certs-evaluated");
        if (!v.structural.empty())
            VF_FAIL("unterminated-san-string", "%s | %s", v.structural.c_str(), describe(E, nameType, mFlags, vflags, cn, ents, &perms[pi]).c_str());
        vs.push_back(v);
    }
    const Verdict &v0 = vs[0];
    if (v0.parsed && v0.san_misaligned) c.count("monitor-parsed-san-list-differs-from-minted");
    if (X.any()) c.count(!v0.parsed ? "x-verdict-parse-fail" : v0.accept ? "x-verdict-accept" : "x-verdict-reject");
    c.count(!v0.parsed ? "verdict-parse-fail" : v0.accept ? "verdict-accept" : (v0.rc == PS_ARG_FAIL ? "verdict-arg-fail" : "verdict-reject"));
    if (v0.accept && !E.judged) c.count("accept-unjudged");
    if (ref && !v0.accept) c.count("stricter-than-reference");
    c.sample(describe(E, nameType, mFlags, vflags, cn, ents, nullptr) + fmt(" scenario=%s perms=%zu -> %s (ref %s)", SCN[scen], perms.size(), v0.accept ? "ACCEPT" : v0.parsed ? "reject" : "parse-fail", ref ? "accept" : "reject"));

    // oracle 2: permutation invariance
    for (size_t pi = 1; pi < vs.size(); pi++) {
        if (vs[pi].accept != v0.accept || vs[pi].parsed != v0.parsed)
            VF_FAIL("san-order-dependent-verdict", "order A: %s -> %s (rc=%d) ; order B: %s -> %s (rc=%d)",
                    describe(E, nameType, mFlags, vflags, cn, ents, &perms[0]).c_str(), v0.accept ? "ACCEPT" : v0.parsed ? "reject" : "parse-fail", v0.parsed ? v0.rc : v0.parse_rc,
                    describe(E, nameType, mFlags, vflags, cn, ents, &perms[pi]).c_str(), vs[pi].accept ? "ACCEPT" : vs[pi].parsed ? "reject" : "parse-fail", vs[pi].parsed ? vs[pi].rc : vs[pi].parse_rc);
    }
    if (perms.size() > 1) c.count("perm-sets-checked");
    // oracle 5: names outside subjectAltName / subject CN never turn a reject into an accept (control = the same certificate without them)
    if (X.any() && (!v0.parsed || v0.accept || ref)) {
        LeafSpec sp0 = sp; Extras none; none.apply(sp0);
        sp0.san.clear(); for (int i : perms[0]) sp0.san.push_back(ents[i].e);
        sp0.serial = 0x1000;
        Bytes der0;
        if (!c05::mint_leaf(sp0, der0)) { c.count("mint-failed"); throw Discard(); }
        Verdict ctl = evaluate(der0, sp0, E.text.c_str(), nameType, mFlags, vflags, scen);
        c.count("control-certs-evaluated");
        if (!v0.parsed) c.count(ctl.parsed ? "x-parse-fail-caused-by-non-subject-field" : "x-parse-fail-also-without-non-subject-fields"); // generator health: the former must stay rare
        if (v0.accept && ctl.parsed && !ctl.accept)
            VF_FAIL("accepts-name-from-non-subject-field", "ACCEPTED, but the identical certificate without the issuerAltName / CRL-DP / AIA / AKI-issuer / OU / DN-email names is rejected (rc=%d): a name that does not name the subject decided the match: %s",
                    ctl.rc, describe(E, nameType, mFlags, vflags, cn, ents, nullptr).c_str());
        if (ctl.accept && E.judged && !ref) { // oracle 1 on the control certificate (keeps the cases useful whose non-subject fields were refused by the parser)
            g_cur_x = nullptr;
            VF_FAIL(wrong_accept_sig(), "matrixValidateCertsExt ACCEPTED the name (scenario %s) but no name in the certificate matches per the property: %s",
                    SCN[scen], describe(E, nameType, mFlags, vflags, cn, ents, nullptr).c_str());
        }
        if (v0.parsed && !v0.accept && ctl.accept) { c.count("extras-turn-accept-into-reject"); if (!X.ian.empty()) c.count("ian-turns-accept-into-reject"); }
    }
    // oracle 1: accepts => reference accepts
    if (v0.accept && E.judged && !ref)
        VF_FAIL(wrong_accept_sig(), "matrixValidateCertsExt ACCEPTED the name (scenario %s: rc=%d authStatus=%d authFailFlags=0x%x) but no name in the certificate matches per the property: %s",
                SCN[scen], v0.rc, v0.auth, v0.flags, describe(E, nameType, mFlags, vflags, cn, ents, nullptr).c_str());
    if (v0.accept && !ref) c.count(S("accept-unjudged-") + SCN[scen]);
    // oracle 3: completeness smoke
    if (smoke && !v0.accept) {
        LeafSpec bare; bare.issuer = issuer;
        Verdict ctl = evaluate(first_der, bare, NULL, NT_ANY, 0, 0, scen); // same certificate without an expected name: is the chain itself fine?
        if (ctl.accept)
            VF_FAIL("identical-dnsname-rejected", "E is byte-identical to a dNSName of a clean, otherwise valid certificate but was rejected (rc=%d parse=%d): %s",
                    v0.rc, v0.parse_rc, describe(E, nameType, mFlags, vflags, cn, ents, nullptr).c_str());
        c.count("smoke-chain-rejected");
    }
    if (smoke) c.count("smoke-accepted");

    // ---- sample: the same through matrixSslNewClientSession + handshake
    if (do_hs && v0.parsed && scen != SC_SELF) { // (a client never reaches a self-signed server certificate's name: without its CA it is unknown_ca)
        HsResult h = handshake(issuer, first_der, E.text, nameType, mFlags, vflags, hs_ver, hs_seed, -1, scen == SC_DATED ? date_tolerant_cb : nullptr);
        if (scen == SC_DATED) c.count("hs-dated-leaf-with-date-tolerant-callback");
        if (h.srv_load_rc < 0) c.count("hs-server-key-load-failed");
        else if (!h.ran) c.count(h.open_rc == PS_ARG_FAIL ? "hs-expected-name-refused-by-api" : "hs-open-failed");
        else {
            c.count(S("hs-ran-") + mxh::ver_name(hs_ver));
            c.count(h.client_complete ? "hs-complete" : "hs-refused");
            if (!h.client_complete && h.alert_at_server == SSL_ALERT_CERTIFICATE_UNKNOWN) c.count("hs-alert-certificate-unknown");
            if (h.client_complete != v0.accept) c.count(h.client_complete ? "hs-accepts-direct-rejects" : "hs-rejects-direct-accepts");
            if (h.client_complete && !ref && v0.rc == PS_ARG_FAIL)
                VF_FAIL(scen == SC_DATED ? "callback-told-success-after-validation-error" : "handshake-ignores-validation-error",
                        "%s handshake COMPLETED%s although matrixValidateCertsExt refuses these options with PS_ARG_FAIL (no name check, no chain check was done): %s",
                        mxh::ver_name(hs_ver), scen == SC_DATED ? " (the certificate callback continues only on alert 0 or on an expired-only chain)" : "", describe(E, nameType, mFlags, vflags, cn, ents, nullptr).c_str());
            if (h.client_complete && !ref)
                VF_FAIL(S("handshake-") + wrong_accept_sig(),"%s handshake COMPLETED with expectedName (scenario %s) although no certificate name matches: %s",
                        mxh::ver_name(hs_ver), SCN[scen], describe(E, nameType, mFlags, vflags, cn, ents, nullptr).c_str());
            // the direct call accepted this very certificate for E: a refusal *for the name* (certificate_unknown) contradicts it
            if (smoke && v0.accept && !h.client_complete && h.alert_at_server == SSL_ALERT_CERTIFICATE_UNKNOWN)
                VF_FAIL("handshake-identical-dnsname-rejected", "%s handshake refused with certificate_unknown although E is byte-identical to a dNSName and matrixValidateCertsExt accepts it: %s",
                        mxh::ver_name(hs_ver), describe(E, nameType, mFlags, vflags, cn, ents, nullptr).c_str());
            if (smoke && v0.accept && !h.client_complete) c.count("hs-smoke-refused-for-other-reason");
        }
    }
}

// ------------------------------------------------------------------ development aid: hand-written scenarios (c05_names --probe [crash])
static void probe_line(const char *title, int issuer, const S &E, int nameType, unsigned mFlags, const CertNames &cn, int scen = SC_PLAIN, int validity = c05::VAL_OK) {
    LeafSpec sp; sp.issuer = issuer; sp.has_cn = cn.has_cn; sp.cn = cn.cn; sp.cn_type = cn.cn_type; sp.san = cn.san; sp.validity = validity; sp.self_signed = scen == SC_SELF;
    Bytes der; if (!c05::mint_leaf(sp, der)) { printf("%s: mint failed\n", title); return; }
    Verdict v = evaluate(der, sp, E.c_str(), nameType, mFlags, 0, scen);
    std::vector<Ent> ents; for (auto &e : cn.san) { Ent x; x.e = e; ents.push_back(x); }
    Exp X; X.text = E;
    printf("%-34s %s -> %s (parse=%d rc=%d authStatus=%d failFlags=0x%x) reference=%s%s%s\n", title, describe(X, nameType, mFlags, 0, cn, ents, nullptr).c_str(),
           v.accept ? "ACCEPT" : v.parsed ? "reject" : "parse-fail", v.parse_rc, v.rc, v.auth, v.flags, ref_accept(E, nameType, mFlags, cn) ? "accept" : "reject",
           v.structural.empty() ? "" : " MONITOR: ", v.structural.c_str());
    fflush(stdout);
}
static void run_probe(bool crash) {
    CertNames c;
    auto san = [&](std::initializer_list<SanEntry> l) { c = CertNames(); c.san.assign(l.begin(), l.end()); };
    san({ { c05::SK_EMAIL, "ab@a.b" }, { c05::SK_DNS, S("x\0", 2) } });            probe_line("f6 email first", 1, "ab@a.b", NT_SAN_EMAIL, 0, c);
    san({ { c05::SK_DNS, S("x\0", 2) }, { c05::SK_EMAIL, "ab@a.b" } });            probe_line("f6 email after NUL-terminated", 1, "ab@a.b", NT_SAN_EMAIL, 0, c);
    san({ { c05::SK_DNS, S("x\0", 2) }, { c05::SK_EMAIL, "ab@a.bc" } });           probe_line("f6 email after NUL, E shorter", 1, "ab@a.b", NT_SAN_EMAIL, 0, c);
    san({ { c05::SK_IP, S("\x64\x64\x64\x64", 4) } });                              probe_line("ip 15 chars vs 14-char prefix", 1, "100.100.100.10", NT_SAN_IP, 0, c);
    san({ { c05::SK_IP, S("\x64\x64\x64\x64", 4) } });                              probe_line("ip 15 chars vs itself", 1, "100.100.100.100", NT_SAN_IP, 0, c);
    san({ { c05::SK_IP, S("\xff\xff\xff\xfa", 4) } });                              probe_line("ip 255.255.255.250 vs .25", 1, "255.255.255.25", NT_ANY, 0, c);
    san({ { c05::SK_IP, S("\x0a\x00\x00\x01", 4) + S(12, '\0') } });              probe_line("ipv6 a00:1:: vs 10.0.0.1", 1, "10.0.0.1", NT_SAN_IP, 0, c);
    san({ { c05::SK_IP, S("\x0a\x00\x00\x01\x07", 5) } });                         probe_line("5-byte iPAddress vs 10.0.0.1", 1, "10.0.0.1", NT_ANY, 0, c);
    san({ { c05::SK_DNS, "other.example" } });                                      probe_line("illegal options (direct call)", 0, "a", NT_SAN_DNS, VCERTS_MFLAG_ALWAYS_CHECK_SUBJECT_CN, c);
    {   LeafSpec sp; sp.issuer = c05::ISS_EC; sp.san = c.san; Bytes der; c05::mint_leaf(sp, der);
        for (int ver : { (int) mxh::TLS12, (int) mxh::TLS13 }) {
            HsResult a = handshake(c05::ISS_EC, der, "a", NT_SAN_DNS, VCERTS_MFLAG_ALWAYS_CHECK_SUBJECT_CN, 0, ver, 3);
            HsResult b = handshake(c05::ISS_EC, der, "a", NT_SAN_DNS, VCERTS_MFLAG_ALWAYS_CHECK_SUBJECT_CN, 0, ver, 3, mxh::AUTH_RSA);
            HsResult d = handshake(c05::ISS_EC, der, "a", NT_SAN_DNS, 0, 0, ver, 3);
            printf("%s handshake, leaf SAN=[D:other.example] E=\"a\": SAN_DNS+ALWAYS_CHECK_CN -> client complete=%d ; same but client trusts only the RSA CA (leaf is EC-CA signed) -> complete=%d ; legal options SAN_DNS -> complete=%d (alert at server %d)\n",
                   mxh::ver_name(ver), a.client_complete, b.client_complete, d.client_complete, d.alert_at_server);
        }
    }
    for (int iss = 0; iss < 2; iss++) { // cost breakdown
        LeafSpec sp; sp.issuer = iss; sp.has_cn = true; sp.cn = "a.b"; sp.san = { { c05::SK_DNS, "a.b" }, { c05::SK_DNS, "*.a.b" }, { c05::SK_IP, S("\x0a\x00\x00\x01", 4) } };
        Bytes der; double t0 = now_s(); const int N = 200;
        for (int i = 0; i < N; i++) c05::mint_leaf(sp, der);
        double t1 = now_s();
        for (int i = 0; i < N; i++) { psX509Cert_t *l = nullptr; psX509ParseCert(NULL, der.data(), (uint32) der.size(), &l, CERT_STORE_UNPARSED_BUFFER); psX509FreeCert(l); }
        double t2 = now_s();
        for (int i = 0; i < N; i++) evaluate(der, sp, "a.b", NT_ANY, 0, 0);
        double t3 = now_s();
        printf("cost (%s issuer): mint %.2f ms, parse %.2f ms, parse+validate %.2f ms per certificate\n", iss ? "RSA" : "EC", (t1 - t0) * 1000 / N, (t2 - t1) * 1000 / N, (t3 - t2) * 1000 / N);
    }
    {   // non-subject names (issuerAltName etc.): none of these may be accepted for "ca.b"
        Extras x; Ent e; e.e = SanEntry{ c05::SK_DNS, "ca.b" }; x.ian.push_back(e); e.e = SanEntry{ c05::SK_EMAIL, "pki@ca.b" }; x.ian.push_back(e);
        x.crldp.emplace_back(); e.e = SanEntry{ c05::SK_DNS, "ca.b" }; x.crldp.back().push_back(e); e.e = SanEntry{ c05::SK_URI, "http://ca.b/ca.crl" }; x.crldp.back().push_back(e);
        x.aia.push_back(c05::AiaEntry{ 0, "http://ca.b/ocsp" }); x.aki = true; x.aki_cn = "ca.b"; x.ou = true; x.ouv = "ca.b"; x.dnemail = true; x.dnemailv = "pki@ca.b";
        g_cur_x = &x;
        for (int withsan = 0; withsan < 2; withsan++) {
            CertNames cc; cc.has_cn = true; cc.cn = "leaf.b"; if (withsan) cc.san.push_back(SanEntry{ c05::SK_DNS, "leaf.b" });
            LeafSpec sp; sp.issuer = 1; sp.has_cn = true; sp.cn = cc.cn; sp.san = cc.san; x.apply(sp);
            Bytes der; if (!c05::mint_leaf(sp, der)) { printf("extras: mint failed\n"); continue; }
            std::vector<Ent> ents; for (auto &s2 : cc.san) { Ent q; q.e = s2; ents.push_back(q); }
            static const struct { const char *E; int nt; } Q[] = { { "leaf.b", NT_ANY }, { "ca.b", NT_ANY }, { "ca.b", NT_SAN_DNS }, { "ca.b", NT_CN }, { "pki@ca.b", NT_ANY }, { "pki@ca.b", NT_SAN_EMAIL } };
            for (auto &q : Q) {
                Verdict v = evaluate(der, sp, q.E, q.nt, 0, 0); Exp XE; XE.text = q.E;
                printf("non-subject names %-8s %s -> %s (parse=%d rc=%d) reference=%s\n", withsan ? "(SAN)" : "(CN only)", describe(XE, q.nt, 0, 0, cc, ents, nullptr).c_str(),
                       v.accept ? "ACCEPT" : v.parsed ? "reject" : "parse-fail", v.parse_rc, v.rc, ref_accept(q.E, q.nt, 0, cc) ? "accept" : "reject");
            }
        }
        g_cur_x = nullptr;
    }
    {   // round 5: hidden NUL in a BIT STRING commonName; name check on a dated leaf / without issuer list
        CertNames k; k.has_cn = true; k.cn = S("good.example.com\0.evil.org", 26);
        for (int ty : { (int) c05::CN_UTF8, (int) c05::CN_BIT, (int) c05::CN_BITRAW }) { k.cn_type = ty; probe_line("hidden NUL in CN", 1, "good.example.com", NT_ANY, 0, k); }
        k.cn = "good.example.com"; k.cn_type = c05::CN_BITRAW; probe_line("raw BIT STRING CN, no NUL", 1, "good.example.com", NT_ANY, 0, k);
        san({ { c05::SK_DNS, "other.example" } });
        for (const char *e : { "other.example", "good.example.com" }) {
            probe_line("plain leaf", 1, e, NT_ANY, 0, c);
            probe_line("expired leaf", 1, e, NT_ANY, 0, c, SC_DATED, c05::VAL_EXPIRED);
            probe_line("not-yet-valid leaf", 1, e, NT_ANY, 0, c, SC_DATED, c05::VAL_NOT_YET);
            probe_line("self-signed, issuerCerts=NULL", 1, e, NT_ANY, 0, c, SC_SELF);
        }
        LeafSpec sp; sp.issuer = 1; sp.san = c.san; sp.validity = c05::VAL_EXPIRED; Bytes der; c05::mint_leaf(sp, der);
        for (int ver : { (int) mxh::TLS12, (int) mxh::TLS13 }) for (const char *e : { "other.example", "good.example.com" }) {
            HsResult a = handshake(1, der, e, NT_ANY, 0, 0, ver, 3), b = handshake(1, der, e, NT_ANY, 0, 0, ver, 3, -1, date_tolerant_cb);
            printf("%s handshake, expired leaf SAN=[D:other.example], E=\"%s\": no callback -> complete=%d (alert at server %d) ; date-tolerant callback -> complete=%d (alert at server %d)\n",
                   mxh::ver_name(ver), e, a.client_complete, a.alert_at_server, b.client_complete, b.alert_at_server);
        }
    }
    if (crash) { san({ { c05::SK_DNS, S("x\0", 2) }, { c05::SK_DNS, "a.b" } });       probe_line("f6 dNSName after NUL-terminated", 1, "a.b", NT_SAN_DNS, 0, c); }
}

VF_TARGET("c05_names", prop, 400, 60)

namespace vf {
void vf_global_init(int argc, char **argv) {
    int probe = 0;
    for (int i = 1; i < argc; i++) {
        if (!strcmp(argv[i], "--allperm")) g_allperm = true;
        if (!strcmp(argv[i], "--no-monitor")) g_monitor = false;
        if (!strcmp(argv[i], "--probe")) probe = 1 + (i + 1 < argc && !strcmp(argv[i + 1], "crash"));
        if (!strcmp(argv[i], "--hs-den") && i + 1 < argc) g_hs_den = (unsigned) atoi(argv[i + 1]);
    }
    if (g_hs_den == 0) g_hs_den = 1;
    mxh::global_open();
    vf::leak_check_interval() = 100; // the harness default (LeakSanitizer scan after every case) costs ~50 ms per case here; every 100th case keeps leaks attributable at ~1% of that
    std::string d = mxh::verif_dir() + "/pki/", err;
    if (!c05::mint_init(c05::ISS_EC, d + "ca_ec.pem", d + "ca_ec.key", d + "srv_ec.key", &err) ||
        !c05::mint_init(c05::ISS_RSA, d + "ca_rsa.pem", d + "ca_rsa.key", d + "srv_rsa.key", &err)) { fprintf(stderr, "[c05] mint_init: %s\n", err.c_str()); abort(); }
    for (int iss = 0; iss < 2; iss++) {
        const Bytes &ca = c05::ca_der(iss);
        if (psX509ParseCert(NULL, ca.data(), (uint32) ca.size(), &g_ca[iss], CERT_STORE_UNPARSED_BUFFER) < 0 || !g_ca[iss]) { fprintf(stderr, "[c05] cannot parse CA %d\n", iss); abort(); }
        // infrastructure self-test: a plain certificate must be accepted for its name and refused for another, directly and in a handshake
        LeafSpec sp; sp.issuer = iss; sp.has_cn = true; sp.cn = "verif leaf"; sp.san.push_back(SanEntry{ c05::SK_DNS, "localhost" });
        Bytes der;
        if (!c05::mint_leaf(sp, der)) { fprintf(stderr, "[c05] cannot mint\n"); abort(); }
        Verdict a = evaluate(der, sp, "localhost", NT_ANY, 0, 0), b = evaluate(der, sp, "localhosu", NT_ANY, 0, 0), n = evaluate(der, sp, NULL, NT_ANY, 0, 0);
        if (!a.accept || b.accept || !n.accept) {
            fprintf(stderr, "[c05] self-test failed (issuer %d): parse=%d match rc=%d accept=%d ; mismatch rc=%d accept=%d ; no-name rc=%d accept=%d\n", iss, a.parse_rc, a.rc, a.accept, b.rc, b.accept, n.rc, n.accept);
            abort();
        }
        {   // scenario self-tests: with the RIGHT name a dated leaf has nothing but the date flag against it, and a self-signed leaf passes without issuer list
            LeafSpec d = sp; d.validity = c05::VAL_EXPIRED; Bytes dd; LeafSpec ny = sp; ny.validity = c05::VAL_NOT_YET; Bytes nd; LeafSpec ss = sp; ss.self_signed = true; Bytes sd;
            LeafSpec br = sp; br.cn_type = c05::CN_BITRAW; Bytes bd;
            if (!c05::mint_leaf(d, dd) || !c05::mint_leaf(ny, nd) || !c05::mint_leaf(ss, sd) || !c05::mint_leaf(br, bd)) { fprintf(stderr, "[c05] cannot mint scenario leaves\n"); abort(); }
            Verdict a1 = evaluate(dd, d, "localhost", NT_ANY, 0, 0, SC_DATED), a2 = evaluate(nd, ny, "localhost", NT_ANY, 0, 0, SC_DATED), a3 = evaluate(sd, ss, "localhost", NT_ANY, 0, 0, SC_SELF),
                    a4 = evaluate(dd, d, "localhost", NT_ANY, 0, 0, SC_PLAIN), a5 = evaluate(bd, br, "localhost", NT_ANY, 0, 0, SC_PLAIN);
            if (!a1.accept || !a2.accept || !a3.accept || a4.accept || !a5.accept) {
                fprintf(stderr, "[c05] scenario self-test failed (issuer %d): expired rc=%d st=%d fl=0x%x ; not-yet rc=%d st=%d fl=0x%x ; self-signed parse=%d rc=%d st=%d fl=0x%x ; expired judged plainly accept=%d ; bitraw parse=%d rc=%d\n",
                        iss, a1.rc, a1.auth, a1.flags, a2.rc, a2.auth, a2.flags, a3.parse_rc, a3.rc, a3.auth, a3.flags, a4.accept, a5.parse_rc, a5.rc);
                abort();
            }
        }
        HsResult h = handshake(iss, der, "localhost", NT_ANY, 0, 0, mxh::TLS12, 7), h3 = handshake(iss, der, "localhost", NT_ANY, 0, 0, mxh::TLS13, 7), hn = handshake(iss, der, "localhosu", NT_ANY, 0, 0, mxh::TLS12, 7);
        if (!h.client_complete || !h3.client_complete || hn.client_complete) {
            fprintf(stderr, "[c05] handshake self-test failed (issuer %d): tls12 load=%d ran=%d complete=%d ; tls13 ran=%d complete=%d ; mismatch complete=%d\n",
                    iss, h.srv_load_rc, h.ran, h.client_complete, h3.ran, h3.client_complete, hn.client_complete);
            abort();
        }
    }
    if (probe) { run_probe(probe == 2); fflush(stdout); _exit(0); }
}
} // namespace vf
