"""C05 registry entry (loaded by bin/registry.py)."""
WRAPS = ['psGetEntropy', 'psGetTime', 'psDiffMsecs', 'psCompareTime', 'time']
_SRC = ['props/C05/names.cc', 'props/C05/mint.cc', 'harness/wraps.c']
_ENV = {'VERIF_DIR': '/verif'}
PROP = dict(
    level='exploration',
    level_text='Grammar-generated (expected name, certificate name set) pairs are minted into real CA-signed certificates and pushed through '
               'psX509ParseCert + matrixValidateCertsExt (and, for a sample, matrixSslNewClientSession + a real TLS 1.2/1.3 handshake). '
               'A reference matcher written from the property text decides which accepts are allowed (one-directional), every generated '
               'permutation of the subjectAltName list must give the same verdict, and a byte-identical dNSName must be accepted. '
               'Finds matching errors that depend on string shape, list position, name type or flags with high probability; proves nothing '
               'about names outside the grammar.',
    level_note='Trusted: OpenSSL 3.0 libcrypto encodes the names it is given byte-for-byte (ASN1_STRING_set); the reference matcher '
               '(ref_accept in props/C05/names.cc, ~40 lines); clock pinned to 2026-09-21 by ld --wrap=time. Tolerated documented behaviour: one '
               'trailing NUL stripped from SAN strings, cross-kind matches under NAME_TYPE_ANY, wildcard in CN, empty left-most label; expected names '
               'that themselves contain non-printable bytes are not judged by the one-directional oracle.',
    technique='property-based testing: reference-model (one-directional) + metamorphic (SAN permutation invariance) + completeness smoke, ASan/UBSan',
    rule='case = (expected name E from {host 1-5 labels over a tiny alphabet, e-mail, IPv4 with octets biased to 0,1,9,10,99,100,199,255 and 14/15-character '
         'forms, weird: trailing/leading dot, literal wildcard, control/8-bit}, nameType in all 6 values, mFlags in {0,ALWAYS_CHECK_CN,EMAIL_CI,both}, '
         'subject CN absent or derived (UTF8/Printable/IA5/T61/BMP/BIT STRING), SAN list of 0-6 entries of dNSName/rfc822Name/iPAddress(4,16,odd)/URI/otherName/'
         'directoryName each derived from E by one of 28 operators (same, case, prefix, suffix, label shift, 7 wildcard forms, trailing dot, embedded/trailing NUL, '
         'control, 8-bit, edit 1/2, swap, local-part change ...) or random from the same grammar; all permutations for lists <= 3 (<= 5 in the allperm target), '
         'rotations+reverse+random otherwise); non-trivial = some certificate name is a near miss of E (case variant, prefix, suffix, label shift, '
         'edit distance <= 2, wildcard form, NUL/non-printable variant) or the SAN list has >= 2 entries; distinct by (SAN kind sequence, nameType, mFlags, '
         'set of (kind, relation class))',
    assumptions=['OpenSSL libcrypto writes name bytes verbatim', 'test CA /verif/pki/ca_ec is valid at the pinned time', 'expected names are C strings (no embedded NUL)'],
    targets=[
        dict(name='c05_names', src=_SRC, libs=['-lcrypto'], wraps=WRAPS, env=_ENV,
             quick=dict(cases=40000, secs=70), thorough=dict(cases=1000000, secs=500)),
        dict(name='c05_names_allperm', src=_SRC, libs=['-lcrypto'], wraps=WRAPS, env=_ENV, args=['--allperm', '--hs-den', '64'],
             thorough=dict(cases=60000, secs=240)),
    ],
)
