"""C05 registry entry (loaded by bin/registry.py)."""
WRAPS = ['psGetEntropy', 'psGetTime', 'psDiffMsecs', 'psCompareTime', 'time']
_SRC = ['props/C05/names.cc', 'props/C05/mint.cc', 'harness/wraps.c']
_ENV = {'VERIF_DIR': '/verif'}
PROP = dict(
    level='exploration',
    level_text='Grammar-generated (expected name, certificate name set) pairs are minted into real CA-signed certificates and pushed through '
               'psX509ParseCert + matrixValidateCertsExt (and, for a sample, matrixSslNewClientSession + a real TLS 1.2/1.3 handshake). '
               'A reference matcher written from the property text decides which accepts are allowed (one-directional), every generated '
               'permutation of the subjectAltName list must give the same verdict, and a byte-identical dNSName must be accepted. '
               'About half of the leaves also carry names that do not name the subject (issuerAltName with 1-4 GeneralNames of the SAN grammar, '
               'CRL distribution point names, authorityInfoAccess URIs, authorityKeyIdentifier issuer directoryName, subject OU / emailAddress); '
               'the reference matcher ignores them and an accept that disappears when they are removed is a failure. '
               'Late-drawn dimensions: the CN or one SAN entry replaced by a single-bit neighbour of E (one character XOR one of its 8 bits, letter and '
               'non-letter positions; control characters through the CN, printable neighbours through SAN entries of every kind); a hidden NUL in a CN of every '
               'string type including a BIT STRING whose content octets are the name (TBS patched and re-signed, libcrypto cannot encode it); and the validation '
               'scenario: plain | leaf expired or not yet valid with a caller that tolerates exactly the date flag (direct call: authStatus EXTENSION and '
               'authFailFlags == DATE only counts as "name accepted"; handshake: certificate callback written after the API manual that continues on '
               'CERTIFICATE_EXPIRED only if every certificate is PASS or date-only) | self-signed leaf validated with issuerCerts == NULL. '
               'Finds matching errors that depend on string shape, list position, name type or flags with high probability; proves nothing '
               'about names outside the grammar.',
    level_note='Trusted: OpenSSL 3.0 libcrypto encodes the names it is given byte-for-byte (ASN1_STRING_set); the reference matcher '
               '(ref_accept in props/C05/names.cc, ~40 lines); clock pinned to 2026-09-21 by ld --wrap=time. Tolerated documented behaviour: one '
               'trailing NUL stripped from SAN strings, cross-kind matches under NAME_TYPE_ANY, wildcard in CN, empty left-most label; expected names '
               'that themselves contain non-printable bytes are not judged by the one-directional oracle; a raw-content BIT STRING CN without NUL/non-printable bytes may match like an 8-bit string. A non-subject name that makes the library '
               'stricter (e.g. suppresses the CN fallback) is counted (extras-turn-accept-into-reject), not flagged: the model asserts completeness '
               'only for a byte-identical dNSName.',
    technique='property-based testing: reference-model (one-directional) + metamorphic (SAN permutation invariance; non-subject names never turn a reject '
              'into an accept) + completeness smoke, ASan/UBSan',
    rule='case = (expected name E from {host 1-5 labels over a tiny alphabet, e-mail, IPv4 with octets biased to 0,1,9,10,99,100,199,255 and 14/15-character '
         'forms, weird: trailing/leading dot, literal wildcard, control/8-bit}, nameType in all 6 values, mFlags in {0,ALWAYS_CHECK_CN,EMAIL_CI,both}, '
         'subject CN absent or derived (UTF8/Printable/IA5/T61/BMP/BIT STRING/raw-content BIT STRING), SAN list of 0-6 (sometimes 9, 12, 17 or 33) entries of dNSName/rfc822Name/iPAddress(4,16,odd)/URI/otherName/'
         'directoryName each derived from E by one of 28 operators (same, case, prefix, suffix, label shift, 7 wildcard forms, trailing dot, embedded/trailing NUL, '
         'control, 8-bit, edit 1/2, swap, local-part change ...) or random from the same grammar; all permutations for lists <= 3 (<= 5 in the allperm target), '
         'rotations+reverse+random otherwise); plus, in ~1/2 of the cases (drawn last on the tape), non-subject names: issuerAltName of 1-4 GeneralNames before or after the '
         'SAN extension (5/8 with an entry that would match E as a SAN: equal/case variant/one-label wildcard/same IP; the others derived from E or random by the same '
         '28 operators), CRL distribution point fullName (URL containing E, or dNSName/rfc822Name/iPAddress as before), AIA ocsp/caIssuers URL containing E, '
         'AKI authorityCertIssuer CN=E/wildcard of E, subject OU / emailAddress = E; non-trivial = some subject name (CN/SAN) is a near miss of E, or some issuerAltName entry equals E or is a near miss of E (near miss = case variant, prefix, suffix, label shift, '
         'edit distance <= 2, wildcard form, NUL/non-printable variant) or the SAN list has >= 2 entries; distinct by (SAN kind sequence, nameType, mFlags, '
         'set of (kind, relation class), issuerAltName kind sequence and relation set, which other non-subject fields are present, scenario); late-drawn (after everything else, '
         'all-zero = none): 7/16 of the non-smoke cases override the CN (3/16 single-bit neighbour of E / of its one-label wildcard / of a case variant, 1/16 E+NUL+tail in one of 7 encodings, '
         '1/16 raw BIT STRING with a derived value) or one SAN entry (2/16 printable-preferred single-bit neighbour; iPAddress: one bit of the address); scenario 10/16 plain, 4/16 dated leaf, 2/16 self-signed without issuer list '
         '(single-bit neighbours count as near misses: relation classes bit1 / bit1-nonprintable / bit1-nul)',
    assumptions=['OpenSSL libcrypto writes name bytes verbatim', 'test CA /verif/pki/ca_ec is valid at the pinned time', 'expected names are C strings (no embedded NUL)',
                 'a caller that tolerates an expired / not-yet-valid certificate decides from authStatus and authFailFlags as the API manual describes (date flag only = nothing else is wrong)'],
    targets=[
        dict(name='c05_names', src=_SRC, libs=['-lcrypto'], wraps=WRAPS, env=_ENV,
             quick=dict(cases=40000, secs=70), thorough=dict(cases=1000000, secs=500)),
        dict(name='c05_names_allperm', src=_SRC, libs=['-lcrypto'], wraps=WRAPS, env=_ENV, args=['--allperm', '--hs-den', '64'],
             thorough=dict(cases=60000, secs=240)),
    ],
)
