// mint.cc - C05: mint leaf certificates with arbitrary name content using OpenSSL 3.0 libcrypto.
// Shares no code with MatrixSSL.  Names are placed with ASN1_STRING_set so any byte (NUL, control,
// 8-bit) can be put into dNSName / rfc822Name / URI / commonName exactly as an attacker-controlled
// (but CA-signed) certificate could carry it.
#include "mint.h"
#include <openssl/x509.h>
#include <openssl/x509v3.h>
#include <openssl/pem.h>
#include <openssl/evp.h>
#include <openssl/err.h>
#include <openssl/objects.h>
#include <cstdio>
#include <cstring>

namespace c05 {
struct Issuer { X509 *ca = nullptr; EVP_PKEY *cakey = nullptr, *leafkey = nullptr; Bytes ca_der, leafkey_der; };
static Issuer g_iss[2];

static std::string ossl_err() {
    char b[256]; unsigned long e = ERR_get_error(); if (!e) return "(no openssl error)";
    ERR_error_string_n(e, b, sizeof b); ERR_clear_error(); return b;
}

static EVP_PKEY *read_key(const std::string &path) {
    FILE *f = fopen(path.c_str(), "r"); if (!f) return nullptr;
    EVP_PKEY *k = PEM_read_PrivateKey(f, nullptr, nullptr, nullptr); fclose(f); return k;
}

bool mint_init(int which, const std::string &ca_pem, const std::string &ca_key_pem, const std::string &leaf_key_pem, std::string *err) {
    Issuer &I = g_iss[which & 1];
    X509 *&g_ca = I.ca; EVP_PKEY *&g_cakey = I.cakey; EVP_PKEY *&g_leafkey = I.leafkey; Bytes &g_ca_der = I.ca_der; Bytes &g_leafkey_der = I.leafkey_der;
    if (g_ca) return true;
    FILE *f = fopen(ca_pem.c_str(), "r");
    if (!f) { if (err) *err = "cannot open " + ca_pem; return false; }
    g_ca = PEM_read_X509(f, nullptr, nullptr, nullptr); fclose(f);
    if (!g_ca) { if (err) *err = "cannot parse " + ca_pem + ": " + ossl_err(); return false; }
    g_cakey = read_key(ca_key_pem);
    g_leafkey = read_key(leaf_key_pem);
    if (!g_cakey || !g_leafkey) { if (err) *err = "cannot read keys: " + ossl_err(); return false; }
    unsigned char *p = nullptr; int n = i2d_X509(g_ca, &p);
    if (n <= 0) { if (err) *err = "i2d_X509(ca)"; return false; }
    g_ca_der.assign(p, p + n); OPENSSL_free(p);
    p = nullptr; n = i2d_PrivateKey(g_leafkey, &p);
    if (n <= 0) { if (err) *err = "i2d_PrivateKey(leaf)"; return false; }
    g_leafkey_der.assign(p, p + n); OPENSSL_free(p);
    return true;
}
const Bytes &ca_der(int which) { return g_iss[which & 1].ca_der; }
const Bytes &leaf_key_der(int which) { return g_iss[which & 1].leafkey_der; }

static int cn_asn1_type(int t) {
    switch (t) {
    case CN_PRINTABLE: return V_ASN1_PRINTABLESTRING;
    case CN_IA5: return V_ASN1_IA5STRING;
    case CN_T61: return V_ASN1_T61STRING;
    case CN_BMP: return V_ASN1_BMPSTRING;
    case CN_BIT: return V_ASN1_BIT_STRING;
    case CN_BITRAW: return V_ASN1_UTF8STRING; // placeholder tag, rewritten to 0x03 in the TBS (retag_cn_as_bit_string)
    default: return V_ASN1_UTF8STRING;
    }
}

// Adds an attribute with raw value bytes (no character-set conversion, no validation).
static bool add_raw_attr(X509_NAME *nm, int nid, int asn1_type, const std::string &v) {
    X509_NAME_ENTRY *ne = X509_NAME_ENTRY_create_by_NID(nullptr, nid, asn1_type, (const unsigned char *) v.data(), (int) v.size());
    if (!ne) return false;
    int ok = X509_NAME_add_entry(nm, ne, -1, 0);
    X509_NAME_ENTRY_free(ne);
    return ok == 1;
}

static GENERAL_NAME *make_gn(const SanEntry &e) {
    GENERAL_NAME *gn = GENERAL_NAME_new();
    if (!gn) return nullptr;
    switch (e.kind) {
    case SK_DNS: case SK_EMAIL: case SK_URI: {
        ASN1_IA5STRING *s = ASN1_IA5STRING_new();
        if (!s || !ASN1_STRING_set(s, e.data.data(), (int) e.data.size())) { ASN1_IA5STRING_free(s); GENERAL_NAME_free(gn); return nullptr; }
        GENERAL_NAME_set0_value(gn, e.kind == SK_DNS ? GEN_DNS : e.kind == SK_EMAIL ? GEN_EMAIL : GEN_URI, s);
        return gn;
    }
    case SK_IP: {
        ASN1_OCTET_STRING *s = ASN1_OCTET_STRING_new();
        if (!s || !ASN1_OCTET_STRING_set(s, (const unsigned char *) e.data.data(), (int) e.data.size())) { ASN1_OCTET_STRING_free(s); GENERAL_NAME_free(gn); return nullptr; }
        GENERAL_NAME_set0_value(gn, GEN_IPADD, s);
        return gn;
    }
    case SK_OTHER: {
        ASN1_OBJECT *oid = OBJ_txt2obj("1.3.6.1.4.1.311.20.2.3", 1); // userPrincipalName
        ASN1_UTF8STRING *u = ASN1_UTF8STRING_new();
        ASN1_TYPE *ty = ASN1_TYPE_new();
        if (!oid || !u || !ty || !ASN1_STRING_set(u, e.data.data(), (int) e.data.size())) {
            ASN1_OBJECT_free(oid); ASN1_UTF8STRING_free(u); ASN1_TYPE_free(ty); GENERAL_NAME_free(gn); return nullptr;
        }
        ASN1_TYPE_set(ty, V_ASN1_UTF8STRING, u);
        if (!GENERAL_NAME_set0_othername(gn, oid, ty)) { ASN1_OBJECT_free(oid); ASN1_TYPE_free(ty); GENERAL_NAME_free(gn); return nullptr; }
        return gn;
    }
    case SK_DIR: {
        X509_NAME *nm = X509_NAME_new();
        if (!nm || !add_raw_attr(nm, NID_commonName, V_ASN1_UTF8STRING, e.data)) { X509_NAME_free(nm); GENERAL_NAME_free(gn); return nullptr; }
        GENERAL_NAME_set0_value(gn, GEN_DIRNAME, nm);
        return gn;
    }
    }
    GENERAL_NAME_free(gn);
    return nullptr;
}

static bool add_ext(X509 *g_ca, X509 *x, int nid, const char *val) {
    X509V3_CTX ctx; X509V3_set_ctx(&ctx, g_ca, x, nullptr, nullptr, 0);
    X509_EXTENSION *ex = X509V3_EXT_conf_nid(nullptr, &ctx, nid, val);
    if (!ex) return false;
    int ok = X509_add_ext(x, ex, -1);
    X509_EXTENSION_free(ex);
    return ok == 1;
}

static GENERAL_NAMES *make_gns(const std::vector<SanEntry> &v) {
    GENERAL_NAMES *gns = sk_GENERAL_NAME_new_null();
    if (!gns) return nullptr;
    for (auto &e : v) {
        GENERAL_NAME *gn = make_gn(e);
        if (!gn || !sk_GENERAL_NAME_push(gns, gn)) { GENERAL_NAME_free(gn); sk_GENERAL_NAME_pop_free(gns, GENERAL_NAME_free); return nullptr; }
    }
    return gns;
}
static bool add_gns_ext(X509 *x, int nid, const std::vector<SanEntry> &v, bool critical) {
    GENERAL_NAMES *gns = make_gns(v);
    if (!gns) return false;
    int ok = X509_add1_ext_i2d(x, nid, gns, critical ? 1 : 0, X509V3_ADD_APPEND);
    sk_GENERAL_NAME_pop_free(gns, GENERAL_NAME_free);
    return ok == 1;
}
// cRLDistributionPoints: every element of `dps` becomes one DistributionPoint { distributionPoint [0] { fullName [0] GeneralNames } }
static bool add_crldp_ext(X509 *x, const std::vector<std::vector<SanEntry>> &dps) {
    STACK_OF(DIST_POINT) *st = sk_DIST_POINT_new_null();
    if (!st) return false;
    bool ok = true;
    for (auto &v : dps) {
        DIST_POINT *dp = DIST_POINT_new();
        DIST_POINT_NAME *dpn = DIST_POINT_NAME_new();
        GENERAL_NAMES *gns = make_gns(v);
        if (!dp || !dpn || !gns) { DIST_POINT_free(dp); DIST_POINT_NAME_free(dpn); if (gns) sk_GENERAL_NAME_pop_free(gns, GENERAL_NAME_free); ok = false; break; }
        dpn->type = 0; dpn->name.fullname = gns;
        dp->distpoint = dpn;
        if (!sk_DIST_POINT_push(st, dp)) { DIST_POINT_free(dp); ok = false; break; }
    }
    if (ok) ok = X509_add1_ext_i2d(x, NID_crl_distribution_points, st, 0, X509V3_ADD_APPEND) == 1;
    sk_DIST_POINT_pop_free(st, DIST_POINT_free);
    return ok;
}
static bool add_aia_ext(X509 *x, const std::vector<AiaEntry> &v) {
    AUTHORITY_INFO_ACCESS *st = sk_ACCESS_DESCRIPTION_new_null();
    if (!st) return false;
    bool ok = true;
    for (auto &a : v) {
        ACCESS_DESCRIPTION *ad = ACCESS_DESCRIPTION_new();
        ASN1_IA5STRING *s = ASN1_IA5STRING_new();
        if (!ad || !s || !ASN1_STRING_set(s, a.uri.data(), (int) a.uri.size())) { ACCESS_DESCRIPTION_free(ad); ASN1_IA5STRING_free(s); ok = false; break; }
        ASN1_OBJECT_free(ad->method);
        ad->method = OBJ_nid2obj(a.method == 0 ? NID_ad_OCSP : NID_ad_ca_issuers);
        GENERAL_NAME_set0_value(ad->location, GEN_URI, s);
        if (!sk_ACCESS_DESCRIPTION_push(st, ad)) { ACCESS_DESCRIPTION_free(ad); ok = false; break; }
    }
    if (ok) ok = X509_add1_ext_i2d(x, NID_info_access, st, 0, X509V3_ADD_APPEND) == 1;
    sk_ACCESS_DESCRIPTION_pop_free(st, ACCESS_DESCRIPTION_free);
    return ok;
}
// authorityKeyIdentifier { keyIdentifier = CA's subjectKeyIdentifier (if any), authorityCertIssuer = { directoryName { CN = cn } }, authorityCertSerialNumber = CA's serial }
static bool add_aki_with_issuer(X509 *ca, X509 *x, const std::string &cn) {
    AUTHORITY_KEYID *ak = AUTHORITY_KEYID_new();
    if (!ak) return false;
    bool ok = false;
    do {
        const ASN1_OCTET_STRING *skid = X509_get0_subject_key_id(ca);
        if (skid && !(ak->keyid = ASN1_OCTET_STRING_dup(skid))) break;
        std::vector<SanEntry> one; one.push_back(SanEntry{ SK_DIR, cn });
        if (!(ak->issuer = make_gns(one))) break;
        if (!(ak->serial = ASN1_INTEGER_dup(X509_get0_serialNumber(ca)))) break;
        ok = X509_add1_ext_i2d(x, NID_authority_key_identifier, ak, 0, X509V3_ADD_APPEND) == 1;
    } while (0);
    AUTHORITY_KEYID_free(ak);
    return ok;
}

// ---- CN_BITRAW: libcrypto always prepends an unused-bits octet to a BIT STRING, so the commonName is first encoded as a UTF8String with the
// wanted content octets; then the tag octet of that value is rewritten from 0x0c to 0x03 inside the DER TBSCertificate (lengths do not change), the TBS is
// signed again and the Certificate SEQUENCE is assembled by hand.
static void der_len(Bytes &o, size_t n) {
    if (n < 0x80) { o.push_back((uint8_t) n); return; }
    uint8_t b[8]; int k = 0; while (n) { b[k++] = (uint8_t) (n & 0xff); n >>= 8; }
    o.push_back((uint8_t) (0x80 | k)); while (k) o.push_back(b[--k]);
}
static bool retag_cn_as_bit_string(X509 *x, X509_NAME *subj, const std::string &cn, EVP_PKEY *signkey, Bytes &out) {
    unsigned char *tbs = nullptr, *nm = nullptr, *algp = nullptr;
    EVP_MD_CTX *md = nullptr;
    bool ok = false;
    do {
        int tl = i2d_re_X509_tbs(x, &tbs); if (tl <= 0) break;
        int nl = i2d_X509_NAME(subj, &nm); if (nl <= 0) break;
        Bytes pat = { 0x06, 0x03, 0x55, 0x04, 0x03, 0x0c }; der_len(pat, cn.size()); pat.insert(pat.end(), cn.begin(), cn.end());
        // position of the commonName value inside the encoded subject Name (the last occurrence: OU precedes the CN)
        int at = -1;
        for (int i = 0; i + (int) pat.size() <= nl; i++) if (!memcmp(nm + i, pat.data(), pat.size())) at = i;
        if (at < 0) break;
        int hits = 0; // the subject Name occurs once in the TBS (twice when self-signed: issuer == subject)
        for (int i = 0; i + nl <= tl; i++) if (!memcmp(tbs + i, nm, (size_t) nl)) { tbs[i + at + 5] = 0x03; hits++; i += nl - 1; }
        if (hits < 1) break;
        md = EVP_MD_CTX_new(); if (!md) break;
        if (EVP_DigestSignInit(md, nullptr, EVP_sha256(), nullptr, signkey) != 1) break;
        size_t sl = 0; if (EVP_DigestSign(md, nullptr, &sl, tbs, (size_t) tl) != 1) break;
        Bytes sig(sl); if (EVP_DigestSign(md, sig.data(), &sl, tbs, (size_t) tl) != 1) break; sig.resize(sl);
        const X509_ALGOR *alg = nullptr; X509_get0_signature(nullptr, &alg, x); if (!alg) break;
        int al = i2d_X509_ALGOR((X509_ALGOR *) alg, &algp); if (al <= 0) break;
        Bytes body(tbs, tbs + tl); body.insert(body.end(), algp, algp + al);
        body.push_back(0x03); der_len(body, sig.size() + 1); body.push_back(0x00); body.insert(body.end(), sig.begin(), sig.end());
        out.clear(); out.push_back(0x30); der_len(out, body.size()); out.insert(out.end(), body.begin(), body.end());
        ok = true;
    } while (0);
    EVP_MD_CTX_free(md); OPENSSL_free(tbs); OPENSSL_free(nm); OPENSSL_free(algp);
    return ok;
}

bool mint_leaf(const LeafSpec &sp, Bytes &out) {
    out.clear();
    Issuer &I = g_iss[sp.issuer & 1];
    X509 *g_ca = I.ca; EVP_PKEY *g_cakey = I.cakey, *g_leafkey = I.leafkey;
    if (!g_ca) return false;
    bool ok = false;
    X509 *x = X509_new();
    X509_NAME *subj = nullptr;
    unsigned char *der = nullptr;
    do {
        if (!x) break;
        if (!X509_set_version(x, 2)) break;
        ASN1_INTEGER_set_uint64(X509_get_serialNumber(x), sp.serial ? sp.serial : 1);
        static const char *NB[] = { "20260101000000Z", "20240101000000Z", "20280101000000Z" }, *NA[] = { "20271231235959Z", "20251231235959Z", "20291231235959Z" };
        int val = sp.validity >= 0 && sp.validity <= 2 ? sp.validity : 0;
        if (!ASN1_TIME_set_string(X509_getm_notBefore(x), NB[val])) break;
        if (!ASN1_TIME_set_string(X509_getm_notAfter(x), NA[val])) break;
        subj = X509_NAME_new();
        if (!subj) break;
        if (!add_raw_attr(subj, NID_countryName, V_ASN1_PRINTABLESTRING, "FI")) break;
        if (!add_raw_attr(subj, NID_organizationName, V_ASN1_UTF8STRING, "Verif C05 leaf")) break;
        if (sp.has_ou && !add_raw_attr(subj, NID_organizationalUnitName, V_ASN1_UTF8STRING, sp.ou)) break;
        if (sp.has_cn && !add_raw_attr(subj, NID_commonName, cn_asn1_type(sp.cn_type), sp.cn)) break;
        if (sp.has_dn_email && !add_raw_attr(subj, NID_pkcs9_emailAddress, V_ASN1_IA5STRING, sp.dn_email)) break;
        if (!X509_set_subject_name(x, subj)) break;
        if (!X509_set_issuer_name(x, sp.self_signed ? subj : X509_get_subject_name(g_ca))) break;
        if (!X509_set_pubkey(x, g_leafkey)) break;
        if (!add_ext(g_ca, x, NID_basic_constraints, "CA:FALSE")) break;
        if (!add_ext(g_ca, x, NID_key_usage, sp.self_signed ? "digitalSignature,keyEncipherment,keyAgreement,keyCertSign" : "digitalSignature,keyEncipherment,keyAgreement")) break;
        if (!add_ext(g_ca, x, NID_ext_key_usage, "serverAuth")) break;
        if (sp.self_signed) { /* no authorityKeyIdentifier: the certificate has no subjectKeyIdentifier to point to */ }
        else if (sp.aki_issuer) { if (!add_aki_with_issuer(g_ca, x, sp.aki_issuer_cn)) break; }
        else if (!add_ext(g_ca, x, NID_authority_key_identifier, "keyid")) break;
        if (!sp.ian.empty() && sp.ian_before_san && !add_gns_ext(x, NID_issuer_alt_name, sp.ian, false)) break;
        if (!sp.san.empty() && !add_gns_ext(x, NID_subject_alt_name, sp.san, sp.san_critical)) break;
        if (!sp.ian.empty() && !sp.ian_before_san && !add_gns_ext(x, NID_issuer_alt_name, sp.ian, false)) break;
        if (!sp.crldp.empty() && !add_crldp_ext(x, sp.crldp)) break;
        if (!sp.aia.empty() && !add_aia_ext(x, sp.aia)) break;
        EVP_PKEY *signkey = sp.self_signed ? g_leafkey : g_cakey;
        if (!X509_sign(x, signkey, EVP_sha256())) break;
        if (sp.has_cn && sp.cn_type == CN_BITRAW) { ok = retag_cn_as_bit_string(x, subj, sp.cn, signkey, out); break; }
        int n = i2d_X509(x, &der);
        if (n <= 0) break;
        out.assign(der, der + n);
        ok = true;
    } while (0);
    if (!ok) ERR_clear_error();
    OPENSSL_free(der);
    X509_NAME_free(subj);
    X509_free(x);
    return ok;
}
} // namespace c05
