// mint.cc - C05: mint leaf certificates with arbitrary name content using OpenSSL 3.0 libcrypto.
// Shares no code with MatrixSSL.  Names are placed with ASN1_STRING_set so any byte (NUL, control,
// 8-bit) can be put into dNSName / rfc822Name / URI / commonName exactly as an attacker-controlled
// (but CA-signed) certificate could carry it.
#include "mint.h"
#include <openssl/x509.h>
#include <openssl/x509v3.h>
#include <openssl/pem.h>
#include <openssl/evp.h>
#include <openssl/err.h>
#include <openssl/objects.h>
#include <cstdio>
#include <cstring>

namespace c05 {
struct Issuer { X509 *ca = nullptr; EVP_PKEY *cakey = nullptr, *leafkey = nullptr; Bytes ca_der, leafkey_der; };
static Issuer g_iss[2];

static std::string ossl_err() {
    char b[256]; unsigned long e = ERR_get_error(); if (!e) return "(no openssl error)";
    ERR_error_string_n(e, b, sizeof b); ERR_clear_error(); return b;
}

static EVP_PKEY *read_key(const std::string &path) {
    FILE *f = fopen(path.c_str(), "r"); if (!f) return nullptr;
    EVP_PKEY *k = PEM_read_PrivateKey(f, nullptr, nullptr, nullptr); fclose(f); return k;
}

bool mint_init(int which, const std::string &ca_pem, const std::string &ca_key_pem, const std::string &leaf_key_pem, std::string *err) {
    Issuer &I = g_iss[which & 1];
    X509 *&g_ca = I.ca; EVP_PKEY *&g_cakey = I.cakey; EVP_PKEY *&g_leafkey = I.leafkey; Bytes &g_ca_der = I.ca_der; Bytes &g_leafkey_der = I.leafkey_der;
    if (g_ca) return true;
    FILE *f = fopen(ca_pem.c_str(), "r");
    if (!f) { if (err) *err = "cannot open " + ca_pem; return false; }
    g_ca = PEM_read_X509(f, nullptr, nullptr, nullptr); fclose(f);
    if (!g_ca) { if (err) *err = "cannot parse " + ca_pem + ": " + ossl_err(); return false; }
    g_cakey = read_key(ca_key_pem);
    g_leafkey = read_key(leaf_key_pem);
    if (!g_cakey || !g_leafkey) { if (err) *err = "cannot read keys: " + ossl_err(); return false; }
    unsigned char *p = nullptr; int n = i2d_X509(g_ca, &p);
    if (n <= 0) { if (err) *err = "i2d_X509(ca)"; return false; }
    g_ca_der.assign(p, p + n); OPENSSL_free(p);
    p = nullptr; n = i2d_PrivateKey(g_leafkey, &p);
    if (n <= 0) { if (err) *err = "i2d_PrivateKey(leaf)"; return false; }
    g_leafkey_der.assign(p, p + n); OPENSSL_free(p);
    return true;
}
const Bytes &ca_der(int which) { return g_iss[which & 1].ca_der; }
const Bytes &leaf_key_der(int which) { return g_iss[which & 1].leafkey_der; }

static int cn_asn1_type(int t) {
    switch (t) {
    case CN_PRINTABLE: return V_ASN1_PRINTABLESTRING;
    case CN_IA5: return V_ASN1_IA5STRING;
    case CN_T61: return V_ASN1_T61STRING;
    case CN_BMP: return V_ASN1_BMPSTRING;
    case CN_BIT: return V_ASN1_BIT_STRING;
    default: return V_ASN1_UTF8STRING;
    }
}

// Adds an attribute with raw value bytes (no character-set conversion, no validation).
static bool add_raw_attr(X509_NAME *nm, int nid, int asn1_type, const std::string &v) {
    X509_NAME_ENTRY *ne = X509_NAME_ENTRY_create_by_NID(nullptr, nid, asn1_type, (const unsigned char *) v.data(), (int) v.size());
    if (!ne) return false;
    int ok = X509_NAME_add_entry(nm, ne, -1, 0);
    X509_NAME_ENTRY_free(ne);
    return ok == 1;
}

static GENERAL_NAME *make_gn(const SanEntry &e) {
    GENERAL_NAME *gn = GENERAL_NAME_new();
    if (!gn) return nullptr;
    switch (e.kind) {
    case SK_DNS: case SK_EMAIL: case SK_URI: {
        ASN1_IA5STRING *s = ASN1_IA5STRING_new();
        if (!s || !ASN1_STRING_set(s, e.data.data(), (int) e.data.size())) { ASN1_IA5STRING_free(s); GENERAL_NAME_free(gn); return nullptr; }
        GENERAL_NAME_set0_value(gn, e.kind == SK_DNS ? GEN_DNS : e.kind == SK_EMAIL ? GEN_EMAIL : GEN_URI, s);
        return gn;
    }
    case SK_IP: {
        ASN1_OCTET_STRING *s = ASN1_OCTET_STRING_new();
        if (!s || !ASN1_OCTET_STRING_set(s, (const unsigned char *) e.data.data(), (int) e.data.size())) { ASN1_OCTET_STRING_free(s); GENERAL_NAME_free(gn); return nullptr; }
        GENERAL_NAME_set0_value(gn, GEN_IPADD, s);
        return gn;
    }
    case SK_OTHER: {
        ASN1_OBJECT *oid = OBJ_txt2obj("1.3.6.1.4.1.311.20.2.3", 1); // userPrincipalName
        ASN1_UTF8STRING *u = ASN1_UTF8STRING_new();
        ASN1_TYPE *ty = ASN1_TYPE_new();
        if (!oid || !u || !ty || !ASN1_STRING_set(u, e.data.data(), (int) e.data.size())) {
            ASN1_OBJECT_free(oid); ASN1_UTF8STRING_free(u); ASN1_TYPE_free(ty); GENERAL_NAME_free(gn); return nullptr;
        }
        ASN1_TYPE_set(ty, V_ASN1_UTF8STRING, u);
        if (!GENERAL_NAME_set0_othername(gn, oid, ty)) { ASN1_OBJECT_free(oid); ASN1_TYPE_free(ty); GENERAL_NAME_free(gn); return nullptr; }
        return gn;
    }
    case SK_DIR: {
        X509_NAME *nm = X509_NAME_new();
        if (!nm || !add_raw_attr(nm, NID_commonName, V_ASN1_UTF8STRING, e.data)) { X509_NAME_free(nm); GENERAL_NAME_free(gn); return nullptr; }
        GENERAL_NAME_set0_value(gn, GEN_DIRNAME, nm);
        return gn;
    }
    }
    GENERAL_NAME_free(gn);
    return nullptr;
}

static bool add_ext(X509 *g_ca, X509 *x, int nid, const char *val) {
    X509V3_CTX ctx; X509V3_set_ctx(&ctx, g_ca, x, nullptr, nullptr, 0);
    X509_EXTENSION *ex = X509V3_EXT_conf_nid(nullptr, &ctx, nid, val);
    if (!ex) return false;
    int ok = X509_add_ext(x, ex, -1);
    X509_EXTENSION_free(ex);
    return ok == 1;
}

static GENERAL_NAMES *make_gns(const std::vector<SanEntry> &v) {
    GENERAL_NAMES *gns = sk_GENERAL_NAME_new_null();
    if (!gns) return nullptr;
    for (auto &e : v) {
        GENERAL_NAME *gn = make_gn(e);
        if (!gn || !sk_GENERAL_NAME_push(gns, gn)) { GENERAL_NAME_free(gn); sk_GENERAL_NAME_pop_free(gns, GENERAL_NAME_free); return nullptr; }
    }
    return gns;
}
static bool add_gns_ext(X509 *x, int nid, const std::vector<SanEntry> &v, bool critical) {
    GENERAL_NAMES *gns = make_gns(v);
    if (!gns) return false;
    int ok = X509_add1_ext_i2d(x, nid, gns, critical ? 1 : 0, X509V3_ADD_APPEND);
    sk_GENERAL_NAME_pop_free(gns, GENERAL_NAME_free);
    return ok == 1;
}
// cRLDistributionPoints: every element of `dps` becomes one DistributionPoint { distributionPoint [0] { fullName [0] GeneralNames } }
static bool add_crldp_ext(X509 *x, const std::vector<std::vector<SanEntry>> &dps) {
    STACK_OF(DIST_POINT) *st = sk_DIST_POINT_new_null();
    if (!st) return false;
    bool ok = true;
    for (auto &v : dps) {
        DIST_POINT *dp = DIST_POINT_new();
        DIST_POINT_NAME *dpn = DIST_POINT_NAME_new();
        GENERAL_NAMES *gns = make_gns(v);
        if (!dp || !dpn || !gns) { DIST_POINT_free(dp); DIST_POINT_NAME_free(dpn); if (gns) sk_GENERAL_NAME_pop_free(gns, GENERAL_NAME_free); ok = false; break; }
        dpn->type = 0; dpn->name.fullname = gns;
        dp->distpoint = dpn;
        if (!sk_DIST_POINT_push(st, dp)) { DIST_POINT_free(dp); ok = false; break; }
    }
    if (ok) ok = X509_add1_ext_i2d(x, NID_crl_distribution_points, st, 0, X509V3_ADD_APPEND) == 1;
    sk_DIST_POINT_pop_free(st, DIST_POINT_free);
    return ok;
}
static bool add_aia_ext(X509 *x, const std::vector<AiaEntry> &v) {
    AUTHORITY_INFO_ACCESS *st = sk_ACCESS_DESCRIPTION_new_null();
    if (!st) return false;
    bool ok = true;
    for (auto &a : v) {
        ACCESS_DESCRIPTION *ad = ACCESS_DESCRIPTION_new();
        ASN1_IA5STRING *s = ASN1_IA5STRING_new();
        if (!ad || !s || !ASN1_STRING_set(s, a.uri.data(), (int) a.uri.size())) { ACCESS_DESCRIPTION_free(ad); ASN1_IA5STRING_free(s); ok = false; break; }
        ASN1_OBJECT_free(ad->method);
        ad->method = OBJ_nid2obj(a.method == 0 ? NID_ad_OCSP : NID_ad_ca_issuers);
        GENERAL_NAME_set0_value(ad->location, GEN_URI, s);
        if (!sk_ACCESS_DESCRIPTION_push(st, ad)) { ACCESS_DESCRIPTION_free(ad); ok = false; break; }
    }
    if (ok) ok = X509_add1_ext_i2d(x, NID_info_access, st, 0, X509V3_ADD_APPEND) == 1;
    sk_ACCESS_DESCRIPTION_pop_free(st, ACCESS_DESCRIPTION_free);
    return ok;
}
// authorityKeyIdentifier { keyIdentifier = CA's subjectKeyIdentifier (if any), authorityCertIssuer = { directoryName { CN = cn } }, authorityCertSerialNumber = CA's serial }
static bool add_aki_with_issuer(X509 *ca, X509 *x, const std::string &cn) {
    AUTHORITY_KEYID *ak = AUTHORITY_KEYID_new();
    if (!ak) return false;
    bool ok = false;
    do {
        const ASN1_OCTET_STRING *skid = X509_get0_subject_key_id(ca);
        if (skid && !(ak->keyid = ASN1_OCTET_STRING_dup(skid))) break;
        std::vector<SanEntry> one; one.push_back(SanEntry{ SK_DIR, cn });
        if (!(ak->issuer = make_gns(one))) break;
        if (!(ak->serial = ASN1_INTEGER_dup(X509_get0_serialNumber(ca)))) break;
        ok = X509_add1_ext_i2d(x, NID_authority_key_identifier, ak, 0, X509V3_ADD_APPEND) == 1;
    } while (0);
    AUTHORITY_KEYID_free(ak);
    return ok;
}

bool mint_leaf(const LeafSpec &sp, Bytes &out) {
    out.clear();
    Issuer &I = g_iss[sp.issuer & 1];
    X509 *g_ca = I.ca; EVP_PKEY *g_cakey = I.cakey, *g_leafkey = I.leafkey;
    if (!g_ca) return false;
    bool ok = false;
    X509 *x = X509_new();
    X509_NAME *subj = nullptr;
    unsigned char *der = nullptr;
    do {
        if (!x) break;
        if (!X509_set_version(x, 2)) break;
        ASN1_INTEGER_set_uint64(X509_get_serialNumber(x), sp.serial ? sp.serial : 1);
        if (!X509_set_issuer_name(x, X509_get_subject_name(g_ca))) break;
        if (!ASN1_TIME_set_string(X509_getm_notBefore(x), "20260101000000Z")) break;
        if (!ASN1_TIME_set_string(X509_getm_notAfter(x), "20271231235959Z")) break;
        subj = X509_NAME_new();
        if (!subj) break;
        if (!add_raw_attr(subj, NID_countryName, V_ASN1_PRINTABLESTRING, "FI")) break;
        if (!add_raw_attr(subj, NID_organizationName, V_ASN1_UTF8STRING, "Verif C05 leaf")) break;
        if (sp.has_ou && !add_raw_attr(subj, NID_organizationalUnitName, V_ASN1_UTF8STRING, sp.ou)) break;
        if (sp.has_cn && !add_raw_attr(subj, NID_commonName, cn_asn1_type(sp.cn_type), sp.cn)) break;
        if (sp.has_dn_email && !add_raw_attr(subj, NID_pkcs9_emailAddress, V_ASN1_IA5STRING, sp.dn_email)) break;
        if (!X509_set_subject_name(x, subj)) break;
        if (!X509_set_pubkey(x, g_leafkey)) break;
        if (!add_ext(g_ca, x, NID_basic_constraints, "CA:FALSE")) break;
        if (!add_ext(g_ca, x, NID_key_usage, "digitalSignature,keyEncipherment,keyAgreement")) break;
        if (!add_ext(g_ca, x, NID_ext_key_usage, "serverAuth")) break;
        if (sp.aki_issuer) { if (!add_aki_with_issuer(g_ca, x, sp.aki_issuer_cn)) break; }
        else if (!add_ext(g_ca, x, NID_authority_key_identifier, "keyid")) break;
        if (!sp.ian.empty() && sp.ian_before_san && !add_gns_ext(x, NID_issuer_alt_name, sp.ian, false)) break;
        if (!sp.san.empty() && !add_gns_ext(x, NID_subject_alt_name, sp.san, sp.san_critical)) break;
        if (!sp.ian.empty() && !sp.ian_before_san && !add_gns_ext(x, NID_issuer_alt_name, sp.ian, false)) break;
        if (!sp.crldp.empty() && !add_crldp_ext(x, sp.crldp)) break;
        if (!sp.aia.empty() && !add_aia_ext(x, sp.aia)) break;
        if (!X509_sign(x, g_cakey, EVP_sha256())) break;
        int n = i2d_X509(x, &der);
        if (n <= 0) break;
        out.assign(der, der + n);
        ok = true;
    } while (0);
    if (!ok) ERR_clear_error();
    OPENSSL_free(der);
    X509_NAME_free(subj);
    X509_free(x);
    return ok;
}
} // namespace c05
