// mint.h - C05 certificate minting interface.  Implemented in mint.cc with the system OpenSSL 3.0
// libcrypto; only byte vectors cross the boundary so OpenSSL and MatrixSSL headers never meet in
// one translation unit.
#pragma once
#include <cstdint>
#include <string>
#include <vector>

namespace c05 {
typedef std::vector<uint8_t> Bytes;

// subjectAltName entry kinds (GeneralName CHOICE)
enum SanKind { SK_DNS = 0, SK_EMAIL, SK_IP, SK_URI, SK_OTHER, SK_DIR, SK_NKINDS };
// commonName string encodings
enum CnType { CN_UTF8 = 0, CN_PRINTABLE, CN_IA5, CN_T61, CN_BMP, CN_BIT,
              CN_BITRAW, // tag 0x03 (BIT STRING) whose content octets are exactly `cn` (no unused-bits octet is prepended: the first byte of `cn` sits in its place).
                         // libcrypto cannot encode this, so the TBS is patched and re-signed (see mint.cc); a CA that signs what it is sent can.
              CN_NTYPES };

struct SanEntry {
    int kind;
    std::string data; // raw bytes put into the entry (may contain NUL / any byte):
                      //   DNS/EMAIL/URI: IA5String content; IP: OCTET STRING content;
                      //   OTHER: UTF8String value of a UPN otherName; DIR: commonName of the directoryName
};
struct AiaEntry {
    int method;        // 0 = id-ad-ocsp, 1 = id-ad-caIssuers
    std::string uri;   // raw IA5String bytes
};
struct LeafSpec {
    bool has_cn = false;
    int cn_type = CN_UTF8;
    std::string cn;              // raw bytes of the commonName value (BMP: already UCS-2BE)
    std::vector<SanEntry> san;   // in certificate order; empty = no subjectAltName extension
    bool san_critical = false;
    uint64_t serial = 1;
    int issuer = 0;              // 0 = EC P-256 CA + EC leaf key, 1 = RSA-2048 CA + RSA leaf key
    int validity = 0;            // VAL_OK: 2026-01-01..2027-12-31 (valid at the pinned clock); VAL_EXPIRED: 2024-01-01..2025-12-31; VAL_NOT_YET: 2028-01-01..2029-12-31
    bool self_signed = false;    // issuer name = subject name, signed with the leaf's own key (keyUsage gets keyCertSign, no authorityKeyIdentifier)

    // ---- name-bearing fields that do NOT name the subject for the purpose of the expected-name check (all optional, all non-critical)
    std::vector<SanEntry> ian;   // issuerAltName (2.5.29.18) GeneralNames, same encoding as `san`; empty = no extension
    bool ian_before_san = false; // position of the issuerAltName extension relative to subjectAltName in the extension list
    std::vector<std::vector<SanEntry>> crldp; // cRLDistributionPoints: one DistributionPoint per element, its distributionPoint.fullName GeneralNames
    std::vector<AiaEntry> aia;   // authorityInfoAccess AccessDescriptions (accessLocation is a uniformResourceIdentifier)
    bool aki_issuer = false;     // authorityKeyIdentifier additionally carries authorityCertIssuer = directoryName{CN=aki_issuer_cn} + the CA's serial
    std::string aki_issuer_cn;
    bool has_ou = false;         // subject DN: organizationalUnitName (UTF8String) placed before the CN
    std::string ou;
    bool has_dn_email = false;   // subject DN: PKCS#9 emailAddress (IA5String) placed after the CN
    std::string dn_email;
};

enum { ISS_EC = 0, ISS_RSA = 1 };
enum { VAL_OK = 0, VAL_EXPIRED = 1, VAL_NOT_YET = 2 };
// Loads test CA `which` (certificate + key) and its leaf key from PEM files.  Returns false + message on failure.
bool mint_init(int which, const std::string &ca_pem, const std::string &ca_key_pem, const std::string &leaf_key_pem, std::string *err);
// Mint a leaf (SHA-256 signature by test CA spec.issuer or by its own key, validity per spec.validity).  false = OpenSSL could not encode it.
bool mint_leaf(const LeafSpec &spec, Bytes &der_out);
const Bytes &ca_der(int which);        // DER of the CA certificate
const Bytes &leaf_key_der(int which);  // DER private key of every leaf of that issuer (SEC1 ECPrivateKey / PKCS#1 RSAPrivateKey)
} // namespace c05
