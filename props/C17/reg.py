WRAPS = ['psGetEntropy', 'psGetTime', 'psDiffMsecs', 'psCompareTime', 'time',
         'psAesInitGCM', 'psAesReadyGCM', 'psAesReadyGCMRandomIV', 'psAesEncryptGCM', 'psAesGetGCMTag', 'psAesDecryptGCM', 'psChacha20Poly1305IetfInit', 'psChacha20Poly1305IetfEncrypt']
PROP = dict(
    level='exploration',
    level_text='History invariant over a link-time ledger of every AEAD seal (key, nonce, AAD digest, plaintext digest) plus wire parsing of CBC explicit IVs and an entropy tap, over generated send/receive/alert/retry/retransmission histories for every AEAD and CBC suite x version.',
    level_note='Trusted: the ld --wrap ledger sees every call MatrixSSL makes to its AEAD primitives (psAesInitGCM/ReadyGCM/EncryptGCM, psChacha20Poly1305IetfInit/Encrypt). TLS 1.3 early data and KeyUpdate are not generated.',
    technique='property-based testing: stateful history generation with a nonce-ledger invariant (link-time interposition)',
    rule='case = (version, suite, kind full/client-auth/resumed, 2-11 actions from {send via 2 APIs, 16k send, EncodeToUserBuf too-small-then-retry, peer send, garbage->alert, closure, DTLS timeout, DTLS drop, burst of 300 records, zero-length record via either API}; TLS 1.3 resumption with 0-RTT records, 0.5-RTT data, and early data written again after a HelloRetryRequest; a tag taken from a readied GCM context that encrypted nothing is a seal of the empty plaintext); non-trivial = >= 2 seals under one key (or >= 2 CBC records) and at least one of {alert, retry, closure, retransmission, drop, burst}; distinct by (version, suite, kind, action-kind set)',
    assumptions=[],
    targets=[dict(name='c17_nonce_ledger', src=['props/C17/nonce_ledger.cc', 'harness/wraps.c', 'harness/c17_ledger_wraps.c'], wraps=WRAPS, env={'VERIF_DIR': '/verif'},
                  quick=dict(cases=2500, secs=80), thorough=dict(cases=80000, secs=1200))],
)
