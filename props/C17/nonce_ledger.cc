// C17: no two different records are sealed under one key with the same AEAD nonce; sequence numbers bound into
// nonces strictly increase per key; CBC records (TLS >= 1.1, DTLS) carry a freshly drawn explicit IV.
//
// Observation without source changes: ld --wrap ledger on psAesInitGCM/ReadyGCM/EncryptGCM and
// psChacha20Poly1305IetfInit/Encrypt (harness/c17_ledger_wraps.c), entropy tap for fresh IV draws, wire parsing
// for explicit IV blocks.  Domain: generated histories of sends/receives/alerts/retries/retransmissions.
#include "mxh.h"
#include <set>
#include <map>
using namespace vf; using namespace mxh;
extern "C" {
typedef struct { uint64_t key_id; unsigned char nonce[12]; uint64_t aad_h, pt_h; uint32_t pt_len; int alg; unsigned char aad[16]; unsigned char pt0; } vfh_seal_t;
extern vfh_seal_t vfh_ledger[]; extern unsigned vfh_ledger_n, vfh_ledger_overflow; void vfh_ledger_reset(void);
}
enum { A_SEND0, A_SEND1, A_SEND_BIG, A_SEND_USERBUF_RETRY, A_PEER_SEND, A_GARBAGE_TO_PEER, A_CLOSE, A_TIMEOUT, A_DROP_NEXT, A_BURST, A_SEND_EMPTY, A_N };
static const char *act_name[] = { "send(api0)", "send(api1)", "send-16k", "EncodeToUserBuf-small-then-retry", "peer-send", "garbage->alert", "close", "dtls-timeout", "dtls-drop-next", "burst-300", "send-zero-length" };

static uint64_t g_entropy_seen; static std::vector<Bytes> *g_draws;
static void tap(const unsigned char *b, uint32_t n) { g_entropy_seen += n; if (g_draws && n <= 64) g_draws->emplace_back(b, b + n); }

static void prop(Tape &t, Ctx &c) {
    int ver = (int) t.below(NVER);
    auto cand = suites_for(ver); const Suite su = cand[t.below(cand.size())];
    int kind = (int) t.below(3); if (kind == 1 && su.auth == AUTH_PSK) kind = 0;
    bool dt = is_dtls(ver);
    // TLS 1.3 resumption with 0-RTT: early-data records, EndOfEarlyData and the handshake flight are sealed under three different
    // keys whose sequence numbers are reset at different moments
    bool early = kind == 2 && ver == TLS13 && t.chance(2, 3); int n_early = early ? 1 + (int) t.below(3) : 0; bool hrr = early && n_early == 2;   // (no extra draw: recorded tapes keep their meaning)
    // with client authentication the client's last flight (EndOfEarlyData, Certificate, CertificateVerify, Finished) can exceed the output
    // buffer and be encoded in two passes
    bool early_cauth = early && su.auth != AUTH_PSK && t.coin();
    int nact = 2 + (int) t.below(10); std::vector<int> acts; for (int i = 0; i < nact; i++) acts.push_back((int) t.below(A_N));
    uint32_t es = t.u16();
    std::string as; for (int a : acts) { as += act_name[a]; as += ","; }
    std::string desc = fmt("%s %s kind=%d early-data-records=%d%s%s acts=[%s]", ver_name(ver), su.name, kind, n_early, early_cauth ? "+cauth" : "", hrr ? "+hello-retry-request" : "", as.c_str());
    c.sample(desc); if (c.verbose) fprintf(stderr, "case: %s\n", desc.c_str());
    vfh_entropy_reset(300 + es); vfh_clock_set_ms(1000000); vfh_ledger_reset();
    std::vector<Bytes> draws; g_draws = &draws; g_entropy_seen = 0; vfh_entropy_tap = tap;
    struct Untap { ~Untap() { vfh_entropy_tap = nullptr; g_draws = nullptr; } } untap;

    // every AEAD seal so far: (key, nonce) unique, counters increasing per key.  Also evaluated when the handshake does not complete:
    // a nonce collision usually shows up to the peer as a bad record MAC, i.e. as a failed handshake
    unsigned retrans = 0;
    auto check_ledger = [&]() {
        std::map<std::pair<uint64_t, std::string>, const vfh_seal_t *> seen; std::map<uint64_t, std::vector<const vfh_seal_t *>> per_key; retrans = 0;
    for (unsigned i = 0; i < vfh_ledger_n; i++) {
        const vfh_seal_t &e = vfh_ledger[i];
        VF_CHECK(e.alg != 3, "gcm-encrypt-without-fresh-nonce", "psAesEncryptGCM called without a preceding psAesReadyGCM (nonce %s reused implicitly); %s", hex(e.nonce, 12).c_str(), desc.c_str());
        auto k = std::make_pair(e.key_id, std::string((const char *) e.nonce, 12));
        auto it = seen.find(k);
        if (it != seen.end()) {
            bool same = it->second->aad_h == e.aad_h && it->second->pt_h == e.pt_h && it->second->pt_len == e.pt_len;
            VF_CHECK(same && dt, "aead-nonce-reused-under-key", "nonce %s used twice under one key for %s records (pt lens %u/%u, aad %s / %s); %s", hex(e.nonce, 12).c_str(), same ? "identical (allowed for DTLS retransmission only)" : "DIFFERENT", it->second->pt_len, e.pt_len, hex(it->second->aad, 13).c_str(), hex(e.aad, 13).c_str(), desc.c_str());
            retrans++;
        } else seen[k] = &e;
        per_key[e.key_id].push_back(&e);
    }
    // per key, sequence numbers strictly increase (TLS). TLS 1.2 GCM / ChaCha(1.2): last 8 nonce bytes (resp. xor with first) form the counter.
    if (!dt) for (auto &kv : per_key) {
        const auto &v = kv.second; if (v.size() < 2) continue;
        uint64_t prev = 0; bool first = true; unsigned char base[12]; memcpy(base, v[0]->nonce, 12);
        for (auto *e : v) { uint64_t s = 0; for (int i = 4; i < 12; i++) s = s << 8 | (uint8_t) (e->nonce[i] ^ ((su.tls13 || e->alg == 2) ? base[i] : 0));
            if (!first) VF_CHECK(s > prev, "sequence-number-not-increasing-under-key", "nonce counter went %llu -> %llu under one key; %s", (unsigned long long) prev, (unsigned long long) s, desc.c_str());
            prev = s; first = false; }
    }
    };
    sslSessionId_t *sid = nullptr; struct SG { sslSessionId_t *&s; ~SG() { if (s) matrixSslDeleteSessionId(s); } } sg{ sid };
    std::vector<Bytes> cwire, swire;   // everything each side emitted (units)
    auto grab = [&](Endpoint &e, std::vector<Bytes> &w) { e.pump_out(); if (e.dtls) { for (auto &d : e.dgram_out) w.push_back(d); } else if (!e.wire_out.empty()) w.push_back(e.wire_out); };
    bool drop_next = false;
    auto settle = [&](Pair &p) { for (int r = 0; r < (dt ? 14 : 60); r++) { bool mv = false;
            grab(p.c, cwire); if (p.c.dtls) { while (!p.c.dgram_out.empty()) { Bytes x = p.c.dgram_out.front(); p.c.dgram_out.pop_front(); if (drop_next) { drop_next = false; continue; } if (p.s.ssl) p.s.feed_dgram(x); mv = true; } } else if (!p.c.wire_out.empty()) { Bytes x = p.c.take_wire(); if (p.s.ssl && !p.s.failed) p.s.feed(x); mv = true; }
            grab(p.s, swire); if (p.s.dtls) { while (!p.s.dgram_out.empty()) { Bytes x = p.s.dgram_out.front(); p.s.dgram_out.pop_front(); if (drop_next) { drop_next = false; continue; } if (p.c.ssl) p.c.feed_dgram(x); mv = true; } } else if (!p.s.wire_out.empty()) { Bytes x = p.s.take_wire(); if (p.c.ssl && !p.c.failed) p.c.feed(x); mv = true; }
            if (!mv) break; } };
    auto mk = [&](Pair &p, sslSessionId_t *s) { Config cc, sc; cc.client = true; sc.client = false; cc.versions = sc.versions = { ver }; cc.suites = { su.id }; cc.auth = sc.auth = su.auth; cc.entropy_stream = 1; sc.entropy_stream = 2;
        cc.client_auth = sc.client_auth = kind == 1 || early_cauth; sc.cert_cb = cb_strict; cc.sid = s; if (early) sc.max_early_data = 16384;
        // HelloRetryRequest: the client's only key share is for a group the server does not enable
        if (hrr) { cc.tweak = [](sslSessOpts_t &o) { uint16_t g[2] = { 29, 23 }; matrixSslSessOptsSetKeyExGroups(&o, g, 2, 1); }; sc.tweak = [](sslSessOpts_t &o) { uint16_t g[1] = { 23 }; matrixSslSessOptsSetKeyExGroups(&o, g, 1, 0); }; }
        return p.s.open(sc) >= 0 && p.c.open(cc) >= 0; };
    if (kind == 2) { if (matrixSslNewSessionId(&sid, NULL) < 0) throw Discard{}; Pair p0; if (!mk(p0, sid)) throw Discard{}; settle(p0); if (dt) for (int r = 0; r < 6 && !(p0.c.hs_complete() && p0.s.hs_complete()); r++) { p0.c.dtls_timeout(); p0.s.dtls_timeout(); settle(p0); } VF_CHECK(p0.c.hs_complete() && p0.s.hs_complete(), "harness-priming-handshake-failed", "priming session did not complete; %s", desc.c_str()); }
    Pair p; if (!mk(p, sid)) throw Discard{};
    if (early) { p.c.sel(); if (matrixSslGetMaxEarlyData(p.c.ssl) > 0) { for (int i = 0; i < n_early; i++) { Bytes m(20 + 31 * i, (uint8_t) (0x41 + i)); p.c.send(m, 1); } c.count("tls13-early-data-sent"); } else c.count("tls13-early-data-not-offered"); }
    // "0.5-RTT": a server that accepted early data may send application data right after its own Finished, before the client's
    // Finished has arrived; those records, the NewSessionTicket and later data all travel under the server application key
    // early data offered, then a HelloRetryRequest: the application keeps writing "early" data after the retry request has been processed
    // (refused or sealed - never under a key and nonce already used for the records that went with the first ClientHello)
    if (early && hrr) { grab(p.c, cwire); if (!p.c.wire_out.empty()) { Bytes x = p.c.take_wire(); p.s.feed(x); }
        // the HelloRetryRequest is the first record of the server's answer; whatever follows it (this server answers early data it
        // cannot use with an alert) reaches the client after the application has tried to write
        grab(p.s, swire); Bytes rest; if (!p.s.wire_out.empty()) { Bytes x = p.s.take_wire(); auto rs = parse_records(x, false); size_t cut = rs.empty() ? x.size() : rs[0].off + rs[0].hdr + rs[0].len;
            Bytes first(x.begin(), x.begin() + cut); rest.assign(x.begin() + cut, x.end()); if (p.c.ssl && !p.c.failed) p.c.feed(first); }
        int acc = 0; for (int i = 0; i < 2; i++) if (p.c.alive() && p.c.send(Bytes(20 + 31 * i, (uint8_t) (0x51 + i)), 1) >= 0) acc++;
        if (!rest.empty() && p.c.ssl && !p.c.failed) p.c.feed(rest);
        c.count(acc ? "tls13-early-data-written-after-hello-retry-request:accepted" : "tls13-early-data-written-after-hello-retry-request:refused"); }
    if (early && !hrr && t.coin()) { grab(p.c, cwire); if (!p.c.wire_out.empty()) { Bytes x = p.c.take_wire(); p.s.feed(x); }
        int k = 1 + (int) t.below(2), okc = 0; for (int i = 0; i < k; i++) if (p.s.alive() && !p.s.hs_complete() && p.s.send(Bytes(30 + 7 * i, (uint8_t) (0x61 + i)), 0) >= 0) okc++;
        if (okc) c.count("tls13-half-rtt-server-data"); }
    settle(p);
    if (dt) for (int r = 0; r < 6 && !(p.c.hs_complete() && p.s.hs_complete()); r++) { p.c.dtls_timeout(); p.s.dtls_timeout(); settle(p); }
    if (!(p.c.hs_complete() && p.s.hs_complete())) { c.count("handshake-incomplete"); check_ledger(); throw Discard{}; }
    Endpoint &A = t.coin() ? p.c : p.s; Endpoint &B = (&A == &p.c) ? p.s : p.c;
    unsigned cbc_records_checked = 0; int mi = 0;
    auto amsg = [&](size_t n) { Bytes b(n); for (size_t i = 0; i < n; i++) b[i] = (uint8_t) (mi * 17 + i); mi++; return b; };
    // a CBC record's encoding must draw at least one block of fresh randomness
    auto send_checked = [&](Endpoint &e, const Bytes &m, int api) {
        uint64_t before = g_entropy_seen; int rc = e.send(m, api);
        if (rc >= 0 && !su.aead && !su.tls13 && e.alive()) { cbc_records_checked++; VF_CHECK(g_entropy_seen - before >= 16, "cbc-iv-not-freshly-drawn", "CBC record encoded with only %llu fresh random bytes drawn; %s", (unsigned long long) (g_entropy_seen - before), desc.c_str()); }
        return rc; };
    for (int a : acts) {
        c.count(std::string("act:") + act_name[a]);
        switch (a) {
        case A_SEND0: send_checked(A, amsg(1 + t.below(200)), 0); break;
        case A_SEND1: send_checked(A, amsg(1 + t.below(200)), 1); break;
        case A_SEND_BIG: if (!dt) send_checked(A, amsg(16384), 0); break;
        case A_SEND_USERBUF_RETRY: { if (!A.alive()) break; Bytes m = amsg(100 + t.below(100)); unsigned char small[32]; uint32 cl = sizeof small; A.sel();
            int32 rc = matrixSslEncodeToUserBuf(A.ssl, m.data(), (uint32) m.size(), small, &cl);   // too small: must fail without consuming a sequence number
            VF_CHECK(rc < 0, "userbuf-too-small-accepted", "EncodeToUserBuf into a 32-byte buffer returned %d; %s", rc, desc.c_str());
            Bytes big(m.size() + 600); cl = (uint32) big.size(); A.sel(); rc = matrixSslEncodeToUserBuf(A.ssl, m.data(), (uint32) m.size(), big.data(), &cl);
            if (rc > 0 && cl <= big.size()) { big.resize(cl); (&A == &p.c ? cwire : swire).push_back(big); if (dt) B.feed_dgram(big); else B.feed(big); } break; }
        case A_PEER_SEND: send_checked(B, amsg(1 + t.below(300)), 0); break;
        case A_GARBAGE_TO_PEER: if (!dt && A.alive()) { Bytes g = { 23, 3, 3, 0, 24 }; g.resize(29, 0x77); A.feed(g); } break;   // A answers with an alert under its current write key
        case A_CLOSE: A.send_close(); break;
        case A_TIMEOUT: if (dt) { A.dtls_timeout(); B.dtls_timeout(); } break;
        case A_DROP_NEXT: if (dt) drop_next = true; break;
        case A_SEND_EMPTY: { // a zero-length application record through either API: refused or sealed, it must not disturb the nonce sequence
            static const uint8_t nothing[1] = { 0 }; int api = (int) t.below(2); if (!A.alive()) break; int rc = A.send(nothing, 0, api); c.count(rc >= 0 ? "zero-length-record-encoded" : "zero-length-record-refused");
            send_checked(A, amsg(1 + t.below(40)), api); break; }
        case A_BURST: for (int i = 0; i < 300 && A.alive(); i++) { send_checked(A, amsg(1 + (i % 7)), 0); if ((i & 31) == 31) settle(p); } break;
        }
        settle(p);
    }
    // ---- ledger invariants
    if (c.verbose) for (unsigned i = 0; i < vfh_ledger_n; i++) fprintf(stderr, "  seal[%u] key=%016llx nonce=%s ptlen=%u pth=%016llx alg=%d aad=%s pt0=%02x\n", i, (unsigned long long) vfh_ledger[i].key_id, hex(vfh_ledger[i].nonce, 12).c_str(), vfh_ledger[i].pt_len, (unsigned long long) vfh_ledger[i].pt_h, vfh_ledger[i].alg, hex(vfh_ledger[i].aad, 13).c_str(), vfh_ledger[i].pt0);
    VF_CHECK(vfh_ledger_overflow == 0, "harness-ledger-overflow", "ledger overflow");
    check_ledger();
    // CBC: explicit IV blocks on the wire are pairwise distinct and never equal an earlier ciphertext block of the same direction
    if (!su.aead && !su.tls13) for (auto *w : { &cwire, &swire }) {
        std::set<std::string> ivs, blocks; 
        for (auto &u : *w) for (auto &r : parse_records(u, dt)) {
            if (r.type != 23 || r.len < 32) continue; if (dt && r.epoch == 0) continue;
            std::string iv((const char *) &u[r.off + r.hdr], 16);
            VF_CHECK(!ivs.count(iv), "cbc-explicit-iv-repeated", "explicit IV %s repeated on the wire; %s", hex(iv.data(), 16).c_str(), desc.c_str());
            VF_CHECK(!blocks.count(iv), "cbc-iv-equals-earlier-ciphertext-block", "explicit IV %s equals an earlier ciphertext block (chained IV); %s", hex(iv.data(), 16).c_str(), desc.c_str());
            ivs.insert(iv);
            for (size_t o = 16; o + 16 <= r.len; o += 16) blocks.insert(std::string((const char *) &u[r.off + r.hdr + o], 16));
        }
    }
    c.count("ledger-entries", vfh_ledger_n); c.count("cbc-records-checked", cbc_records_checked); c.count("dtls-retransmitted-seals", retrans);
    c.count(std::string("ver:") + ver_name(ver));
    bool interesting = false; for (int a : acts) if (a == A_GARBAGE_TO_PEER || a == A_SEND_USERBUF_RETRY || a == A_CLOSE || a == A_TIMEOUT || a == A_DROP_NEXT || a == A_BURST || a == A_SEND_EMPTY) interesting = true;
    if ((vfh_ledger_n >= 2 || cbc_records_checked >= 2) && interesting) { std::set<int> ks(acts.begin(), acts.end()); std::string k; for (int a : ks) k += std::to_string(a) + ","; c.nontrivial(fmt("%d|%04x|%d|%s", ver, su.id, kind, k.c_str())); }
}
VF_TARGET("C17.nonce_ledger", prop, 256, 120)
namespace vf { void vf_global_init(int, char **) { mxh::global_open(); } }
