"""C13 registry entry (loaded by bin/registry.py)."""
PROP = dict(
    level='exploration',
    level_text='Generated differential testing of every pstm_* operation against GMP over operand sizes/values/aliasing chosen to reach each size-specialised code path; finds wrong results with high probability where they depend on operand shape, proves nothing about unexplored operands.',
    level_note='Trusted: GMP, the harness conversion of digit arrays. Functions are exercised inside the operand domain their documentation and in-tree callers define (listed per operation in props/C13/bignum.cc): results <= PSTM_MAX_SIZE-2 digits; sub_s |a|>=|b|; sqr/montgomery/exptmod non-negative; Montgomery modulus odd; exptmod P odd with 512..4096 bits in the supported steps and 0<X<P; invmod must succeed only for 0<a<b, gcd 1, bits(a)+bits(b)<=4096; the remainder output of pstm_div_2d for every shift count and also with c == a (repaired in /repo 7525ffd). pstm_sub_s is an unsigned primitive: magnitude only. Output/input aliasing that no in-tree caller uses and the headers do not promise (exptmod Y==X, Y==P; mulmod d==c; invmod c==b; div c==NULL,d==a / c==NULL,d==b / c==b,d==a; montgomery_calc_normalization a==b; montgomery_reduce a==m) is executed and counted (unpromised:*), not judged.',
    technique='property-based differential testing vs GMP (tape generators + shrinking) plus GMP-free algebraic identities and the pstm_int structural invariant after every call',
    rule='case = (operation, operand digit counts, value classes, signs, aliasing pattern, output-variable state, scratch-buffer mode) drawn from the tape. '
         'Output variables: every primary output of every operation is fresh (minimal / default allocation) or pre-loaded with a generated value whose digit count is drawn relative to the exact result '
         '(any shorter, just shorter, equal, just longer, up to 40 digits longer; random / all-ones / top-bit-only digits; exact to roomy allocation) and whose sign is generated (counters out:<op>:<zero|shorter|equal|longer>[:neg]); '
         'the output is aliased with each input in turn (exptmod: Y==G enforced as in rsa.c, Y==X and Y==P counted; see level_note); negative operands are squared too. '
         'These choices come from a second tape region (bytes 1024..1151) so that operand generation is unaffected. '
         'Operations: add sub sub_s add_d sub_d mul_comba sqr_comba mul_d mul_2 div div_2 div_2d mod mulmod exptmod invmod lshd rshd 2expt cmp cmp_mag cmp_d '
         'montgomery_setup/calc_normalization/reduce read_unsigned_bin to_unsigned_bin(_nr,_alloc) unsigned_bin_size count_bits read_asn read_radix copy abs init_copy set zero exch grow clamp. '
         'Digit counts: 12/16 of the binary cases draw a uniform pair from [0,34]^2 (counters pair:m:n), the rest 35..70 and up to 190 digits. '
         'Value classes: random, 2^k, 2^k-1, 2^k+1, all-ones, alternating 0/~0 digits (both phases), sparse special digits, top-digit-only, top digit 1, equal to / differing only in top / bottom digit from the other operand; '
         'moduli odd/even/one digit/2^k-1/curve primes and orders/512-2048-bit primes/RSA moduli. '
         'Oracle: GMP on the same digit arrays (value and sign), error return accepted only outside the documented domain; second net: (a+b)-b=a, a*b=b*a, sqr=mul, mul_2=a+a, q*b+r=a and |r|<|b|, '
         'mulmod=mod(mul), a*a^-1=1, g^(x1+x2)=g^x1*g^x2, redc(xR*y)=x*y, lshd/rshd round trip; every result is afterwards used as in/out operand of an aliased add with a longer addend (stale digits above used). '
         'Invariant after every call: used<=alloc<=PSTM_MAX_SIZE, top digit non-zero, zero is non-negative, inputs not modified. '
         'non-trivial = all operands >= 2 digits and (a structured value class or aliasing or an edge digit/shift operand); distinct = distinct (op, digit-count buckets, value classes, alias pattern, signs)',
    assumptions=['GMP 6.x is correct', 'functions are called inside the domain their documentation and in-tree callers define (see level_note)'],
    targets=[dict(name='c13_bignum', src=['props/C13/bignum.cc'], libs=['-lgmp'], hang_is_violation=True,
                  quick=dict(cases=400000, secs=60), thorough=dict(cases=30000000, secs=840, grace=120))],
)
