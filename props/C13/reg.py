"""C13 registry entry (loaded by bin/registry.py)."""
PROP = dict(
    level='exploration',
    level_text='Generated differential testing of every pstm_* operation against GMP over operand sizes/values/aliasing chosen to reach each size-specialised code path; finds wrong results with high probability where they depend on operand shape, proves nothing about unexplored operands.',
    level_note='Trusted: GMP, the harness conversion via byte strings. Functions are exercised inside the operand domain their in-tree callers use (documented per operation in props/C13).',
    technique='property-based differential testing vs GMP (tape generators + shrinking)',
    rule='cases = (operation, operand digit counts, structured value classes, aliasing pattern) drawn from the tape; '
         'oracle = GMP on the same byte strings + algebraic identities; non-trivial = operands of >= 2 digits with an edge-class '
         'value or aliasing; distinct = distinct (op, digit-count pair, value classes, alias pattern)',
    assumptions=['GMP 6.2 is correct', 'functions are called inside the domain their in-tree callers use'],
    targets=[dict(name='c13_bignum', src=['props/C13/bignum.cc'], libs=['-lgmp'],
                  quick=dict(cases=400000, secs=60), thorough=dict(cases=40000000, secs=900))],
)
