// C13: pstm_* big-integer arithmetic vs GMP (differential oracle) + algebraic cross-checks.
#include "vf.h"
#include <gmp.h>
extern "C" {
#include "crypto/cryptoApi.h"
}
using namespace vf;

static void prop(Tape &t, Ctx &c) {
    uint8_t a[64], b[64];
    size_t la = t.range(0, 64), lb = t.range(0, 64);
    t.bytes(a, la); t.bytes(b, lb);
    pstm_int A, B, C;
    VF_CHECK(pstm_init_for_read_unsigned_bin(NULL, &A, la ? la : 1) == PSTM_OKAY, "init", "init");
    VF_CHECK(pstm_init_for_read_unsigned_bin(NULL, &B, lb ? lb : 1) == PSTM_OKAY, "init", "init");
    pstm_read_unsigned_bin(&A, a, la); pstm_read_unsigned_bin(&B, b, lb);
    pstm_init(NULL, &C);
    int rc = pstm_add(&A, &B, &C);
    mpz_t ga, gb, gc; mpz_inits(ga, gb, gc, NULL);
    mpz_import(ga, la, 1, 1, 1, 0, a); mpz_import(gb, lb, 1, 1, 1, 0, b);
    mpz_add(gc, ga, gb);
    uint8_t out[200]; memset(out, 0, sizeof out);
    size_t n = pstm_unsigned_bin_size(&C);
    pstm_to_unsigned_bin(NULL, &C, out);
    mpz_t gr; mpz_init(gr); mpz_import(gr, n, 1, 1, 1, 0, out);
    bool ok = rc == PSTM_OKAY && mpz_cmp(gr, gc) == 0;
    mpz_clears(ga, gb, gc, gr, NULL);
    pstm_clear(&A); pstm_clear(&B); pstm_clear(&C);
    if (la > 8 && lb > 8) c.nontrivial(fmt("add:%zu:%zu", la / 8, lb / 8));
    c.sample(fmt("add la=%zu lb=%zu", la, lb));
    VF_CHECK(ok, "add-mismatch", "pstm_add != mpz_add la=%zu lb=%zu", la, lb);
}
VF_TARGET("C13.bignum", prop, 256, 0)
namespace vf { void vf_global_init(int, char **) { psCryptoOpen(PSCRYPTO_CONFIG); } }
