// C13: pstm_* big-integer arithmetic is mathematically exact.
//
// Differential test of the whole pstm_* API (crypto/math/pstm*.c) against GMP, plus algebraic
// cross-checks that do not involve GMP, plus the structural invariant of pstm_int after every call.
//
// Input domains (derived from the function comments and from every in-tree caller, see the table
// in reg.py / the comments at each op_* function):
//   * results are kept <= PSTM_MAX_SIZE-2 digits so the exact result is always representable;
//   * pstm_sub_s: |a| >= |b|, unsigned;  pstm_sqr_comba / montgomery_* / exptmod: non-negative;
//   * Montgomery functions: odd modulus >= 3, reduce input < m*R and alloc >= m.used+1;
//   * pstm_exptmod: P odd with exactly 512/1024/1536/2048/3072/4096 bits, 0 < X < P;
//   * pstm_mod / mulmod / invmod: modulus > 0;  invmod "must succeed" only for 0 < a < b, gcd = 1 and
//     bits(a)+bits(b) <= 4096 (the fast path has a 4096-iteration sanity limit);
//   * negative operands of div/div_2/div_2d: truncating or flooring quotient both accepted
//     (the documentation only promises q*b + r = a).
// Outside these domains an error return is accepted (and counted); a success return is still
// compared with the exact value where the mathematical meaning is unambiguous.
#include "vf.h"
#include <gmp.h>
#include <string>
#include <vector>
extern "C" {
#include "crypto/cryptoApi.h"
}
using namespace vf;

typedef std::vector<uint64_t> Mag; // magnitude, little-endian 64-bit digits, no leading zero digit
static const int MAXD = PSTM_MAX_SIZE; // 192
static const int LIM = PSTM_MAX_SIZE - 2; // largest digit count of any exact result we ask for
static bool g_fullcov = false;

static_assert(sizeof(pstm_digit) == 8 && DIGIT_BIT == 64, "C13 harness expects 64-bit pstm digits");

// ------------------------------------------------------------------ small RAII wrappers
struct Z {
    mpz_t v;
    Z() { mpz_init(v); }
    ~Z() { mpz_clear(v); }
    Z(const Z &) = delete;
    Z &operator=(const Z &) = delete;
};
struct P {
    pstm_int v;
    bool live;
    P() : live(false) { memset(&v, 0, sizeof v); }
    ~P() { if (live) pstm_clear(&v); }
    P(const P &) = delete;
    P &operator=(const P &) = delete;
};

static inline int imin(int a, int b) { return a < b ? a : b; }
static inline int imax(int a, int b) { return a > b ? a : b; }

// ------------------------------------------------------------------ case description
enum { RND = 0, POW2, POW2M1, POW2P1, ONES, ALT0, ALT1, SPARSE, TOPONLY, SMALLTOP, EQ, DTOP, DBOT, N_CLS };
static const char *CLSN[] = { "rnd", "pow2", "pow2m1", "pow2p1", "ones", "alt0", "alt1", "sparse", "toponly", "smalltop", "eq", "dtop", "dbot" };
enum { AL_NONE = 0, AL_CA, AL_CB, AL_AB, AL_ALL, AL_OTHER };
static const char *ALN[] = { "none", "out=a", "out=b", "a=b", "out=a=b", "other" };

struct Case {
    std::string op;
    int m = -1, n = -1, k = -1; // digit counts of first / second / third operand (-1 = absent)
    int ca = RND, cb = RND, cc = RND;
    int sa = 0, sb = 0;
    int alias = AL_NONE;
    std::string extra;
    bool edge = false; // some other structured edge (digit operand, shift count, ...) was used
};
static std::string descr(const Case &cs) {
    std::string s = cs.op + fmt(" m=%d(%s%s)", cs.m, cs.sa ? "-" : "", CLSN[cs.ca]);
    if (cs.n >= 0) s += fmt(" n=%d(%s%s)", cs.n, cs.sb ? "-" : "", CLSN[cs.cb]);
    if (cs.k >= 0) s += fmt(" k=%d(%s)", cs.k, CLSN[cs.cc]);
    s += fmt(" alias=%s", ALN[cs.alias]);
    if (!cs.extra.empty()) s += " " + cs.extra;
    return s;
}
static int bucket(int d) {
    if (d < 0) return 15;
    if (d <= 2) return d;
    if (d <= 4) return 3;
    if (d <= 8) return 4;
    if (d <= 15) return 5;
    if (d <= 17) return 6;
    if (d <= 31) return 7;
    if (d <= 34) return 8;
    if (d <= 64) return 9;
    return 10;
}
// Bookkeeping common to all ops: counters, non-trivial rule, sample.
static void book(Ctx &c, const Case &cs) {
    c.count("op:" + cs.op);
    if (cs.n >= 0) {
        if (cs.m <= 34 && cs.n <= 34) c.count(fmt("pair:%d:%d", cs.m, cs.n));
        else c.count(cs.m > 64 || cs.n > 64 ? "pair:over64" : "pair:35-64");
        c.count(fmt("n:%s:%d", cs.op.c_str(), cs.n <= 34 ? cs.n : cs.n <= 64 ? 64 : 192));
        if (g_fullcov && cs.m <= 34 && cs.n <= 34) c.count(fmt("P:%s:%d:%d", cs.op.c_str(), cs.m, cs.n));
    } else if (g_fullcov && cs.m <= 34) c.count(fmt("P:%s:%d", cs.op.c_str(), cs.m));
    c.count(fmt("m:%s:%d", cs.op.c_str(), cs.m <= 34 ? cs.m : cs.m <= 64 ? 64 : 192));
    c.count(std::string("cls:") + CLSN[cs.ca]);
    if (cs.n >= 0) c.count(std::string("cls:") + CLSN[cs.cb]);
    c.count(std::string("alias:") + ALN[cs.alias]);
    if (cs.sa || cs.sb) c.count("signs:some-negative");
    bool big = cs.m >= 2 && (cs.n < 0 || cs.n >= 2);
    bool structured = cs.ca != RND || (cs.n >= 0 && cs.cb != RND) || (cs.k >= 0 && cs.cc != RND) || cs.alias != AL_NONE || cs.edge;
    if (big && structured)
        c.nontrivial(fmt("%s:%d:%d:%d:%d:%d:%d:%d", cs.op.c_str(), bucket(cs.m), bucket(cs.n), bucket(cs.k), cs.ca, cs.cb, cs.alias, cs.sa * 2 + cs.sb));
    c.sample(descr(cs));
}

// ------------------------------------------------------------------ magnitudes
static void trim(Mag &m) { while (!m.empty() && m.back() == 0) m.pop_back(); }
static int cmp_mag(const Mag &a, const Mag &b) {
    if (a.size() != b.size()) return a.size() < b.size() ? -1 : 1;
    for (size_t i = a.size(); i-- > 0;)
        if (a[i] != b[i]) return a[i] < b[i] ? -1 : 1;
    return 0;
}
static void z_from_mag(mpz_t z, const Mag &m, int neg) {
    mpz_import(z, m.size(), -1, 8, 0, 0, m.data());
    if (neg) mpz_neg(z, z);
}
static void z_from_p(mpz_t z, const pstm_int *p) {
    mpz_import(z, p->used, -1, 8, 0, 0, p->dp);
    if (p->sign == PSTM_NEG) mpz_neg(z, z);
}
static Mag mag_from_z(const mpz_t z) {
    size_t n = (mpz_sizeinbase(z, 2) + 63) / 64;
    Mag m(n + 1, 0);
    size_t cnt = 0;
    mpz_export(m.data(), &cnt, -1, 8, 0, 0, z);
    m.resize(cnt);
    trim(m);
    return m;
}
static std::string zhex(const mpz_t z) {
    size_t n = mpz_sizeinbase(z, 16) + 2;
    std::vector<char> b(n + 1);
    mpz_get_str(b.data(), 16, z);
    std::string s(b.data());
    if (s.size() > 200) s = s.substr(0, 120) + "..." + s.substr(s.size() - 60) + fmt("[%zu hex digits]", s.size());
    return s;
}
static uint64_t splitmix(uint64_t &s) {
    s += 0x9E3779B97F4A7C15ULL;
    uint64_t z = s;
    z = (z ^ (z >> 30)) * 0xBF58476D1CE4E5B9ULL;
    z = (z ^ (z >> 27)) * 0x94D049BB133111EBULL;
    return z ^ (z >> 31);
}
// Digit source: the first 36 digits of an operand come straight from the tape (so they shrink well),
// further digits are a deterministic expansion of 8 more tape bytes.
struct Src {
    Tape &t; int direct; uint64_t seed; bool seeded;
    explicit Src(Tape &tt) : t(tt), direct(0), seed(0), seeded(false) {}
    uint64_t next() {
        if (direct < 36) { direct++; return t.u64(); }
        if (!seeded) { seed = t.u64(); seeded = true; }
        return splitmix(seed);
    }
};
static Mag cheap_mag(Tape &t, int nd) { // pseudo-random magnitude from 4 tape bytes
    Mag m((size_t) imax(nd, 0), 0);
    uint64_t s = t.u32();
    for (int i = 0; i < nd; i++) m[i] = splitmix(s);
    if (nd > 0 && m[nd - 1] == 0) m[nd - 1] = 1;
    return m;
}

// value of exactly nd digits (top digit non-zero) of class cls; relation classes need other->size()==nd
static Mag gen_mag(Tape &t, int nd, int &cls, const Mag *other) {
    Mag m;
    if (nd <= 0) { if (cls >= EQ) cls = RND; return m; }
    if (cls >= EQ && (!other || (int) other->size() != nd)) cls = RND;
    Src s(t);
    m.assign(nd, 0);
    switch (cls) {
    case POW2: m[nd - 1] = 1ULL << t.below(64); break;
    case POW2M1: {
        unsigned k = (unsigned) t.below(64);
        for (int i = 0; i < nd - 1; i++) m[i] = ~0ULL;
        m[nd - 1] = k == 63 ? ~0ULL : ((1ULL << (k + 1)) - 1);
        break;
    }
    case POW2P1: {
        unsigned k = (unsigned) t.below(64);
        m[nd - 1] = 1ULL << k;
        if (nd == 1 && k == 0) m[0] = 2; else m[0] |= 1;
        break;
    }
    case ONES: for (int i = 0; i < nd; i++) m[i] = ~0ULL; break;
    case ALT0: for (int i = 0; i < nd; i++) m[i] = ((nd - 1 - i) & 1) ? 0 : ~0ULL; break;
    case ALT1: for (int i = 0; i < nd; i++) m[i] = ((nd - 1 - i) & 1) ? ~0ULL : 0; m[nd - 1] = 1; break;
    case SPARSE:
        for (int i = 0; i < nd; i++) {
            uint64_t r = s.next();
            switch (r & 7) {
            case 0: case 1: m[i] = 0; break;
            case 2: m[i] = ~0ULL; break;
            case 3: m[i] = 1; break;
            case 4: m[i] = 1ULL << 63; break;
            case 5: m[i] = 0xffffffffULL; break;
            case 6: m[i] = 0xffffffff00000000ULL; break;
            default: m[i] = r >> 3; break;
            }
        }
        break;
    case TOPONLY: m[nd - 1] = s.next(); break;
    case SMALLTOP: for (int i = 0; i < nd; i++) m[i] = s.next(); m[nd - 1] = 1; break;
    case EQ: m = *other; break;
    case DTOP: case DBOT: {
        m = *other;
        int idx = cls == DTOP ? nd - 1 : 0;
        uint64_t o = m[idx], v;
        unsigned r = (unsigned) t.below(3);
        v = r == 0 ? o + 1 : r == 1 ? o - 1 : (o ^ (1ULL << t.below(64)));
        if (idx == nd - 1 && v == 0) v = (o + 1 != 0) ? o + 1 : o - 1; // keep the top digit non-zero
        if (v == o) v = o ^ 2;
        if (idx == nd - 1 && v == 0) v = o ^ 4;
        m[idx] = v;
        break;
    }
    default: for (int i = 0; i < nd; i++) m[i] = s.next(); break;
    }
    if (m[nd - 1] == 0) m[nd - 1] = 1;
    return m;
}
static int pick_cls(Tape &t, bool rel) {
    unsigned r = (unsigned) t.below(32);
    static const int structured[12] = { POW2, POW2M1, POW2P1, ONES, ALT0, ALT1, SPARSE, TOPONLY, SMALLTOP, ONES, POW2M1, ALT0 };
    static const int relation[6] = { EQ, EQ, DTOP, DTOP, DBOT, DBOT };
    if (r < 10) return RND;
    if (r < 22) return structured[r - 10];
    if (r < 28) return rel ? relation[r - 22] : structured[(r - 22) * 2];
    return RND;
}
// digit count: 11/16 uniform 0..34 (every pair), 3/16 35..70, 2/16 uniform up to maxnd
static int pick_nd(Tape &t, int maxnd) {
    unsigned r = (unsigned) t.below(16);
    int v;
    if (r < 11) v = (int) t.below(35);
    else if (r < 14) v = 35 + (int) t.below(36);
    else v = (int) t.below((uint64_t) maxnd + 1);
    return v > maxnd ? maxnd : v;
}
static pstm_digit pick_digit(Tape &t, bool *edge) {
    unsigned r = (unsigned) t.below(8);
    if (edge) *edge = (r >= 1 && r <= 6);
    switch (r) {
    case 1: return 0;
    case 2: return 1;
    case 3: return ~0ULL;
    case 4: return 1ULL << 63;
    case 5: return t.u8();
    case 6: return 2;
    default: return t.u64();
    }
}
static int pick_alias3(Tape &t) { // for c = a op b
    static const int tab[8] = { AL_NONE, AL_NONE, AL_NONE, AL_CA, AL_CB, AL_AB, AL_ALL, AL_CA };
    return tab[t.below(8)];
}

// ------------------------------------------------------------------ pstm_int construction
static void mk(P &p, const Mag &m, int neg, unsigned amode) {
    int used = (int) m.size(), a;
    switch (amode % 5) {
    case 0: a = used; break;
    case 1: a = used + 1; break;
    case 2: a = used + 2; break; // what pstm_init_for_read_unsigned_bin gives
    case 3: a = 2 * used + 3; break; // what pstm_init_copy(toSqr) gives
    default: a = used < 48 ? 48 : used + 4; break; // pstm_init default
    }
    if (a < 1) a = 1;
    if (a > MAXD) a = MAXD;
    VF_CHECK(used <= MAXD, "harness-bug", "operand of %d digits", used);
    VF_CHECK(pstm_init_size(NULL, &p.v, (psSize_t) a) == PSTM_OKAY, "harness-init", "pstm_init_size(%d) failed", a);
    p.live = true;
    for (int i = 0; i < used; i++) p.v.dp[i] = m[i];
    p.v.used = (uint16_t) used;
    p.v.sign = (neg && used) ? PSTM_NEG : PSTM_ZPOS;
}
// an output variable in one of the states callers have them in: fresh minimal, fresh default, or holding an old value
static void mk_out(P &p, Tape &t, bool allow_neg) {
    unsigned s = (unsigned) t.below(6);
    if (s == 0) { Mag z; mk(p, z, 0, 0); return; }
    if (s == 1) { VF_CHECK(pstm_init(NULL, &p.v) == PSTM_OKAY, "harness-init", "pstm_init"); p.live = true; return; }
    int nd = t.below(3) == 0 ? (int) t.below(80) : (int) t.below(36);
    Mag g = cheap_mag(t, nd);
    mk(p, g, allow_neg && t.coin(), (unsigned) t.below(3));
}

// ------------------------------------------------------------------ checks
static void inv(Ctx &c, const pstm_int *p, const Case &cs, const char *which) {
    VF_CHECK(p->dp != NULL, cs.op + "-invariant", "%s: %s has NULL dp", descr(cs).c_str(), which);
    VF_CHECK(p->used <= p->alloc, cs.op + "-invariant", "%s: %s used=%u > alloc=%u", descr(cs).c_str(), which, (unsigned) p->used, (unsigned) p->alloc);
    VF_CHECK(p->alloc <= MAXD, cs.op + "-invariant", "%s: %s alloc=%u > PSTM_MAX_SIZE", descr(cs).c_str(), which, (unsigned) p->alloc);
    VF_CHECK(p->used == 0 || p->dp[p->used - 1] != 0, cs.op + "-invariant", "%s: %s top digit is zero (used=%u)", descr(cs).c_str(), which, (unsigned) p->used);
    VF_CHECK(p->sign == PSTM_ZPOS || p->sign == PSTM_NEG, cs.op + "-invariant", "%s: %s sign=%u", descr(cs).c_str(), which, (unsigned) p->sign);
    VF_CHECK(p->used != 0 || p->sign == PSTM_ZPOS, cs.op + "-invariant", "%s: %s is a negative zero", descr(cs).c_str(), which);
    for (unsigned i = p->used; i < p->alloc; i++)
        if (p->dp[i] != 0) { c.count("info:nonzero-digit-above-used:" + cs.op); break; }
}
static void expect(Ctx &c, const pstm_int *r, const mpz_t want, const Case &cs, const char *which = "result") {
    inv(c, r, cs, which);
    Z got;
    z_from_p(got.v, r);
    if (mpz_cmp(got.v, want) != 0)
        VF_FAIL(cs.op + "-mismatch", "%s: %s got=%s want=%s", descr(cs).c_str(), which, zhex(got.v).c_str(), zhex(want).c_str());
}
static void unchanged(Ctx &c, const pstm_int *p, const Mag &m, int neg, const Case &cs, const char *which) {
    inv(c, p, cs, which);
    bool same = p->used == m.size() && ((p->sign == PSTM_NEG) == (neg && !m.empty()));
    for (size_t i = 0; same && i < m.size(); i++) same = p->dp[i] == m[i];
    VF_CHECK(same, cs.op + "-input-clobbered", "%s: input %s was modified", descr(cs).c_str(), which);
}
static void okay(int32_t rc, const Case &cs, const char *fn = "") {
    VF_CHECK(rc == PSTM_OKAY, cs.op + "-error-in-domain", "%s: %s returned %d inside its domain", descr(cs).c_str(), fn, (int) rc);
}
// Use a verified result as the in/out operand of an aliased add with a longer addend, the way ecc_math.c does
// (pstm_add(&x, modulus, &x)); a digit left non-zero above 'used' by the previous operation corrupts this sum.
static void poke(Tape &t, Ctx &c, pstm_int *r, const Case &cs) {
    if (t.below(4) != 0) return;
    int nd = r->used + 1 + (int) t.below(3);
    if (nd > LIM) return;
    Z before, w, want;
    z_from_p(before.v, r);
    Mag wm = cheap_mag(t, nd);
    P W;
    mk(W, wm, 0, 1);
    z_from_mag(w.v, wm, 0);
    mpz_add(want.v, before.v, w.v);
    int32_t rc = pstm_add(r, &W.v, r);
    c.count("followup-add");
    VF_CHECK(rc == PSTM_OKAY, cs.op + "-followup-add", "%s: follow-up pstm_add returned %d", descr(cs).c_str(), (int) rc);
    inv(c, r, cs, "follow-up sum");
    Z got;
    z_from_p(got.v, r);
    if (mpz_cmp(got.v, want.v) != 0)
        VF_FAIL(cs.op + "-followup-add", "%s: result + w (aliased) got=%s want=%s", descr(cs).c_str(), zhex(got.v).c_str(), zhex(want.v).c_str());
}

// ------------------------------------------------------------------ real moduli
struct Real { const char *name; Mag m; };
static std::vector<Real> g_real; // curve primes and group orders (all odd primes)
static void add_real(const char *name, const char *hex) {
    Z z;
    mpz_set_str(z.v, hex, 16);
    g_real.push_back(Real{ name, mag_from_z(z.v) });
}
static void init_real() {
    add_real("p192", "FFFFFFFFFFFFFFFFFFFFFFFFFFFFFFFEFFFFFFFFFFFFFFFF");
    add_real("n192", "FFFFFFFFFFFFFFFFFFFFFFFF99DEF836146BC9B1B4D22831");
    add_real("p224", "FFFFFFFFFFFFFFFFFFFFFFFFFFFFFFFF000000000000000000000001");
    add_real("n224", "FFFFFFFFFFFFFFFFFFFFFFFFFFFF16A2E0B8F03E13DD29455C5C2A3D");
    add_real("p256", "FFFFFFFF00000001000000000000000000000000FFFFFFFFFFFFFFFFFFFFFFFF");
    add_real("n256", "FFFFFFFF00000000FFFFFFFFFFFFFFFFBCE6FAADA7179E84F3B9CAC2FC632551");
    add_real("p384", "FFFFFFFFFFFFFFFFFFFFFFFFFFFFFFFFFFFFFFFFFFFFFFFFFFFFFFFFFFFFFFFEFFFFFFFF0000000000000000FFFFFFFF");
    add_real("n384", "FFFFFFFFFFFFFFFFFFFFFFFFFFFFFFFFFFFFFFFFFFFFFFFFC7634D81F4372DDF581A0DB248B0A77AECEC196ACCC52973");
    add_real("p521", "1FFFFFFFFFFFFFFFFFFFFFFFFFFFFFFFFFFFFFFFFFFFFFFFFFFFFFFFFFFFFFFFFFFFFFFFFFFFFFFFFFFFFFFFFFFFFFFFFFFFFFFFFFFFFFFFFFFFFFFFFFFFFFFFFFFFF");
    add_real("n521", "1FFFFFFFFFFFFFFFFFFFFFFFFFFFFFFFFFFFFFFFFFFFFFFFFFFFFFFFFFFFFFFFFFA51868783BF2F966B7FCC0148F709A5D03BB5C9B8899C47AEBB6FB71E91386409");
    add_real("bp224", "D7C134AA264366862A18302575D1D787B09F075797DA89F57EC8C0FF");
    add_real("bp256", "A9FB57DBA1EEA9BC3E660A909D838D726E3BF623D52620282013481D1F6E5377");
    add_real("bp384", "8CB91E82A3386D280F5D6F7E50E641DF152F7109ED5456B412B1DA197FB71123ACD3A729901D1A71874700133107EC53");
    add_real("bp512", "AADD9DB8DBE9C48B3FD4E6AE33C9FC07CB308DB3B3C9D20ED6639CCA703308717D4D9B009BC66842AECDA12AE6A380E62881FF2F2D82C68528AA6056583A48F3");
    add_real("bn512", "AADD9DB8DBE9C48B3FD4E6AE33C9FC07CB308DB3B3C9D20ED6639CCA70330870553E5C414CA92619418661197FAC10471DB1D381085DDADDB58796829CA90069");
    add_real("p25519", "7FFFFFFFFFFFFFFFFFFFFFFFFFFFFFFFFFFFFFFFFFFFFFFFFFFFFFFFFFFFFFFFED");
}
// RSA-size primes, computed once per process on first use (deterministic: fixed start values, GMP's nextprime)
static const Mag &rsa_prime(int bits, int which) {
    static std::map<int, Mag> cache;
    int key = bits * 2 + which;
    auto it = cache.find(key);
    if (it != cache.end()) return it->second;
    Z z, u;
    mpz_set_ui(z.v, 3);
    mpz_mul_2exp(z.v, z.v, bits - 2); // 2^(bits-1) + 2^(bits-2): products of two such primes have exactly 2*bits bits
    mpz_set_ui(u.v, which ? 0xC13C13ULL : 0x13C0FFEEULL);
    mpz_mul_2exp(u.v, u.v, bits / 2);
    mpz_add(z.v, z.v, u.v);
    mpz_nextprime(z.v, z.v);
    return cache[key] = mag_from_z(z.v);
}
static Mag rsa_modulus(int bits) { // N = p*q with exactly 'bits' bits
    Z p, q;
    z_from_mag(p.v, rsa_prime(bits / 2, 0), 0);
    z_from_mag(q.v, rsa_prime(bits / 2, 1), 0);
    mpz_mul(p.v, p.v, q.v);
    return mag_from_z(p.v);
}

enum { MK_ANY = 0, MK_ODD, MK_EVEN, MK_REAL, MK_RSAPRIME, N_MK };
static const char *MKN[] = { "any", "odd", "even", "real", "rsaprime" };
// modulus of about nd digits (>= 1 digit, value >= minval); need_odd forces an odd result
static Mag gen_modulus(Tape &t, int nd, bool need_odd, uint64_t minval, Case &cs) {
    unsigned r = (unsigned) t.below(16);
    int kind = r < 6 ? MK_ANY : r < 9 ? MK_ODD : r < 11 ? MK_EVEN : r < 15 ? MK_REAL : MK_RSAPRIME;
    if (need_odd && kind == MK_EVEN) kind = MK_ODD;
    Mag m;
    if (nd < 1) nd = 1;
    if (kind == MK_REAL) {
        const Real &R = g_real[t.below(g_real.size())];
        m = R.m;
        cs.extra += std::string(" mod=") + R.name;
    } else if (kind == MK_RSAPRIME) {
        static const int sizes[4] = { 512, 512, 1024, 2048 };
        int b = sizes[t.below(4)];
        m = rsa_prime(b, (int) t.below(2));
        cs.extra += fmt(" mod=rsaprime%d", b);
    } else {
        int cls = pick_cls(t, false);
        m = gen_mag(t, nd, cls, NULL);
        if (kind == MK_ODD || need_odd) m[0] |= 1;
        if (kind == MK_EVEN) { m[0] &= ~1ULL; if (m.back() == 0) m.back() = 2; }
        cs.cc = cls;
        cs.extra += std::string(" mod=") + MKN[kind];
    }
    trim(m);
    if (m.empty() || (m.size() == 1 && m[0] < minval)) { m.assign(1, minval | (need_odd ? 1 : 0)); }
    return m;
}

// ------------------------------------------------------------------ add / sub / sub_s
// In-tree: ecc_math.c (out=a, out=a=b, a=b, separate), ecc_priv.c:227 (out=b), rsa.c, pkcs.c; both signs occur
// (pstm_sub results are negative before the "add modulus" fix-up).  pstm_sub_s: unsigned, |a| >= |b| ("ALWAYS").
static void op_addsub(Tape &t, Ctx &c, int kind) {
    Case cs;
    cs.op = kind == 0 ? "add" : kind == 1 ? "sub" : "sub_s";
    int m = pick_nd(t, LIM - 1), n = pick_nd(t, LIM - 1);
    cs.ca = pick_cls(t, false);
    Mag A = gen_mag(t, m, cs.ca, NULL);
    cs.cb = pick_cls(t, true);
    if (cs.cb >= EQ && m > 0) n = m;
    Mag B = gen_mag(t, n, cs.cb, &A);
    cs.sa = kind != 2 && t.below(4) == 0;
    cs.sb = kind != 2 && t.below(4) == 0;
    cs.alias = pick_alias3(t);
    if (cs.alias == AL_AB || cs.alias == AL_ALL) { B = A; cs.sb = cs.sa; cs.cb = A.empty() ? RND : EQ; }
    if (kind == 2 && cmp_mag(A, B) < 0) { A.swap(B); int x = cs.ca; cs.ca = cs.cb; cs.cb = x; }
    if (A.empty()) cs.sa = 0;
    if (B.empty()) cs.sb = 0;
    cs.m = (int) A.size(); cs.n = (int) B.size();
    unsigned am = (unsigned) t.below(5), bm = (unsigned) t.below(5);
    P pa, pb, pc;
    mk(pa, A, cs.sa, am);
    pstm_int *a = &pa.v, *b = a, *o;
    if (!(cs.alias == AL_AB || cs.alias == AL_ALL)) { mk(pb, B, cs.sb, bm); b = &pb.v; }
    if (cs.alias == AL_CA || cs.alias == AL_ALL) o = a;
    else if (cs.alias == AL_CB) o = b;
    else { mk_out(pc, t, kind != 2); o = &pc.v; }
    book(c, cs);
    Z za, zb, want;
    z_from_mag(za.v, A, cs.sa); z_from_mag(zb.v, B, cs.sb);
    int32_t rc;
    if (kind == 0) { mpz_add(want.v, za.v, zb.v); rc = pstm_add(a, b, o); }
    else { mpz_sub(want.v, za.v, zb.v); rc = kind == 1 ? pstm_sub(a, b, o) : pstm_sub_s(a, b, o); }
    okay(rc, cs);
    if (kind == 2) { // unsigned: only the magnitude is defined, the sign field of c is not written
        inv(c, o, cs, "result");
        Z got; mpz_import(got.v, o->used, -1, 8, 0, 0, o->dp);
        if (mpz_cmp(got.v, want.v) != 0) VF_FAIL("sub_s-mismatch", "%s: got=%s want=%s", descr(cs).c_str(), zhex(got.v).c_str(), zhex(want.v).c_str());
    } else expect(c, o, want.v, cs);
    if (o != a) unchanged(c, a, A, cs.sa, cs, "a");
    if (o != b && b != a) unchanged(c, b, B, cs.sb, cs, "b");
    // algebraic second net (no GMP): (a+b)-b == a, (a-b)+b == a
    if (kind != 2 && o != a && o != b && t.below(4) == 0) {
        P back; mk_out(back, t, true);
        rc = kind == 0 ? pstm_sub(o, b, &back.v) : pstm_add(o, b, &back.v);
        VF_CHECK(rc == PSTM_OKAY && pstm_cmp(&back.v, a) == PSTM_EQ, "algebra-add-sub-roundtrip", "%s: (a%cb)%cb != a (rc=%d)", descr(cs).c_str(), kind == 0 ? '+' : '-', kind == 0 ? '-' : '+', (int) rc);
        c.count("algebra:add-sub-roundtrip");
    }
    if (kind != 2 || o->sign == PSTM_ZPOS) poke(t, c, o, cs);
}

// ------------------------------------------------------------------ add_d / sub_d / mul_d / cmp_d
// In-tree: dh_gen_secret.c:90 (add_d, separate out), read_radix (mul_d and add_d with out=a), pstm_div (mul_d).
static void op_digit(Tape &t, Ctx &c, int kind) {
    Case cs;
    cs.op = kind == 0 ? "add_d" : kind == 1 ? "sub_d" : "mul_d";
    int m = pick_nd(t, LIM - 1);
    cs.ca = pick_cls(t, false);
    Mag A = gen_mag(t, m, cs.ca, NULL);
    cs.m = m;
    cs.sa = m > 0 && t.below(4) == 0;
    bool edge; pstm_digit d = pick_digit(t, &edge);
    cs.edge = edge;
    cs.alias = t.below(3) == 0 ? AL_CA : AL_NONE;
    cs.extra = fmt("d=%llx", (unsigned long long) d);
    P pa, pc;
    mk(pa, A, cs.sa, (unsigned) t.below(5));
    pstm_int *a = &pa.v, *o = a;
    if (cs.alias == AL_NONE) { mk_out(pc, t, true); o = &pc.v; }
    book(c, cs);
    Z za, zd, want;
    z_from_mag(za.v, A, cs.sa);
    mpz_import(zd.v, 1, -1, 8, 0, 0, &d);
    int32_t rc;
    if (kind == 0) { mpz_add(want.v, za.v, zd.v); rc = pstm_add_d(NULL, a, d, o); }
    else if (kind == 1) { mpz_sub(want.v, za.v, zd.v); rc = pstm_sub_d(NULL, a, d, o); }
    else { mpz_mul(want.v, za.v, zd.v); rc = pstm_mul_d(a, d, o); }
    okay(rc, cs);
    expect(c, o, want.v, cs);
    if (o != a) unchanged(c, a, A, cs.sa, cs, "a");
    poke(t, c, o, cs);
}

// ------------------------------------------------------------------ mul_comba / sqr_comba
// In-tree: ecc_math.c (C=A, C=B, separate, paD of (2*modulus.used+1) digits), rsa.c:293 (C=A, paD NULL), mulmod (paD NULL),
// exptmod.  Signs: C.sign = A.sign ^ B.sign.  sqr_comba does not write the sign: callers only square non-negative values
// into non-negative variables.
static void op_mul(Tape &t, Ctx &c, bool sqr) {
    Case cs;
    cs.op = sqr ? "sqr_comba" : "mul_comba";
    int m = pick_nd(t, 95), n = sqr ? -1 : pick_nd(t, 95);
    cs.ca = pick_cls(t, false);
    Mag A = gen_mag(t, m, cs.ca, NULL), B;
    if (!sqr) {
        cs.cb = pick_cls(t, true);
        if (cs.cb >= EQ && m > 0) n = m;
        B = gen_mag(t, n, cs.cb, &A);
        cs.sa = m > 0 && t.below(5) == 0;
        cs.sb = n > 0 && t.below(5) == 0;
        cs.alias = pick_alias3(t);
        if (cs.alias == AL_AB || cs.alias == AL_ALL) { B = A; cs.sb = cs.sa; cs.cb = A.empty() ? RND : EQ; n = m; }
    } else {
        B = A;
        cs.alias = t.below(3) == 0 ? AL_CA : AL_NONE;
    }
    cs.m = m; cs.n = n;
    int pa_digits = (int) A.size() + (int) B.size();
    P pa, pb, pc;
    mk(pa, A, cs.sa, (unsigned) t.below(5));
    pstm_int *a = &pa.v, *b = a, *o;
    if (!sqr && !(cs.alias == AL_AB || cs.alias == AL_ALL)) { mk(pb, B, cs.sb, (unsigned) t.below(5)); b = &pb.v; }
    if (cs.alias == AL_CA || cs.alias == AL_ALL) o = a;
    else if (cs.alias == AL_CB) o = b;
    else { mk_out(pc, t, !sqr); o = &pc.v; }
    // scratch buffer the way callers pass it: none, exactly big enough, bigger, or too small (fallback to malloc)
    unsigned pm = (unsigned) t.below(4);
    std::vector<pstm_digit> pad;
    pstm_digit *paD = NULL; psSize_t paDlen = 0;
    if (pm == 1) pad.assign((size_t) imax(pa_digits, 1), 0xA5A5A5A5A5A5A5A5ULL);
    else if (pm == 2) pad.assign((size_t) (2 * imax((int) A.size(), (int) B.size()) + 1 + (int) t.below(4)), 0xA5A5A5A5A5A5A5A5ULL);
    else if (pm == 3) pad.assign((size_t) imax(pa_digits - 1 - (int) t.below(3), 1), 0xA5A5A5A5A5A5A5A5ULL);
    if (pm) { paD = pad.data(); paDlen = (psSize_t) (pad.size() * sizeof(pstm_digit)); }
    cs.extra = fmt("paD=%u", pm);
    book(c, cs);
    c.count(fmt("paD-mode:%u", pm));
    Z za, zb, want;
    z_from_mag(za.v, A, cs.sa); z_from_mag(zb.v, B, sqr ? cs.sa : cs.sb);
    mpz_mul(want.v, za.v, zb.v);
    int32_t rc = sqr ? pstm_sqr_comba(NULL, a, o, paD, paDlen) : pstm_mul_comba(NULL, a, b, o, paD, paDlen);
    okay(rc, cs);
    expect(c, o, want.v, cs);
    if (o != a) unchanged(c, a, A, cs.sa, cs, "a");
    if (!sqr && o != b && b != a) unchanged(c, b, B, cs.sb, cs, "b");
    // second net: sqr(a) == mul(a,a); mul(a,b) == mul(b,a)
    if (o != a && o != b && t.below(4) == 0) {
        P x; mk_out(x, t, true);
        rc = sqr ? pstm_mul_comba(NULL, a, a, &x.v, NULL, 0) : pstm_mul_comba(NULL, b, a, &x.v, NULL, 0);
        VF_CHECK(rc == PSTM_OKAY && pstm_cmp(&x.v, o) == PSTM_EQ, sqr ? "algebra-sqr-vs-mul" : "algebra-mul-commutes", "%s (rc=%d)", descr(cs).c_str(), (int) rc);
        c.count(sqr ? "algebra:sqr-vs-mul" : "algebra:mul-commutes");
    }
    poke(t, c, o, cs);
}

// ------------------------------------------------------------------ mul_2 / div_2 / div_2d
// In-tree: ecc_math.c pstm_div_2(&y,&y) on even non-negative values; invmod halves even values of both signs in place;
// calc_normalization doubles in place; pstm_div and to_unsigned_bin use div_2d in place with d == NULL.
static void op_shift1(Tape &t, Ctx &c, bool mul) {
    Case cs;
    cs.op = mul ? "mul_2" : "div_2";
    int m = pick_nd(t, LIM - 1);
    cs.ca = pick_cls(t, false);
    Mag A = gen_mag(t, m, cs.ca, NULL);
    cs.m = m;
    cs.sa = m > 0 && t.below(4) == 0;
    cs.alias = t.below(2) == 0 ? AL_CA : AL_NONE;
    P pa, pc;
    mk(pa, A, cs.sa, (unsigned) t.below(5));
    pstm_int *a = &pa.v, *o = a;
    if (cs.alias == AL_NONE) { mk_out(pc, t, true); o = &pc.v; }
    book(c, cs);
    Z za, want, want2;
    z_from_mag(za.v, A, cs.sa);
    int32_t rc;
    if (mul) { mpz_mul_2exp(want.v, za.v, 1); rc = pstm_mul_2(a, o); okay(rc, cs); expect(c, o, want.v, cs); }
    else {
        mpz_tdiv_q_2exp(want.v, za.v, 1); mpz_fdiv_q_2exp(want2.v, za.v, 1);
        rc = pstm_div_2(a, o); okay(rc, cs);
        Z got; inv(c, o, cs, "result"); z_from_p(got.v, o);
        if (mpz_cmp(got.v, want.v) != 0 && mpz_cmp(got.v, want2.v) != 0)
            VF_FAIL("div_2-mismatch", "%s: got=%s want=%s", descr(cs).c_str(), zhex(got.v).c_str(), zhex(want.v).c_str());
    }
    if (o != a) unchanged(c, a, A, cs.sa, cs, "a");
    if (mul && o != a && t.below(4) == 0) { // mul_2(a) == a + a, div_2(mul_2(a)) == a
        P s, h; mk_out(s, t, true); mk_out(h, t, true);
        VF_CHECK(pstm_add(a, a, &s.v) == PSTM_OKAY && pstm_cmp(&s.v, o) == PSTM_EQ, "algebra-mul2-vs-add", "%s", descr(cs).c_str());
        VF_CHECK(pstm_div_2(o, &h.v) == PSTM_OKAY && pstm_cmp(&h.v, a) == PSTM_EQ, "algebra-mul2-div2-roundtrip", "%s", descr(cs).c_str());
        c.count("algebra:mul2");
    }
    poke(t, c, o, cs);
}
static void op_div_2d(Tape &t, Ctx &c) {
    Case cs;
    cs.op = "div_2d";
    int m = pick_nd(t, LIM);
    cs.ca = pick_cls(t, false);
    Mag A = gen_mag(t, m, cs.ca, NULL);
    cs.m = m;
    cs.sa = m > 0 && t.below(6) == 0;
    unsigned bs = (unsigned) t.below(8);
    int bits = bs == 0 ? 0 : bs == 1 ? 64 * (int) t.below((uint64_t) m + 2) : bs == 2 ? 8 : (int) t.below((uint64_t) 64 * m + 70);
    cs.edge = bs <= 2;
    unsigned am = (unsigned) t.below(6); // 0,1: c=a d=NULL (in-tree) 2: c=a,d sep 3: c sep,d NULL 4: both sep 5: c sep, d=a
    cs.alias = am <= 2 ? AL_CA : am == 5 ? AL_OTHER : AL_NONE;
    cs.extra = fmt("bits=%d mode=%u", bits, am);
    P pa, pc, pd;
    mk(pa, A, cs.sa, (unsigned) t.below(5));
    pstm_int *a = &pa.v, *q = a, *r = NULL;
    if (am >= 3) { mk_out(pc, t, true); q = &pc.v; }
    if (am == 2 || am == 4) { mk_out(pd, t, true); r = &pd.v; }
    if (am == 5) r = a;
    book(c, cs);
    Z za, tq, tr, fq, fr;
    z_from_mag(za.v, A, cs.sa);
    mpz_tdiv_q_2exp(tq.v, za.v, bits); mpz_tdiv_r_2exp(tr.v, za.v, bits);
    mpz_fdiv_q_2exp(fq.v, za.v, bits); mpz_fdiv_r_2exp(fr.v, za.v, bits);
    int32_t rc = pstm_div_2d(NULL, a, (int16_t) bits, q, r);
    okay(rc, cs);
    inv(c, q, cs, "quotient");
    Z gq, gr;
    z_from_p(gq.v, q);
    bool tok = mpz_cmp(gq.v, tq.v) == 0, fok = mpz_cmp(gq.v, fq.v) == 0;
    if (r) {
        inv(c, r, cs, "remainder");
        z_from_p(gr.v, r);
        tok = tok && mpz_cmp(gr.v, tr.v) == 0; fok = fok && mpz_cmp(gr.v, fr.v) == 0;
    }
    if (!tok && !fok)
        VF_FAIL("div_2d-mismatch", "%s: q=%s r=%s want q=%s r=%s", descr(cs).c_str(), zhex(gq.v).c_str(), r ? zhex(gr.v).c_str() : "-", zhex(tq.v).c_str(), zhex(tr.v).c_str());
    if (q != a && r != a) unchanged(c, a, A, cs.sa, cs, "a");
    poke(t, c, q, cs);
}
