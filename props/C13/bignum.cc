// C13: pstm_* big-integer arithmetic is mathematically exact.
//
// Differential test of the whole pstm_* API (crypto/math/pstm*.c) against GMP, plus algebraic
// cross-checks that do not involve GMP, plus the structural invariant of pstm_int after every call.
//
// Input domains (derived from the function comments and from every in-tree caller, see the table
// in reg.py / the comments at each op_* function):
//   * results are kept <= PSTM_MAX_SIZE-2 digits so the exact result is always representable;
//   * pstm_sub_s: |a| >= |b|, unsigned;  montgomery_* / exptmod: non-negative operands (pstm_sqr_comba: either sign);
//   * Montgomery functions: odd modulus >= 3, reduce input < m*R and alloc >= m.used+1;
//   * pstm_exptmod: P odd with exactly 512/1024/1536/2048/3072/4096 bits, 0 < X < P;
//   * pstm_mod / mulmod / invmod: modulus > 0;  invmod "must succeed" only for 0 < a < b, gcd = 1 and
//     bits(a)+bits(b) <= 4096 (the fast path has a 4096-iteration sanity limit);
//   * negative operands of div/div_2/div_2d: truncating or flooring quotient both accepted
//     (the documentation only promises q*b + r = a).
// Outside these domains an error return is accepted (and counted); a success return is still
// compared with the exact value where the mathematical meaning is unambiguous.
//
// Output variables and aliasing (second tape region, see "side tape" below):
//   * every output variable of every operation is, besides the fresh states, pre-loaded with a generated value whose digit
//     count is chosen RELATIVE to the exact result (shorter / equal / just longer / much longer) and whose sign is generated
//     ("dirty output"); the result must not depend on it (value, sign, digits above 'used').  Counters out:<op>:<rel>[:neg].
//     Exception pstm_sub_s ("unsigned subtraction", alias s_pstm_sub): only the magnitude is defined, the sign field is
//     the business of its callers pstm_add/pstm_sub.
//   * the output is aliased with each input in turn.  Patterns that an in-tree caller uses or that were already
//     enforced (and hold) are checked against the oracle; patterns that no in-tree caller uses and the headers do not promise
//     are executed (memory safety under ASan) and only COUNTED as unpromised:<op>:<pattern>:ok|wrong|error:
//       exptmod Y==X (wrong on the constant-time path: X is overwritten before it is read) and Y==P (ok),
//       mulmod d==c, invmod c==b, div (c==NULL,d==a) (c==NULL,d==b) (c==b,d==a),
//       montgomery_calc_normalization a==b, montgomery_reduce a==m.
//     In-tree use of pstm_exptmod: rsa.c Y==G (public/private, non-CRT) and fresh tmpa/tmpb (CRT); dh_gen_key.c fresh
//     key->pub; dh_gen_secret.c a variable that holds pub+1 from the range check (a dirty, positive output).
#include "vf.h"
#include <gmp.h>
#include <string>
#include <vector>
extern "C" {
#include "crypto/cryptoApi.h"
}
using namespace vf;

typedef std::vector<uint64_t> Mag; // magnitude, little-endian 64-bit digits, no leading zero digit
static const int MAXD = PSTM_MAX_SIZE; // 192
static const int LIM = PSTM_MAX_SIZE - 2; // largest digit count of any exact result we ask for
static bool g_fullcov = false;

static_assert(sizeof(pstm_digit) == 8 && DIGIT_BIT == 64, "C13 harness expects 64-bit pstm digits");

// ------------------------------------------------------------------ small RAII wrappers
struct Z {
    mpz_t v;
    Z() { mpz_init(v); }
    ~Z() { mpz_clear(v); }
    Z(const Z &) = delete;
    Z &operator=(const Z &) = delete;
};
struct P {
    pstm_int v;
    bool live;
    P() : live(false) { memset(&v, 0, sizeof v); }
    ~P() { if (live) pstm_clear(&v); }
    P(const P &) = delete;
    P &operator=(const P &) = delete;
};

static inline int imin(int a, int b) { return a < b ? a : b; }
static inline int imax(int a, int b) { return a > b ? a : b; }

// ------------------------------------------------------------------ case description
enum { RND = 0, POW2, POW2M1, POW2P1, ONES, ALT0, ALT1, SPARSE, TOPONLY, SMALLTOP, EQ, DTOP, DBOT, N_CLS };
static const char *CLSN[] = { "rnd", "pow2", "pow2m1", "pow2p1", "ones", "alt0", "alt1", "sparse", "toponly", "smalltop", "eq", "dtop", "dbot" };
enum { AL_NONE = 0, AL_CA, AL_CB, AL_AB, AL_ALL, AL_OTHER };
static const char *ALN[] = { "none", "out=a", "out=b", "a=b", "out=a=b", "other" };

struct Case {
    std::string op;
    int m = -1, n = -1, k = -1; // digit counts of first / second / third operand (-1 = absent)
    int ca = RND, cb = RND, cc = RND;
    int sa = 0, sb = 0;
    int alias = AL_NONE;
    std::string extra;
    bool edge = false; // some other structured edge (digit operand, shift count, ...) was used
};
static std::string descr(const Case &cs) {
    std::string s = cs.op + fmt(" m=%d(%s%s)", cs.m, cs.sa ? "-" : "", CLSN[cs.ca]);
    if (cs.n >= 0) s += fmt(" n=%d(%s%s)", cs.n, cs.sb ? "-" : "", CLSN[cs.cb]);
    if (cs.k >= 0) s += fmt(" k=%d(%s)", cs.k, CLSN[cs.cc]);
    s += fmt(" alias=%s", ALN[cs.alias]);
    if (!cs.extra.empty()) s += " " + cs.extra;
    return s;
}
static int bucket(int d) {
    if (d < 0) return 15;
    if (d <= 2) return d;
    if (d <= 4) return 3;
    if (d <= 8) return 4;
    if (d <= 15) return 5;
    if (d <= 17) return 6;
    if (d <= 31) return 7;
    if (d <= 34) return 8;
    if (d <= 64) return 9;
    return 10;
}
// Bookkeeping common to all ops: counters, non-trivial rule, sample.
static std::string g_lastop;
static void book(Ctx &c, const Case &cs) {
    g_lastop = cs.op;
    c.count("op:" + cs.op);
    if (cs.n >= 0) {
        if (cs.m <= 34 && cs.n <= 34) c.count(fmt("pair:%d:%d", cs.m, cs.n));
        else c.count(cs.m > 64 || cs.n > 64 ? "pair:over64" : "pair:35-64");
        c.count(fmt("n:%s:%d", cs.op.c_str(), cs.n <= 34 ? cs.n : cs.n <= 64 ? 64 : 192));
        if (g_fullcov && cs.m <= 34 && cs.n <= 34) c.count(fmt("P:%s:%d:%d", cs.op.c_str(), cs.m, cs.n));
    } else if (g_fullcov && cs.m <= 34) c.count(fmt("P:%s:%d", cs.op.c_str(), cs.m));
    c.count(fmt("m:%s:%d", cs.op.c_str(), cs.m <= 34 ? cs.m : cs.m <= 64 ? 64 : 192));
    if (cs.k >= 0) c.count(fmt("k:%s:%d", cs.op.c_str(), cs.k <= 34 ? cs.k : cs.k <= 64 ? 64 : 192));
    c.count(std::string("cls:") + CLSN[cs.ca]);
    if (cs.n >= 0) c.count(std::string("cls:") + CLSN[cs.cb]);
    c.count(std::string("alias:") + ALN[cs.alias]);
    if (cs.sa || cs.sb) c.count("signs:some-negative");
    bool big = cs.m >= 2 && (cs.n < 0 || cs.n >= 2);
    bool structured = cs.ca != RND || (cs.n >= 0 && cs.cb != RND) || (cs.k >= 0 && cs.cc != RND) || cs.alias != AL_NONE || cs.edge;
    if (big && structured)
        c.nontrivial(fmt("%s:%d:%d:%d:%d:%d:%d:%d", cs.op.c_str(), bucket(cs.m), bucket(cs.n), bucket(cs.k), cs.ca, cs.cb, cs.alias, cs.sa * 2 + cs.sb));
    c.sample(descr(cs));
}

// ------------------------------------------------------------------ magnitudes
static void trim(Mag &m) { while (!m.empty() && m.back() == 0) m.pop_back(); }
static int cmp_mag(const Mag &a, const Mag &b) {
    if (a.size() != b.size()) return a.size() < b.size() ? -1 : 1;
    for (size_t i = a.size(); i-- > 0;)
        if (a[i] != b[i]) return a[i] < b[i] ? -1 : 1;
    return 0;
}
static void z_from_mag(mpz_t z, const Mag &m, int neg) {
    mpz_import(z, m.size(), -1, 8, 0, 0, m.data());
    if (neg) mpz_neg(z, z);
}
static void z_from_p(mpz_t z, const pstm_int *p) {
    mpz_import(z, p->used, -1, 8, 0, 0, p->dp);
    if (p->sign == PSTM_NEG) mpz_neg(z, z);
}
static Mag mag_from_z(const mpz_t z) {
    size_t n = (mpz_sizeinbase(z, 2) + 63) / 64;
    Mag m(n + 1, 0);
    size_t cnt = 0;
    mpz_export(m.data(), &cnt, -1, 8, 0, 0, z);
    m.resize(cnt);
    trim(m);
    return m;
}
static std::string zhex(const mpz_t z) {
    size_t n = mpz_sizeinbase(z, 16) + 2;
    std::vector<char> b(n + 1);
    mpz_get_str(b.data(), 16, z);
    std::string s(b.data());
    if (s.size() > 200) s = s.substr(0, 120) + "..." + s.substr(s.size() - 60) + fmt("[%zu hex digits]", s.size());
    return s;
}
static uint64_t splitmix(uint64_t &s) {
    s += 0x9E3779B97F4A7C15ULL;
    uint64_t z = s;
    z = (z ^ (z >> 30)) * 0xBF58476D1CE4E5B9ULL;
    z = (z ^ (z >> 27)) * 0x94D049BB133111EBULL;
    return z ^ (z >> 31);
}
// Digit source: the first 36 digits of an operand come straight from the tape (so they shrink well),
// further digits are a deterministic expansion of 8 more tape bytes.
struct Src {
    Tape &t; int direct; uint64_t seed; bool seeded;
    explicit Src(Tape &tt) : t(tt), direct(0), seed(0), seeded(false) {}
    uint64_t next() {
        if (direct < 36) { direct++; return t.u64(); }
        if (!seeded) { seed = t.u64(); seeded = true; }
        return splitmix(seed);
    }
};
static Mag cheap_mag(Tape &t, int nd) { // pseudo-random magnitude from 4 tape bytes
    Mag m((size_t) imax(nd, 0), 0);
    uint64_t s = t.u32();
    for (int i = 0; i < nd; i++) m[i] = splitmix(s);
    if (nd > 0 && m[nd - 1] == 0) m[nd - 1] = 1;
    return m;
}

// value of exactly nd digits (top digit non-zero) of class cls; relation classes need other->size()==nd
static Mag gen_mag(Tape &t, int nd, int &cls, const Mag *other) {
    Mag m;
    if (nd <= 0) { if (cls >= EQ) cls = RND; return m; }
    if (cls >= EQ && (!other || (int) other->size() != nd)) cls = RND;
    Src s(t);
    m.assign(nd, 0);
    switch (cls) {
    case POW2: m[nd - 1] = 1ULL << t.below(64); break;
    case POW2M1: {
        unsigned k = (unsigned) t.below(64);
        for (int i = 0; i < nd - 1; i++) m[i] = ~0ULL;
        m[nd - 1] = k == 63 ? ~0ULL : ((1ULL << (k + 1)) - 1);
        break;
    }
    case POW2P1: {
        unsigned k = (unsigned) t.below(64);
        m[nd - 1] = 1ULL << k;
        if (nd == 1 && k == 0) m[0] = 2; else m[0] |= 1;
        break;
    }
    case ONES: for (int i = 0; i < nd; i++) m[i] = ~0ULL; break;
    case ALT0: for (int i = 0; i < nd; i++) m[i] = ((nd - 1 - i) & 1) ? 0 : ~0ULL; break;
    case ALT1: for (int i = 0; i < nd; i++) m[i] = ((nd - 1 - i) & 1) ? ~0ULL : 0; m[nd - 1] = 1; break;
    case SPARSE:
        for (int i = 0; i < nd; i++) {
            uint64_t r = s.next();
            switch (r & 7) {
            case 0: case 1: m[i] = 0; break;
            case 2: m[i] = ~0ULL; break;
            case 3: m[i] = 1; break;
            case 4: m[i] = 1ULL << 63; break;
            case 5: m[i] = 0xffffffffULL; break;
            case 6: m[i] = 0xffffffff00000000ULL; break;
            default: m[i] = r >> 3; break;
            }
        }
        break;
    case TOPONLY: m[nd - 1] = s.next(); break;
    case SMALLTOP: for (int i = 0; i < nd; i++) m[i] = s.next(); m[nd - 1] = 1; break;
    case EQ: m = *other; break;
    case DTOP: case DBOT: {
        m = *other;
        int idx = cls == DTOP ? nd - 1 : 0;
        uint64_t o = m[idx], v;
        unsigned r = (unsigned) t.below(3);
        v = r == 0 ? o + 1 : r == 1 ? o - 1 : (o ^ (1ULL << t.below(64)));
        if (idx == nd - 1 && v == 0) v = (o + 1 != 0) ? o + 1 : o - 1; // keep the top digit non-zero
        if (v == o) v = o ^ 2;
        if (idx == nd - 1 && v == 0) v = o ^ 4;
        m[idx] = v;
        break;
    }
    default: for (int i = 0; i < nd; i++) m[i] = s.next(); break;
    }
    if (m[nd - 1] == 0) m[nd - 1] = 1;
    return m;
}
static int pick_cls(Tape &t, bool rel) {
    unsigned r = (unsigned) t.below(32);
    static const int structured[12] = { POW2, POW2M1, POW2P1, ONES, ALT0, ALT1, SPARSE, TOPONLY, SMALLTOP, ONES, POW2M1, ALT0 };
    static const int relation[6] = { EQ, EQ, DTOP, DTOP, DBOT, DBOT };
    if (r < 10) return RND;
    if (r < 22) return structured[r - 10];
    if (r < 28) return rel ? relation[r - 22] : structured[(r - 22) * 2];
    return RND;
}
// digit count: 11/16 uniform 0..34 (every pair), 3/16 35..70, 2/16 uniform up to maxnd
static int pick_nd(Tape &t, int maxnd) {
    unsigned r = (unsigned) t.below(16);
    int v;
    if (r < 11) v = (int) t.below(35);
    else if (r < 14) v = 35 + (int) t.below(36);
    else v = (int) t.below((uint64_t) maxnd + 1);
    return v > maxnd ? maxnd : v;
}
// two digit counts from the same regime: 12/16 a uniform pair from [0,34]^2, 2/16 both 35..70, 2/16 both up to their maximum
static void pick_pair(Tape &t, int maxm, int maxn, int *m, int *n) {
    unsigned r = (unsigned) t.below(16);
    if (r < 12) { *m = (int) t.below(35); *n = (int) t.below(35); }
    else if (r < 14) { *m = 35 + (int) t.below(36); *n = 35 + (int) t.below(36); }
    else { *m = (int) t.below((uint64_t) maxm + 1); *n = (int) t.below((uint64_t) maxn + 1); }
    if (*m > maxm) *m = maxm;
    if (*n > maxn) *n = maxn;
}
// same for the operations built on the bit-serial pstm_div (cost ~ 64*m*m digit operations): large operands are rarer
static void pick_pair_heavy(Tape &t, int maxm, int maxn, int *m, int *n) {
    unsigned r = (unsigned) t.below(32);
    if (r < 27) { *m = (int) t.below(35); *n = (int) t.below(35); }
    else if (r < 30) { *m = 35 + (int) t.below(36); *n = 35 + (int) t.below(36); }
    else { *m = (int) t.below((uint64_t) maxm + 1); *n = (int) t.below((uint64_t) maxn + 1); }
    if (*m > maxm) *m = maxm;
    if (*n > maxn) *n = maxn;
}
static int pick_nd_heavy(Tape &t, int maxnd) {
    unsigned r = (unsigned) t.below(32);
    int v = r < 27 ? (int) t.below(35) : r < 30 ? 35 + (int) t.below(36) : (int) t.below((uint64_t) maxnd + 1);
    return v > maxnd ? maxnd : v;
}
static pstm_digit pick_digit(Tape &t, bool *edge) {
    unsigned r = (unsigned) t.below(8);
    if (edge) *edge = (r >= 1 && r <= 6);
    switch (r) {
    case 1: return 0;
    case 2: return 1;
    case 3: return ~0ULL;
    case 4: return 1ULL << 63;
    case 5: return t.u8();
    case 6: return 2;
    default: return t.u64();
    }
}
static int pick_alias3(Tape &t) { // for c = a op b
    static const int tab[8] = { AL_NONE, AL_NONE, AL_NONE, AL_CA, AL_CB, AL_AB, AL_ALL, AL_CA };
    return tab[t.below(8)];
}

// ------------------------------------------------------------------ pstm_int construction
static void mk(P &p, const Mag &m, int neg, unsigned amode) {
    int used = (int) m.size(), a;
    switch (amode % 5) {
    case 0: a = used; break;
    case 1: a = used + 1; break;
    case 2: a = used + 2; break; // what pstm_init_for_read_unsigned_bin gives
    case 3: a = 2 * used + 3; break; // what pstm_init_copy(toSqr) gives
    default: a = used < 48 ? 48 : used + 4; break; // pstm_init default
    }
    if (a < 1) a = 1;
    if (a > MAXD) a = MAXD;
    VF_CHECK(used <= MAXD, "harness-bug", "operand of %d digits", used);
    VF_CHECK(pstm_init_size(NULL, &p.v, (psSize_t) a) == PSTM_OKAY, "harness-init", "pstm_init_size(%d) failed", a);
    p.live = true;
    for (int i = 0; i < used; i++) p.v.dp[i] = m[i];
    p.v.used = (uint16_t) used;
    p.v.sign = (neg && used) ? PSTM_NEG : PSTM_ZPOS;
}
// an output variable in one of the states callers have them in: fresh minimal, fresh default, or holding an old value
static void mk_out(P &p, Tape &t, bool allow_neg) {
    unsigned s = (unsigned) t.below(6);
    if (s == 0) { Mag z; mk(p, z, 0, 0); return; }
    if (s == 1) { VF_CHECK(pstm_init(NULL, &p.v) == PSTM_OKAY, "harness-init", "pstm_init"); p.live = true; return; }
    int nd = t.below(3) == 0 ? (int) t.below(80) : (int) t.below(36);
    Mag g = cheap_mag(t, nd);
    mk(p, g, allow_neg && t.coin(), (unsigned) t.below(3));
}

// Side tape: bytes [SIDE_OFF, TAPE_LEN) of the case tape drive the state of the primary output variable and the additional
// aliasing patterns.  They are a separate region so that the operand generators above keep their byte positions (older
// regression tapes are <= SIDE_OFF bytes: an exhausted side tape yields zeros = the legacy choices).
static const size_t SIDE_OFF = 1024;
static Tape *g_side = NULL;
static inline Tape &side() { return *g_side; }
static int g_prev_neg = -1; // sign the primary output variable had before the call (-1: unknown)
struct OutRec { bool tracked = false; int used = 0; int neg = 0; };
static int znd(const mpz_t z) { return mpz_sgn(z) == 0 ? 0 : (int) ((mpz_sizeinbase(z, 2) + 63) / 64); }
// primary output variable: legacy states (2/8, drawn from the main tape) or a value sized relative to the exact result
static OutRec mk_outv(P &p, Tape &t, bool legacy_neg, bool allow_neg, int res_nd) {
    Tape &s = side();
    OutRec r; r.tracked = true;
    unsigned sel = (unsigned) s.below(8);
    if (sel < 2) mk_out(p, t, legacy_neg);
    else {
        int rn = imax(res_nd, 0), nd;
        switch (sel) {
        case 2: nd = rn > 0 ? (int) s.below((uint64_t) rn) : 0; break;                       // any shorter
        case 3: nd = rn; break;                                                             // equal
        case 4: nd = rn + 1 + (int) s.below(3); break;                                       // just longer
        case 5: nd = rn + 1 + (int) s.below(40); break;                                      // longer
        case 6: nd = rn - 1 + (int) s.below(3); break;                                       // around
        default: nd = rn > 1 ? rn - 1 - (int) s.below((uint64_t) imin(rn - 1, 3)) : rn + 2; break; // just shorter
        }
        if (nd < 0) nd = 0;
        if (nd > LIM) nd = LIM;
        unsigned vs = (unsigned) s.below(4);
        Mag g;
        if (vs == 2) g.assign((size_t) nd, ~0ULL);
        else if (vs == 3) { g.assign((size_t) nd, 0); if (nd) g[nd - 1] = 1ULL << 63; }
        else g = cheap_mag(s, nd);
        bool neg = (s.u8() & 1) && allow_neg;
        mk(p, g, neg, (unsigned) s.below(5));
    }
    r.used = p.v.used; r.neg = p.v.sign == PSTM_NEG;
    g_prev_neg = r.neg;
    return r;
}
static void book_out(Ctx &c, const std::string &op, const OutRec &r, const pstm_int *res) {
    if (!r.tracked) return;
    const char *rel = r.used == 0 ? "zero" : r.used < res->used ? "shorter" : r.used == res->used ? "equal" : "longer";
    c.count("out:" + op + ":" + rel + (r.neg ? ":neg" : ""));
    c.count(std::string("outstate:") + rel);
    if (r.neg) c.count("outstate:negative");
    g_prev_neg = -1;
}
// an aliasing pattern that no in-tree caller uses and the API does not promise: executed, compared, only counted
static void unpromised(Ctx &c, const std::string &op, const char *pattern, int32_t rc, const pstm_int *got, const mpz_t want) {
    std::string k = "unpromised:" + op + ":" + pattern + ":";
    if (rc != PSTM_OKAY) { c.count(k + "error"); return; }
    Z g; z_from_p(g.v, got);
    c.count(k + (mpz_cmp(g.v, want) == 0 ? "ok" : "wrong"));
}

// ------------------------------------------------------------------ checks
static void inv(Ctx &c, const pstm_int *p, const Case &cs, const char *which) {
    VF_CHECK(p->dp != NULL, cs.op + "-invariant", "%s: %s has NULL dp", descr(cs).c_str(), which);
    VF_CHECK(p->used <= p->alloc, cs.op + "-invariant", "%s: %s used=%u > alloc=%u", descr(cs).c_str(), which, (unsigned) p->used, (unsigned) p->alloc);
    VF_CHECK(p->alloc <= MAXD, cs.op + "-invariant", "%s: %s alloc=%u > PSTM_MAX_SIZE", descr(cs).c_str(), which, (unsigned) p->alloc);
    VF_CHECK(p->used == 0 || p->dp[p->used - 1] != 0, cs.op + "-invariant", "%s: %s top digit is zero (used=%u)", descr(cs).c_str(), which, (unsigned) p->used);
    VF_CHECK(p->sign == PSTM_ZPOS || p->sign == PSTM_NEG, cs.op + "-invariant", "%s: %s sign=%u", descr(cs).c_str(), which, (unsigned) p->sign);
    VF_CHECK(p->used != 0 || p->sign == PSTM_ZPOS, cs.op + "-invariant", "%s: %s is a negative zero", descr(cs).c_str(), which);
    for (unsigned i = p->used; i < p->alloc; i++)
        if (p->dp[i] != 0) { c.count("info:nonzero-digit-above-used:" + cs.op); break; }
}
static void expect(Ctx &c, const pstm_int *r, const mpz_t want, const Case &cs, const char *which = "result") {
    inv(c, r, cs, which);
    Z got;
    z_from_p(got.v, r);
    if (mpz_cmp(got.v, want) != 0) {
        // right magnitude, and the sign is the one the output variable held before the call: the sign field was not written
        if (mpz_cmpabs(got.v, want) == 0 && g_prev_neg == (r->sign == PSTM_NEG))
            VF_FAIL("stale-sign:" + cs.op, "%s: %s has the right magnitude but kept the sign the output variable had before the call: got=%s want=%s", descr(cs).c_str(), which, zhex(got.v).c_str(), zhex(want).c_str());
        VF_FAIL(cs.op + "-mismatch", "%s: %s got=%s want=%s", descr(cs).c_str(), which, zhex(got.v).c_str(), zhex(want).c_str());
    }
}
static void unchanged(Ctx &c, const pstm_int *p, const Mag &m, int neg, const Case &cs, const char *which) {
    inv(c, p, cs, which);
    bool same = p->used == m.size() && ((p->sign == PSTM_NEG) == (neg && !m.empty()));
    for (size_t i = 0; same && i < m.size(); i++) same = p->dp[i] == m[i];
    VF_CHECK(same, cs.op + "-input-clobbered", "%s: input %s was modified", descr(cs).c_str(), which);
}
static void okay(int32_t rc, const Case &cs, const char *fn = "") {
    VF_CHECK(rc == PSTM_OKAY, cs.op + "-error-in-domain", "%s: %s returned %d inside its domain", descr(cs).c_str(), fn, (int) rc);
}
// Use a verified result as the in/out operand of an aliased add with a longer addend, the way ecc_math.c does
// (pstm_add(&x, modulus, &x)); a digit left non-zero above 'used' by the previous operation corrupts this sum.
static void poke(Tape &t, Ctx &c, pstm_int *r, const Case &cs) {
    if (t.below(4) != 0) return;
    int nd = r->used + 1 + (int) t.below(3);
    if (nd > LIM) return;
    Z before, w, want;
    z_from_p(before.v, r);
    Mag wm = cheap_mag(t, nd);
    P W;
    mk(W, wm, 0, 1);
    z_from_mag(w.v, wm, 0);
    mpz_add(want.v, before.v, w.v);
    bool stale = false; // digits above 'used' that the producing operation left behind (they must be zero, see pstm_copy/pstm_clamp)
    for (unsigned i = r->used; i < r->alloc; i++) stale = stale || r->dp[i] != 0;
    std::string sig = stale ? "stale-digits:" + cs.op : cs.op + "-followup-add";
    int32_t rc = pstm_add(r, &W.v, r);
    c.count("followup-add");
    VF_CHECK(rc == PSTM_OKAY, sig, "%s: follow-up pstm_add returned %d", descr(cs).c_str(), (int) rc);
    inv(c, r, cs, "follow-up sum");
    Z got;
    z_from_p(got.v, r);
    if (mpz_cmp(got.v, want.v) != 0)
        VF_FAIL(sig, "%s: %sresult + w (aliased, w longer) got=%s want=%s", descr(cs).c_str(), stale ? "the result variable kept non-zero digits above 'used'; " : "", zhex(got.v).c_str(), zhex(want.v).c_str());
}

// ------------------------------------------------------------------ real moduli
struct Real { const char *name; Mag m; };
static std::vector<Real> g_real; // curve primes and group orders (all odd primes)
static void add_real(const char *name, const char *hex) {
    Z z;
    mpz_set_str(z.v, hex, 16);
    g_real.push_back(Real{ name, mag_from_z(z.v) });
}
static void init_real() {
    add_real("p192", "FFFFFFFFFFFFFFFFFFFFFFFFFFFFFFFEFFFFFFFFFFFFFFFF");
    add_real("n192", "FFFFFFFFFFFFFFFFFFFFFFFF99DEF836146BC9B1B4D22831");
    add_real("p224", "FFFFFFFFFFFFFFFFFFFFFFFFFFFFFFFF000000000000000000000001");
    add_real("n224", "FFFFFFFFFFFFFFFFFFFFFFFFFFFF16A2E0B8F03E13DD29455C5C2A3D");
    add_real("p256", "FFFFFFFF00000001000000000000000000000000FFFFFFFFFFFFFFFFFFFFFFFF");
    add_real("n256", "FFFFFFFF00000000FFFFFFFFFFFFFFFFBCE6FAADA7179E84F3B9CAC2FC632551");
    add_real("p384", "FFFFFFFFFFFFFFFFFFFFFFFFFFFFFFFFFFFFFFFFFFFFFFFFFFFFFFFFFFFFFFFEFFFFFFFF0000000000000000FFFFFFFF");
    add_real("n384", "FFFFFFFFFFFFFFFFFFFFFFFFFFFFFFFFFFFFFFFFFFFFFFFFC7634D81F4372DDF581A0DB248B0A77AECEC196ACCC52973");
    add_real("p521", "1FFFFFFFFFFFFFFFFFFFFFFFFFFFFFFFFFFFFFFFFFFFFFFFFFFFFFFFFFFFFFFFFFFFFFFFFFFFFFFFFFFFFFFFFFFFFFFFFFFFFFFFFFFFFFFFFFFFFFFFFFFFFFFFFFFFF");
    add_real("n521", "1FFFFFFFFFFFFFFFFFFFFFFFFFFFFFFFFFFFFFFFFFFFFFFFFFFFFFFFFFFFFFFFFFA51868783BF2F966B7FCC0148F709A5D03BB5C9B8899C47AEBB6FB71E91386409");
    add_real("bp224", "D7C134AA264366862A18302575D1D787B09F075797DA89F57EC8C0FF");
    add_real("bp256", "A9FB57DBA1EEA9BC3E660A909D838D726E3BF623D52620282013481D1F6E5377");
    add_real("bp384", "8CB91E82A3386D280F5D6F7E50E641DF152F7109ED5456B412B1DA197FB71123ACD3A729901D1A71874700133107EC53");
    add_real("bp512", "AADD9DB8DBE9C48B3FD4E6AE33C9FC07CB308DB3B3C9D20ED6639CCA703308717D4D9B009BC66842AECDA12AE6A380E62881FF2F2D82C68528AA6056583A48F3");
    add_real("bn512", "AADD9DB8DBE9C48B3FD4E6AE33C9FC07CB308DB3B3C9D20ED6639CCA70330870553E5C414CA92619418661197FAC10471DB1D381085DDADDB58796829CA90069");
    add_real("p25519", "7FFFFFFFFFFFFFFFFFFFFFFFFFFFFFFFFFFFFFFFFFFFFFFFFFFFFFFFFFFFFFFFED");
}
// RSA-size primes, computed once per process on first use (deterministic: fixed start values, GMP's nextprime)
static const Mag &rsa_prime(int bits, int which) {
    static std::map<int, Mag> cache;
    int key = bits * 2 + which;
    auto it = cache.find(key);
    if (it != cache.end()) return it->second;
    Z z, u;
    mpz_set_ui(z.v, 3);
    mpz_mul_2exp(z.v, z.v, bits - 2); // 2^(bits-1) + 2^(bits-2): products of two such primes have exactly 2*bits bits
    mpz_set_ui(u.v, which ? 0xC13C13ULL : 0x13C0FFEEULL);
    mpz_mul_2exp(u.v, u.v, bits / 2);
    mpz_add(z.v, z.v, u.v);
    mpz_nextprime(z.v, z.v);
    return cache[key] = mag_from_z(z.v);
}
static Mag rsa_modulus(int bits) { // N = p*q with exactly 'bits' bits
    Z p, q;
    z_from_mag(p.v, rsa_prime(bits / 2, 0), 0);
    z_from_mag(q.v, rsa_prime(bits / 2, 1), 0);
    mpz_mul(p.v, p.v, q.v);
    return mag_from_z(p.v);
}

enum { MK_ANY = 0, MK_ODD, MK_EVEN, MK_REAL, MK_RSAPRIME, N_MK };
static const char *MKN[] = { "any", "odd", "even", "real", "rsaprime" };
// modulus of about nd digits (>= 1 digit, value >= minval); need_odd forces an odd result
static Mag gen_modulus(Tape &t, int nd, bool need_odd, uint64_t minval, Case &cs) {
    unsigned r = (unsigned) t.below(16);
    int kind = r < 6 ? MK_ANY : r < 9 ? MK_ODD : r < 11 ? MK_EVEN : r < 15 ? MK_REAL : MK_RSAPRIME;
    if (need_odd && kind == MK_EVEN) kind = MK_ODD;
    Mag m;
    if (nd < 1) nd = 1;
    if (kind == MK_REAL) {
        const Real &R = g_real[t.below(g_real.size())];
        m = R.m;
        cs.extra += std::string(" mod=") + R.name;
    } else if (kind == MK_RSAPRIME) {
        static const int sizes[4] = { 512, 512, 1024, 2048 };
        int b = sizes[t.below(4)];
        m = rsa_prime(b, (int) t.below(2));
        cs.extra += fmt(" mod=rsaprime%d", b);
    } else {
        int cls = pick_cls(t, false);
        m = gen_mag(t, nd, cls, NULL);
        if (kind == MK_ODD || need_odd) m[0] |= 1;
        if (kind == MK_EVEN) { m[0] &= ~1ULL; if (m.back() == 0) m.back() = 2; }
        cs.cc = cls;
        cs.extra += std::string(" mod=") + MKN[kind];
    }
    trim(m);
    if (m.empty() || (m.size() == 1 && m[0] < minval)) { m.assign(1, minval | (need_odd ? 1 : 0)); }
    return m;
}

// ------------------------------------------------------------------ add / sub / sub_s
// In-tree: ecc_math.c (out=a, out=a=b, a=b, separate), ecc_priv.c:227 (out=b), rsa.c, pkcs.c; both signs occur
// (pstm_sub results are negative before the "add modulus" fix-up).  pstm_sub_s: unsigned, |a| >= |b| ("ALWAYS").
static void op_addsub(Tape &t, Ctx &c, int kind) {
    Case cs;
    cs.op = kind == 0 ? "add" : kind == 1 ? "sub" : "sub_s";
    int m, n;
    pick_pair(t, LIM - 1, LIM - 1, &m, &n);
    cs.ca = pick_cls(t, false);
    Mag A = gen_mag(t, m, cs.ca, NULL);
    cs.cb = pick_cls(t, true);
    if (cs.cb >= EQ && m > 0) n = m;
    Mag B = gen_mag(t, n, cs.cb, &A);
    cs.sa = kind != 2 && t.below(4) == 0;
    cs.sb = kind != 2 && t.below(4) == 0;
    cs.alias = pick_alias3(t);
    if (cs.alias == AL_AB || cs.alias == AL_ALL) { B = A; cs.sb = cs.sa; cs.cb = A.empty() ? RND : EQ; }
    if (kind == 2 && cmp_mag(A, B) < 0) { A.swap(B); int x = cs.ca; cs.ca = cs.cb; cs.cb = x; }
    if (A.empty()) cs.sa = 0;
    if (B.empty()) cs.sb = 0;
    cs.m = (int) A.size(); cs.n = (int) B.size();
    unsigned am = (unsigned) t.below(5), bm = (unsigned) t.below(5);
    P pa, pb, pc;
    mk(pa, A, cs.sa, am);
    pstm_int *a = &pa.v, *b = a, *o;
    if (!(cs.alias == AL_AB || cs.alias == AL_ALL)) { mk(pb, B, cs.sb, bm); b = &pb.v; }
    Z za, zb, want;
    z_from_mag(za.v, A, cs.sa); z_from_mag(zb.v, B, cs.sb);
    if (kind == 0) mpz_add(want.v, za.v, zb.v); else mpz_sub(want.v, za.v, zb.v);
    OutRec orec;
    if (cs.alias == AL_CA || cs.alias == AL_ALL) o = a;
    else if (cs.alias == AL_CB) o = b;
    else { orec = mk_outv(pc, t, kind != 2, true, znd(want.v)); o = &pc.v; }
    book(c, cs);
    int32_t rc;
    if (kind == 0) rc = pstm_add(a, b, o);
    else rc = kind == 1 ? pstm_sub(a, b, o) : pstm_sub_s(a, b, o);
    okay(rc, cs);
    if (kind == 2) { // unsigned: only the magnitude is defined, the sign field of c is not written
        inv(c, o, cs, "result");
        Z got; mpz_import(got.v, o->used, -1, 8, 0, 0, o->dp);
        if (mpz_cmp(got.v, want.v) != 0) VF_FAIL("sub_s-mismatch", "%s: got=%s want=%s", descr(cs).c_str(), zhex(got.v).c_str(), zhex(want.v).c_str());
    } else expect(c, o, want.v, cs);
    book_out(c, cs.op, orec, o);
    if (o != a) unchanged(c, a, A, cs.sa, cs, "a");
    if (o != b && b != a) unchanged(c, b, B, cs.sb, cs, "b");
    // algebraic second net (no GMP): (a+b)-b == a, (a-b)+b == a
    if (kind != 2 && o != a && o != b && t.below(4) == 0) {
        P back; mk_out(back, t, true);
        rc = kind == 0 ? pstm_sub(o, b, &back.v) : pstm_add(o, b, &back.v);
        VF_CHECK(rc == PSTM_OKAY && pstm_cmp(&back.v, a) == PSTM_EQ, "algebra-add-sub-roundtrip", "%s: (a%cb)%cb != a (rc=%d)", descr(cs).c_str(), kind == 0 ? '+' : '-', kind == 0 ? '-' : '+', (int) rc);
        c.count("algebra:add-sub-roundtrip");
    }
    if (kind != 2 || o->sign == PSTM_ZPOS) poke(t, c, o, cs);
}

// ------------------------------------------------------------------ add_d / sub_d / mul_d / cmp_d
// In-tree: dh_gen_secret.c:90 (add_d, separate out), read_radix (mul_d and add_d with out=a), pstm_div (mul_d).
static void op_digit(Tape &t, Ctx &c, int kind) {
    Case cs;
    cs.op = kind == 0 ? "add_d" : kind == 1 ? "sub_d" : "mul_d";
    int m = pick_nd(t, LIM - 1);
    cs.ca = pick_cls(t, false);
    Mag A = gen_mag(t, m, cs.ca, NULL);
    cs.m = m;
    cs.sa = m > 0 && t.below(4) == 0;
    bool edge; pstm_digit d = pick_digit(t, &edge);
    cs.edge = edge;
    cs.alias = t.below(3) == 0 ? AL_CA : AL_NONE;
    cs.extra = fmt("d=%llx", (unsigned long long) d);
    P pa, pc;
    mk(pa, A, cs.sa, (unsigned) t.below(5));
    pstm_int *a = &pa.v, *o = a;
    Z za, zd, want;
    z_from_mag(za.v, A, cs.sa);
    mpz_import(zd.v, 1, -1, 8, 0, 0, &d);
    if (kind == 0) mpz_add(want.v, za.v, zd.v); else if (kind == 1) mpz_sub(want.v, za.v, zd.v); else mpz_mul(want.v, za.v, zd.v);
    OutRec orec;
    if (cs.alias == AL_NONE) { orec = mk_outv(pc, t, true, true, znd(want.v)); o = &pc.v; }
    book(c, cs);
    int32_t rc;
    if (kind == 0) rc = pstm_add_d(NULL, a, d, o);
    else if (kind == 1) rc = pstm_sub_d(NULL, a, d, o);
    else rc = pstm_mul_d(a, d, o);
    okay(rc, cs);
    expect(c, o, want.v, cs);
    book_out(c, cs.op, orec, o);
    if (o != a) unchanged(c, a, A, cs.sa, cs, "a");
    poke(t, c, o, cs);
}

// ------------------------------------------------------------------ mul_comba / sqr_comba
// In-tree: ecc_math.c (C=A, C=B, separate, paD of (2*modulus.used+1) digits), rsa.c:293 (C=A, paD NULL), mulmod (paD NULL),
// exptmod.  Signs: C.sign = A.sign ^ B.sign.  A square is non-negative (the unrolled 16/32-digit squarers set the sign; the
// generic squarer did not write it at all: findings/stale-sign-sqr_comba.md), whatever the output variable held before.
static void op_mul(Tape &t, Ctx &c, bool sqr) {
    Case cs;
    cs.op = sqr ? "sqr_comba" : "mul_comba";
    int m, n;
    pick_pair(t, 95, 95, &m, &n);
    if (sqr) { m = pick_nd(t, 95); n = -1; }
    cs.ca = pick_cls(t, false);
    Mag A = gen_mag(t, m, cs.ca, NULL), B;
    if (!sqr) {
        cs.cb = pick_cls(t, true);
        if (cs.cb >= EQ && m > 0) n = m;
        B = gen_mag(t, n, cs.cb, &A);
        cs.sa = m > 0 && t.below(5) == 0;
        cs.sb = n > 0 && t.below(5) == 0;
        cs.alias = pick_alias3(t);
        if (cs.alias == AL_AB || cs.alias == AL_ALL) { B = A; cs.sb = cs.sa; cs.cb = A.empty() ? RND : EQ; n = m; }
    } else {
        B = A;
        cs.alias = t.below(3) == 0 ? AL_CA : AL_NONE;
        // (-a)^2: the unrolled 16/32-digit squarers set the sign of the result explicitly, i.e. a negative operand is accepted
        cs.sa = m > 0 && side().below(5) == 1;
    }
    cs.m = m; cs.n = n;
    int pa_digits = (int) A.size() + (int) B.size();
    P pa, pb, pc;
    mk(pa, A, cs.sa, (unsigned) t.below(5));
    pstm_int *a = &pa.v, *b = a, *o;
    OutRec orec;
    if (!sqr && !(cs.alias == AL_AB || cs.alias == AL_ALL)) { mk(pb, B, cs.sb, (unsigned) t.below(5)); b = &pb.v; }
    if (cs.alias == AL_CA || cs.alias == AL_ALL) o = a;
    else if (cs.alias == AL_CB) o = b;
    else { Z w; z_from_mag(w.v, A, 0); Z w2; z_from_mag(w2.v, B, 0); mpz_mul(w.v, w.v, w2.v); orec = mk_outv(pc, t, !sqr, true, znd(w.v)); o = &pc.v; }
    if (sqr && o == a) g_prev_neg = cs.sa;
    // scratch buffer the way callers pass it: none, exactly big enough, bigger, or too small (fallback to malloc)
    unsigned pm = (unsigned) t.below(4);
    std::vector<pstm_digit> pad;
    pstm_digit *paD = NULL; psSize_t paDlen = 0;
    if (pm == 1) pad.assign((size_t) imax(pa_digits, 1), 0xA5A5A5A5A5A5A5A5ULL);
    else if (pm == 2) pad.assign((size_t) (2 * imax((int) A.size(), (int) B.size()) + 1 + (int) t.below(4)), 0xA5A5A5A5A5A5A5A5ULL);
    else if (pm == 3) pad.assign((size_t) imax(pa_digits - 1 - (int) t.below(3), 1), 0xA5A5A5A5A5A5A5A5ULL);
    if (pm) { paD = pad.data(); paDlen = (psSize_t) (pad.size() * sizeof(pstm_digit)); }
    cs.extra = fmt("paD=%u", pm);
    book(c, cs);
    c.count(fmt("paD-mode:%u", pm));
    Z za, zb, want;
    z_from_mag(za.v, A, cs.sa); z_from_mag(zb.v, B, sqr ? cs.sa : cs.sb);
    mpz_mul(want.v, za.v, zb.v);
    int32_t rc = sqr ? pstm_sqr_comba(NULL, a, o, paD, paDlen) : pstm_mul_comba(NULL, a, b, o, paD, paDlen);
    okay(rc, cs);
    expect(c, o, want.v, cs);
    book_out(c, cs.op, orec, o);
    if (o != a) unchanged(c, a, A, cs.sa, cs, "a");
    if (!sqr && o != b && b != a) unchanged(c, b, B, cs.sb, cs, "b");
    // second net: sqr(a) == mul(a,a); mul(a,b) == mul(b,a)
    if (o != a && o != b && t.below(4) == 0) {
        P x; mk_out(x, t, true);
        rc = sqr ? pstm_mul_comba(NULL, a, a, &x.v, NULL, 0) : pstm_mul_comba(NULL, b, a, &x.v, NULL, 0);
        VF_CHECK(rc == PSTM_OKAY && pstm_cmp(&x.v, o) == PSTM_EQ, sqr ? "algebra-sqr-vs-mul" : "algebra-mul-commutes", "%s (rc=%d)", descr(cs).c_str(), (int) rc);
        c.count(sqr ? "algebra:sqr-vs-mul" : "algebra:mul-commutes");
    }
    poke(t, c, o, cs);
}

// ------------------------------------------------------------------ mul_2 / div_2 / div_2d
// In-tree: ecc_math.c pstm_div_2(&y,&y) on even non-negative values; invmod halves even values of both signs in place;
// calc_normalization doubles in place; pstm_div and to_unsigned_bin use div_2d in place with d == NULL.
static void op_shift1(Tape &t, Ctx &c, bool mul) {
    Case cs;
    cs.op = mul ? "mul_2" : "div_2";
    int m = pick_nd(t, LIM - 1);
    cs.ca = pick_cls(t, false);
    Mag A = gen_mag(t, m, cs.ca, NULL);
    cs.m = m;
    cs.sa = m > 0 && t.below(4) == 0;
    cs.alias = t.below(2) == 0 ? AL_CA : AL_NONE;
    P pa, pc;
    mk(pa, A, cs.sa, (unsigned) t.below(5));
    pstm_int *a = &pa.v, *o = a;
    Z za, want, want2;
    z_from_mag(za.v, A, cs.sa);
    if (mul) mpz_mul_2exp(want.v, za.v, 1); else { mpz_tdiv_q_2exp(want.v, za.v, 1); mpz_fdiv_q_2exp(want2.v, za.v, 1); }
    OutRec orec;
    if (cs.alias == AL_NONE) { orec = mk_outv(pc, t, true, true, znd(want.v)); o = &pc.v; }
    book(c, cs);
    int32_t rc;
    if (mul) { rc = pstm_mul_2(a, o); okay(rc, cs); expect(c, o, want.v, cs); }
    else {
        rc = pstm_div_2(a, o); okay(rc, cs);
        Z got; inv(c, o, cs, "result"); z_from_p(got.v, o);
        if (mpz_cmp(got.v, want.v) != 0 && mpz_cmp(got.v, want2.v) != 0)
            VF_FAIL("div_2-mismatch", "%s: got=%s want=%s", descr(cs).c_str(), zhex(got.v).c_str(), zhex(want.v).c_str());
    }
    book_out(c, cs.op, orec, o);
    if (o != a) unchanged(c, a, A, cs.sa, cs, "a");
    if (mul && o != a && t.below(4) == 0) { // mul_2(a) == a + a, div_2(mul_2(a)) == a
        P s, h; mk_out(s, t, true); mk_out(h, t, true);
        VF_CHECK(pstm_add(a, a, &s.v) == PSTM_OKAY && pstm_cmp(&s.v, o) == PSTM_EQ, "algebra-mul2-vs-add", "%s", descr(cs).c_str());
        VF_CHECK(pstm_div_2(o, &h.v) == PSTM_OKAY && pstm_cmp(&h.v, a) == PSTM_EQ, "algebra-mul2-div2-roundtrip", "%s", descr(cs).c_str());
        c.count("algebra:mul2");
    }
    poke(t, c, o, cs);
}
static void op_div_2d(Tape &t, Ctx &c) {
    Case cs;
    cs.op = "div_2d";
    int m = pick_nd(t, LIM);
    cs.ca = pick_cls(t, false);
    Mag A = gen_mag(t, m, cs.ca, NULL);
    cs.m = m;
    cs.sa = m > 0 && t.below(6) == 0;
    unsigned bs = (unsigned) t.below(8);
    int bits = bs == 0 ? 0 : bs == 1 ? 64 * (int) t.below((uint64_t) m + 2) : bs == 2 ? 8 : (int) t.below((uint64_t) 64 * m + 70);
    cs.edge = bs <= 2;
    unsigned am = (unsigned) t.below(6); // 0,1: c=a d=NULL (in-tree) 2: c=a,d sep 3: c sep,d NULL 4: both sep 5: c sep, d=a
    // No in-tree caller asks for the remainder (d is always NULL).  The remainder path (pstm_mod_2d) evaluates
    // ~0 >> (DIGIT_BIT - b) which is an undefined shift for b > DIGIT_BIT (see findings/mod_2d-shift-ub.md); it is
    // therefore only requested for b < DIGIT_BIT, i.e. inside the range where the expression is defined.
    // With c == a the remainder is computed from the already shifted value (same finding).  The remainder is thus only
    // requested with a separate quotient variable and b < DIGIT_BIT.
    // /repo commit 7525ffd repaired both (remainder taken before the shift, mask for any bit count): with a non-zero side
    // tape byte the remainder is requested for every shift count and with c == a as well.
    bool lifted = side().below(4) != 0;
    if (!lifted) {
        if (am == 2) am = 0;
        if (bits >= 64 && (am == 4 || am == 5)) am = 3;
    } else c.count(fmt("div_2d:lifted-mode:%u%s", am, bits >= 64 ? ":bits>=64" : ""));
    cs.alias = am <= 2 ? AL_CA : am == 5 ? AL_OTHER : AL_NONE;
    cs.extra = fmt("bits=%d mode=%u", bits, am);
    P pa, pc, pd;
    mk(pa, A, cs.sa, (unsigned) t.below(5));
    pstm_int *a = &pa.v, *q = a, *r = NULL;
    Z za, tq, tr, fq, fr;
    z_from_mag(za.v, A, cs.sa);
    mpz_tdiv_q_2exp(tq.v, za.v, bits); mpz_tdiv_r_2exp(tr.v, za.v, bits);
    mpz_fdiv_q_2exp(fq.v, za.v, bits); mpz_fdiv_r_2exp(fr.v, za.v, bits);
    OutRec orec, orec2;
    if (am >= 3) { orec = mk_outv(pc, t, true, true, znd(tq.v)); q = &pc.v; }
    if (am == 2 || am == 4) { orec2 = mk_outv(pd, t, true, true, znd(tr.v)); r = &pd.v; }
    if (am == 5) r = a;
    book(c, cs);
    int32_t rc = pstm_div_2d(NULL, a, (int16_t) bits, q, r);
    okay(rc, cs);
    inv(c, q, cs, "quotient");
    Z gq, gr;
    z_from_p(gq.v, q);
    bool tok = mpz_cmp(gq.v, tq.v) == 0, fok = mpz_cmp(gq.v, fq.v) == 0;
    if (r) {
        inv(c, r, cs, "remainder");
        z_from_p(gr.v, r);
        tok = tok && mpz_cmp(gr.v, tr.v) == 0; fok = fok && mpz_cmp(gr.v, fr.v) == 0;
    }
    if (!tok && !fok)
        VF_FAIL("div_2d-mismatch", "%s: q=%s r=%s want q=%s r=%s", descr(cs).c_str(), zhex(gq.v).c_str(), r ? zhex(gr.v).c_str() : "-", zhex(tq.v).c_str(), zhex(tr.v).c_str());
    book_out(c, cs.op, orec, q);
    if (r) book_out(c, "div_2d.rem", orec2, r);
    if (q != a && r != a) unchanged(c, a, A, cs.sa, cs, "a");
    poke(t, c, q, cs);
}

// ------------------------------------------------------------------ div / mod / mulmod
// pstm_div: only caller is pstm_mod (c == NULL).  Positive operands: exact truncating quotient/remainder; with a negative
// operand the documentation only promises c*b + d = a, so floor and truncate conventions are both accepted.
static void op_div(Tape &t, Ctx &c) {
    Case cs;
    cs.op = "div";
    int m, n;
    pick_pair_heavy(t, LIM, LIM, &m, &n);
    n = imax(1, n);
    cs.ca = pick_cls(t, false);
    Mag A = gen_mag(t, m, cs.ca, NULL);
    cs.cb = pick_cls(t, true);
    if (cs.cb >= EQ && m > 0) n = m;
    Mag B = gen_mag(t, n, cs.cb, &A);
    cs.m = m; cs.n = n;
    cs.sa = m > 0 && t.below(6) == 0;
    cs.sb = t.below(6) == 0;
    unsigned am = (unsigned) t.below(8); // 0: c,d separate 1: c only 2: d only 3: c=a 4: d=a 5: d=b 6: c=b 7: c=a,d=b
    // remaining ways of aliasing an output with an input; no caller uses them (pstm_mod passes c == NULL and a local d): counted only
    unsigned xm = (unsigned) side().below(8); // 1: c NULL,d=a  2: c NULL,d=b  3: c=b,d=a
    if (xm >= 1 && xm <= 3) am = 7 + xm;
    cs.alias = am <= 2 ? AL_NONE : (am == 3 || am == 7) ? AL_CA : am == 6 ? AL_CB : AL_OTHER;
    cs.extra = fmt("mode=%u", am);
    P pa, pb, pc, pd;
    mk(pa, A, cs.sa, (unsigned) t.below(5));
    mk(pb, B, cs.sb, (unsigned) t.below(5));
    pstm_int *a = &pa.v, *b = &pb.v, *q = NULL, *r = NULL;
    Z za, zb, tq, tr, fq, fr, gq, gr;
    z_from_mag(za.v, A, cs.sa); z_from_mag(zb.v, B, cs.sb);
    mpz_tdiv_qr(tq.v, tr.v, za.v, zb.v);
    mpz_fdiv_qr(fq.v, fr.v, za.v, zb.v);
    OutRec orec, orec2;
    if (am == 0 || am == 1 || am == 4 || am == 5) { orec = mk_outv(pc, t, true, true, znd(tq.v)); q = &pc.v; }
    if (am == 0 || am == 2 || am == 3 || am == 6) { orec2 = mk_outv(pd, t, true, true, znd(tr.v)); r = &pd.v; }
    if (am >= 8) {
        if (am == 8) r = a; else if (am == 9) r = b; else { q = b; r = a; }
        book(c, cs);
        int32_t rc = pstm_div(NULL, a, b, q, r);
        static const char *pn[3] = { "c=NULL,d=a", "c=NULL,d=b", "c=b,d=a" };
        bool tneg = mpz_sgn(za.v) < 0 || mpz_sgn(zb.v) < 0; // both rounding conventions are acceptable for negative operands
        Z g; if (rc == PSTM_OKAY) z_from_p(g.v, r);
        unpromised(c, cs.op, pn[am - 8], rc, r, tneg && rc == PSTM_OKAY && mpz_cmp(g.v, fr.v) == 0 ? fr.v : tr.v);
        return;
    }
    if (am == 1) r = NULL;
    if (am == 2) q = NULL;
    if (am == 3) q = a;
    if (am == 4) r = a;
    if (am == 5) r = b;
    if (am == 6) q = b;
    if (am == 7) { q = a; r = b; }
    book(c, cs);
    int32_t rc = pstm_div(NULL, a, b, q, r);
    okay(rc, cs);
    bool tok = true, fok = true;
    if (q) { inv(c, q, cs, "quotient"); z_from_p(gq.v, q); tok = tok && mpz_cmp(gq.v, tq.v) == 0; fok = fok && mpz_cmp(gq.v, fq.v) == 0; }
    if (r) { inv(c, r, cs, "remainder"); z_from_p(gr.v, r); tok = tok && mpz_cmp(gr.v, tr.v) == 0; fok = fok && mpz_cmp(gr.v, fr.v) == 0; }
    if (!tok && !fok)
        VF_FAIL("div-mismatch", "%s: q=%s r=%s want q=%s r=%s", descr(cs).c_str(), q ? zhex(gq.v).c_str() : "-", r ? zhex(gr.v).c_str() : "-", zhex(tq.v).c_str(), zhex(tr.v).c_str());
    if (q) book_out(c, cs.op, orec, q);
    if (r) book_out(c, "div.rem", orec2, r);
    if (q != a && r != a) unchanged(c, a, A, cs.sa, cs, "a");
    if (q != b && r != b) unchanged(c, b, B, cs.sb, cs, "b");
    // second net without GMP: q*b + r == a and |r| < |b|
    if (am == 0 && t.below(3) == 0) {
        P x; mk_out(x, t, true);
        VF_CHECK(pstm_mul_comba(NULL, q, b, &x.v, NULL, 0) == PSTM_OKAY && pstm_add(&x.v, r, &x.v) == PSTM_OKAY && pstm_cmp(&x.v, a) == PSTM_EQ,
                 "algebra-div-qb-plus-r", "%s: q*b + r != a", descr(cs).c_str());
        VF_CHECK(pstm_cmp_mag(r, b) == PSTM_LT, "algebra-div-remainder-range", "%s: |r| >= |b|", descr(cs).c_str());
        c.count("algebra:div");
    }
    if (q) poke(t, c, q, cs);
    if (r && r != q) poke(t, c, r, cs);
}
// pstm_mod: "c = a mod b, 0 <= c < b": b > 0; a of either sign (invmod_slow passes the caller's a).  In-tree: c=a (ecc).
static void op_mod(Tape &t, Ctx &c) {
    Case cs;
    cs.op = "mod";
    int m, n;
    pick_pair_heavy(t, LIM, 70, &m, &n);
    n = imax(1, n);
    cs.ca = pick_cls(t, false);
    Mag B = gen_modulus(t, n, false, 1, cs);
    n = (int) B.size();
    int ca2 = cs.ca;
    if (t.below(6) == 0) { ca2 = EQ + (int) t.below(3); m = n; }
    Mag A = gen_mag(t, m, ca2, &B);
    cs.ca = ca2; cs.cb = cs.cc; cs.cc = RND;
    cs.m = m; cs.n = n;
    cs.sa = m > 0 && t.below(5) == 0;
    unsigned am = (unsigned) t.below(4);
    cs.alias = am == 1 ? AL_CA : am == 2 ? AL_CB : AL_NONE;
    P pa, pb, pc;
    mk(pa, A, cs.sa, (unsigned) t.below(5));
    mk(pb, B, 0, (unsigned) t.below(5));
    pstm_int *a = &pa.v, *b = &pb.v, *o;
    Z za, zb, want;
    z_from_mag(za.v, A, cs.sa); z_from_mag(zb.v, B, 0);
    mpz_mod(want.v, za.v, zb.v);
    OutRec orec;
    if (cs.alias == AL_CA) o = a; else if (cs.alias == AL_CB) o = b; else { orec = mk_outv(pc, t, true, true, znd(want.v)); o = &pc.v; }
    book(c, cs);
    int32_t rc = pstm_mod(NULL, a, b, o);
    okay(rc, cs);
    expect(c, o, want.v, cs);
    book_out(c, cs.op, orec, o);
    if (o != a) unchanged(c, a, A, cs.sa, cs, "a");
    if (o != b) unchanged(c, b, B, 0, cs, "b");
    poke(t, c, o, cs);
}
// pstm_mulmod: d = a*b mod c, c > 0.  In-tree: ecc_priv/ecc_pub/ecc_math/rsa (d=a, separate), exptmod (d=a).
static void op_mulmod(Tape &t, Ctx &c) {
    Case cs;
    cs.op = "mulmod";
    int k = imax(1, pick_nd_heavy(t, 70));
    Mag M = gen_modulus(t, k, false, 1, cs);
    k = (int) M.size();
    // operands: usually already reduced (<= k digits), sometimes longer
    int m, n;
    if (t.coin()) { m = pick_nd(t, k); n = pick_nd(t, k); } else pick_pair_heavy(t, 90, 90, &m, &n);
    cs.ca = pick_cls(t, true);
    if (cs.ca >= EQ) m = k;
    Mag A = gen_mag(t, m, cs.ca, &M);
    cs.cb = pick_cls(t, true);
    if (cs.cb >= EQ && m > 0) n = m;
    Mag B = gen_mag(t, n, cs.cb, &A);
    cs.sa = m > 0 && t.below(6) == 0;
    cs.sb = n > 0 && t.below(6) == 0;
    cs.alias = pick_alias3(t);
    if (cs.alias == AL_AB || cs.alias == AL_ALL) { B = A; cs.sb = cs.sa; n = m; cs.cb = A.empty() ? RND : EQ; }
    cs.m = m; cs.n = n; cs.k = k;
    P pa, pb, pm, pd;
    mk(pa, A, cs.sa, (unsigned) t.below(5));
    pstm_int *a = &pa.v, *b = a, *o;
    if (!(cs.alias == AL_AB || cs.alias == AL_ALL)) { mk(pb, B, cs.sb, (unsigned) t.below(5)); b = &pb.v; }
    mk(pm, M, 0, (unsigned) t.below(5));
    Z za, zb, zm, want;
    z_from_mag(za.v, A, cs.sa); z_from_mag(zb.v, B, cs.sb); z_from_mag(zm.v, M, 0);
    mpz_mul(want.v, za.v, zb.v); mpz_mod(want.v, want.v, zm.v);
    OutRec orec;
    if (cs.alias == AL_NONE && side().below(8) == 1) { // d == c (result into the modulus variable): no in-tree caller, counted only
        cs.alias = AL_OTHER; cs.extra += " d=c";
        book(c, cs);
        int32_t rc = pstm_mulmod(NULL, a, b, &pm.v, &pm.v);
        unpromised(c, cs.op, "d=c", rc, &pm.v, want.v);
        return;
    }
    if (cs.alias == AL_CA || cs.alias == AL_ALL) o = a; else if (cs.alias == AL_CB) o = b; else { orec = mk_outv(pd, t, true, true, znd(want.v)); o = &pd.v; }
    book(c, cs);
    // second net first (needs the unmodified inputs): mod(mul_comba(a,b), m)
    P x, y; bool second = t.below(3) == 0;
    if (second) {
        mk_out(x, t, true); mk_out(y, t, true);
        VF_CHECK(pstm_mul_comba(NULL, a, b, &x.v, NULL, 0) == PSTM_OKAY && pstm_mod(NULL, &x.v, &pm.v, &y.v) == PSTM_OKAY, "algebra-mulmod-vs-mul-mod", "%s: mul/mod failed", descr(cs).c_str());
    }
    int32_t rc = pstm_mulmod(NULL, a, b, &pm.v, o);
    okay(rc, cs);
    expect(c, o, want.v, cs);
    book_out(c, cs.op, orec, o);
    if (second) { VF_CHECK(pstm_cmp(&y.v, o) == PSTM_EQ, "algebra-mulmod-vs-mul-mod", "%s: mulmod != mod(mul)", descr(cs).c_str()); c.count("algebra:mulmod"); }
    if (o != a) unchanged(c, a, A, cs.sa, cs, "a");
    if (o != b && b != a) unchanged(c, b, B, cs.sb, cs, "b");
    unchanged(c, &pm.v, M, 0, cs, "modulus");
    poke(t, c, o, cs);
}

// ------------------------------------------------------------------ invmod
// In-tree: ecc_priv.c (k^-1 mod order, out=a), ecc_pub.c (s^-1 mod order, 0 < s < order checked), ecc_math.c (z^-1 mod p),
// rsa_parse_mem.c (q^-1 mod p, q < p, up to 2048-bit each).  So "must succeed": 0 < a < b, gcd(a,b) = 1, bits(a)+bits(b) <= 4096.
static void op_invmod(Tape &t, Ctx &c) {
    Case cs;
    cs.op = "invmod";
    int k = imax(1, pick_nd_heavy(t, 66));
    Mag M = gen_modulus(t, k, false, 2, cs);
    k = (int) M.size();
    bool wild = t.below(5) == 0; // operand not reduced / negative: weaker oracle
    int m = wild ? pick_nd_heavy(t, 70) : pick_nd(t, k);
    cs.ca = pick_cls(t, true);
    if (cs.ca >= EQ) m = k;
    Mag A = gen_mag(t, m, cs.ca, &M);
    cs.sa = wild && m > 0 && t.below(3) == 0;
    Z za, zm, want, g;
    z_from_mag(zm.v, M, 0);
    z_from_mag(za.v, A, 0);
    if (!wild && mpz_cmp(za.v, zm.v) >= 0) { mpz_mod(za.v, za.v, zm.v); A = mag_from_z(za.v); m = (int) A.size(); }
    if (cs.sa) mpz_neg(za.v, za.v);
    cs.m = m; cs.n = k; cs.cb = cs.cc; cs.cc = RND;
    cs.alias = t.below(3) == 0 ? AL_CA : AL_NONE;
    cs.extra += wild ? " wild" : "";
    P pa, pm, pc;
    mk(pa, A, cs.sa, (unsigned) t.below(5));
    mk(pm, M, 0, (unsigned) t.below(5));
    pstm_int *a = &pa.v, *o = a;
    mpz_gcd(g.v, za.v, zm.v);
    bool invertible = mpz_cmp_ui(g.v, 1) == 0;
    bool indomain = !wild && m > 0 && mpz_sizeinbase(za.v, 2) + mpz_sizeinbase(zm.v, 2) <= 4096;
    if (invertible) mpz_invert(want.v, za.v, zm.v);
    OutRec orec;
    if (cs.alias == AL_NONE && indomain && invertible && side().below(8) == 1) { // c == b (inverse into the modulus variable): no in-tree caller, counted only
        cs.alias = AL_OTHER; cs.extra += " c=b";
        book(c, cs);
        int32_t rc = pstm_invmod(NULL, a, &pm.v, &pm.v);
        unpromised(c, cs.op, "c=b", rc, &pm.v, want.v);
        return;
    }
    if (cs.alias == AL_NONE) { orec = mk_outv(pc, t, true, true, invertible ? znd(want.v) : k); o = &pc.v; }
    book(c, cs);
    c.count(invertible ? "invmod:invertible" : "invmod:non-invertible");
    c.count((M[0] & 1) ? "invmod:odd-modulus" : "invmod:even-modulus");
    int32_t rc = pstm_invmod(NULL, a, &pm.v, o);
    if (rc != PSTM_OKAY) {
        c.count("invmod:error-return");
        VF_CHECK(!(indomain && invertible), "invmod-error-in-domain", "%s: returned %d for an invertible element", descr(cs).c_str(), (int) rc);
        inv(c, a, cs, "a after error");
        return;
    }
    inv(c, o, cs, "result");
    book_out(c, cs.op, orec, o);
    { Z red; mpz_mod(red.v, za.v, zm.v); // 1/0 (also a multiple of b): outside every caller's domain (callers check for zero)
      if (mpz_sgn(red.v) == 0) { c.count("invmod:zero-operand-ok"); return; } }
    VF_CHECK(invertible, "invmod-accepted-noninvertible", "%s: returned success although gcd(a,b)=%s", descr(cs).c_str(), zhex(g.v).c_str());
    Z got, prod;
    z_from_p(got.v, o);
    if (indomain) {
        mpz_invert(want.v, za.v, zm.v);
        if (mpz_cmp(got.v, want.v) != 0 && mpz_cmp(got.v, zm.v) >= 0 && mpz_congruent_p(got.v, want.v, zm.v))
            VF_FAIL("invmod-unreduced", "%s: result is congruent to 1/a but not reduced: got=%s = 1/a + %s*b", descr(cs).c_str(), zhex(got.v).c_str(), (mpz_sub(prod.v, got.v, want.v), mpz_divexact(prod.v, prod.v, zm.v), zhex(prod.v).c_str()));
        if (mpz_cmp(got.v, want.v) != 0) VF_FAIL("invmod-mismatch", "%s: got=%s want=%s", descr(cs).c_str(), zhex(got.v).c_str(), zhex(want.v).c_str());
    } else { // only the congruence a*c == 1 (mod b) is demanded
        mpz_mul(prod.v, got.v, za.v); mpz_sub_ui(prod.v, prod.v, 1); mpz_mod(prod.v, prod.v, zm.v);
        if (mpz_sgn(prod.v) != 0) VF_FAIL("invmod-mismatch", "%s: a*c != 1 (mod b), c=%s", descr(cs).c_str(), zhex(got.v).c_str());
        c.count("invmod:wild-ok");
    }
    if (o != a) unchanged(c, a, A, cs.sa, cs, "a");
    unchanged(c, &pm.v, M, 0, cs, "modulus");
    if (o != a && t.below(3) == 0) { // second net: a * a^-1 mod b == 1 using pstm only
        P x; mk_out(x, t, true);
        bool one = M.size() == 1 && M[0] == 1;
        VF_CHECK(pstm_mulmod(NULL, a, o, &pm.v, &x.v) == PSTM_OKAY && (one || pstm_cmp_d(&x.v, 1) == PSTM_EQ), "algebra-invmod-product", "%s: a * a^-1 mod b != 1", descr(cs).c_str());
        c.count("algebra:invmod");
    }
}

// ------------------------------------------------------------------ exptmod
// "x must be positive and < p; p must be positive, odd, and [512,1024,1536,2048,3072,4096] bits".  In-tree: rsa.c (Y=G,
// G < N; CRT: G has twice the digits of P), dh (G=2.. or peer public value < p).
static Mag expt_modulus(Tape &t, int bits, int &kind, Case &cs) {
    int nd = bits / 64;
    unsigned r = (unsigned) t.below(16);
    kind = r < 7 ? 0 : r < 11 ? 1 : r == 11 ? 2 : r == 12 ? 3 : r == 13 ? 0 : r == 14 ? 4 : 5;
    Mag m;
    if (kind == 1) {
        if (bits == 512) m = rsa_prime(512, 0);
        else if (bits == 1024) m = t.coin() ? rsa_prime(1024, 0) : rsa_modulus(1024);
        else if (bits == 2048) m = t.coin() ? rsa_prime(2048, 0) : rsa_modulus(2048);
        else if (bits == 4096) m = rsa_modulus(4096);
        else kind = 0;
    }
    if (kind == 0 || kind == 4 || kind == 5) {
        int cls = pick_cls(t, false);
        m = gen_mag(t, nd, cls, NULL);
        m[nd - 1] |= 1ULL << 63; m[0] |= 1;
        cs.cc = cls;
        if (kind == 4) m[0] &= ~1ULL;
        if (kind == 5) { if (t.coin()) m[nd - 1] &= ~(1ULL << 63); else m.push_back(1); if (m.back() == 0) m.back() = 1; }
    } else if (kind == 2) m.assign(nd, ~0ULL);
    else if (kind == 3) { m.assign(nd, 0); m[nd - 1] = 1ULL << 63; m[0] = 1; }
    static const char *kn[] = { "rnd-odd", "real", "2^k-1", "2^(k-1)+1", "even", "badsize" };
    cs.extra += std::string(" P=") + kn[kind];
    return m;
}
static void gen_exponent(Tape &t, const mpz_t p, mpz_t x, Case &cs, int nd) {
    unsigned r = (unsigned) t.below(16);
    if (r < 5) { int cls = RND; Mag m = gen_mag(t, nd, cls, NULL); z_from_mag(x, m, 0); mpz_mod(x, x, p); cs.extra += " X=rnd"; }
    else if (r == 5) { mpz_set_ui(x, 3); cs.extra += " X=3"; }
    else if (r == 6) { mpz_set_ui(x, 65537); cs.extra += " X=65537"; }
    else if (r == 7) { mpz_sub_ui(x, p, 1); cs.extra += " X=P-1"; }
    else if (r == 8) { mpz_sub_ui(x, p, 2); cs.extra += " X=P-2"; }
    else if (r == 9) { mpz_set_ui(x, 1 + t.below(2)); cs.extra += " X=1or2"; }
    else if (r == 10) { mpz_set_ui(x, 1); mpz_mul_2exp(x, x, t.below((uint64_t) nd * 64 - 1)); cs.extra += " X=2^j"; }
    else if (r == 11) { mpz_set_ui(x, 1); mpz_mul_2exp(x, x, 1 + t.below((uint64_t) nd * 64 - 2)); mpz_sub_ui(x, x, 1); cs.extra += " X=2^j-1"; }
    else if (r == 12) { mpz_set_ui(x, 0); cs.extra += " X=0"; }
    else { int cls = pick_cls(t, false); int xd = 1 + (int) t.below((uint64_t) nd); Mag m = gen_mag(t, xd, cls, NULL); z_from_mag(x, m, 0); mpz_mod(x, x, p); cs.extra += " X=short"; }
}
static int32_t expt_call(const Mag &G, const Mag &X, const Mag &Pm, Mag *out, unsigned am) {
    P g, x, p, y;
    mk(g, G, 0, am); mk(x, X, 0, am + 1); mk(p, Pm, 0, am + 2);
    Mag z; mk(y, z, 0, 0);
    int32_t rc = pstm_exptmod(NULL, &g.v, &x.v, &p.v, &y.v);
    if (rc == PSTM_OKAY) { out->assign(y.v.dp, y.v.dp + y.v.used); }
    return rc;
}
static void op_exptmod(Tape &t, Ctx &c) {
    Case cs;
    cs.op = "exptmod";
    static const int sizes[6] = { 512, 1024, 1536, 2048, 3072, 4096 };
    unsigned r = (unsigned) t.below(64);
    int bits = sizes[r < 40 ? 0 : r < 56 ? 1 : r < 58 ? 2 : r < 62 ? 3 : r < 63 ? 4 : 5];
    int nd = bits / 64, kind = 0;
    Mag Pm = expt_modulus(t, bits, kind, cs);
    Z zp, zg, zx, want;
    z_from_mag(zp.v, Pm, 0);
    // base: reduced (< P), equal/above P with the same digit count, double size (RSA-CRT), tiny (DH generator)
    unsigned gk = (unsigned) t.below(16);
    Mag G;
    cs.ca = RND;
    if (gk < 7) { cs.ca = pick_cls(t, true); G = gen_mag(t, (int) Pm.size(), cs.ca, &Pm); z_from_mag(zg.v, G, 0); if (cs.ca < EQ) { mpz_mod(zg.v, zg.v, zp.v); G = mag_from_z(zg.v); } cs.extra += " G=full"; }
    else if (gk < 9) { G.assign(1, 2 + t.below(4)); cs.extra += " G=small"; }
    else if (gk == 9) { G.assign(1, t.below(2)); trim(G); cs.extra += " G=0or1"; }
    else if (gk == 10) { mpz_sub_ui(zg.v, zp.v, 1); G = mag_from_z(zg.v); cs.extra += " G=P-1"; }
    else if (gk == 11) { G = Pm; cs.ca = EQ; cs.extra += " G=P"; }
    else if (gk == 12) { int cls = ONES; G = gen_mag(t, (int) Pm.size(), cls, NULL); cs.ca = ONES; cs.extra += " G=ones(>=P)"; }
    else if (gk < 15) { cs.ca = pick_cls(t, false); G = gen_mag(t, 2 * nd - (int) t.below(2), cs.ca, NULL); cs.extra += " G=double"; }
    else { cs.ca = pick_cls(t, false); G = gen_mag(t, 1 + (int) t.below((uint64_t) nd), cs.ca, NULL); cs.extra += " G=short"; }
    z_from_mag(zg.v, G, 0);
    gen_exponent(t, zp.v, zx.v, cs, nd);
    Mag X = mag_from_z(zx.v);
    cs.m = (int) G.size(); cs.n = (int) X.size(); cs.k = (int) Pm.size();
    cs.alias = t.below(2) ? AL_CA : AL_NONE; // Y = G as in rsa.c
    // output aliasing, all of it: 0,1: as drawn above (Y == G or separate)  2: Y == X  3: Y == P  4: Y == G  5-7: separate.
    // Y == X and Y == P: no in-tree caller, not documented -> counted only (unpromised:exptmod:...).
    unsigned ym = (unsigned) side().below(8);
    if (ym == 4) cs.alias = AL_CA; else if (ym >= 5) cs.alias = AL_NONE; else if (ym >= 2) cs.alias = AL_OTHER;
    cs.edge = true;
    cs.extra += fmt(" bits=%d", bits);
    if (cs.alias == AL_OTHER) cs.extra += ym == 2 ? " Y=X" : " Y=P";
    P g, x, p, y;
    mk(g, G, 0, (unsigned) t.below(5)); mk(x, X, 0, (unsigned) t.below(5)); mk(p, Pm, 0, (unsigned) t.below(5));
    pstm_int *o = &g.v;
    bool indomain = kind <= 3 && mpz_sgn(zx.v) > 0;
    if (indomain) mpz_powm(want.v, zg.v, zx.v, zp.v);
    OutRec orec;
    // Y separate: fresh (rsa.c CRT, dh_gen_key.c) or holding an older value (dh_gen_secret.c: pub+1); the old value may be of
    // either sign - the result of an exponentiation of non-negative operands is non-negative whatever Y held before
    if (cs.alias == AL_NONE) { orec = mk_outv(y, t, false, true, indomain ? znd(want.v) : nd); o = &y.v; }
    else if (cs.alias == AL_OTHER) o = ym == 2 ? &x.v : &p.v;
    book(c, cs);
    c.count(fmt("exptmod:bits=%d", bits));
    c.count(std::string("exptmod:Y=") + (cs.alias == AL_CA ? "G" : cs.alias == AL_NONE ? "separate" : ym == 2 ? "X" : "P"));
    int32_t rc = pstm_exptmod(NULL, &g.v, &x.v, &p.v, o);
    if (cs.alias == AL_OTHER) {
        if (indomain) unpromised(c, cs.op, ym == 2 ? "Y=X" : "Y=P", rc, o, want.v);
        return;
    }
    if (!indomain) { // error accepted; a success return is still compared with the exact value when that is well defined
        c.count(kind == 4 ? "exptmod:even-modulus" : kind == 5 ? "exptmod:bad-size" : "exptmod:zero-exponent");
        if (rc != PSTM_OKAY) { c.count("exptmod:error-outside-domain"); return; }
        if (mpz_sgn(zx.v) == 0) return;
    } else okay(rc, cs);
    mpz_powm(want.v, zg.v, zx.v, zp.v);
    expect(c, o, want.v, cs);
    book_out(c, cs.op, orec, o);
    if (o != &g.v) unchanged(c, &g.v, G, 0, cs, "G");
    unchanged(c, &x.v, X, 0, cs, "X");
    unchanged(c, &p.v, Pm, 0, cs, "P");
    // second net (no GMP): g^(x1+x2) == g^x1 * g^x2 (mod p), only for the cheaper sizes
    if (bits <= 1024 && t.below(4) == 0) {
        Z x1, x2, xs;
        mpz_tdiv_q_2exp(x1.v, zx.v, 1); mpz_sub(x2.v, zx.v, x1.v); // x = x1 + x2, both > 0 unless x == 1
        if (mpz_sgn(x1.v) > 0) {
            Mag y1, y2;
            unsigned am = (unsigned) t.below(5);
            VF_CHECK(expt_call(G, mag_from_z(x1.v), Pm, &y1, am) == PSTM_OKAY && expt_call(G, mag_from_z(x2.v), Pm, &y2, am) == PSTM_OKAY, "algebra-exptmod-split", "%s: partial exptmod failed", descr(cs).c_str());
            P a, b, d; trim(y1); trim(y2);
            mk(a, y1, 0, 1); mk(b, y2, 0, 1); mk_out(d, t, true);
            VF_CHECK(pstm_mulmod(NULL, &a.v, &b.v, &p.v, &d.v) == PSTM_OKAY && pstm_cmp(&d.v, o) == PSTM_EQ, "algebra-exptmod-split", "%s: g^(x1+x2) != g^x1 * g^x2", descr(cs).c_str());
            c.count("algebra:exptmod-split");
        }
    }
    poke(t, c, o, cs);
}

// ------------------------------------------------------------------ lshd / rshd / 2expt
// Digit shifts in place.  pstm_lshd is only reached through pstm_mul_2d (which clamps afterwards) with a non-zero value,
// so for a zero input only the value (still zero) is checked, not the normal form.
static void op_shiftd(Tape &t, Ctx &c, int kind) {
    Case cs;
    cs.op = kind == 0 ? "lshd" : kind == 1 ? "rshd" : "2expt";
    if (kind == 2) {
        // the output state is drawn before the bit count on the main tape (legacy order); sized relative to the result it is
        // drawn from the side tape after the bit count is known
        P a; OutRec orec;
        bool newout = side().below(4) != 0;
        if (!newout) mk_out(a, t, true);
        unsigned bs = (unsigned) t.below(4);
        int b = bs == 0 ? (int) t.below(35 * 64) : bs == 1 ? 64 * (int) t.below(LIM) : bs == 2 ? 64 * (int) t.below(LIM) + 63 : (int) t.below((uint64_t) LIM * 64);
        if (newout) orec = mk_outv(a, t, true, true, b / 64 + 1);
        cs.m = b / 64 + 1; cs.edge = bs == 1 || bs == 2; cs.extra = fmt("b=%d", b);
        book(c, cs);
        Z want; mpz_set_ui(want.v, 1); mpz_mul_2exp(want.v, want.v, b);
        okay(pstm_2expt(&a.v, (int16_t) b), cs);
        expect(c, &a.v, want.v, cs);
        book_out(c, cs.op, orec, &a.v);
        poke(t, c, &a.v, cs);
        return;
    }
    int m = pick_nd(t, LIM - 1);
    cs.ca = pick_cls(t, false);
    Mag A = gen_mag(t, m, cs.ca, NULL);
    cs.m = m; cs.sa = m > 0 && t.below(5) == 0; cs.alias = AL_CA;
    int b = kind == 0 ? (int) t.below((uint64_t) imin(LIM - m, 40) + 1) : (int) t.below((uint64_t) m + 3);
    cs.extra = fmt("b=%d", b); cs.edge = b == 0 || b >= m;
    P a; mk(a, A, cs.sa, (unsigned) t.below(5));
    book(c, cs);
    Z za, want; z_from_mag(za.v, A, cs.sa);
    if (kind == 0) {
        mpz_mul_2exp(want.v, za.v, 64 * (unsigned long) b);
        okay(pstm_lshd(&a.v, (uint16_t) b), cs);
        if (m == 0) { Z got; z_from_p(got.v, &a.v); VF_CHECK(mpz_sgn(got.v) == 0, "lshd-mismatch", "%s: 0 << b != 0", descr(cs).c_str()); if (a.v.used) c.count("info:lshd-of-zero-unnormalised"); return; }
        expect(c, &a.v, want.v, cs);
        if (t.below(3) == 0) { pstm_rshd(&a.v, (uint16_t) b); expect(c, &a.v, za.v, cs, "rshd(lshd(a))"); c.count("algebra:lshd-rshd"); }
    } else {
        mpz_tdiv_q_2exp(want.v, za.v, 64 * (unsigned long) b);
        pstm_rshd(&a.v, (uint16_t) b);
        expect(c, &a.v, want.v, cs);
    }
    poke(t, c, &a.v, cs);
}

// ------------------------------------------------------------------ cmp / cmp_mag / cmp_d
static int sgn3(int v) { return v < 0 ? PSTM_LT : v > 0 ? PSTM_GT : PSTM_EQ; }
static void op_cmp(Tape &t, Ctx &c, int kind) {
    Case cs;
    cs.op = kind == 0 ? "cmp" : kind == 1 ? "cmp_mag" : "cmp_d";
    int m = kind == 2 ? (t.below(3) ? (int) t.below(3) : pick_nd(t, MAXD)) : pick_nd(t, MAXD);
    cs.ca = pick_cls(t, false);
    Mag A = gen_mag(t, m, cs.ca, NULL);
    cs.m = m; cs.sa = m > 0 && t.below(3) == 0;
    Z za; z_from_mag(za.v, A, cs.sa);
    if (kind == 2) {
        bool edge; pstm_digit d = pick_digit(t, &edge);
        unsigned rel = (unsigned) t.below(4);
        if (m == 1 && rel == 1) d = A[0]; else if (m == 1 && rel == 2) d = A[0] + 1; else if (m == 1 && rel == 3) d = A[0] - 1;
        cs.edge = edge || rel != 0; cs.extra = fmt("d=%llx", (unsigned long long) d);
        P a;
        if (m == 0 && t.coin()) { // a zero produced by arithmetic (x - x) in a variable that held something else before
            P x; Mag g = cheap_mag(t, 1 + (int) t.below(6)); mk(x, g, t.coin(), 1); mk_out(a, t, true);
            VF_CHECK(pstm_sub(&x.v, &x.v, &a.v) == PSTM_OKAY, "cmp_d-setup", "x-x failed");
            cs.extra += " zero=x-x";
        } else mk(a, A, cs.sa, (unsigned) t.below(5));
        book(c, cs);
        Z zd; mpz_import(zd.v, 1, -1, 8, 0, 0, &d);
        int want = sgn3(mpz_cmp(za.v, zd.v)), got = pstm_cmp_d(&a.v, d);
        VF_CHECK(got == want, "cmp_d-mismatch", "%s: got %d want %d", descr(cs).c_str(), got, want);
        return;
    }
    int n = pick_nd(t, MAXD);
    if (m <= 34 && t.below(8) != 0) n = (int) t.below(35); // keep small pairs together
    cs.cb = pick_cls(t, true);
    if (t.below(4) == 0) cs.cb = EQ + (int) t.below(3);
    if (cs.cb >= EQ && m > 0) n = m;
    Mag B = gen_mag(t, n, cs.cb, &A);
    cs.n = n; cs.sb = n > 0 && (t.below(3) == 0 ? !cs.sa : cs.sa);
    cs.alias = t.below(8) == 0 ? AL_AB : AL_NONE;
    P a, b; mk(a, A, cs.sa, (unsigned) t.below(5));
    pstm_int *pb = &a.v;
    if (cs.alias == AL_AB) { B = A; cs.sb = cs.sa; cs.cb = A.empty() ? RND : EQ; cs.n = m; } else { mk(b, B, cs.sb, (unsigned) t.below(5)); pb = &b.v; }
    book(c, cs);
    Z zb; z_from_mag(zb.v, B, cs.sb);
    int want = kind == 0 ? sgn3(mpz_cmp(za.v, zb.v)) : sgn3(mpz_cmpabs(za.v, zb.v));
    int got = kind == 0 ? pstm_cmp(&a.v, pb) : pstm_cmp_mag(&a.v, pb);
    VF_CHECK(got == want, cs.op + "-mismatch", "%s: got %d want %d", descr(cs).c_str(), got, want);
    unchanged(c, &a.v, A, cs.sa, cs, "a");
    if (pb != &a.v) unchanged(c, pb, B, cs.sb, cs, "b");
}

// ------------------------------------------------------------------ Montgomery: setup / calc_normalization / reduce
// In-tree (ecc_math.c, exptmod): odd modulus; reduce is applied in place to products/squares of values < m (so a < m*R),
// in variables with alloc >= m.used+1, with a scratch buffer of (2*m.used+1) digits or NULL.  Result must be a*R^-1 mod m, < m.
static void op_mont(Tape &t, Ctx &c) {
    Case cs;
    cs.op = "montgomery";
    int k = imax(1, pick_nd(t, 70));
    bool even = t.below(24) == 0;
    Mag M = gen_modulus(t, k, !even, 3, cs);
    if (even) { M[0] &= ~1ULL; trim(M); if (M.empty()) M.assign(1, 4); }
    k = (int) M.size();
    cs.k = k;
    P pm; mk(pm, M, 0, (unsigned) t.below(5));
    pstm_digit mp = 0;
    int32_t rc = pstm_montgomery_setup(&pm.v, &mp);
    if (even) {
        cs.m = k; cs.extra += " even"; book(c, cs); c.count("montgomery:even-modulus");
        VF_CHECK(rc != PSTM_OKAY, "montgomery_setup-accepted-even", "%s: even modulus accepted", descr(cs).c_str());
        return;
    }
    Z zm, zr, rinv, want;
    z_from_mag(zm.v, M, 0);
    // operand(s): x, y < m  (classes relative to m too: m-1 etc. via DBOT/DTOP)
    int variant = (int) t.below(10); // 0-3: x*y  4-5: x^2  6: arbitrary a < m*R  7: a = (m-1)^2  8,9: a = j*m, j < R (reduces to exactly 0; the value before the final subtraction is m)
    cs.ca = pick_cls(t, true);
    int m1 = cs.ca >= EQ ? k : pick_nd(t, k);
    Mag X = gen_mag(t, m1, cs.ca, &M);
    Z zx, zy, zt;
    z_from_mag(zx.v, X, 0);
    if (mpz_cmp(zx.v, zm.v) >= 0) { mpz_mod(zx.v, zx.v, zm.v); X = mag_from_z(zx.v); }
    cs.cb = pick_cls(t, true);
    int n1 = cs.cb >= EQ ? k : pick_nd(t, k);
    Mag Y = gen_mag(t, n1, cs.cb, &M);
    z_from_mag(zy.v, Y, 0);
    if (mpz_cmp(zy.v, zm.v) >= 0) { mpz_mod(zy.v, zy.v, zm.v); Y = mag_from_z(zy.v); }
    if (variant == 7) { mpz_sub_ui(zx.v, zm.v, 1); X = mag_from_z(zx.v); Y = X; mpz_set(zy.v, zx.v); }
    cs.m = (int) X.size(); cs.n = (int) Y.size();
    cs.extra += fmt(" variant=%d", variant);
    book(c, cs);
    okay(rc, cs, "montgomery_setup");
    VF_CHECK((pstm_digit) (mp * M[0]) == ~(pstm_digit) 0, "montgomery_setup-mismatch", "%s: rho=%llx m0=%llx: rho*m0 != -1 mod 2^64", descr(cs).c_str(), (unsigned long long) mp, (unsigned long long) M[0]);
    // R mod m
    mpz_set_ui(zr.v, 1); mpz_mul_2exp(zr.v, zr.v, 64 * (unsigned long) k);
    { P nrm;
      mpz_mod(want.v, zr.v, zm.v);
      OutRec orec = mk_outv(nrm, t, true, true, znd(want.v));
      okay(pstm_montgomery_calc_normalization(&nrm.v, &pm.v), cs, "calc_normalization");
      Case c2 = cs; c2.op = "montgomery_calc_normalization";
      expect(c, &nrm.v, want.v, c2);
      book_out(c, c2.op, orec, &nrm.v); }
    unsigned xal = (unsigned) side().below(16); // 1: calc_normalization(a == b)  2: reduce(a == m): meaningless uses, counted only
    if (xal == 1 || xal == 2) {
        P mm; mk(mm, M, 0, 1); // alloc = used + 1: what pstm_montgomery_reduce needs of its in/out argument
        if (xal == 1) { int32_t r2 = pstm_montgomery_calc_normalization(&mm.v, &mm.v); unpromised(c, "montgomery_calc_normalization", "a=b", r2, &mm.v, want.v); }
        else { Z zero; int32_t r2 = pstm_montgomery_reduce(NULL, &mm.v, &mm.v, mp, NULL, 0); unpromised(c, "montgomery_reduce", "a=m", r2, &mm.v, zero.v); }
    }
    VF_CHECK(mpz_invert(rinv.v, zr.v, zm.v) != 0, "harness-bug", "R not invertible mod odd m");
    // scratch buffer
    unsigned pmode = (unsigned) t.below(4);
    std::vector<pstm_digit> pad;
    if (pmode == 1) pad.assign((size_t) (2 * k + 1), 0x5A5A5A5A5A5A5A5AULL);
    else if (pmode == 2) pad.assign((size_t) (2 * k + 3 + (int) t.below(4)), 0x5A5A5A5A5A5A5A5AULL);
    else if (pmode == 3) pad.assign((size_t) imax(1, 2 * k - (int) t.below(3)), 0x5A5A5A5A5A5A5A5AULL);
    pstm_digit *paD = pmode ? pad.data() : NULL; psSize_t paDlen = (psSize_t) (pad.size() * 8);
    c.count(fmt("montgomery:paD-mode:%u", pmode));
    // the value to reduce, in a variable of at least k+1 digits
    P T; OutRec trec;
    // T: fresh with a caller-like allocation, or (product/square variants) a variable that held another value before; the
    // squarer's sign handling is examined in op_mul, so a negative old value is only used in front of the multiplier
    bool dirtyT = (variant <= 5 || variant == 7) && side().below(4) >= 2;
    if (!dirtyT) { Mag z; int al = imax(k + 1, (int) t.below(3) == 0 ? 2 * k + 1 : k + 1 + (int) t.below(4));
      VF_CHECK(pstm_init_size(NULL, &T.v, (psSize_t) imin(al, MAXD)) == PSTM_OKAY, "harness-init", "init T"); T.live = true; }
    else { Z pr; mpz_mul(pr.v, zx.v, (variant <= 3 || variant == 7) ? zy.v : zx.v); trec = mk_outv(T, t, false, variant <= 3 || variant == 7, znd(pr.v)); }
    if (variant <= 3 || variant == 7) {
        P x, y; mk(x, X, 0, (unsigned) t.below(5)); mk(y, Y, 0, (unsigned) t.below(5));
        okay(pstm_mul_comba(NULL, &x.v, &y.v, &T.v, paD, paDlen), cs, "mul_comba");
        mpz_mul(zt.v, zx.v, zy.v);
    } else if (variant <= 5) {
        P x; mk(x, X, 0, (unsigned) t.below(5));
        okay(pstm_sqr_comba(NULL, &x.v, &T.v, paD, paDlen), cs, "sqr_comba");
        mpz_mul(zt.v, zx.v, zx.v);
    } else {
        int cls = pick_cls(t, false);
        Mag A = gen_mag(t, (int) t.below((uint64_t) (variant == 6 ? 2 * k : k) + 1), cls, NULL);
        Z lim; mpz_mul_2exp(lim.v, zm.v, 64 * (unsigned long) k);
        z_from_mag(zt.v, A, 0);
        if (variant >= 8) mpz_mul(zt.v, zt.v, zm.v);
        if (mpz_cmp(zt.v, lim.v) >= 0) mpz_mod(zt.v, zt.v, lim.v);
        A = mag_from_z(zt.v);
        VF_CHECK(pstm_grow(&T.v, (psSize_t) imax((int) A.size(), 1)) == PSTM_OKAY, "harness-init", "grow T");
        for (size_t i = 0; i < A.size(); i++) T.v.dp[i] = A[i];
        T.v.used = (uint16_t) A.size();
    }
    expect(c, &T.v, zt.v, cs, "value before reduce");
    book_out(c, "montgomery.T", trec, &T.v);
    if (T.v.alloc < k + 1) VF_CHECK(pstm_grow(&T.v, (psSize_t) (k + 1)) == PSTM_OKAY, "harness-init", "grow T");
    rc = pstm_montgomery_reduce(NULL, &T.v, &pm.v, mp, paD, paDlen);
    Case c3 = cs; c3.op = "montgomery_reduce";
    okay(rc, c3);
    mpz_mul(want.v, zt.v, rinv.v); mpz_mod(want.v, want.v, zm.v);
    expect(c, &T.v, want.v, c3);
    unchanged(c, &pm.v, M, 0, c3, "modulus");
    // second net without GMP: the ECC way of multiplying: reduce(mulmod(x,R mod m,m) * y) == mulmod(x,y,m)
    if (t.below(4) == 0) {
        P x, y, nrm, xr, prod, ref;
        mk(x, X, 0, 1); mk(y, Y, 0, 1); mk_out(nrm, t, false); mk_out(xr, t, false); mk_out(prod, t, false); mk_out(ref, t, false);
        bool ok = pstm_montgomery_calc_normalization(&nrm.v, &pm.v) == PSTM_OKAY
                  && pstm_mulmod(NULL, &x.v, &nrm.v, &pm.v, &xr.v) == PSTM_OKAY
                  && pstm_mul_comba(NULL, &xr.v, &y.v, &prod.v, NULL, 0) == PSTM_OKAY
                  && pstm_grow(&prod.v, (psSize_t) (k + 1)) == PSTM_OKAY
                  && pstm_montgomery_reduce(NULL, &prod.v, &pm.v, mp, NULL, 0) == PSTM_OKAY
                  && pstm_mulmod(NULL, &x.v, &y.v, &pm.v, &ref.v) == PSTM_OKAY;
        VF_CHECK(ok && pstm_cmp(&prod.v, &ref.v) == PSTM_EQ, "algebra-montgomery-mulmod", "%s: redc(xR*y) != x*y mod m (ok=%d)", descr(cs).c_str(), (int) ok);
        c.count("algebra:montgomery");
    }
    poke(t, c, &T.v, c3);
}

// ------------------------------------------------------------------ import / export
static std::vector<uint8_t> gen_bytes(Tape &t, int len, Case &cs) {
    std::vector<uint8_t> b((size_t) len, 0);
    unsigned k = (unsigned) t.below(8);
    Src s(t);
    cs.ca = k <= 3 ? RND : k == 4 ? ONES : k == 5 ? POW2 : k == 6 ? POW2P1 : SPARSE;
    for (int i = 0; i < len; i += 8) {
        uint64_t v = k <= 3 ? s.next() : k == 4 ? ~0ULL : k == 7 ? ((s.next() & 1) ? ~0ULL : 0) : 0;
        for (int j = 0; j < 8 && i + j < len; j++) b[(size_t) (i + j)] = (uint8_t) (v >> (8 * j));
    }
    if (len > 0 && (k == 5 || k == 6)) b[0] = (uint8_t) (1u << t.below(8));
    if (len > 0 && k == 6) b[(size_t) len - 1] |= 1;
    return b;
}
// read_unsigned_bin, unsigned_bin_size, count_bits, to_unsigned_bin, to_unsigned_bin_nr, to_unsigned_bin_alloc
static void op_bin(Tape &t, Ctx &c) {
    Case cs;
    cs.op = "bin";
    int q = pick_nd(t, LIM - 4), rem = (int) t.below(8); // pstm_init_for_read_unsigned_bin allocates len/8 + 2 digits
    static const int lz[8] = { 0, 0, 0, 0, 1, 2, 8, 9 };
    int zeros = lz[t.below(8)];
    int len = q * 8 + rem;
    std::vector<uint8_t> val = gen_bytes(t, len, cs);
    std::vector<uint8_t> buf((size_t) zeros, 0);
    buf.insert(buf.end(), val.begin(), val.end());
    cs.m = q + (rem ? 1 : 0); cs.edge = zeros > 0 || rem == 0;
    unsigned im = (unsigned) t.below(4);
    cs.extra = fmt("len=%d lead0=%d init=%u", len, zeros, im);
    P a; OutRec orec;
    if (im == 0) { VF_CHECK(pstm_init_for_read_unsigned_bin(NULL, &a.v, (psSize_t) buf.size()) == PSTM_OKAY, "harness-init", "init_for_read"); a.live = true; }
    else if (im == 1) { VF_CHECK(pstm_init_size(NULL, &a.v, 1) == PSTM_OKAY, "harness-init", "init_size"); a.live = true; }
    else orec = mk_outv(a, t, true, true, (len + 7) / 8);
    book(c, cs);
    Z want;
    mpz_import(want.v, buf.size(), 1, 1, 1, 0, buf.data());
    okay(pstm_read_unsigned_bin(&a.v, buf.empty() ? (const unsigned char *) "" : buf.data(), (psSize_t) buf.size()), cs, "read_unsigned_bin");
    expect(c, &a.v, want.v, cs, "read_unsigned_bin");
    book_out(c, "read_unsigned_bin", orec, &a.v);
    size_t bits = mpz_sgn(want.v) ? mpz_sizeinbase(want.v, 2) : 0, bytes = (bits + 7) / 8;
    if (t.below(4) == 0) a.v.sign = a.v.used ? PSTM_NEG : PSTM_ZPOS; // export is of the magnitude
    VF_CHECK(pstm_count_bits(&a.v) == bits, "count_bits-mismatch", "%s: got %u want %zu", descr(cs).c_str(), (unsigned) pstm_count_bits(&a.v), bits);
    VF_CHECK(pstm_unsigned_bin_size(&a.v) == bytes && pstm_unsigned_bin_size_nullsafe(&a.v) == bytes && pstm_unsigned_bin_size_nullsafe(NULL) == 0,
             "unsigned_bin_size-mismatch", "%s: got %u want %zu", descr(cs).c_str(), (unsigned) pstm_unsigned_bin_size(&a.v), bytes);
    std::vector<uint8_t> ref(bytes + 1, 0);
    size_t cnt = 0;
    mpz_export(ref.data(), &cnt, 1, 1, 1, 0, want.v);
    VF_CHECK(cnt == bytes, "harness-bug", "export size");
    for (int nr = 0; nr < 2; nr++) {
        std::vector<uint8_t> out(bytes + 16, 0xCC);
        int32_t rc = nr ? pstm_to_unsigned_bin_nr(NULL, &a.v, out.data()) : pstm_to_unsigned_bin(NULL, &a.v, out.data());
        Case c2 = cs; c2.op = nr ? "to_unsigned_bin_nr" : "to_unsigned_bin";
        okay(rc, c2);
        bool same = true;
        for (size_t i = 0; i < bytes; i++) same = same && out[i] == (nr ? ref[bytes - 1 - i] : ref[i]);
        for (size_t i = bytes; i < out.size(); i++) same = same && out[i] == 0xCC;
        VF_CHECK(same, c2.op + "-mismatch", "%s: got %s want(be) %s", descr(cs).c_str(), hex(out.data(), bytes + 2, 40).c_str(), hex(ref.data(), bytes, 40).c_str());
        inv(c, &a.v, c2, "a");
    }
    if (t.below(4) == 0) {
        unsigned char *al = pstm_to_unsigned_bin_alloc(NULL, &a.v);
        VF_CHECK(al != NULL, "to_unsigned_bin_alloc-error-in-domain", "%s", descr(cs).c_str());
        bool same = memcmp(al, ref.data(), bytes) == 0;
        psFree(al, NULL);
        VF_CHECK(same, "to_unsigned_bin_alloc-mismatch", "%s", descr(cs).c_str());
    }
    a.v.sign = PSTM_ZPOS;
    poke(t, c, &a.v, cs);
}
// pstm_read_asn: DER INTEGER (non-negative: first content byte < 0x80, possibly after a 0x00 pad) -> value, *pp advanced
static void op_asn(Tape &t, Ctx &c) {
    Case cs;
    cs.op = "read_asn";
    int q = t.below(4) ? pick_nd(t, 70) : pick_nd(t, LIM - 4), rem = (int) t.below(8);
    int len = imax(1, q * 8 + rem);
    std::vector<uint8_t> val = gen_bytes(t, len, cs);
    bool pad = (val[0] & 0x80) || t.below(8) == 0;
    std::vector<uint8_t> content;
    if (pad) content.push_back(0);
    content.insert(content.end(), val.begin(), val.end());
    size_t vlen = content.size();
    std::vector<uint8_t> der;
    unsigned bad = (unsigned) t.below(16); // 1: wrong tag  2: truncated  3: length says more than present
    der.push_back(bad == 1 ? (uint8_t) (t.coin() ? 0x03 : 0x30) : 0x02);
    unsigned lf = (unsigned) t.below(4);
    if (vlen < 128 && lf != 3) der.push_back((uint8_t) vlen);
    else if (vlen < 256 && lf != 2) { der.push_back(0x81); der.push_back((uint8_t) vlen); }
    else { der.push_back(0x82); der.push_back((uint8_t) (vlen >> 8)); der.push_back((uint8_t) vlen); }
    size_t hdr = der.size();
    der.insert(der.end(), content.begin(), content.end());
    size_t extra = t.below(3) == 0 ? 1 + t.below(6) : 0;
    for (size_t i = 0; i < extra; i++) der.push_back((uint8_t) (0x02 + i));
    size_t avail = der.size();
    if (bad == 2) avail = hdr + vlen - 1 - (vlen > 1 ? t.below(vlen - 1) : 0);
    if (bad == 3) avail = hdr - 1 + (vlen > 1 ? t.below(vlen) : 0), avail = avail < 1 ? 1 : avail;
    cs.m = (int) ((vlen + 7) / 8); cs.edge = pad || extra || bad <= 3;
    cs.extra = fmt("vlen=%zu hdr=%zu extra=%zu bad=%u", vlen, hdr, extra, bad <= 3 ? bad : 0);
    book(c, cs);
    // exact-size heap copy so that any over-read is seen by ASan
    std::vector<uint8_t> in(der.begin(), der.begin() + (long) avail);
    const unsigned char *p = in.data();
    P a;
    int32_t rc = pstm_read_asn(NULL, &p, (psSize_t) in.size(), &a.v);
    if (bad >= 1 && bad <= 3) {
        c.count("read_asn:malformed");
        if (rc == PSTM_OKAY) a.live = true;
        VF_CHECK(rc != PSTM_OKAY, "read_asn-accepted-malformed", "%s: accepted", descr(cs).c_str());
        VF_CHECK(p == in.data(), "read_asn-pointer-moved-on-error", "%s", descr(cs).c_str());
        return;
    }
    okay(rc, cs);
    a.live = true;
    Z want;
    mpz_import(want.v, content.size(), 1, 1, 1, 0, content.data());
    expect(c, &a.v, want.v, cs);
    VF_CHECK(p == in.data() + hdr + vlen, "read_asn-pointer", "%s: pointer advanced by %ld, want %zu", descr(cs).c_str(), (long) (p - in.data()), hdr + vlen);
    poke(t, c, &a.v, cs);
}
// pstm_read_radix: radix 2..64, digits "0-9A-Za-z+/", case-insensitive below radix 36, optional leading '-', stops at 'len'
// characters or at the first character that is not a digit of the radix.  In-tree: radix 16 curve constants.
static void op_radix(Tape &t, Ctx &c) {
    static const char *map = "0123456789ABCDEFGHIJKLMNOPQRSTUVWXYZabcdefghijklmnopqrstuvwxyz+/";
    Case cs;
    cs.op = "read_radix";
    unsigned rk = (unsigned) t.below(8);
    int radix = rk < 5 ? 16 : rk == 5 ? 10 : rk == 6 ? 2 + (int) t.below(63) : (t.coin() ? 64 : 36);
    int m = pick_nd(t, 60);
    cs.ca = pick_cls(t, false);
    Mag A = gen_mag(t, m, cs.ca, NULL);
    cs.m = m; cs.sa = t.below(5) == 0;
    cs.edge = radix != 16;
    Z za, q;
    z_from_mag(za.v, A, 0);
    std::string digits;
    mpz_set(q.v, za.v);
    while (mpz_sgn(q.v) != 0) { unsigned long d = mpz_tdiv_q_ui(q.v, q.v, (unsigned long) radix); digits.insert(digits.begin(), map[d]); }
    int lead = (int) t.below(4) == 0 ? 1 + (int) t.below(3) : 0;
    std::string s = std::string(cs.sa ? "-" : "") + std::string((size_t) lead, '0') + digits;
    if (digits.empty() && lead == 0) s += "0";
    if (radix < 36) { uint64_t bitsrc = t.u64(); for (size_t i = 0; i < s.size(); i++) if (s[i] >= 'A' && s[i] <= 'Z' && ((bitsrc >> (i & 63)) & 1)) s[i] = (char) (s[i] - 'A' + 'a'); }
    size_t len = s.size();
    // the value the parser must produce: digits up to len, or up to an inserted non-digit
    Z want; mpz_set(want.v, za.v);
    unsigned tail = (unsigned) t.below(8);
    if (tail == 1) s += "1"; // a valid digit beyond len: must not be consumed
    else if (tail == 2 && len > (size_t) (cs.sa ? 2 : 1)) { // a non-digit inside: parsing stops there
        size_t pos = (cs.sa ? 1 : 0) + 1 + t.below(len - (cs.sa ? 1 : 0) - 1);
        char bad = radix <= 36 ? '!' : '-';
        s[pos] = bad;
        mpz_set_ui(want.v, 0);
        for (size_t i = cs.sa ? 1 : 0; i < pos; i++) {
            char ch = s[i]; if (radix < 36 && ch >= 'a' && ch <= 'z') ch = (char) (ch - 'a' + 'A');
            const char *f = strchr(map, ch);
            mpz_mul_ui(want.v, want.v, (unsigned long) radix); mpz_add_ui(want.v, want.v, (unsigned long) (f - map));
        }
    }
    if (cs.sa) mpz_neg(want.v, want.v);
    cs.extra = fmt("radix=%d len=%zu tail=%u", radix, len, tail <= 2 ? tail : 0);
    P a; OutRec orec;
    unsigned im = (unsigned) t.below(3);
    if (im == 0) { VF_CHECK(pstm_init_for_read_unsigned_bin(NULL, &a.v, (psSize_t) (m * 8 + 8)) == PSTM_OKAY, "harness-init", "init"); a.live = true; }
    else if (im == 1) { VF_CHECK(pstm_init_size(NULL, &a.v, 1) == PSTM_OKAY, "harness-init", "init"); a.live = true; }
    else orec = mk_outv(a, t, true, true, znd(want.v));
    book(c, cs);
    c.count(fmt("read_radix:radix=%s", radix == 16 ? "16" : radix == 10 ? "10" : radix < 36 ? "lt36" : "ge36"));
    if (t.below(32) == 0) { // "make sure the radix is ok"
        int badr = (int) t.below(3); badr = badr == 2 ? 65 + (int) t.below(100) : badr;
        VF_CHECK(pstm_read_radix(NULL, &a.v, s.c_str(), (psSize_t) len, (uint8_t) badr) != PSTM_OKAY, "read_radix-accepted-bad-radix", "radix %d accepted", badr);
        c.count("read_radix:bad-radix");
        return;
    }
    std::vector<char> in(s.begin(), s.end()); // exact-size heap copy (no terminator): an over-read is seen by ASan
    okay(pstm_read_radix(NULL, &a.v, in.data(), (psSize_t) len, (uint8_t) radix), cs);
    expect(c, &a.v, want.v, cs);
    book_out(c, cs.op, orec, &a.v);
    poke(t, c, &a.v, cs);
}

// ------------------------------------------------------------------ copy / abs / init_copy / set / zero / exch / grow / clamp / limits
static void op_copy(Tape &t, Ctx &c) {
    Case cs;
    unsigned kind = (unsigned) t.below(8);
    static const char *names[8] = { "copy", "copy", "abs", "init_copy", "init_copy", "set_zero_exch", "grow_clamp", "limits" };
    cs.op = names[kind];
    int m = pick_nd(t, MAXD);
    cs.ca = pick_cls(t, false);
    Mag A = gen_mag(t, m, cs.ca, NULL);
    cs.m = m; cs.sa = m > 0 && t.below(3) == 0;
    P a; mk(a, A, cs.sa, (unsigned) t.below(5));
    Z za, want; z_from_mag(za.v, A, cs.sa);
    if (kind <= 2) {
        cs.alias = t.below(6) == 0 ? AL_CA : AL_NONE;
        P o; pstm_int *po = &a.v; OutRec orec;
        if (cs.alias == AL_NONE) { orec = mk_outv(o, t, true, true, m); po = &o.v; }
        book(c, cs);
        if (kind == 2) { mpz_abs(want.v, za.v); okay(pstm_abs(&a.v, po), cs); } else { mpz_set(want.v, za.v); okay(pstm_copy(&a.v, po), cs); }
        expect(c, po, want.v, cs);
        book_out(c, cs.op, orec, po);
        if (po != &a.v) unchanged(c, &a.v, A, cs.sa, cs, "a");
        poke(t, c, po, cs);
    } else if (kind <= 4) {
        uint8_t toSqr = kind == 4;
        cs.extra = fmt("toSqr=%u", toSqr);
        book(c, cs);
        P o;
        int32_t rc = pstm_init_copy(NULL, &o.v, &a.v, toSqr);
        if (rc == PSTM_OKAY) o.live = true;
        if (rc != PSTM_OKAY && toSqr && 2 * m + 3 > MAXD) { c.count("init_copy:over-limit-error"); return; } // smart-size request beyond PSTM_MAX_SIZE
        okay(rc, cs);
        expect(c, &o.v, za.v, cs);
        VF_CHECK(o.v.dp != a.v.dp, "init_copy-mismatch", "%s: shares storage with the source", descr(cs).c_str());
        unchanged(c, &a.v, A, cs.sa, cs, "a");
        poke(t, c, &o.v, cs);
    } else if (kind == 5) {
        book(c, cs);
        P o; OutRec orec = mk_outv(o, t, true, true, 1);
        bool e; pstm_digit d = pick_digit(t, &e);
        pstm_set(&o.v, d);
        mpz_import(want.v, 1, -1, 8, 0, 0, &d);
        expect(c, &o.v, want.v, cs, "set");
        book_out(c, "set", orec, &o.v);
        pstm_exch(&a.v, &a.v); expect(c, &a.v, za.v, cs, "exch(a,a)"); // a variable exchanged with itself is unchanged
        VF_CHECK((pstm_iszero(&o.v) == PS_TRUE) == (d == 0) && (pstm_isodd(&o.v) == PS_TRUE) == ((d & 1) == 1) && (pstm_iseven(&o.v) == PS_TRUE) == (d != 0 && (d & 1) == 0), "set_zero_exch-mismatch", "%s: iszero/isodd/iseven of %llx", descr(cs).c_str(), (unsigned long long) d);
        pstm_exch(&o.v, &a.v);
        expect(c, &o.v, za.v, cs, "exch a"); expect(c, &a.v, want.v, cs, "exch b");
        pstm_zero(&o.v); mpz_set_ui(want.v, 0);
        expect(c, &o.v, want.v, cs, "zero");
        poke(t, c, &o.v, cs);
    } else if (kind == 6) {
        book(c, cs);
        int g = (int) t.below(MAXD + 1);
        int32_t rc = pstm_grow(&a.v, (psSize_t) g);
        okay(rc, cs, "grow");
        VF_CHECK(a.v.alloc >= g, "grow_clamp-mismatch", "%s: alloc %u after grow(%d)", descr(cs).c_str(), (unsigned) a.v.alloc, g);
        expect(c, &a.v, za.v, cs, "grow");
        // a number with leading zero digits (as left by digit-wise producers) is normalised by clamp
        int pad = (int) t.below((uint64_t) (a.v.alloc - a.v.used) + 1);
        for (int i = 0; i < pad; i++) a.v.dp[a.v.used + i] = 0;
        a.v.used = (uint16_t) (a.v.used + pad);
        pstm_clamp(&a.v);
        expect(c, &a.v, za.v, cs, "clamp");
        poke(t, c, &a.v, cs);
    } else {
        book(c, cs);
        P o;
        int over = MAXD + 1 + (int) t.below(1000);
        int32_t rc = pstm_init_size(NULL, &o.v, (psSize_t) over);
        if (rc == PSTM_OKAY) o.live = true;
        VF_CHECK(rc != PSTM_OKAY, "limits-accepted-oversize", "pstm_init_size(%d) succeeded", over);
        VF_CHECK(pstm_grow(&a.v, (psSize_t) over) != PSTM_OKAY, "limits-accepted-oversize", "pstm_grow(%d) succeeded", over);
        expect(c, &a.v, za.v, cs, "a after failed grow");
        VF_CHECK(pstm_2expt(&a.v, (int16_t) (MAXD * 64 + (int) t.below(2000))) != PSTM_OKAY, "limits-accepted-oversize", "pstm_2expt beyond PSTM_MAX_SIZE succeeded");
        inv(c, &a.v, cs, "a after failed 2expt");
    }
}

// ------------------------------------------------------------------ dispatcher
struct OpEntry { const char *name; unsigned weight; void (*fn)(Tape &, Ctx &); };
static void f_add(Tape &t, Ctx &c) { op_addsub(t, c, 0); }
static void f_sub(Tape &t, Ctx &c) { op_addsub(t, c, 1); }
static void f_sub_s(Tape &t, Ctx &c) { op_addsub(t, c, 2); }
static void f_add_d(Tape &t, Ctx &c) { op_digit(t, c, 0); }
static void f_sub_d(Tape &t, Ctx &c) { op_digit(t, c, 1); }
static void f_mul_d(Tape &t, Ctx &c) { op_digit(t, c, 2); }
static void f_mul(Tape &t, Ctx &c) { op_mul(t, c, false); }
static void f_sqr(Tape &t, Ctx &c) { op_mul(t, c, true); }
static void f_mul_2(Tape &t, Ctx &c) { op_shift1(t, c, true); }
static void f_div_2(Tape &t, Ctx &c) { op_shift1(t, c, false); }
static void f_lshd(Tape &t, Ctx &c) { op_shiftd(t, c, 0); }
static void f_rshd(Tape &t, Ctx &c) { op_shiftd(t, c, 1); }
static void f_2expt(Tape &t, Ctx &c) { op_shiftd(t, c, 2); }
static void f_cmp(Tape &t, Ctx &c) { op_cmp(t, c, 0); }
static void f_cmp_mag(Tape &t, Ctx &c) { op_cmp(t, c, 1); }
static void f_cmp_d(Tape &t, Ctx &c) { op_cmp(t, c, 2); }
static const OpEntry OPS[] = {
    { "add", 24, f_add }, { "sub", 24, f_sub }, { "sub_s", 16, f_sub_s }, { "add_d", 5, f_add_d }, { "sub_d", 5, f_sub_d },
    { "mul_comba", 28, f_mul }, { "sqr_comba", 12, f_sqr }, { "mul_d", 6, f_mul_d }, { "mul_2", 5, f_mul_2 }, { "div_2", 5, f_div_2 },
    { "div_2d", 8, op_div_2d }, { "div", 22, op_div }, { "mod", 22, op_mod }, { "mulmod", 24, op_mulmod }, { "invmod", 18, op_invmod },
    { "exptmod", 2, op_exptmod }, { "lshd", 5, f_lshd }, { "rshd", 5, f_rshd }, { "2expt", 4, f_2expt }, { "cmp", 20, f_cmp },
    { "cmp_mag", 20, f_cmp_mag }, { "cmp_d", 6, f_cmp_d }, { "montgomery", 30, op_mont }, { "bin", 8, op_bin }, { "read_asn", 6, op_asn },
    { "read_radix", 6, op_radix }, { "copy", 8, op_copy },
};
// When a case fails, a few fixed probes of the primitives everything else is built on decide whether the failure is a
// manifestation of a broken primitive; if so the signature names that root cause instead of the operation it surfaced in.
static const char *broken_primitive() {
    { // borrow chain across two digits beyond the subtrahend: 2^128 - 1
        Mag a(3, 0), b(1, 1); a[2] = 1;
        P x, y, z; mk(x, a, 0, 1); mk(y, b, 0, 1); Mag e; mk(z, e, 0, 2);
        if (pstm_sub_s(&x.v, &y.v, &z.v) != PSTM_OKAY || z.v.used != 2 || z.v.dp[0] != ~0ULL || z.v.dp[1] != ~0ULL) return "sub_s-borrow-chain";
    }
    { // carry chain across two digits beyond the shorter addend: (2^128 - 1) + 1
        Mag a(2, ~0ULL), b(1, 1);
        P x, y, z; mk(x, a, 0, 1); mk(y, b, 0, 1); Mag e; mk(z, e, 0, 2);
        if (pstm_add(&x.v, &y.v, &z.v) != PSTM_OKAY || z.v.used != 3 || z.v.dp[0] != 0 || z.v.dp[1] != 0 || z.v.dp[2] != 1) return "add-carry-chain";
    }
    return NULL;
}
static void prop_inner(Tape &t, Ctx &c);
static bool g_timing = false;
static void prop(Tape &t, Ctx &c) {
    double t0 = g_timing ? now_s() : 0;
    struct Tm { double t0; Ctx &c; ~Tm() { if (g_timing) { double d = now_s() - t0; c.count(d > 5 ? "timing:>5s" : d > 1 ? "timing:>1s" : d > 0.2 ? "timing:>0.2s" : "timing:<=0.2s"); c.count("us:" + g_lastop, (uint64_t) (d * 1e6)); static double mx = 0; if (d > mx) { mx = d; fprintf(stderr, "[timing] new max %.3fs\n", d); } } } } tm{ t0, c };
    try { prop_inner(t, c); }
    catch (const Fail &f) {
        if (f.sig.compare(0, 7, "harness") == 0) throw;
        if (f.sig == "invmod-unreduced" || f.sig.compare(0, 13, "stale-digits:") == 0 || f.sig.compare(0, 11, "stale-sign:") == 0) throw; // these have their own root causes
        const char *prim = broken_primitive();
        if (prim && f.sig.compare(0, strlen(prim), prim) != 0) throw Fail{ prim, "[surfaced as " + f.sig + "] " + f.detail };
        throw;
    }
}
static void prop_inner(Tape &t, Ctx &c) {
    Tape sd(t.n > SIDE_OFF ? t.p + SIDE_OFF : t.p, t.n > SIDE_OFF ? t.n - SIDE_OFF : 0);
    g_side = &sd;
    g_prev_neg = -1;
    unsigned total = 0;
    for (const OpEntry &e : OPS) total += e.weight;
    unsigned r = (unsigned) t.below(total);
    for (const OpEntry &e : OPS) {
        if (r < e.weight) { e.fn(t, c); return; }
        r -= e.weight;
    }
}
VF_TARGET("C13.bignum", prop, 1024 + 128, 20) // 1024 bytes operand generators + 128 bytes side tape (SIDE_OFF)
namespace vf {
void vf_global_init(int, char **) {
    psCryptoOpen(PSCRYPTO_CONFIG);
    init_real();
    g_fullcov = getenv("C13_FULLCOV") != NULL;
    g_timing = getenv("C13_TIMING") != NULL; // diagnostic only: per-case wall time histogram in the counters
}
}
