// C01: application data is delivered / encrypted only after an authenticated, completed handshake,
// and nothing an attacker without the session keys injects is ever delivered as application data.
//
// Case = (victim role, version set, handshake kind, suite, injection point k, injected item, payload shape).
// The legit peer is a second MatrixSSL endpoint; the attacker sits on the wire towards the victim and injects
// one item after the k-th legit record/datagram.  Oracle = monitor on every APP_DATA delivery and every encode.
#include "mxh.h"
using namespace vf; using namespace mxh;

static const char *MARK = "ATTACKER";
static Bytes marker_payload(size_t n) { Bytes b(n); for (size_t i = 0; i < n; i++) b[i] = (uint8_t) MARK[i % 8]; return b; }
static bool contains_marker(const uint8_t *d, size_t n) {
    // any 4 consecutive marker bytes are enough to call it attacker data
    for (size_t i = 0; i + 4 <= n; i++) for (int o = 0; o < 8; o++) {
        bool m = true; for (int k = 0; k < 4; k++) if (d[i + k] != (uint8_t) MARK[(o + k) % 8]) { m = false; break; }
        if (m) return true;
    }
    return false;
}
static Bytes legit_msg(int idx, size_t n) { Bytes b(n); for (size_t i = 0; i < n; i++) b[i] = (uint8_t) ('a' + ((idx * 7 + i) % 23)); return b; }

enum { VS_11, VS_12, VS_13, VS_DEFAULT, VS_D10, VS_D12, VS_N };
static const char *vs_name[] = { "tls1.1", "tls1.2", "tls1.3", "default", "dtls1.0", "dtls1.2" };
static std::vector<int> vs_versions(int vs) {
    switch (vs) { case VS_11: return { TLS11 }; case VS_12: return { TLS12 }; case VS_13: return { TLS13 };
                  case VS_D10: return { DTLS10 }; case VS_D12: return { DTLS12 }; default: return {}; }
}
enum { K_FULL, K_CAUTH, K_RESUMED, K_N };
static const char *kind_name[] = { "full", "client-auth", "resumed" };
enum { I_PLAIN, I_RANDOM_CT, I_CROSS_SESSION, I_REFLECT, I_ENCODE_ONLY, I_N };
static const char *item_name[] = { "plaintext-appdata", "random-ciphertext-appdata", "cross-session-record", "reflected-own-record", "encode-attempt" };

struct World {
    Endpoint V, P;      // victim, legit peer
    bool victim_client;
    bool dtls;
    Bytes legit_sent;   // what the peer *application* submitted so far
    std::vector<Bytes> v_sent_records; // records the victim itself emitted (for reflection)
};

static int32 accept_cb(ssl_t *, psX509Cert_t *, int32 alert) { return alert; } // strict: returns the alert it is given

static bool open_pair(World &w, int vs, int kind, const Suite *su, sslSessionId_t *sid, int estream) {
    Config cc, sc;
    cc.client = true; sc.client = false;
    cc.versions = sc.versions = vs_versions(vs);
    if (su) { cc.suites = { su->id }; cc.auth = sc.auth = su->auth; }
    cc.entropy_stream = estream; sc.entropy_stream = estream + 1;
    cc.sid = sid;
    if (kind == K_CAUTH) { cc.client_auth = sc.client_auth = true; sc.cert_cb = accept_cb; }
    Endpoint &C = w.victim_client ? w.V : w.P, &S = w.victim_client ? w.P : w.V;
    if (S.open(sc) < 0) return false;
    if (C.open(cc) < 0) return false;
    w.dtls = C.dtls;
    return true;
}

static void prop(Tape &t, Ctx &c) {
    World w;
    uint32_t eseed = t.u16();
    w.victim_client = t.coin();
    int vs = (int) t.below(VS_N);
    int kind = (int) t.below(K_N);
    int item = (int) t.below(I_N);
    bool dt = (vs == VS_D10 || vs == VS_D12);
    // suite: default set -> let the library choose (nullptr) half of the time
    const Suite *su = nullptr; std::vector<Suite> cand;
    if (vs != VS_DEFAULT) { int v = vs == VS_11 ? TLS11 : vs == VS_12 ? TLS12 : vs == VS_13 ? TLS13 : vs == VS_D10 ? DTLS10 : DTLS12; cand = suites_for(v); }
    else cand = suites_for(TLS13);
    // client auth needs certificate suites
    if (!cand.empty() && (vs != VS_DEFAULT || t.coin())) {
        for (int tries = 0; tries < 8; tries++) { su = &cand[t.below(cand.size())]; if (!(kind == K_CAUTH && su->auth == AUTH_PSK)) break; }
        if (kind == K_CAUTH && su->auth == AUTH_PSK) su = &cand[0];
    }
    unsigned k = (unsigned) t.below(14);          // inject after k legit records/datagrams reached the victim (>= count: after completion)
    size_t plen = t.pick(std::vector<size_t>{ 0, 1, 5, 16, 100, 1000, 16384, 16385, 17000 });
    if (t.chance(1, 3)) plen = t.below(300);
    uint16_t hdr_ver = t.pick(std::vector<uint16_t>{ 0x0301, 0x0302, 0x0303, 0x0304, 0x0300, 0xfefd, 0xfeff, 0x0000 });
    unsigned epoch = (unsigned) t.below(3); unsigned seqsel = (unsigned) t.below(3);
    bool also_encode = t.chance(1, 4) || item == I_ENCODE_ONLY;
    int encode_api = (int) t.below(2);

    vfh_entropy_reset(1000 + eseed); vfh_clock_set_ms(1000000);
    std::string desc = fmt("victim=%s vs=%s kind=%s suite=%s k=%u item=%s plen=%zu hdrver=%04x encode=%d", w.victim_client ? "client" : "server",
                           vs_name[vs], kind_name[kind], su ? su->name : "(library default)", k, item_name[item], plen, hdr_ver, also_encode);
    c.sample(desc);
    if (c.verbose) fprintf(stderr, "case: %s\n", desc.c_str());

    // ---- resumption setup: a complete first session populates sid / server cache
    sslSessionId_t *sid = nullptr;
    struct SidGuard { sslSessionId_t *&s; ~SidGuard() { if (s) matrixSslDeleteSessionId(s); } } sg{ sid };
    if (kind == K_RESUMED) {
        if (matrixSslNewSessionId(&sid, NULL) < 0) throw Discard{};
        World w0; w0.victim_client = w.victim_client;
        if (!open_pair(w0, vs, K_FULL, su, sid, 5)) throw Discard{};
        Pair *pp = nullptr; (void) pp;
        // drive w0 to completion
        for (int r = 0; r < 60; r++) {
            bool mv = false;
            Endpoint *a = &w0.V, *b = &w0.P;
            for (int d = 0; d < 2; d++) {
                a->pump_out();
                if (w0.dtls) { while (!a->dgram_out.empty()) { Bytes x = a->dgram_out.front(); a->dgram_out.pop_front(); b->feed_dgram(x); mv = true; } }
                else if (!a->wire_out.empty()) { Bytes x = a->take_wire(); b->feed(x); mv = true; }
                std::swap(a, b);
            }
            if (!mv) break;
        }
        // no adversarial step has happened yet: a priming handshake that fails is a defect (or a harness fault), not a case to skip
        VF_CHECK(w0.V.hs_complete() && w0.P.hs_complete(), "harness-priming-handshake-failed", "priming session for a resumed scenario did not complete");
        // TLS 1.3 tickets arrive after the handshake; let the client read them
    }

    if (!open_pair(w, vs, kind, su, sid, 1)) throw Discard{};

    // ---- the monitor (oracle) on the victim
    w.V.on_app_data = [&](Endpoint &e, const uint8_t *d, size_t n) {
        VF_CHECK(e.hs_complete(), "appdata-delivered-before-handshake-complete",
                 "APP_DATA (%zu bytes: %s) delivered while matrixSslHandshakeIsComplete()==false; %s", n, hex(d, n, 24).c_str(), desc.c_str());
        VF_CHECK(!contains_marker(d, n), "attacker-bytes-delivered", "attacker-chosen bytes delivered as application data (%zu bytes: %s); %s", n, hex(d, n, 24).c_str(), desc.c_str());
        size_t off = e.delivered.size();
        if (!w.dtls)
            VF_CHECK(off + n <= w.legit_sent.size() && memcmp(w.legit_sent.data() + off, d, n) == 0, "delivered-data-not-from-peer-application",
                     "delivered bytes are not the next bytes the legit peer application sent (off=%zu n=%zu sent=%zu); %s", off, n, w.legit_sent.size(), desc.c_str());
    };

    // a record captured from a parallel session with the same configuration but other keys
    Bytes cross;
    if (item == I_CROSS_SESSION) {
        World x; x.victim_client = w.victim_client;
        if (open_pair(x, vs, kind == K_RESUMED ? K_FULL : kind, su, nullptr, 8)) {
            for (int r = 0; r < 60; r++) {
                bool mv = false; Endpoint *a = &x.V, *b = &x.P;
                for (int d = 0; d < 2; d++) {
                    a->pump_out();
                    if (x.dtls) { while (!a->dgram_out.empty()) { Bytes y = a->dgram_out.front(); a->dgram_out.pop_front(); b->feed_dgram(y); mv = true; } }
                    else if (!a->wire_out.empty()) { Bytes y = a->take_wire(); b->feed(y); mv = true; }
                    std::swap(a, b);
                }
                if (!mv) break;
            }
            if (x.P.hs_complete() && x.V.hs_complete()) {
                x.P.wire_out.clear(); x.P.dgram_out.clear();
                Bytes m = marker_payload(plen ? std::min(plen, (size_t) 2000) : 7);
                if (x.P.send(m) >= 0) { if (x.dtls) { if (!x.P.dgram_out.empty()) cross = x.P.dgram_out.front(); } else cross = x.P.take_wire(); }
            }
        }
        if (cross.empty()) item = I_RANDOM_CT;
    }

    auto make_item = [&]() -> Bytes {
        Bytes r;
        if (item == I_CROSS_SESSION) return cross;
        if (item == I_REFLECT) { if (!w.v_sent_records.empty()) return w.v_sent_records[t.below(w.v_sent_records.size())]; item = I_PLAIN; }
        Bytes body = item == I_PLAIN ? marker_payload(plen) : t.vec(std::min(plen, (size_t) 600));
        if (item == I_RANDOM_CT && body.size() < plen) body.resize(plen, 0x5a);
        r.push_back(23); r.push_back((uint8_t) (hdr_ver >> 8)); r.push_back((uint8_t) hdr_ver);
        if (w.dtls) {
            r.push_back(0); r.push_back((uint8_t) epoch);
            uint64_t seq = seqsel == 0 ? 0 : seqsel == 1 ? 1 + t.below(8) : t.u32();
            for (int i = 5; i >= 0; i--) r.push_back((uint8_t) (seq >> (8 * i)));
        }
        r.push_back((uint8_t) (body.size() >> 8)); r.push_back((uint8_t) body.size());
        r.insert(r.end(), body.begin(), body.end());
        return r;
    };

    bool injected = false; unsigned recno = 0; bool mid = false;
    auto try_encode = [&]() {
        // before completion the library must refuse to encrypt application data and must not emit anything for it
        if (w.V.hs_complete()) return;
        size_t before_w = w.V.wire_out.size(), before_d = w.V.dgram_out.size();
        w.V.pump_out(); before_w = w.V.wire_out.size(); before_d = w.V.dgram_out.size();
        Bytes m = marker_payload(plen ? std::min(plen, (size_t) 4000) : 1);
        int rc = w.V.send(m, encode_api);
        c.count("encode-attempt-before-complete");
        VF_CHECK(rc < 0, "encode-accepted-before-handshake-complete", "application-data encode (api %d) returned %d before the handshake completed; %s", encode_api, rc, desc.c_str());
        w.V.pump_out();
        // whatever is emitted now must not be an application_data record
        Bytes neww(w.V.wire_out.begin() + before_w, w.V.wire_out.end());
        for (auto &r : parse_records(neww, false)) VF_CHECK(r.type != 23 || w.dtls, "appdata-record-emitted-before-complete", "type 23 record emitted before completion; %s", desc.c_str());
        for (size_t i = before_d; i < w.V.dgram_out.size(); i++) for (auto &r : parse_records(w.V.dgram_out[i], true)) VF_CHECK(r.type != 23, "appdata-record-emitted-before-complete", "DTLS type 23 record emitted before completion; %s", desc.c_str());
    };
    auto inject = [&]() {
        injected = true;
        mid = !w.V.hs_complete() && recno > 0;
        if (also_encode) try_encode();
        if (item == I_ENCODE_ONLY) return;
        Bytes it = make_item();
        c.count(std::string("inject:") + item_name[item]);
        if (w.V.failed || !w.V.ssl) return;
        if (w.dtls) w.V.feed_dgram(it); else w.V.feed(it);
    };
    auto collect_v_out = [&]() {
        w.V.pump_out();
        if (w.dtls) { for (auto &d : w.V.dgram_out) if (w.v_sent_records.size() < 32) w.v_sent_records.push_back(d); }
        else for (auto &r : parse_records(w.V.wire_out, false)) if (w.v_sent_records.size() < 32) w.v_sent_records.emplace_back(w.V.wire_out.begin() + r.off, w.V.wire_out.begin() + r.off + r.hdr + r.len);
    };
    auto shuttle = [&]() -> bool {
        bool mv = false;
        // victim -> peer (unmodified)
        collect_v_out();
        if (w.dtls) { while (!w.V.dgram_out.empty()) { Bytes x = w.V.dgram_out.front(); w.V.dgram_out.pop_front(); if (!w.P.failed) w.P.feed_dgram(x); mv = true; } }
        else if (!w.V.wire_out.empty()) { Bytes x = w.V.take_wire(); if (!w.P.failed) w.P.feed(x); mv = true; }
        // peer -> victim, record by record, with the injection point
        w.P.pump_out();
        std::vector<Bytes> units;
        if (w.dtls) { while (!w.P.dgram_out.empty()) { units.push_back(w.P.dgram_out.front()); w.P.dgram_out.pop_front(); } }
        else if (!w.P.wire_out.empty()) { Bytes x = w.P.take_wire(); auto rs = parse_records(x, false); size_t end = 0;
            for (auto &r : rs) { units.emplace_back(x.begin() + r.off, x.begin() + r.off + r.hdr + r.len); end = r.off + r.hdr + r.len; }
            if (end < x.size()) units.emplace_back(x.begin() + end, x.end()); }
        for (auto &u : units) {
            if (!injected && recno == k) inject();
            if (w.V.ssl && !w.V.failed) { if (w.dtls) w.V.feed_dgram(u); else w.V.feed(u); }
            recno++; mv = true;
        }
        return mv;
    };
    if (k == 0 && !w.victim_client) { inject(); }   // server victim: inject before the ClientHello arrives
    for (int r = 0; r < 80; r++) if (!shuttle()) break;
    bool both = w.V.hs_complete() && w.P.hs_complete() && w.V.alive() && w.P.alive();
    if (both) c.count("handshake-completed");
    // legit data after completion must arrive (keeps the check from being vacuous)
    if (both) {
        Bytes m1 = legit_msg(1, 1 + t.below(300));
        w.legit_sent.insert(w.legit_sent.end(), m1.begin(), m1.end());
        VF_CHECK(w.P.send(m1) >= 0, "harness-peer-send-failed", "legit peer could not send after completion; %s", desc.c_str());
        for (int r = 0; r < 10; r++) if (!shuttle()) break;
        if (!injected || item == I_ENCODE_ONLY || recno <= k)   // nothing hostile reached the victim yet
            VF_CHECK(w.dtls ? (w.V.delivered_msgs.size() == 1 && w.V.delivered_msgs[0] == m1) : (w.V.delivered == w.legit_sent), "legit-data-not-delivered",
                     "legit application data sent after completion was not delivered intact (delivered %zu of %zu); %s", w.V.delivered.size(), w.legit_sent.size(), desc.c_str());
    }
    if (!injected) { inject(); for (int r = 0; r < 10; r++) if (!shuttle()) break; }
    if (w.V.hs_complete() && w.V.alive() && w.P.hs_complete() && w.P.alive()) {
        Bytes m2 = legit_msg(2, 1 + t.below(100));
        w.legit_sent.insert(w.legit_sent.end(), m2.begin(), m2.end());
        w.P.send(m2);
        for (int r = 0; r < 10; r++) if (!shuttle()) break;
    }
    // DTLS: a captured genuine record is also something an attacker without keys can send.  The peer sends a burst, the attacker
    // reorders it and replays records it has already forwarded (newest, in-order, and late-arriving ones); every message may reach the
    // application at most once.
    std::vector<Bytes> burst;
    if (w.dtls && w.V.hs_complete() && w.V.alive() && w.P.hs_complete() && w.P.alive()) {
        size_t n = 3 + t.below(6); std::vector<Bytes> dg;
        for (size_t j = 0; j < n; j++) { Bytes m = legit_msg(10 + (int) j, 5 + j); w.P.dgram_out.clear(); if (w.P.send(m) < 0) break; w.P.pump_out(); if (w.P.dgram_out.size() != 1) break; dg.push_back(w.P.dgram_out.front()); burst.push_back(m); }
        w.P.dgram_out.clear(); n = dg.size();
        std::vector<size_t> order(n); for (size_t j = 0; j < n; j++) order[j] = j;
        for (size_t j = n; j > 1; j--) if (t.coin()) std::swap(order[j - 1], order[t.below(j)]);
        std::vector<size_t> fed; std::string sched;
        auto give = [&](size_t j, bool replay) { if (!w.V.ssl || w.V.failed) return; sched += fmt(replay ? " r%zu" : " %zu", j); w.V.feed_dgram(dg[j]); };
        bool late_replayed = false;
        for (size_t x = 0; x < n; x++) {
            give(order[x], false); fed.push_back(order[x]);
            unsigned reps = (unsigned) t.below(3);
            for (unsigned q = 0; q < reps; q++) { size_t j = fed[t.below(fed.size())]; size_t mx = 0; for (size_t f : fed) mx = std::max(mx, f); if (j < mx) late_replayed = true; give(j, true); }
        }
        for (size_t j = 0; j < n; j++) give(j, true);
        c.count("dtls-reorder-replay-phase"); if (late_replayed) c.count("dtls-replay-of-late-or-older-record");
        if (c.verbose) fprintf(stderr, "  replay schedule:%s\n", sched.c_str());
        std::vector<int> seen(n, 0);
        for (auto &m : w.V.delivered_msgs) for (size_t j = 0; j < n; j++) if (m == burst[j]) { seen[j]++;
            VF_CHECK(seen[j] <= 1, "replayed-record-delivered-again", "DTLS message %zu of a burst of %zu was delivered %d times under schedule%s; %s", j, n, seen[j], sched.c_str(), desc.c_str()); }
    }
    if (w.dtls) for (auto &m : w.V.delivered_msgs) { bool ok = m == legit_msg(1, m.size()) || m == legit_msg(2, m.size()); for (auto &b : burst) if (m == b) ok = true;
        VF_CHECK(ok, "delivered-data-not-from-peer-application", "DTLS delivered a datagram the peer never sent; %s", desc.c_str()); }
    c.count(std::string("vs:") + vs_name[vs]); c.count(std::string("kind:") + kind_name[kind]);
    if (mid) c.count("injected-mid-handshake");
    if (mid || item != I_RANDOM_CT) c.nontrivial(fmt("%d|%d|%d|%u|%d|%d", w.victim_client, vs, kind, std::min(k, recno), item, su ? su->auth * 2 + su->aead : 9));
}
VF_TARGET("C01.appdata_gate", prop, 1024, 60)
namespace vf { void vf_global_init(int, char **) { mxh::global_open(); } }
