// C01 (TLS <= 1.2 resumption part): application data is delivered only after an authenticated, completed handshake - also when the
// "handshake" is an ABBREVIATED one forged by a peer that holds no key material at all.
//
// An abbreviated handshake authenticates the server only through the session's master secret.  Whatever the history of the client's
// sslSessionId_t, a peer that does not know a secret established by a COMPLETED handshake with the authenticated server must never get
// matrixSslHandshakeIsComplete() or a delivered byte.
//
// Case = (version/suite, history of the victim client's session id, attacker's guess of the secret, session id in the forged ServerHello,
//         SessionTicket extension acknowledged or not, position of the attacker's application data, receive chunking).
//   history : nothing | full handshake with a ticket-issuing server CUT after its NewSessionTicket (or after NewSessionTicket+CCS) |
//             completed session with id | completed session with ticket only | completed session with id + ticket
//             (the genuine server of the history is the scripted peer harness/puppet12 with the real server key)
//   attacker: puppet12 as a server that only ever sends ServerHello [NewSessionTicket] CCS Finished + application data, keyed from
//             48 zero bytes | 48 x 0xff | random | PRF(empty premaster) - it never uses a private key or certificate
//   control : the same flow keyed with the session's REAL secret (what the genuine server would do) must complete - keeps the check honest.
// Oracle (C01): no delivery, no completion.  Non-trivial = the forged flow got past ChangeCipherSpec, i.e. the victim checked the Finished.
#include "mxh.h"
#include "puppet12.h"
using namespace vf; using namespace mxh;
using pup::Step;

struct SuiteVer { int ver; uint16_t wire; uint16_t suite; const char *name; };
static const SuiteVer SV[] = {
    { TLS12, 0x0303, 0x009C, "1.2/RSA-GCM" }, { TLS12, 0x0303, 0xC02F, "1.2/ECDHE-GCM" }, { TLS12, 0x0303, 0x003C, "1.2/RSA-CBC256" }, { TLS12, 0x0303, 0xC027, "1.2/ECDHE-CBC256" },
    { TLS11, 0x0302, 0x002F, "1.1/RSA-CBC" }, { TLS11, 0x0302, 0xC013, "1.1/ECDHE-CBC" },
};
enum { H_NONE, H_CUT_NST, H_ID, H_TICKET, H_ID_TICKET, H_CUT_NST_CCS, H_N };
static const char *hist_name[] = { "nothing", "cut-after-NewSessionTicket", "completed-id-session", "completed-ticket-session", "completed-id+ticket-session", "cut-after-NewSessionTicket+CCS" };
enum { S_ZERO, S_RANDOM, S_ONES, S_EMPTY_PREMASTER, S_REAL, S_N };
static const char *sec_name[] = { "zero", "random", "all-ff", "prf-of-empty-premaster", "REAL(control)" };
enum { SID_FRESH, SID_EMPTY, SID_ECHO, SID_N };
static const char *sid_name[] = { "fresh-id", "empty-id", "echo-client-id" };

static bool dead(const Endpoint &V) { return V.failed || V.req_close || V.fatal_alert_recv >= 0 || V.close_notify_recv; }
static Bytes marker(int n) { std::string s = fmt("ATTACKER-CHOSEN-BYTES-%d;", n); return Bytes(s.begin(), s.end()); }

static void prop(Tape &t, Ctx &c) {
    const SuiteVer &sv = SV[t.below(6)];
    int hist = (int) t.pick(std::vector<int>{ H_CUT_NST, H_CUT_NST, H_NONE, H_ID, H_TICKET, H_ID_TICKET, H_CUT_NST_CCS, H_CUT_NST });
    int sec = (int) t.pick(std::vector<int>{ S_ZERO, S_ZERO, S_RANDOM, S_ONES, S_EMPTY_PREMASTER, S_ZERO, S_RANDOM, S_REAL });
    int sidc = (int) t.below(SID_N);
    bool ack = t.chance(1, 4);
    bool early_app = t.chance(1, 4);          // an application record already between CCS and Finished
    bool cut_alert = t.coin();                // the cut connection ended with a fatal alert instead of silently
    bool victim_tickets = hist == H_NONE || hist == H_ID ? t.coin() : true;
    size_t chunk = t.pick(std::vector<size_t>{ (size_t) -1, (size_t) -1, 1, 7, 100 });
    uint32_t seed = t.u16();
    bool completed_hist = hist == H_ID || hist == H_TICKET || hist == H_ID_TICKET;
    if (sec == S_REAL && !completed_hist) sec = S_ZERO;   // nothing real to know

    std::string desc = fmt("%s history=%s%s secret=%s server-hello=%s%s%s tickets=%d chunk=%zd seed=%u", sv.name, hist_name[hist], (hist == H_CUT_NST || hist == H_CUT_NST_CCS) && cut_alert ? "(alert)" : "",
                           sec_name[sec], sid_name[sidc], ack ? "+ticket-ext+NST" : "", early_app ? " appdata-before-finished" : "", victim_tickets, (ssize_t) chunk, seed);
    c.sample(desc); if (c.verbose) fprintf(stderr, "case: %s\n", desc.c_str());
    vfh_entropy_reset(9000 + seed); vfh_clock_set_ms(1000000); pup::seed_rand(seed + 5);

    sslSessionId_t *sid = nullptr;
    struct SidGuard { sslSessionId_t *&s; ~SidGuard() { if (s) matrixSslDeleteSessionId(s); } } guard{ sid };
    if (matrixSslNewSessionId(&sid, NULL) < 0) throw Discard{};
    Config vc; vc.client = true; vc.versions = { sv.ver }; vc.suites = { sv.suite }; vc.auth = AUTH_RSA; vc.entropy_stream = 1; vc.sid = sid; vc.tickets = victim_tickets;
    pup::Config gc; gc.role = pup::SERVER; gc.version = sv.wire; gc.suite = sv.suite; gc.seed = seed + 1; gc.pki_dir = verif_dir() + "/pki";   // the genuine server

    // ---- history: connection 1 with the genuine server
    pup::Session real;
    if (hist != H_NONE) {
        Endpoint V0; if (V0.open(vc) < 0) throw Discard{};
        pup::Config g0 = gc; g0.ack_ticket_ext = hist != H_ID; g0.server_empty_session_id = hist == H_TICKET;
        pup::Puppet12 G(g0);
        V0.pump_out(); G.feed(V0.take_wire());
        int stop_after = hist == H_CUT_NST ? pup::M_NEW_SESSION_TICKET : hist == H_CUT_NST_CCS ? pup::M_CCS : -1;
        for (auto &st : pup::legal_script(g0)) { Bytes b = G.emit(st); if (!b.empty()) V0.feed(b); V0.pump_out(); G.feed(V0.take_wire()); if (st.msg == stop_after) break; }
        if (completed_hist) {
            VF_CHECK(V0.hs_complete() && G.peer_finished_ok() && !dead(V0), "harness-history-failed", "the honest first handshake did not complete (%s); %s", G.error().c_str(), desc.c_str());
            real = G.session();
        } else {
            if (cut_alert) { Step al(pup::M_ALERT); al.payload = { 2, 80 }; V0.feed(G.emit(al)); }
            VF_CHECK(!V0.hs_complete() && !V0.complete_evt, "harness-history-failed", "the cut handshake completed; %s", desc.c_str());
        }
        V0.close();
    }

    // ---- connection 2: the attacker answers
    Endpoint V; if (V.open(vc) < 0) throw Discard{};
    V.pump_out(); Bytes ch = V.take_wire();
    pup::Config ac = gc; ac.seed = seed + 2; ac.ack_ticket_ext = ack; ac.server_empty_session_id = sidc == SID_EMPTY;
    Bytes ch_sid; size_t ch_ticket = 0;
    { pup::Puppet12 probe(ac); probe.feed(ch); ch_sid = probe.client_hello_session_id(); ch_ticket = probe.client_hello_ticket_len(); }
    if (hist == H_ID || hist == H_ID_TICKET) VF_CHECK(!ch_sid.empty(), "harness-history-failed", "the client does not offer the id of its completed session; %s", desc.c_str());
    if (hist == H_TICKET || hist == H_ID_TICKET) VF_CHECK(ch_ticket > 0, "harness-history-failed", "the client does not offer the ticket of its completed session; %s", desc.c_str());
    if (!completed_hist && (ch_ticket > 0 || !ch_sid.empty())) c.count("resumption-state-offered-without-completed-handshake");
    Bytes guess;
    switch (sec) {
    case S_ZERO: guess.assign(48, 0); break;
    case S_ONES: guess.assign(48, 0xff); break;
    case S_RANDOM: guess = t.vec(48); if (guess == Bytes(48, 0)) guess[0] = 1; break;
    case S_REAL: guess = real.master; break;
    default: break;   // S_EMPTY_PREMASTER: the puppet's own fall-back, PRF over an empty premaster and the two public randoms
    }
    if (!guess.empty()) ac.master_override = guess;
    if (sidc == SID_ECHO && !ch_sid.empty() && guess.size() == 48) { ac.resume.id = ch_sid; ac.resume.master = guess; ac.resume.suite = sv.suite; ac.resume.version = sv.wire; }
    pup::Puppet12 A(ac);
    A.feed(ch);

    bool ever_complete = false, early_delivery = false, past_ccs = false; int n_app = 0;
    V.on_app_data = [&](Endpoint &e, const uint8_t *, size_t) { if (!e.hs_complete()) early_delivery = true; };
    std::vector<Step> script; script.emplace_back(pup::M_SERVER_HELLO);
    if (ack) script.emplace_back(pup::M_NEW_SESSION_TICKET);
    script.emplace_back(pup::M_CCS);
    auto app = [&]() { Step s(pup::M_APPDATA); s.payload = marker(n_app++); return s; };
    if (early_app) script.push_back(app());
    script.emplace_back(pup::M_FINISHED);
    script.push_back(app()); script.push_back(app());
    Bytes sent_app;
    for (auto &st : script) {
        Bytes b = A.emit(st);
        if (st.msg == pup::M_APPDATA) sent_app.insert(sent_app.end(), st.payload.begin(), st.payload.end());
        if (!dead(V) && !b.empty()) V.feed(b, chunk);
        if (V.hs_complete() || V.complete_evt) ever_complete = true;
        if (st.msg == pup::M_CCS && !dead(V)) past_ccs = true;
        V.pump_out(); A.feed(V.take_wire());
    }
    c.count(std::string("history:") + hist_name[hist]); c.count(std::string("secret:") + sec_name[sec]);
    if (past_ccs) c.count("victim-checked-the-finished");
    if (c.verbose) fprintf(stderr, "  offered: id %zu bytes, ticket %zu bytes; past_ccs=%d complete=%d delivered=%zu dead=%d rc=%d\n", ch_sid.size(), ch_ticket, past_ccs, ever_complete, V.delivered.size(), dead(V), V.last_rc);

    VF_CHECK(!early_delivery, "appdata-delivered-before-handshake-complete", "APP_DATA delivered while matrixSslHandshakeIsComplete()==false; %s", desc.c_str());
    if (sec == S_REAL) {
        // control: what the genuine server would do.  Where the flow is a legal resumption it must work.
        bool legal = !early_app && (!ack || victim_tickets) && ((hist == H_ID && sidc == SID_ECHO) || (hist == H_ID_TICKET && sidc == SID_ECHO) || (hist == H_TICKET && !ack));
        if (legal) {
            c.count("control:legal-resumption");
            VF_CHECK(ever_complete && V.delivered == sent_app && A.peer_finished_ok(), "harness-control-resumption-failed",
                     "resumption under the REAL session secret did not work (complete=%d, delivered %zu of %zu, puppet: %s); %s", ever_complete, V.delivered.size(), sent_app.size(), A.error().c_str(), desc.c_str());
            c.nontrivial(fmt("ctl|%d|%d|%d", hist, sidc, (int) (&sv - SV)));
        } else c.count("control:other");
        return;
    }
    VF_CHECK(V.delivered.empty(), "forged-resumption-appdata-delivered",
             "the client delivered %zu bytes (%s) sent by a peer that holds no key and does not know the session secret; %s", V.delivered.size(), hex(V.delivered.data(), V.delivered.size(), 24).c_str(), desc.c_str());
    VF_CHECK(!ever_complete, "forged-resumption-handshake-complete", "the client reported a completed handshake with a peer that holds no key and does not know the session secret; %s", desc.c_str());
    if (past_ccs) c.nontrivial(fmt("%d|%d|%d|%d|%d|%d", hist, sec, sidc, ack, early_app, (int) (&sv - SV)));
}
VF_TARGET("C01.forged_resumption", prop, 128, 60)
namespace vf { void vf_global_init(int, char **) { mxh::global_open(); } }
