// C01 (TLS 1.3, PSK-offering client): a peer that holds neither the client's PSK nor a certificate key the client trusts must never
// get a handshake to complete, let alone have its records delivered as application data - whatever cipher suite, pre_shared_key
// answer and early secret it picks.  The attacker (props/C01/tls13_keyless_server.c) parses the real ClientHello, answers with a
// generated ServerHello (suite; pre_shared_key with a generated selected_identity or none), keys the handshake from an early
// secret it can compute (zeros / Extract(0,0)) and sends EncryptedExtensions + Finished without Certificate, then one
// application record.  Enumerated: every combination of the generated fields.
#include "mxh.h"
using namespace vf; using namespace mxh;
extern "C" int c01_keyless13_run(const char *caFile, int useSuite, int earlyMode, int sendPskExt, int selectedIdentity, int clientOnly1301, int pskLen, int *faultLine, int *alertDesc);

static const int SUITES[] = { 0x1301, 0x1302 };
namespace vf { uint64_t vf_enum_total() { return 2 * 2 * 2 * 3 * 2 * 2; } }
static void prop(Tape &t, Ctx &c) {
    uint64_t idx = t.u64(); if (idx >= vf::vf_enum_total()) throw Discard{};
    int suite = SUITES[idx % 2]; idx /= 2; int early = (int) (idx % 2); idx /= 2; int pskext = (int) (idx % 2); idx /= 2;
    int sel = (int) (idx % 3); idx /= 3; int only = (int) (idx % 2); idx /= 2; int psklen = (idx % 2) ? 48 : 32;
    std::string desc = fmt("client PSK bound to %s, offers %s; keyless server answers suite %04x, %s, early secret = %s", psklen == 32 ? "SHA-256" : "SHA-384", only ? "TLS_AES_128_GCM_SHA256 only" : "the default suites",
                           suite, pskext ? fmt("pre_shared_key(selected_identity=%d)", sel).c_str() : "no pre_shared_key", early ? "Extract(0,0)" : "all-zero");
    c.sample(desc); if (c.verbose) fprintf(stderr, "case: %s\n", desc.c_str());
    vfh_entropy_reset(6100 + (uint32_t) suite + early * 7 + sel); vfh_clock_set_ms(1000000);
    int fault = 0, alert = -1; std::string ca = verif_dir() + "/pki/ca_rsa.pem";
    vfh_entropy_select(1);
    int r = c01_keyless13_run(ca.c_str(), suite, early, pskext, sel, only, psklen, &fault, &alert);
    if (c.verbose) fprintf(stderr, "  result=%d fault-line=%d alert=%d\n", r, fault, alert);
    VF_CHECK(r >= 0, "harness-keyless-server-fault", "scaffolding failed at line %d; %s", fault, desc.c_str());
    VF_CHECK(!(r & 2), "attacker-bytes-delivered", "application data of a peer without any key of the client was delivered (client alert %d); %s", alert, desc.c_str());
    VF_CHECK(!(r & 1), "handshake-completed-with-keyless-peer", "the client completed a handshake with a peer that holds neither its PSK nor a trusted certificate key; %s", desc.c_str());
    c.count(fmt("client-alert:%d", alert));
    c.nontrivial(fmt("%04x|%d|%d|%d|%d|%d", suite, early, pskext, sel, only, psklen));
}
VF_TARGET("C01.keyless13", prop, 16, 30)
namespace vf { void vf_global_init(int, char **) { mxh::global_open(); } }
