WRAPS = ['psGetEntropy', 'psGetTime', 'psDiffMsecs', 'psCompareTime', 'time']
PROP = dict(
    level='exploration',
    level_text='Generated search over (role x version set x handshake kind x suite x injection point x attacker item) with a monitor on every delivery and every encode call; finds gate omissions that depend on state/role/version, proves nothing beyond the explored cases.',
    level_note='Trusted: the harness follows the documented caller contract of matrixsslApi.c; the legit peer is MatrixSSL itself (keyed-peer premature data is not generated yet); entropy/clock are pinned by ld --wrap.',
    technique='property-based testing: history monitor (invariant over API-call history) with generated attacker injections',
    rule='case = (victim role, version set incl. library default and DTLS, kind full/client-auth/resumed, suite, injection point k in records/datagrams, item in {plaintext type-23 record, random ciphertext, record from a parallel session, reflected own record, premature encode}, payload length/header version/epoch); every DTLS case ends with a burst that the attacker reorders and replays (each message delivered at most once); c01_keyless13 (enumerated): TLS 1.3 PSK-offering client vs a server without any key of the client x (suite, early secret, pre_shared_key answer, selected identity, client suite list, PSK hash); c01_hrr_forged_ch2: TLS 1.3 server with early data, genuine ClientHello1 forwarded, HelloRetryRequest answered by the attacker\'s own ClientHello2 (suite, early_data again?, genuine early records forwarded?) followed by 1-3 records under an all-zero / random key; '
         'non-trivial = injected mid-handshake or the item is a well-formed record; distinct by (role, version set, kind, k, item, suite class)',
    assumptions=['attacker has no session keys (keyed premature data needs the scripted peer, not built yet)'],
    targets=[dict(name='c01_appdata_gate', src=['props/C01/appdata_gate.cc', 'harness/wraps.c'], wraps=WRAPS, env={'VERIF_DIR': '/verif'},
                  quick=dict(cases=3200, secs=70), thorough=dict(cases=150000, secs=1000)),
             dict(name='c01_early_data', src=['props/C01/early_data.cc', 'harness/wraps.c'], wraps=WRAPS, env={'VERIF_DIR': '/verif'},
                  quick=dict(cases=1200, secs=40), thorough=dict(cases=40000, secs=400)),
             # forged abbreviated handshakes: victim client whose sslSessionId_t went through {nothing, a handshake cut after NewSessionTicket, completed id / ticket / id+ticket
             # session}; a keyless scripted peer (harness/puppet12) answers ServerHello [NST] CCS Finished + application data under guessed master secrets
             dict(name='c01_forged_resumption', src=['props/C01/forged_resumption.cc', 'harness/puppet12.cc', 'harness/wraps.c'], libs=['-lcrypto'], wraps=WRAPS, env={'VERIF_DIR': '/verif'},
                  quick=dict(cases=6400, secs=25), thorough=dict(cases=200000, secs=300)),
             # TLS 1.3 client offering an external PSK vs. a server that has no key of the client at all: every (suite, early secret, pre_shared_key answer, selected identity,
             # client suite list, PSK hash) combination
             dict(name='c01_keyless13', src=['props/C01/keyless13.cc', 'props/C01/tls13_keyless_server.c', 'harness/wraps.c'], wraps=WRAPS, env={'VERIF_DIR': '/verif'}, enumerate=True,
                  quick=dict(cases=0, secs=40, stride=1), thorough=dict(cases=0, secs=60, stride=1)),
             # TLS 1.3 server with early data: genuine ClientHello1 (PSK + early_data) forwarded, HelloRetryRequest answered by a keyless attacker's own ClientHello2, forged records
             dict(name='c01_hrr_forged_ch2', src=['props/C01/hrr_forged_ch2.cc', 'harness/wraps.c'], wraps=WRAPS, env={'VERIF_DIR': '/verif'},
                  quick=dict(cases=600, secs=40), thorough=dict(cases=20000, secs=240))],
)
