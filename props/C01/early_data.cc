// C01 (TLS 1.3 early data clause): plaintext is handed to the application before handshake completion only as early
// data that a server which enabled early data accepts under a PSK from an earlier authenticated session, within the
// configured limit, and only the bytes the client actually sent.
#include "mxh.h"
using namespace vf; using namespace mxh;

static Bytes emsg(int i, size_t n) { Bytes b(n); for (size_t k = 0; k < n; k++) b[k] = (uint8_t) ('A' + (i * 5 + k) % 26); return b; }

static void prop(Tape &t, Ctx &c) {
    static const std::vector<uint32_t> MAXES = { 0, 100, 1000, 16384 };
    uint32_t max1 = t.pick(MAXES), max2 = t.pick(MAXES);
    uint16_t suite = t.pick(std::vector<uint16_t>{ 0x1301, 0x1302, 0x1303 });
    int nearly = (int) t.below(4); std::vector<size_t> sizes; for (int i = 0; i < nearly; i++) sizes.push_back(t.pick(std::vector<size_t>{ 1, 50, 99, 100, 101, 900, 1000, 4000 }));
    int tamper = (int) t.below(4);   // 0 none, 1 flip a bit in the first early record, 2 inject a random type-23 record after ClientHello, 3 replace PSK session by a fresh full handshake (no PSK) but still inject captured early records
    int64_t age_ms = t.pick(std::vector<int64_t>{ 0, 1000, 9000, 11000, 60000, 3600000 });
    uint32_t es = t.u16();
    std::string ss; for (auto s : sizes) ss += std::to_string(s) + ",";
    std::string desc = fmt("ticket-max=%u server-max=%u suite=%04x early=[%s] tamper=%d age=%lldms", max1, max2, suite, ss.c_str(), tamper, (long long) age_ms);
    c.sample(desc); if (c.verbose) fprintf(stderr, "case: %s\n", desc.c_str());
    vfh_entropy_reset(1200 + es); vfh_clock_set_ms(1000000);
    matrixSslClose(); matrixSslOpen();
    sslKeys_t *sk = KeyStore::fresh(true, AUTH_RSA, true), *ck = KeyStore::fresh(false, AUTH_RSA, false);
    struct KG { sslKeys_t *a, *b; ~KG() { if (a) matrixSslDeleteKeys(a); if (b) matrixSslDeleteKeys(b); } } kg{ sk, ck };
    if (!sk || !ck) throw Discard{};
    sslSessionId_t *sid = nullptr; if (matrixSslNewSessionId(&sid, NULL) < 0) throw Discard{};
    struct SG { sslSessionId_t *s; ~SG() { matrixSslDeleteSessionId(s); } } sg{ sid };
    auto cfg = [&](Config &cc, Config &sc, uint32_t smax) { cc.client = true; sc.client = false; cc.versions = sc.versions = { TLS13 }; cc.suites = { suite }; cc.keys = ck; sc.keys = sk; cc.entropy_stream = 1; sc.entropy_stream = 2; cc.sid = sid; sc.max_early_data = smax; };
    {   // session 1: full handshake, the server issues a ticket carrying max1
        Pair p; Config cc, sc; cfg(cc, sc, max1);
        if (p.s.open(sc) < 0 || p.c.open(cc) < 0 || !p.run(60)) throw Discard{};
        p.run(10);
        if (c.verbose) fprintf(stderr, "  session1: ticket len=%zu psk=%p\n", (size_t) matrixSslSessionIdGetSessionTicketLen(sid), (void *) sid);
    }
    vfh_clock_advance_ms(age_ms);
    // session 2
    Pair p; Config cc, sc; cfg(cc, sc, max2);
    if (tamper == 3) cc.sid = nullptr;
    if (p.s.open(sc) < 0 || p.c.open(cc) < 0) throw Discard{};
    p.c.sel(); int32_t cmax = matrixSslGetMaxEarlyData(p.c.ssl);
    if (tamper != 3 && !c.verbose) VF_CHECK((cmax > 0) == (max1 > 0), "client-early-data-limit-wrong", "client reports max early data %d but the ticket was issued with %u; %s", cmax, max1, desc.c_str());
    Bytes early_sent; int sent_records = 0;
    if (cmax > 0) for (size_t i = 0; i < sizes.size(); i++) { Bytes m = emsg((int) i, sizes[i]); int rc = p.c.send(m, 1); if (rc >= 0) { early_sent.insert(early_sent.end(), m.begin(), m.end()); sent_records++; } else c.count("client-refused-early-send"); }
    p.c.pump_out();
    Bytes flight = p.c.take_wire();
    auto recs = parse_records(flight, false);
    if (tamper == 1 && recs.size() >= 2) { auto &r = recs[recs.size() - 1]; flight[r.off + r.hdr + (es % r.len)] ^= 0x10; }
    if (tamper == 2 || tamper == 3) { Bytes inj = { 23, 3, 3, 0, 40 }; for (int i = 0; i < 40; i++) inj.push_back((uint8_t) (es >> (i % 13))); flight.insert(flight.end(), inj.begin(), inj.end()); }
    // server monitor
    size_t early_delivered = 0; bool violated_before_complete = false; (void) violated_before_complete;
    uint32_t limit = std::min(max1, max2);
    p.s.on_app_data = [&](Endpoint &e, const uint8_t *d, size_t n) {
        if (e.hs_complete()) return;
        e.sel(); int32_t st = matrixSslGetEarlyDataStatus(e.ssl);
        VF_CHECK(max1 > 0 && max2 > 0 && tamper != 3, "early-data-delivered-although-not-enabled", "%zu bytes delivered before completion although early data is not enabled/accepted (ticket max %u, server max %u, tamper %d); %s", n, max1, max2, tamper, desc.c_str());
        VF_CHECK(st == MATRIXSSL_EARLY_DATA_ACCEPTED, "early-data-delivered-without-accepted-status", "status %d; %s", st, desc.c_str());
        VF_CHECK(early_delivered + n <= early_sent.size() && memcmp(early_sent.data() + early_delivered, d, n) == 0, "early-data-not-what-client-sent", "delivered early bytes differ from what the client application sent (offset %zu len %zu); %s", early_delivered, n, desc.c_str());
        early_delivered += n;
        VF_CHECK(early_delivered <= limit, "early-data-beyond-limit", "%zu early bytes delivered, limit min(%u,%u); %s", early_delivered, max1, max2, desc.c_str());
    };
    p.s.feed(flight);
    p.run(60);
    bool done = p.c.hs_complete() && p.s.hs_complete() && p.c.alive() && p.s.alive();
    if (c.verbose) fprintf(stderr, "  session2: done=%d resumed(c)=%d resumed(s)=%d cmax=%d\n", done, done ? matrixSslIsResumedSession(p.c.ssl) : -1, done ? matrixSslIsResumedSession(p.s.ssl) : -1, cmax);
    c.count(done ? "completed" : "not-completed"); if (early_delivered) c.count("early-data-accepted-cases"); c.count("early-bytes-delivered", early_delivered);
    if (done) { Bytes m = emsg(9, 30); size_t before = p.s.delivered.size(); p.c.send(m); p.run(10); VF_CHECK(p.s.delivered.size() == before + m.size(), "post-handshake-data-lost", "%s", desc.c_str()); }
    // non-vacuity: untampered, fresh ticket, both enabled, fits => early data is accepted and delivered in full
    if (tamper == 0 && max1 > 0 && max2 > 0 && age_ms <= 1000 && early_sent.size() <= limit && sent_records > 0)
        VF_CHECK(early_delivered == early_sent.size() && done, "eligible-early-data-not-delivered", "delivered %zu of %zu early bytes, complete=%d; %s", early_delivered, early_sent.size(), done, desc.c_str());
    if (sent_records > 0 || tamper >= 2) c.nontrivial(fmt("%u|%u|%d|%d|%d|%d", max1, max2, nearly, tamper, age_ms > 10000, early_delivered > 0));
}
VF_TARGET("C01.early_data", prop, 128, 60)
namespace vf { void vf_global_init(int, char **) { mxh::global_open(); } }
