// C01 (TLS 1.3 server with early data enabled): a network attacker forwards a genuine resuming ClientHello (pre_shared_key +
// early_data, key share for a group the server does not enable), lets the server answer with a HelloRetryRequest, and then
// writes the second ClientHello HIMSELF - echoing the cookie, with his own key share, and (since he cannot compute a binder)
// without pre_shared_key; early_data extension present or not.  He owns no PSK and no handshake secret.  Whatever records he
// sends afterwards (sealed under an all-zero or a random AES-GCM key) must never reach the server application, and the
// handshake must never complete.  Case = (suite offered in ClientHello2, early_data extension again?, were the genuine
// early-data records forwarded too?, key of the forged records, how many, their sequence numbers).
#include "mxh.h"
extern "C" {
#include "crypto/cryptoApi.h"
}
using namespace vf; using namespace mxh;

static Bytes sealed_record(const uint8_t *key, int keylen, const uint8_t iv[12], uint64_t seq, const Bytes &msg, uint8_t inner_type) {
    Bytes in = msg; in.push_back(inner_type); Bytes out(5 + in.size() + 16);
    out[0] = 23; out[1] = 3; out[2] = 3; out[3] = (uint8_t) ((in.size() + 16) >> 8); out[4] = (uint8_t) (in.size() + 16);
    uint8_t nonce[16] = { 0 }; memcpy(nonce, iv, 12); for (int i = 0; i < 8; i++) nonce[11 - i] ^= (uint8_t) (seq >> (8 * i));
    psAesGcm_t g; if (psAesInitGCM(&g, key, (uint8_t) keylen) < 0) return Bytes();
    psAesReadyGCM(&g, nonce, out.data(), 5); psAesEncryptGCM(&g, in.data(), out.data() + 5, (uint32_t) in.size()); psAesGetGCMTag(&g, 16, out.data() + 5 + in.size()); psAesClearGCM(&g);
    return out;
}

static void prop(Tape &t, Ctx &c) {
    uint32_t es = t.u16();
    uint16_t suite2 = t.coin() ? 0x1301 : 0x1302;
    bool ed_again = t.coin(), forward_early = t.coin(), zero_key = !t.chance(1, 4);
    int nrec = 1 + (int) t.below(3); bool hs_typed = t.chance(1, 4);
    std::string desc = fmt("ClientHello2 by the attacker: suite %04x, early_data %s, no pre_shared_key; genuine early-data records %s; %d forged records under %s key (inner type %s)",
                           suite2, ed_again ? "again" : "absent", forward_early ? "forwarded" : "withheld", nrec, zero_key ? "an all-zero" : "a random", hs_typed ? "handshake" : "application_data");
    c.sample(desc); if (c.verbose) fprintf(stderr, "case: %s\n", desc.c_str());
    vfh_entropy_reset(7300 + es); vfh_clock_set_ms(1000000);
    matrixSslClose(); matrixSslOpen();
    sslSessionId_t *sid = nullptr; if (matrixSslNewSessionId(&sid, NULL) < 0) throw Discard{};
    struct G { sslSessionId_t *s; ~G() { matrixSslDeleteSessionId(s); } } g{ sid };
    auto cfg = [&](Config &cc, Config &sc, bool two_groups) { cc.client = true; sc.client = false; cc.versions = sc.versions = { TLS13 }; cc.auth = sc.auth = AUTH_RSA; cc.entropy_stream = 1; sc.entropy_stream = 2; cc.sid = sid; sc.max_early_data = 16384;
        sc.tweak = [](sslSessOpts_t &o) { uint16_t gs[1] = { 24 }; matrixSslSessOptsSetKeyExGroups(&o, gs, 1, 0); };
        if (two_groups) cc.tweak = [](sslSessOpts_t &o) { uint16_t gs[2] = { 23, 24 }; matrixSslSessOptsSetKeyExGroups(&o, gs, 2, 1); };
        else cc.tweak = [](sslSessOpts_t &o) { uint16_t gs[1] = { 24 }; matrixSslSessOptsSetKeyExGroups(&o, gs, 1, 1); }; };
    { Pair p0; Config cc, sc; cfg(cc, sc, false); if (p0.s.open(sc) < 0 || p0.c.open(cc) < 0) throw Discard{};
      VF_CHECK(p0.run(60) && p0.c.alive() && p0.s.alive(), "harness-priming-handshake-failed", "%s", desc.c_str()); p0.run(10); }
    // ---- the genuine client's first flight
    Endpoint C, S; Config cc, sc; cfg(cc, sc, true);
    if (S.open(sc) < 0 || C.open(cc) < 0) throw Discard{};
    C.sel(); if (matrixSslGetMaxEarlyData(C.ssl) <= 0) { c.count("ticket-does-not-allow-early-data"); return; }
    Bytes ed(40, 0x45); C.send(ed, 1); C.pump_out();
    Bytes flight = C.take_wire(); auto recs = parse_records(flight, false);
    VF_CHECK(!recs.empty() && recs[0].type == 22, "harness-no-client-hello", "%s", desc.c_str());
    Bytes ch1(flight.begin(), flight.begin() + recs[0].hdr + recs[0].len), rest(flight.begin() + recs[0].hdr + recs[0].len, flight.end());
    bool has_psk = false, has_ed = false; { size_t o = 5 + 4 + 2 + 32; o += 1 + ch1[o]; o += 2 + (size_t) (ch1[o] << 8 | ch1[o + 1]); o += 1 + ch1[o]; size_t e = o + 2 + (size_t) (ch1[o] << 8 | ch1[o + 1]); o += 2;
        while (o + 4 <= e && e <= ch1.size()) { int ty = ch1[o] << 8 | ch1[o + 1]; size_t l = (size_t) (ch1[o + 2] << 8 | ch1[o + 3]); if (ty == 41) has_psk = true; if (ty == 42) has_ed = true; o += 4 + l; } }
    VF_CHECK(has_psk && has_ed, "harness-client-hello-without-psk-or-early-data", "psk=%d early_data=%d; %s", has_psk, has_ed, desc.c_str());
    // from here on only the attacker talks to the server
    S.on_app_data = [&](Endpoint &, const uint8_t *d, size_t n) { VF_CHECK(false, "attacker-bytes-delivered", "the server application received %zu bytes (%s) although only a keyless attacker spoke after ClientHello1; %s", n, hex(d, n, 24).c_str(), desc.c_str()); };
    S.feed(ch1); if (forward_early && !rest.empty() && S.ssl && !S.failed) S.feed(rest);
    S.pump_out(); Bytes hrr = S.take_wire();
    if (hrr.size() < 60 || hrr[0] != 22 || hrr[5] != 2 || hrr[11] != 0xCF || hrr[12] != 0x21) { c.count("no-hello-retry-request"); return; }
    Bytes cookie; { size_t o = 5 + 4 + 2 + 32; o += 1 + hrr[o]; o += 3; size_t e = o + 2 + (size_t) (hrr[o] << 8 | hrr[o + 1]); o += 2;
        while (o + 4 <= e && e <= hrr.size()) { int ty = hrr[o] << 8 | hrr[o + 1]; size_t l = (size_t) (hrr[o + 2] << 8 | hrr[o + 3]); if (ty == 44 && l >= 2) cookie.assign(hrr.begin() + o + 6, hrr.begin() + o + 4 + l); o += 4 + l; } }
    if (cookie.empty() || cookie.size() > 200) { c.count("no-cookie-in-hello-retry-request"); return; }
    if (S.failed || S.req_close) { c.count("server-ended-before-client-hello-2"); return; }
    // attacker's own P-384 share
    const psEccCurve_t *curve; psEccKey_t mine; uint8_t pub[97]; psSize_t l = sizeof pub;
    vfh_entropy_select(3);
    if (getEccParamById(24, &curve) < 0 || psEccInitKey(NULL, &mine, curve) < 0) VF_FAIL("harness-ecc-failed", "%s", desc.c_str());
    bool okk = psEccGenKey(NULL, &mine, curve, NULL) >= 0 && psEccX963ExportKey(NULL, &mine, pub, &l) >= 0 && l == 97; psEccClearKey(&mine);
    VF_CHECK(okk, "harness-ecc-failed", "%s", desc.c_str());
    Bytes b; auto p16 = [&](unsigned v) { b.push_back((uint8_t) (v >> 8)); b.push_back((uint8_t) v); };
    b.push_back(3); b.push_back(3); b.insert(b.end(), ch1.begin() + 11, ch1.begin() + 43);            // random of ClientHello1
    size_t sl = ch1[43]; b.push_back((uint8_t) sl); b.insert(b.end(), ch1.begin() + 44, ch1.begin() + 44 + sl);   // legacy_session_id
    p16(2); p16(suite2); b.push_back(1); b.push_back(0);
    Bytes e; auto e16 = [&](unsigned v) { e.push_back((uint8_t) (v >> 8)); e.push_back((uint8_t) v); };
    e16(43); e16(3); e.push_back(2); e16(0x0304);
    e16(13); e16(8); e16(6); e16(0x0804); e16(0x0805); e16(0x0401);
    e16(10); e16(4); e16(2); e16(24);
    e16(51); e16(103); e16(101); e16(24); e16(97); e.insert(e.end(), pub, pub + 97);
    e16(44); e16((unsigned) cookie.size() + 2); e16((unsigned) cookie.size()); e.insert(e.end(), cookie.begin(), cookie.end());
    if (ed_again) { e16(42); e16(0); }
    p16((unsigned) e.size()); b.insert(b.end(), e.begin(), e.end());
    Bytes ch2 = { 22, 3, 3, (uint8_t) ((b.size() + 4) >> 8), (uint8_t) (b.size() + 4), 1, 0, (uint8_t) (b.size() >> 8), (uint8_t) b.size() }; ch2.insert(ch2.end(), b.begin(), b.end());
    S.feed(ch2); S.pump_out(); Bytes sh = S.take_wire();
    bool answered = sh.size() > 100 && sh[0] == 22 && sh[5] == 2;
    c.count(answered ? "server-answered-client-hello-2" : "server-refused-client-hello-2");
    // forged records
    uint8_t key[32] = { 0 }, iv[12] = { 0 }; if (!zero_key) { Bytes r = t.vec(44); for (int i = 0; i < 32; i++) key[i] = r[i] | 1; for (int i = 0; i < 12; i++) iv[i] = r[32 + i]; }
    int keylen = suite2 == 0x1302 ? 32 : 16;
    for (int i = 0; i < nrec && S.ssl && !S.failed && !S.req_close; i++) {
        Bytes m = { 'F', 'O', 'R', 'G', 'E', 'D', '-', (uint8_t) ('0' + i) };
        Bytes r = sealed_record(key, keylen, iv, (uint64_t) i, m, hs_typed ? 22 : 23); if (r.empty()) VF_FAIL("harness-aes-failed", "%s", desc.c_str());
        S.feed(r);
    }
    VF_CHECK(!S.hs_complete(), "handshake-completed-with-keyless-peer", "the server reports a completed handshake; %s", desc.c_str());
    VF_CHECK(S.delivered.empty(), "attacker-bytes-delivered", "%zu bytes delivered; %s", S.delivered.size(), desc.c_str());
    c.nontrivial(fmt("%04x|%d|%d|%d|%d|%d", suite2, ed_again, forward_early, zero_key, hs_typed, answered));
}
VF_TARGET("C01.hrr_forged_ch2", prop, 96, 60)
namespace vf { void vf_global_init(int, char **) { mxh::global_open(); } }
