/* C01: a TLS 1.3 "server" that owns NO secret of the client (neither its PSK nor the private key of a certificate the client
 * trusts) answers a PSK-offering MatrixSSL client with a ServerHello of its choice and keys everything from an early secret it can
 * compute itself (all zero, or HKDF-Extract(0,0)).  Returns a bit mask: 1 = the client reports the handshake complete,
 * 2 = the client delivered the attacker's application record; HARNESS_FAULT (negative) when the scaffolding itself failed.
 * (Derived from a reviewer's stand-alone probe; the attacker side uses the library's own HKDF/AES-GCM/ECC primitives - it is an
 * adversary, not an oracle.) */
#include <stdio.h>
#include <stdlib.h>
#include <string.h>
#include "matrixssl/matrixsslImpl.h"

static int g_fault;
#define HARNESS_FAULT -1000

static int H;          /* hash length: 32 or 48 */
static int HM;         /* HMAC_SHA256 / HMAC_SHA384 */
static int KL;         /* AEAD key length */
static unsigned char tr[8192]; static size_t trLen;

static void hashTr(unsigned char *out)
{
    if (H == 32)
    {
        psSha256_t c; psSha256PreInit(&c); psSha256Init(&c);
        psSha256Update(&c, tr, trLen); psSha256Final(&c, out);
    }
    else
    {
        psSha384_t c; psSha384PreInit(&c); psSha384Init(&c);
        psSha384Update(&c, tr, trLen); psSha384Final(&c, out);
    }
}
static void hashEmpty(unsigned char *out)
{
    size_t s = trLen; trLen = 0; hashTr(out); trLen = s;
}
static void expandLabel(const unsigned char *secret, const char *label,
    const unsigned char *ctx, int ctxLen, int outLen, unsigned char *out)
{
    if (psHkdfExpandLabel(NULL, HM, secret, H, label, strlen(label), ctx, ctxLen, outLen, out) < 0) g_fault = __LINE__;
}
static void extract(const unsigned char *salt, const unsigned char *ikm, int ikmLen,
    unsigned char *out)
{
    psSize_t l = 0;
    if (psHkdfExtract(HM, salt, H, ikm, ikmLen, out, &l) < 0 || l != H) g_fault = __LINE__;
}
static void hmac(const unsigned char *key, const unsigned char *d, int dl, unsigned char *out)
{
    psHmac_t ctx;
    if (psHmacSingle(&ctx, HM, key, H, d, dl, out) < 0) g_fault = __LINE__;
}

typedef struct { unsigned char key[32], iv[12]; uint64_t seq; } tk_t;
static void trafficKeys(const unsigned char *secret, tk_t *k)
{
    expandLabel(secret, "key", NULL, 0, KL, k->key);
    expandLabel(secret, "iv", NULL, 0, 12, k->iv);
    k->seq = 0;
}
/* Protect one record: out = header || AEAD(pt || type) */
static int protect(tk_t *k, int type, const unsigned char *pt, int ptLen, unsigned char *out)
{
    psAesGcm_t g; unsigned char nonce[16] = {0}, in[4096]; int i, n = ptLen + 1;
    memcpy(in, pt, ptLen); in[ptLen] = type;
    out[0] = 23; out[1] = 3; out[2] = 3; out[3] = (n + 16) >> 8; out[4] = (n + 16) & 0xff;
    memcpy(nonce, k->iv, 12);
    for (i = 0; i < 8; i++) nonce[11 - i] ^= (k->seq >> (8 * i)) & 0xff;
    k->seq++;
    if (psAesInitGCM(&g, k->key, KL) < 0) { g_fault = __LINE__; return 0; }
    psAesReadyGCM(&g, nonce, out, 5);
    psAesEncryptGCM(&g, in, out + 5, n);
    psAesGetGCMTag(&g, 16, out + 5 + n);
    psAesClearGCM(&g);
    return 5 + n + 16;
}

static int32 certCb(ssl_t *ssl, psX509Cert_t *cert, int32 alert)
{
    (void) ssl; (void) cert;
    return alert; /* strict: whatever the library found is fatal */
}


int c01_keyless13_run(const char *caFile, int useSuite, int earlyMode, int sendPskExt, int selectedIdentity,
    int clientOnly1301, int pskLen, int *faultLine, int *alertDesc)
{
    sslKeys_t *keys = NULL; ssl_t *ssl = NULL; sslSessOpts_t opts;
    unsigned char psk[48], *out, *buf, *pt; const unsigned char pskId[] = "client-psk-identity";
    unsigned char ch[2048]; int chLen, rc, i, result = 0; uint32 ptLen;
    const psEccCurve_t *curve; psEccKey_t mine, peer; int haveMine = 0, havePeer = 0;
    unsigned char mypub[65], ecdhe[32]; psSize_t l;
    psCipher16_t only[1] = { 0x1301 };

    g_fault = 0; *alertDesc = -1; trLen = 0;
#define FAIL_IF(x) do { if (x) { g_fault = __LINE__; result = HARNESS_FAULT; goto done; } } while (0)
    FAIL_IF(matrixSslNewKeys(&keys, NULL) < 0);
    FAIL_IF(matrixSslLoadRsaKeys(keys, NULL, NULL, NULL, caFile) < 0);
    for (i = 0; i < 48; i++) psk[i] = 0xA0 + i;   /* secret: never given to the attacker code below */
    /* a 32-byte key is bound to SHA-256, a 48-byte key to SHA-384 */
    FAIL_IF(matrixSslLoadTls13Psk(keys, psk, (psSize_t) pskLen, pskId, sizeof(pskId) - 1, NULL) < 0);

    memset(&opts, 0, sizeof(opts));
    opts.versionFlag = SSL_FLAGS_TLS_1_3;
    opts.tls13SupportedGroups[0] = namedgroup_secp256r1;
    opts.tls13SupportedGroupsLen = 1;
    opts.tls13NumClientHelloKeyShares = 1;
    rc = matrixSslNewClientSession(&ssl, keys, NULL, clientOnly1301 ? only : NULL, clientOnly1301 ? 1 : 0, certCb, "localhost", NULL, NULL, &opts);
    FAIL_IF(rc != MATRIXSSL_REQUEST_SEND);
    chLen = matrixSslGetOutdata(ssl, &out);
    FAIL_IF(!(chLen > 5 && chLen < (int) sizeof(ch)));
    memcpy(ch, out, chLen);
    matrixSslSentData(ssl, chLen);

    /* ---- attacker: parse ClientHello ---- */
    {
    unsigned char *p = ch + 5, *e = ch + chLen, sid[32], cpub[65]; int sidLen, havePub = 0;
    unsigned char *hsStart = p; int hsLen = e - p;
    FAIL_IF(p[0] != 1);
    p += 4; p += 2; p += 32;
    sidLen = *p++; FAIL_IF(sidLen > 32); memcpy(sid, p, sidLen); p += sidLen;
    i = (p[0] << 8) | p[1]; p += 2;
    p += i;
    p += 1 + p[0];
    i = (p[0] << 8) | p[1]; p += 2; FAIL_IF(p + i != e);
    while (p < e)
    {
        int t = (p[0] << 8) | p[1], ll = (p[2] << 8) | p[3]; p += 4;
        if (t == 51)
        {
            unsigned char *q = p + 2, *qe = p + ll;
            while (q < qe)
            {
                int g = (q[0] << 8) | q[1], gl = (q[2] << 8) | q[3]; q += 4;
                if (g == 23 && gl == 65) { memcpy(cpub, q, 65); havePub = 1; }
                q += gl;
            }
        }
        p += ll;
    }
    FAIL_IF(!havePub);

    /* ---- attacker: choose suite, ECDHE ---- */
    if (useSuite == 0x1302) { H = 48; HM = HMAC_SHA384; KL = 32; } else { H = 32; HM = HMAC_SHA256; KL = 16; }
    FAIL_IF(getEccParamById(23, &curve) < 0);
    FAIL_IF(psEccInitKey(NULL, &mine, curve) < 0); haveMine = 1;
    FAIL_IF(psEccGenKey(NULL, &mine, curve, NULL) < 0);
    l = 65; FAIL_IF(!(psEccX963ExportKey(NULL, &mine, mypub, &l) >= 0 && l == 65));
    FAIL_IF(psEccInitKey(NULL, &peer, curve) < 0); havePeer = 1;
    FAIL_IF(psEccX963ImportKey(NULL, cpub, 65, &peer, curve) < 0);
    l = 32; FAIL_IF(!(psEccGenSharedSecret(NULL, &mine, &peer, ecdhe, &l, NULL) >= 0 && l == 32));

    /* ---- ServerHello ---- */
    {
    unsigned char sh[512], *s = sh + 5 + 4, *extLenPos; int shBody, shRec;
    *s++ = 3; *s++ = 3;
    for (i = 0; i < 32; i++) *s++ = 0x50 + i;
    *s++ = sidLen; memcpy(s, sid, sidLen); s += sidLen;
    *s++ = useSuite >> 8; *s++ = useSuite & 0xff;
    *s++ = 0;
    extLenPos = s; s += 2;
    *s++ = 0; *s++ = 43; *s++ = 0; *s++ = 2; *s++ = 3; *s++ = 4;
    *s++ = 0; *s++ = 51; *s++ = 0; *s++ = 69; *s++ = 0; *s++ = 23; *s++ = 0; *s++ = 65; memcpy(s, mypub, 65); s += 65;
    if (sendPskExt) { *s++ = 0; *s++ = 41; *s++ = 0; *s++ = 2; *s++ = 0; *s++ = (unsigned char) selectedIdentity; }
    i = s - extLenPos - 2; extLenPos[0] = i >> 8; extLenPos[1] = i & 0xff;
    shBody = s - (sh + 9);
    sh[5] = 2; sh[6] = 0; sh[7] = shBody >> 8; sh[8] = shBody & 0xff;
    shRec = shBody + 4;
    sh[0] = 22; sh[1] = 3; sh[2] = 3; sh[3] = shRec >> 8; sh[4] = shRec & 0xff;

    memcpy(tr, hsStart, hsLen); trLen = hsLen;
    memcpy(tr + trLen, sh + 5, shRec); trLen += shRec;

    /* ---- key schedule, without any PSK ---- */
    {
    unsigned char zeros[48] = { 0 }, early[48], derived[48], hs[48], chs[48], shs[48], th[48], emptyH[48];
    unsigned char master[48], sap[48], cap[48], fk[48], vd[48];
    unsigned char flight[2048]; int fl = 0;
    unsigned char ee[6] = { 8, 0, 0, 2, 0, 0 };
    unsigned char fin[4 + 48];
    tk_t sHs, sAp;

    if (earlyMode == 0) memset(early, 0, sizeof(early)); else extract(zeros, zeros, H, early);
    hashEmpty(emptyH);
    expandLabel(early, "derived", emptyH, H, H, derived);
    extract(derived, ecdhe, 32, hs);
    hashTr(th);
    expandLabel(hs, "c hs traffic", th, H, H, chs);
    expandLabel(hs, "s hs traffic", th, H, H, shs);
    trafficKeys(shs, &sHs);

    memcpy(flight, sh, 5 + shRec); fl = 5 + shRec;
    /* EncryptedExtensions: empty */
    memcpy(tr + trLen, ee, 6); trLen += 6;
    fl += protect(&sHs, 22, ee, 6, flight + fl);
    /* Finished (no Certificate, no CertificateVerify) */
    expandLabel(shs, "finished", NULL, 0, H, fk);
    hashTr(th); hmac(fk, th, H, vd);
    fin[0] = 20; fin[1] = 0; fin[2] = 0; fin[3] = H; memcpy(fin + 4, vd, H);
    memcpy(tr + trLen, fin, 4 + H); trLen += 4 + H;
    fl += protect(&sHs, 22, fin, 4 + H, flight + fl);
    /* application secrets */
    expandLabel(hs, "derived", emptyH, H, H, derived);
    extract(derived, zeros, H, master);
    hashTr(th);
    expandLabel(master, "s ap traffic", th, H, H, sap);
    expandLabel(master, "c ap traffic", th, H, H, cap);
    trafficKeys(sap, &sAp);
    FAIL_IF(g_fault != 0);

    /* ---- deliver to the client ---- */
    i = matrixSslGetReadbufOfSize(ssl, fl, &buf); FAIL_IF(i < fl);
    memcpy(buf, flight, fl);
    rc = matrixSslReceivedData(ssl, fl, &pt, &ptLen);
    if (rc == MATRIXSSL_REQUEST_SEND)
    {
        int n = matrixSslGetOutdata(ssl, &out);
        if (n == 7 && out[0] == 21) *alertDesc = out[6];
        rc = matrixSslSentData(ssl, n);
    }
    if (matrixSslHandshakeIsComplete(ssl))
    {
        unsigned char rec[256]; const char *msg = "FORGED-BY-ATTACKER";
        int n = protect(&sAp, 23, (const unsigned char *) msg, strlen(msg), rec);
        result |= 1;
        i = matrixSslGetReadbufOfSize(ssl, n, &buf); FAIL_IF(i < n);
        memcpy(buf, rec, n);
        rc = matrixSslReceivedData(ssl, n, &pt, &ptLen);
        if (rc == MATRIXSSL_APP_DATA) result |= 2;
    }
    }}}
done:
    if (haveMine) psEccClearKey(&mine);
    if (havePeer) psEccClearKey(&peer);
    if (ssl) matrixSslDeleteSession(ssl);
    if (keys) matrixSslDeleteKeys(keys);
    *faultLine = g_fault;
    return result;
}
