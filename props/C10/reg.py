"""C10 registry entry (loaded by bin/registry.py)."""
WRAPS = ['psGetEntropy', 'psGetTime', 'psDiffMsecs', 'psCompareTime', 'time']
_SRC = ['props/C10/interop.cc', 'harness/c10_ossl_peer.cc', 'harness/wraps.c']
PROP = dict(
    level='exploration',
    level_text='Differential interoperability testing against an independent implementation (in-process OpenSSL 3.0 over memory BIOs): '
               'generated sample of the mutually supported parameter matrix, every case a complete session (handshake, data both ways, closure, '
               'optionally a second resumed session). Finds wire-format / key-schedule / transcript divergences that self-tests cannot see; '
               'proves nothing beyond the explored tuples.',
    level_note='Trusted: OpenSSL 3.0 as the reference for RFC 5246/8446/5077/7627 wire behaviour at security level 0; the harness follows the documented '
               'caller contract of matrixsslApi.c; entropy and clock of MatrixSSL are pinned by ld --wrap, OpenSSL draws from a seeded RAND_METHOD '
               '(replays are deterministic) but reads the real clock (PKI valid 2020-2045).',
    technique='property-based differential testing against an independent TLS stack (capability table probed from both libraries, tuples generated from it)',
    rule='case = (role assignment, version in {TLS1.1,1.2,1.3,DTLS1.0,DTLS1.2}, suite, server identity, client-auth identity or none, key-exchange group, steered signature scheme, '
         'resumption in {none, session-id, RFC5077 ticket, TLS1.3 PSK, TLS1.3 PSK after HelloRetryRequest}, TLS1.3 PSK key-exchange mode in {psk_dhe_ke, psk_ke} (psk_ke: forced at the OpenSSL server by SSL_OP_ALLOW_NO_DHE_KEX + no shared group on the resumed connection and confirmed from the ServerHello; offered by the OpenSSL client), HelloRetryRequest without resumption, EMS setting pair, '
         'OpenSSL ticket/EtM/max-fragment/root-in-chain options, MatrixSSL receive chunking and send piece size, DTLS path MTU and cookie exchange, payload schedule per connection '
         '(in ~4% of the cases plus 257..700 small records in one direction under one key set, a record back every 50..199; c10_interop_long (thorough): 65537..66560 one-byte records, i.e. 1- and 2-byte carries of the record sequence number), close initiator); '
         'non-trivial = a completed handshake with at least one payload delivered intact in each direction; distinct by the full parameter tuple per connection',
    assumptions=['KeyUpdate is outside the domain (MatrixSSL has no KeyUpdate code; C10_KEYUPDATE=1 demonstrates the unexpected_message reaction), so the many-records class stays under one traffic key',
                 'DTLS is driven over a loss-free, in-order datagram link (retransmission/reordering belong to C16); path MTU >= 576 for a MatrixSSL server and >= 1000 for a MatrixSSL client because MatrixSSL fragments Certificate messages only (DTLS_MUST_FRAG otherwise)',
                 'a MatrixSSL TLS<=1.2 server is not given a certificate chain signed with RSASSA-PSS (it only maps the legacy {hash,sig} pairs of signature_algorithms and declines, which RFC 5246 permits)',
                 'TLS 1.3 psk_ke with a MatrixSSL server is outside the negotiable matrix: an OpenSSL 3.0 client lists psk_dhe_ke whenever it lists psk_ke and the MatrixSSL server then takes psk_dhe_ke (counted as tls13-psk-ke-offered-by-openssl-client:...); external TLS 1.3 PSKs are not generated (tickets only)',
                 'zero-length application writes are not generated (both APIs reject or ignore them)',
                 'OpenSSL clients run with SSL_OP_LEGACY_SERVER_CONNECT because the default MatrixSSL build (USE_REHANDSHAKING off) does not answer RFC 5746'],
    targets=[dict(name='c10_interop', src=_SRC, libs=['-lssl', '-lcrypto'], wraps=WRAPS, env={'VERIF_DIR': '/verif'},
                  quick=dict(cases=1440, secs=100), thorough=dict(cases=60000, secs=1080)),
             # every case of this build carries > 65536 records in one direction (about 1.5 s per case); thorough tier only
             dict(name='c10_interop_long', src=_SRC, defs=['C10_LONG=1'], libs=['-lssl', '-lcrypto'], wraps=WRAPS, env={'VERIF_DIR': '/verif'},
                  thorough=dict(cases=320, secs=300))],
)
