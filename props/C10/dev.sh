#!/bin/bash
# Developer helper: build the C10 target directly against the cached sanitizer build of /repo (or $VERIF_REPO) and run it.
# usage: props/C10/dev.sh build | run <args...>
set -e
cd /verif
LIB=$(python3 -c "import sys; sys.path.insert(0,'bin'); import vflib; print(vflib.mxbuild('asan'))")
OUT=${C10_OUT:-/var/tmp/c10-dev}
mkdir -p $OUT
INC="-I$LIB/include -I$LIB/include/core/config -I$LIB/include/core/include -I$LIB/include/core/osdep/include -I$LIB/include/core/include/sfzcl -I$LIB/include/matrixssl -I$LIB/include/crypto -I/verif/engine -I/verif/harness"
SAN="-g -O1 -fno-omit-frame-pointer -fsanitize=address,undefined"
if [ "$1" = build ]; then
  clang++ -std=gnu++17 $SAN -DMATRIXSSL_VERIF ${C10_DEFS:-} $INC -c props/C10/interop.cc -o $OUT/interop.o &
  clang++ -std=gnu++17 $SAN -DMATRIXSSL_VERIF $INC -c harness/c10_ossl_peer.cc -o $OUT/peer.o &
  clang -std=gnu99 $SAN -DMATRIXSSL_VERIF $INC -c harness/wraps.c -o $OUT/wraps.o &
  wait
  clang++ $SAN $OUT/interop.o $OUT/peer.o $OUT/wraps.o -Wl,--wrap=psGetEntropy -Wl,--wrap=psGetTime -Wl,--wrap=psDiffMsecs -Wl,--wrap=psCompareTime -Wl,--wrap=time \
    $LIB/lib/libssl_s.a $LIB/lib/libcrypt_s.a $LIB/lib/libcore_s.a -lssl -lcrypto -lpthread -o $OUT/c10_interop
  echo built $OUT/c10_interop
else
  shift || true
  export ASAN_OPTIONS='detect_leaks=1:abort_on_error=0:allocator_may_return_null=1:detect_stack_use_after_return=0:symbolize=1:handle_abort=1'
  export UBSAN_OPTIONS="halt_on_error=1:print_stacktrace=1:suppressions=/verif/engine/ubsan.supp"
  export LSAN_OPTIONS='exitcode=23:print_suppressions=0'
  export VERIF_DIR=/verif
  exec $OUT/c10_interop "$@"
fi
