// C10: wire behaviour conforms to the RFCs - MatrixSSL interoperates with an independent stack (OpenSSL 3.0).
//
// One case = one parameter tuple drawn from the *mutually supported* matrix (capability table built at start-up
// by asking both libraries, see build_caps()):
//   role assignment x version x suite x server identity x client-auth identity x key-exchange group x signature scheme
//   x resumption kind x TLS 1.3 PSK key-exchange mode (psk_dhe_ke / psk_ke) x EMS setting x record/receive chunking x payload schedule x close initiator.
// The peer derives every key, MAC and transcript hash with its own code, so a symmetric mistake in MatrixSSL
// (PRF label, transcript range, AAD layout, nonce, Finished, signature input) cannot cancel out.
#include "mxh.h"
#include "c10_ossl_peer.h"
extern "C" {
#include "crypto/cryptoApi.h"
}
using namespace vf; using namespace mxh;
using c10::OsslCtx; using c10::OsslConn; using c10::OsslCtxConfig; using c10::OsslSessionPtr;

#ifndef C10_DTLS
# define C10_DTLS 1
#endif
// C10_LONG=1 builds the thorough-only target in which every case carries 65537..66560 one-byte records in one direction (2-byte carry of the
// record sequence number); the normal target draws 257..700 small records (1-byte carry) in about 4% of the cases.
#ifndef C10_LONG
# define C10_LONG 0
#endif

// ------------------------------------------------------------------ static description of the candidate matrix
enum Kx { KX_RSA, KX_ECDHE_RSA, KX_ECDHE_ECDSA, KX_ECDH_ECDSA, KX_ECDH_RSA, KX_PSK, KX_TLS13 };
struct SuiteD { uint16_t id; const char *std_name; const char *ossl; int kx; bool tls12_only; };
static const SuiteD ALL_SUITES[] = {
    { 0xC02B, "ECDHE_ECDSA_AES128_GCM_SHA256", "ECDHE-ECDSA-AES128-GCM-SHA256", KX_ECDHE_ECDSA, true },
    { 0xC02C, "ECDHE_ECDSA_AES256_GCM_SHA384", "ECDHE-ECDSA-AES256-GCM-SHA384", KX_ECDHE_ECDSA, true },
    { 0xC009, "ECDHE_ECDSA_AES128_CBC_SHA", "ECDHE-ECDSA-AES128-SHA", KX_ECDHE_ECDSA, false },
    { 0xC00A, "ECDHE_ECDSA_AES256_CBC_SHA", "ECDHE-ECDSA-AES256-SHA", KX_ECDHE_ECDSA, false },
    { 0xC023, "ECDHE_ECDSA_AES128_CBC_SHA256", "ECDHE-ECDSA-AES128-SHA256", KX_ECDHE_ECDSA, true },
    { 0xC024, "ECDHE_ECDSA_AES256_CBC_SHA384", "ECDHE-ECDSA-AES256-SHA384", KX_ECDHE_ECDSA, true },
    { 0xC02F, "ECDHE_RSA_AES128_GCM_SHA256", "ECDHE-RSA-AES128-GCM-SHA256", KX_ECDHE_RSA, true },
    { 0xC030, "ECDHE_RSA_AES256_GCM_SHA384", "ECDHE-RSA-AES256-GCM-SHA384", KX_ECDHE_RSA, true },
    { 0xC013, "ECDHE_RSA_AES128_CBC_SHA", "ECDHE-RSA-AES128-SHA", KX_ECDHE_RSA, false },
    { 0xC014, "ECDHE_RSA_AES256_CBC_SHA", "ECDHE-RSA-AES256-SHA", KX_ECDHE_RSA, false },
    { 0xC027, "ECDHE_RSA_AES128_CBC_SHA256", "ECDHE-RSA-AES128-SHA256", KX_ECDHE_RSA, true },
    { 0xC028, "ECDHE_RSA_AES256_CBC_SHA384", "ECDHE-RSA-AES256-SHA384", KX_ECDHE_RSA, true },
    { 0xCCA9, "ECDHE_ECDSA_CHACHA20_POLY1305", "ECDHE-ECDSA-CHACHA20-POLY1305", KX_ECDHE_ECDSA, true },
    { 0xCCA8, "ECDHE_RSA_CHACHA20_POLY1305", "ECDHE-RSA-CHACHA20-POLY1305", KX_ECDHE_RSA, true },
    { 0x002F, "RSA_AES128_CBC_SHA", "AES128-SHA", KX_RSA, false },
    { 0x0035, "RSA_AES256_CBC_SHA", "AES256-SHA", KX_RSA, false },
    { 0x003C, "RSA_AES128_CBC_SHA256", "AES128-SHA256", KX_RSA, true },
    { 0x003D, "RSA_AES256_CBC_SHA256", "AES256-SHA256", KX_RSA, true },
    { 0x009C, "RSA_AES128_GCM_SHA256", "AES128-GCM-SHA256", KX_RSA, true },
    { 0x009D, "RSA_AES256_GCM_SHA384", "AES256-GCM-SHA384", KX_RSA, true },
    { 0x000A, "RSA_3DES_EDE_CBC_SHA", "DES-CBC3-SHA", KX_RSA, false },
    { 0x0033, "DHE_RSA_AES128_CBC_SHA", "DHE-RSA-AES128-SHA", KX_RSA, false },
    { 0x008C, "PSK_AES128_CBC_SHA", "PSK-AES128-CBC-SHA", KX_PSK, false },
    { 0x008D, "PSK_AES256_CBC_SHA", "PSK-AES256-CBC-SHA", KX_PSK, false },
    { 0x00AE, "PSK_AES128_CBC_SHA256", "PSK-AES128-CBC-SHA256", KX_PSK, true },
    { 0x00AF, "PSK_AES256_CBC_SHA384", "PSK-AES256-CBC-SHA384", KX_PSK, true },
    { 0xC004, "ECDH_ECDSA_AES128_CBC_SHA", "ECDH-ECDSA-AES128-SHA", KX_ECDH_ECDSA, false },
    { 0xC005, "ECDH_ECDSA_AES256_CBC_SHA", "ECDH-ECDSA-AES256-SHA", KX_ECDH_ECDSA, false },
    { 0xC025, "ECDH_ECDSA_AES128_CBC_SHA256", "ECDH-ECDSA-AES128-SHA256", KX_ECDH_ECDSA, true },
    { 0xC026, "ECDH_ECDSA_AES256_CBC_SHA384", "ECDH-ECDSA-AES256-SHA384", KX_ECDH_ECDSA, true },
    { 0xC02D, "ECDH_ECDSA_AES128_GCM_SHA256", "ECDH-ECDSA-AES128-GCM-SHA256", KX_ECDH_ECDSA, true },
    { 0xC02E, "ECDH_ECDSA_AES256_GCM_SHA384", "ECDH-ECDSA-AES256-GCM-SHA384", KX_ECDH_ECDSA, true },
    { 0xC00E, "ECDH_RSA_AES128_CBC_SHA", "ECDH-RSA-AES128-SHA", KX_ECDH_RSA, false },
    { 0xC00F, "ECDH_RSA_AES256_CBC_SHA", "ECDH-RSA-AES256-SHA", KX_ECDH_RSA, false },
    { 0xC029, "ECDH_RSA_AES128_CBC_SHA256", "ECDH-RSA-AES128-SHA256", KX_ECDH_RSA, true },
    { 0xC02A, "ECDH_RSA_AES256_CBC_SHA384", "ECDH-RSA-AES256-SHA384", KX_ECDH_RSA, true },
    { 0xC031, "ECDH_RSA_AES128_GCM_SHA256", "ECDH-RSA-AES128-GCM-SHA256", KX_ECDH_RSA, true },
    { 0xC032, "ECDH_RSA_AES256_GCM_SHA384", "ECDH-RSA-AES256-GCM-SHA384", KX_ECDH_RSA, true },
    { 0x1301, "TLS13_AES128_GCM_SHA256", "TLS_AES_128_GCM_SHA256", KX_TLS13, false },
    { 0x1302, "TLS13_AES256_GCM_SHA384", "TLS_AES_256_GCM_SHA384", KX_TLS13, false },
    { 0x1303, "TLS13_CHACHA20_POLY1305_SHA256", "TLS_CHACHA20_POLY1305_SHA256", KX_TLS13, false },
};
static const size_t N_ALL_SUITES = sizeof ALL_SUITES / sizeof ALL_SUITES[0];

struct GroupD { uint16_t id; const char *name; const char *ossl; int32 ecflag; };
static const GroupD ALL_GROUPS[] = {
    { 0x0017, "P-256", "P-256", IS_SECP256R1 }, { 0x0018, "P-384", "P-384", IS_SECP384R1 }, { 0x0019, "P-521", "P-521", IS_SECP521R1 },
    { 0x001d, "X25519", "X25519", 0 }, { 0x0100, "ffdhe2048", "ffdhe2048", 0 }, { 0x0101, "ffdhe3072", "ffdhe3072", 0 },
    { 0x001e, "X448", "X448", 0 }, { 0x0015, "P-224", "P-224", IS_SECP224R1 },
};
static const size_t N_ALL_GROUPS = sizeof ALL_GROUPS / sizeof ALL_GROUPS[0];

enum KeyT { KT_RSA, KT_EC256, KT_EC384, KT_EC521, KT_ED25519, KT_RSAPSS };
struct SigD { uint16_t id; const char *name; const char *ossl; int keyt; bool tls13_ok; bool tls12_ok; };
static const SigD ALL_SIGS[] = {
    { 0x0401, "rsa_pkcs1_sha256", "rsa_pkcs1_sha256", KT_RSA, false, true },
    { 0x0501, "rsa_pkcs1_sha384", "rsa_pkcs1_sha384", KT_RSA, false, true },
    { 0x0601, "rsa_pkcs1_sha512", "rsa_pkcs1_sha512", KT_RSA, false, true },
    { 0x0201, "rsa_pkcs1_sha1", "rsa_pkcs1_sha1", KT_RSA, false, true },
    { 0x0804, "rsa_pss_rsae_sha256", "rsa_pss_rsae_sha256", KT_RSA, true, true },
    { 0x0805, "rsa_pss_rsae_sha384", "rsa_pss_rsae_sha384", KT_RSA, true, true },
    { 0x0806, "rsa_pss_rsae_sha512", "rsa_pss_rsae_sha512", KT_RSA, true, true },
    { 0x0809, "rsa_pss_pss_sha256", "rsa_pss_pss_sha256", KT_RSAPSS, true, true },
    { 0x080a, "rsa_pss_pss_sha384", "rsa_pss_pss_sha384", KT_RSAPSS, true, true },
    { 0x080b, "rsa_pss_pss_sha512", "rsa_pss_pss_sha512", KT_RSAPSS, true, true },
    { 0x0403, "ecdsa_secp256r1_sha256", "ecdsa_secp256r1_sha256", KT_EC256, true, true },
    { 0x0503, "ecdsa_secp384r1_sha384", "ecdsa_secp384r1_sha384", KT_EC384, true, true },
    { 0x0603, "ecdsa_secp521r1_sha512", "ecdsa_secp521r1_sha512", KT_EC521, true, true },
    { 0x0203, "ecdsa_sha1", "ECDSA+SHA1", -1, false, true },
    { 0x0807, "ed25519", "ed25519", KT_ED25519, true, true },
};
static const size_t N_ALL_SIGS = sizeof ALL_SIGS / sizeof ALL_SIGS[0];

// identities: server leaf, client leaf (may be absent), both chains end in one of the four roots of ca_all.pem
struct IdentD { const char *name; int keyt; const char *srv; const char *cli; bool c10dir; const char *chain_sig; int ec_group /* index into ALL_GROUPS or -1 */; };
static const IdentD ALL_IDENTS[] = {
    { "ec256", KT_EC256, "srv_ec", "cli_ec", false, "ecdsa_secp256r1_sha256", 0 },
    { "rsa2048", KT_RSA, "srv_rsa", "cli_rsa", false, "rsa_pkcs1_sha256", -1 },
    { "ec384", KT_EC384, "srv_ec384", "cli_ec384", true, "ecdsa_secp384r1_sha384", 1 },
    { "ec521", KT_EC521, "srv_ec521", "cli_ec521", true, "ecdsa_secp256r1_sha256", 2 },
    { "rsa3072", KT_RSA, "srv_rsa3072", "cli_rsa3072", true, "rsa_pkcs1_sha384", -1 },
    { "rsa2048-pss-signed-cert", KT_RSA, "srv_rsa_pssig", nullptr, true, "rsa_pss_rsae_sha256", -1 },
    { "ed25519", KT_ED25519, "srv_ed25519", "cli_ed25519", true, "ed25519", -1 },
    { "rsapss-key", KT_RSAPSS, "srv_rsapss", "cli_rsapss", true, "rsa_pkcs1_sha256", -1 },
};
static const size_t N_IDENTS = sizeof ALL_IDENTS / sizeof ALL_IDENTS[0];

static std::string ident_path(const IdentD &d, bool srv, bool key) {
    std::string base = verif_dir() + (d.c10dir ? "/props/C10/pki/" : "/pki/");
    return base + (srv ? d.srv : d.cli) + (key ? ".key" : ".pem");
}
static std::string ca_all_path() { return verif_dir() + "/props/C10/pki/ca_all.pem"; }
static const char *PSK_ID = "verifpsk";
static const unsigned char PSK_KEY[16] = { 1, 2, 3, 4, 5, 6, 7, 8, 9, 10, 11, 12, 13, 14, 15, 16 };

// ------------------------------------------------------------------ capability table
struct Caps {
    bool ver[NVER] = { false, false, false, false, false };
    std::vector<int> suites[NVER];          // indices into ALL_SUITES usable at that version by BOTH stacks
    std::vector<int> groups13, groups12;    // indices into ALL_GROUPS (TLS 1.3 key_share groups; TLS<=1.2 ECDHE curves)
    bool sig[32] = { false };               // ALL_SIGS index -> both stacks have it
    bool ident_srv[16] = { false }, ident_cli[16] = { false };
    sslKeys_t *mx_srv[16] = { 0 }, *mx_cli[16] = { 0 }, *mx_cli_noid = nullptr, *mx_srv_psk = nullptr, *mx_cli_psk = nullptr;
    int no_common_group = -1;               // ALL_GROUPS index of a TLS 1.3 group that OpenSSL has and MatrixSSL does not (used to force psk_ke), -1 = none
    bool rfc5746 = false;                   // MatrixSSL server answers the renegotiation_info SCSV (needs USE_REHANDSHAKING); else OpenSSL clients need SSL_OP_LEGACY_SERVER_CONNECT
    std::string text;                       // human-readable table incl. exclusions and reasons
};
static Caps G;

static int wire_of(int v) { switch (v) { case TLS11: return c10::W_TLS11; case TLS12: return c10::W_TLS12; case TLS13: return c10::W_TLS13; case DTLS10: return c10::W_DTLS10; default: return c10::W_DTLS12; } }
static int ver_of_wire(int w) { switch (w) { case c10::W_TLS11: return TLS11; case c10::W_TLS12: return TLS12; case c10::W_TLS13: return TLS13; case c10::W_DTLS10: return DTLS10; case c10::W_DTLS12: return DTLS12; default: return -1; } }

// Does a MatrixSSL client restricted to (version, suite) put that suite id into its ClientHello?
static bool mx_advertises(int v, uint16_t suite, sslKeys_t *keys) {
    Endpoint e; Config c; c.client = true; c.versions = { v }; c.suites = { suite }; c.keys = keys;
    if (e.open(c) < 0) return false;
    Bytes w = is_dtls(v) ? (e.dgram_out.empty() ? Bytes() : e.dgram_out.front()) : e.wire_out;
    for (size_t i = 0; i + 1 < w.size(); i++) if (w[i] == (suite >> 8) && w[i + 1] == (suite & 0xff)) return true;
    return false;
}

static int load_keys(sslKeys_t **k, const std::string &cert, const std::string &key, const std::string &ca, bool tickets) {
    if (matrixSslNewKeys(k, NULL) < 0) return -1;
    int rc = matrixSslLoadKeys(*k, cert.empty() ? NULL : cert.c_str(), key.empty() ? NULL : key.c_str(), NULL, ca.empty() ? NULL : ca.c_str(), NULL);
    if (rc < 0) { matrixSslDeleteKeys(*k); *k = nullptr; return rc; }
    if (tickets) {
        static const unsigned char name[16] = { 'c', '1', '0', '-', 't', 'i', 'c', 'k', 'e', 't', '-', 'k', 'e', 'y', '0', '1' };
        unsigned char sym[32], mac[32];
        for (int i = 0; i < 32; i++) { sym[i] = (unsigned char) (0x40 + i); mac[i] = (unsigned char) (0x90 + i); }
        if (matrixSslLoadSessionTicketKeys(*k, name, sym, 32, mac, 32) < 0) return -2;
    }
    return 0;
}

static void build_caps() {
    std::string &T = G.text;
    T += "peer: " + c10::ossl_version_text() + " (security level 0)\n";
    std::string ca = ca_all_path();
    // identities first (needed for the suite probe)
    for (size_t i = 0; i < N_IDENTS; i++) {
        const IdentD &d = ALL_IDENTS[i];
        int rs = load_keys(&G.mx_srv[i], ident_path(d, true, false), ident_path(d, true, true), ca, true);
        std::string err;
        OsslCtxConfig oc; oc.server = true; oc.cert_file = ident_path(d, true, false); oc.key_file = ident_path(d, true, true); oc.ca_file = ca;
        bool os = OsslCtx::create(oc, &err) != nullptr;
        G.ident_srv[i] = rs == 0 && os;
        T += fmt("identity %-24s server: matrixssl-load=%d openssl=%d", d.name, rs, (int) os);
        if (d.cli) {
            int rc = load_keys(&G.mx_cli[i], ident_path(d, false, false), ident_path(d, false, true), ca, false);
            oc.server = false; oc.cert_file = ident_path(d, false, false); oc.key_file = ident_path(d, false, true);
            bool ocl = OsslCtx::create(oc, &err) != nullptr;
            G.ident_cli[i] = rc == 0 && ocl;
            T += fmt("  client: matrixssl-load=%d openssl=%d", rc, (int) ocl);
        } else T += "  client: (no client leaf)";
        T += (G.ident_srv[i] ? "  -> IN\n" : "  -> EXCLUDED (one side cannot load it)\n");
    }
    if (load_keys(&G.mx_cli_noid, "", "", ca, false) < 0) { fprintf(stderr, "[c10] cannot load CA bundle\n"); abort(); }
    if (matrixSslNewKeys(&G.mx_srv_psk, NULL) < 0 || matrixSslNewKeys(&G.mx_cli_psk, NULL) < 0 ||
        matrixSslLoadPsk(G.mx_srv_psk, PSK_KEY, 16, (const unsigned char *) PSK_ID, 8) < 0 || matrixSslLoadPsk(G.mx_cli_psk, PSK_KEY, 16, (const unsigned char *) PSK_ID, 8) < 0) {
        fprintf(stderr, "[c10] cannot load PSK\n"); abort();
    }
    // versions and suites
    for (int v = 0; v < NVER; v++) {
        if (is_dtls(v) && !C10_DTLS) { T += fmt("version %-8s not generated (DTLS transport disabled in this build)\n", ver_name(v)); continue; }
        // matrixSslTlsVersionRangeSupported() only knows the TLS versions; for DTLS the ClientHello probe below decides
        bool mxv = is_dtls(v) ? true : matrixSslTlsVersionRangeSupported(ver_bit(v), ver_bit(v)) == PS_TRUE;
        std::string in, out;
        for (size_t s = 0; s < N_ALL_SUITES; s++) {
            const SuiteD &d = ALL_SUITES[s];
            if ((d.kx == KX_TLS13) != (v == TLS13)) continue;
            if (d.tls12_only && (v == TLS11 || v == DTLS10)) continue;
            sslKeys_t *k = d.kx == KX_PSK ? G.mx_cli_psk : G.mx_cli_noid;
            bool mx = mxv && mx_advertises(v, d.id, k);
            bool os = OsslCtx::supports_cipher(v == TLS13, d.ossl, wire_of(v), d.kx == KX_PSK);
            if (mx && os) { G.suites[v].push_back((int) s); in += std::string(" ") + d.std_name; }
            else if (mx || os) out += fmt(" %s(%s)", d.std_name, mx ? "OpenSSL lacks it" : "MatrixSSL config lacks it");
        }
        G.ver[v] = mxv && !G.suites[v].empty();
        T += fmt("version %-8s matrixssl=%d mutual-suites=%zu:%s\n", ver_name(v), (int) mxv, G.suites[v].size(), in.c_str());
        if (!out.empty()) T += fmt("version %-8s one-sided suites (excluded):%s\n", ver_name(v), out.c_str());
    }
    // groups
    for (size_t g = 0; g < N_ALL_GROUPS; g++) {
        const GroupD &d = ALL_GROUPS[g];
        bool mx13 = psIsGroupSupported(d.id) == PS_TRUE;
        bool os = OsslCtx::supports_group(d.ossl);
        // TLS<=1.2 ECDHE uses the NIST curves only in MatrixSSL (ecFlags); OpenSSL would also do X25519 there
        bool mx12 = d.ecflag != 0 && mx13;
        if (mx13 && os) G.groups13.push_back((int) g);
        if (mx12 && os) G.groups12.push_back((int) g);
        T += fmt("group %-10s matrixssl(1.3 key_share)=%d matrixssl(<=1.2 ECDHE)=%d openssl=%d\n", d.name, (int) mx13, (int) mx12, (int) os);
        if (os && !mx13 && d.id != 0x0015 /* P-224 is not a TLS 1.3 group */ && G.no_common_group < 0) G.no_common_group = (int) g;
    }
    T += "tls13 psk_ke, MatrixSSL client x OpenSSL server: IN (the client always offers psk_dhe_ke and psk_ke; an OpenSSL 3.0 server takes psk_ke when SSL_OP_ALLOW_NO_DHE_KEX is set and\n"
         "      no (EC)DHE group is shared, so the resumed connection's server is restricted to " + std::string(G.no_common_group >= 0 ? ALL_GROUPS[G.no_common_group].name : "a group the client does not list") + ")\n";
    T += "tls13 psk_ke, OpenSSL client x MatrixSSL server: offered (SSL_OP_ALLOW_NO_DHE_KEX) but OUTSIDE the negotiable matrix: an OpenSSL 3.0 client always lists psk_dhe_ke too and\n"
         "      selectKeyExchangeMode() (tls13Encode.c) takes psk_dhe_ke whenever it is listed (HelloRetryRequest if the share is unusable); such cases are counted, not asserted\n";
    // signature schemes
    for (size_t i = 0; i < N_ALL_SIGS; i++) {
        const SigD &d = ALL_SIGS[i];
        bool mx = psIsSigAlgSupported(d.id, 0) == PS_TRUE;
        bool os = OsslCtx::supports_sigalg(d.ossl);
        G.sig[i] = mx && os;
        T += fmt("sigalg %-24s matrixssl=%d openssl=%d\n", d.name, (int) mx, (int) os);
    }
}

// ------------------------------------------------------------------ case description
enum Resume { R_NONE, R_SID, R_TICKET, R_PSK13, R_PSK13_HRR, R_N };
static const char *resume_name[] = { "none", "session-id", "rfc5077-ticket", "tls13-psk", "tls13-psk+hrr" };

struct Case {
    bool mx_client;
    int ver;
    int suite;              // ALL_SUITES index
    int sident;             // ALL_IDENTS index (-1 = PSK)
    bool cauth; int cident;
    int group;              // ALL_GROUPS index (-1 = not applicable)
    int hrr_first;          // ALL_GROUPS index of the client's first (rejected) key_share group when an HRR is forced, else -1
    int ssig, csig;         // ALL_SIGS index the signer is steered to (-1 = library defaults)
    int resume;
    bool psk_ke = false;    // TLS 1.3 resumption: aim at the PSK-only key-exchange mode (MatrixSSL client: forced at the OpenSSL server; MatrixSSL server: OpenSSL client offers both modes)
    int mx_ems;             // 0 offer, 1 require, -1 off
    bool os_ems;
    bool os_tickets;
    bool os_etm;
    bool os_send_root;      // OpenSSL appends the self-signed root to its Certificate message (RFC 5246 7.4.2: MAY be omitted)
    int os_max_frag;        // 0 default
    size_t chunk, piece;    // MatrixSSL receive chunking / SentData piece size
    bool mx_closes_first;
    int key_update;         // TLS 1.3: 0 none, 1 OpenSSL not-requested, 2 OpenSSL update-requested
    int mtu = 0;            // DTLS: path MTU configured on both sides
    bool os_cookie = false; // DTLS: OpenSSL server does the HelloVerifyRequest cookie exchange
    // "many records" payload class: many_n small records in direction many_dir on connection many_conn (-1 = none), one record the other way every
    // many_gap records; they occupy sched[many_conn][many_at .. many_at+many_len).  Sizes are 1 + (pseed + 31 i) mod many_smax.
    int many_conn = -1, many_dir = 0; size_t many_n = 0, many_smax = 1, many_gap = 0, many_at = 0, many_len = 0;
    std::vector<std::pair<int, size_t>> sched[2]; // per connection: (direction 0 = MatrixSSL->OpenSSL, 1 = OpenSSL->MatrixSSL; size)
    uint32_t pseed;
    uint64_t eseed;
    std::string str() const {
        const SuiteD &s = ALL_SUITES[suite];
        std::string p;
        for (int k = 0; k < 2; k++) {
            p += k ? " | " : "";
            for (size_t i = 0; i < sched[k].size(); i++) {
                if (k == many_conn && i == many_at) p += fmt("{many-records: %zu x %s 1..%zu bytes, one record back every %zu} ", many_n, many_dir ? "O>M" : "M>O", many_smax, many_gap);
                if (k == many_conn && i >= many_at && i < many_at + many_len) continue;
                p += fmt("%s%zu ", sched[k][i].first ? "O>M:" : "M>O:", sched[k][i].second);
            }
        }
        return fmt("%s ver=%s suite=%s srv-id=%s cauth=%s group=%s%s ssig=%s csig=%s resume=%s%s ems(mx=%d,ossl=%d) ossl(tickets=%d,etm=%d,maxfrag=%d,sends-root=%d) chunk=%zu piece=%zu close-first=%s keyupd=%d dtls(mtu=%d,ossl-cookie=%d) payloads=[%s] eseed=%llu",
                   mx_client ? "MatrixSSL-client/OpenSSL-server" : "OpenSSL-client/MatrixSSL-server", ver_name(ver), s.std_name,
                   sident >= 0 ? ALL_IDENTS[sident].name : "psk", cauth ? ALL_IDENTS[cident].name : "off", group >= 0 ? ALL_GROUPS[group].name : "-",
                   hrr_first >= 0 ? fmt("(HRR from %s)", ALL_GROUPS[hrr_first].name).c_str() : "",
                   ssig >= 0 ? ALL_SIGS[ssig].name : "default", csig >= 0 ? ALL_SIGS[csig].name : "default", resume_name[resume], psk_ke ? "(psk_ke)" : "", mx_ems, (int) os_ems,
                   (int) os_tickets, (int) os_etm, os_max_frag, (int) os_send_root, chunk, piece, mx_closes_first ? "MatrixSSL" : "OpenSSL", key_update, mtu, (int) os_cookie, p.c_str(), (unsigned long long) eseed);
    }
};

// signature schemes a key of type keyt can produce at version v, restricted to the mutual table
static std::vector<int> sigs_for(int keyt, int v) {
    std::vector<int> r;
    if (v == TLS11 || v == DTLS10) return r; // no signature_algorithms before TLS 1.2
    for (size_t i = 0; i < N_ALL_SIGS; i++) {
        const SigD &d = ALL_SIGS[i];
        if (!G.sig[i]) continue;
        if (v == TLS13 ? !d.tls13_ok : !d.tls12_ok) continue;
        bool ok = d.keyt == keyt;
        if (v != TLS13 && d.keyt >= KT_EC256 && d.keyt <= KT_EC521 && keyt >= KT_EC256 && keyt <= KT_EC521) ok = true; // TLS 1.2: ECDSA hash is free of the curve
        if (v != TLS13 && d.id == 0x0203 && keyt >= KT_EC256 && keyt <= KT_EC521) ok = true;
        if (ok) r.push_back((int) i);
    }
    return r;
}
static bool ident_ok_for(int ident, int kx, int v, bool as_client, bool mx_is_client) {
    const IdentD &d = ALL_IDENTS[ident];
    if (as_client ? !G.ident_cli[ident] : !G.ident_srv[ident]) return false;
    bool pre12 = (v == TLS11 || v == DTLS10);
    if ((d.keyt == KT_ED25519 || d.keyt == KT_RSAPSS) && v != TLS13) return false;          // MatrixSSL advertises these schemes for TLS 1.3 only
    if (pre12 && strcmp(d.chain_sig, "rsa_pss_rsae_sha256") == 0) return false;               // PSS-signed chain needs signature_algorithms
    // A MatrixSSL TLS<=1.2 *server* only maps the legacy {hash,sig} pairs of the client's signature_algorithms; with a PSS-signed chain it
    // declines (handshake_failure), which RFC 5246 7.4.2 permits.  So that identity is offered to it in TLS 1.3 only.
    if (!as_client && !mx_is_client && v != TLS13 && strcmp(d.chain_sig, "rsa_pss_rsae_sha256") == 0) return false;
    if (as_client) return true;                                                               // any client key can sign CertificateVerify
    switch (kx) {
    case KX_RSA: return d.keyt == KT_RSA;
    case KX_ECDHE_RSA: return d.keyt == KT_RSA;
    case KX_ECDHE_ECDSA: return d.keyt >= KT_EC256 && d.keyt <= KT_EC521;
    case KX_TLS13: return true;
    default: return false;
    }
}

template <class T> static const T &wpick(Tape &t, const std::vector<T> &v) { return v[t.below(v.size())]; }

static size_t draw_size(Tape &t) {
    switch (t.below(10)) {
    case 0: return 1;
    case 1: return 1 + t.below(64);
    case 2: return 1 + t.below(1500);
    case 3: return 16383;
    case 4: return 16384;
    case 5: return 16385;
    case 6: return 40000;
    case 7: return 1 + t.below(20000);
    case 8: return 2 + t.below(6);   // (0 is not in the domain: matrixSslEncodeToOutdata/GetWritebuf reject empty writes and SSL_write(0) sends nothing)
    default: return 1 + t.below(300);
    }
}

static bool g_keyupdate = false;
static Case draw_case(Tape &t) {
    Case k;
    k.eseed = t.u64();
    k.pseed = t.u32();
    k.mx_client = !t.coin();                   // zero tape: MatrixSSL client
    std::vector<int> vers; for (int v : { TLS12, TLS13, TLS11 }) if (G.ver[v]) vers.push_back(v);   // DTLS is decided by the last draws of this function
    k.ver = wpick(t, vers);
    k.suite = wpick(t, G.suites[k.ver]);
    const SuiteD &sd = ALL_SUITES[k.suite];
    // server identity
    k.sident = -1;
    if (sd.kx != KX_PSK) {
        std::vector<int> ids; for (size_t i = 0; i < N_IDENTS; i++) if (ident_ok_for((int) i, sd.kx, k.ver, false, k.mx_client)) { ids.push_back((int) i); if (i < 2) { ids.push_back((int) i); ids.push_back((int) i); } }
        k.sident = wpick(t, ids);
    }
    // client authentication
    k.cauth = sd.kx != KX_PSK && t.below(3) == 1; k.cident = 0;
    if (k.cauth) {
        std::vector<int> ids; for (size_t i = 0; i < N_IDENTS; i++) if (ALL_IDENTS[i].cli && ident_ok_for((int) i, sd.kx, k.ver, true, k.mx_client)) { ids.push_back((int) i); if (i < 2) { ids.push_back((int) i); ids.push_back((int) i); } }
        k.cident = wpick(t, ids);
    }
    // key-exchange group
    k.group = -1; k.hrr_first = -1;
    if (k.ver == TLS13) k.group = wpick(t, G.groups13);
    else if (sd.kx == KX_ECDHE_RSA || sd.kx == KX_ECDHE_ECDSA) k.group = wpick(t, G.groups12);
    // signature steering
    k.ssig = k.csig = -1;
    if (k.sident >= 0 && sd.kx != KX_RSA && t.coin()) { auto v = sigs_for(ALL_IDENTS[k.sident].keyt, k.ver); if (!v.empty()) k.ssig = wpick(t, v); }
    if (k.cauth && t.coin()) { auto v = sigs_for(ALL_IDENTS[k.cident].keyt, k.ver); if (!v.empty()) k.csig = wpick(t, v); }
    // resumption
    unsigned r = (unsigned) t.below(5);
    if (k.ver == TLS13) k.resume = r == 0 || r == 3 ? R_NONE : r == 1 ? R_PSK13 : r == 2 ? R_PSK13_HRR : R_PSK13;
    else k.resume = r == 0 || r == 3 ? R_NONE : r == 1 ? R_SID : r == 2 ? R_TICKET : R_SID;
    if (k.resume == R_PSK13_HRR) {
        std::vector<int> other; for (int g : G.groups13) if (g != k.group) other.push_back(g);
        if (other.empty()) k.resume = R_PSK13; else k.hrr_first = wpick(t, other);
    } else if (k.ver == TLS13 && t.below(6) == 1) {   // HRR without resumption as well
        std::vector<int> other; for (int g : G.groups13) if (g != k.group) other.push_back(g);
        if (!other.empty()) k.hrr_first = wpick(t, other);
    }
    // extended master secret: (mx, ossl) pairs in which neither side *requires* what the other refuses
    static const int ems_pairs[5][2] = { { 0, 1 }, { 1, 1 }, { 0, 0 }, { -1, 1 }, { -1, 0 } };
    unsigned e = (unsigned) t.below(5); k.mx_ems = ems_pairs[e][0]; k.os_ems = ems_pairs[e][1] != 0;
    if (!k.mx_client && k.mx_ems < 0) k.mx_ems = 0;   // a MatrixSSL *server* has no "disable" setting (matrixSslNewServerSession only honours > 0 = require)
    k.os_tickets = k.resume == R_TICKET ? true : k.resume == R_SID ? false : t.coin();
    k.os_etm = !t.chance(1, 4);
    k.os_send_root = t.chance(1, 4);
    k.os_max_frag = t.chance(1, 4) ? (int) t.pick(std::vector<int>{ 512, 1024, 4096, 16383 }) : 0;
    static const size_t chunks[] = { (size_t) -1, 1, 5, 64, 1000, 16384, 0 };
    k.chunk = chunks[t.below(7)]; if (k.chunk == 0) k.chunk = 1 + t.below(3000);
    k.piece = t.chance(1, 3) ? 1 + t.below(2000) : (size_t) -1;
    k.mx_closes_first = !t.coin();
    // KeyUpdate is NOT in the generated domain: this MatrixSSL has no KeyUpdate code at all (it answers unexpected_message);
    // that is a missing feature, reported separately, not a wire-format divergence.  C10_KEYUPDATE=1 demonstrates it.
    k.key_update = (k.ver == TLS13 && g_keyupdate) ? (int) t.below(3) : 0;
    int nconn = k.resume == R_NONE ? 1 : 2;
    for (int c = 0; c < nconn; c++) {
        unsigned n = 2 + (unsigned) t.below(4);
        for (unsigned i = 0; i < n; i++) {
            int dir = i < 2 ? (int) i : (int) t.below(2);   // at least one each way
            k.sched[c].push_back({ dir, draw_size(t) });
        }
    }
    // ---- DTLS (drawn last: older replay tapes, which end before this point, stay TLS cases).  A TLS 1.2 / TLS 1.1 tuple is carried over
    // to DTLS 1.2 / DTLS 1.0 when every component is also in the DTLS part of the capability table.
    if (t.below(3) == 1 && k.ver != TLS13) {
        int dv = k.ver == TLS12 ? DTLS12 : DTLS10;
        bool ok = G.ver[dv] && std::find(G.suites[dv].begin(), G.suites[dv].end(), k.suite) != G.suites[dv].end();
        unsigned m = (unsigned) t.below(5); bool ck = t.coin();
        if (ok) {
            k.ver = dv;
            // MatrixSSL fragments only Certificate messages.  Its other flight messages must fit the PMTU: ServerKeyExchange with an RSA-3072
            // signature is 514 bytes (so 576 is the smallest PMTU for a MatrixSSL server), and a MatrixSSL *client* cannot fragment its
            // ClientHello at all (matrixSslNewClientSession returns DTLS_MUST_FRAG), which with an OpenSSL ticket inside can reach ~1.3 kB
            // once the ticket carries a client certificate.  Those API-level limits define the domain here; they are reported, not tested.
            static const int mtus_srv[5] = { 1400, 1400, 1000, 576, 576 }, mtus_cli[5] = { 1400, 1400, 1000, 1400, 1000 };
            k.mtu = k.mx_client ? mtus_cli[m] : mtus_srv[m]; k.os_cookie = ck;
            if (k.mx_client && k.resume == R_TICKET && k.cauth) { k.resume = R_SID; k.os_tickets = false; }
            k.os_max_frag = 0;   // DTLS: SSL_write never splits a datagram, a smaller max_send_fragment would just make OpenSSL refuse the write
            size_t maxp = (size_t) k.mtu - 150;   // one application record per datagram, below the path MTU on both sides
            for (int c = 0; c < 2; c++) for (auto &msg : k.sched[c]) if (msg.second > maxp) msg.second = 1 + msg.second % maxp;
        }
    }
    // ---- TLS 1.3 PSK key-exchange mode of the resumed connection (drawn after everything else for the same reason; zero tape = psk_dhe_ke as before)
    if (k.ver == TLS13 && (k.resume == R_PSK13 || k.resume == R_PSK13_HRR)) k.psk_ke = t.coin();
    // ---- many records under one set of traffic keys: the record sequence number (nonce / MAC input / DTLS explicit sequence) crosses its byte carries
    if (C10_LONG || t.below(25) == 1) {
        k.many_conn = nconn == 2 ? (int) t.below(2) : 0;
        k.many_dir = (int) t.below(2);
        unsigned sc = (unsigned) t.below(3);
        if (C10_LONG) { k.many_n = 65537 + t.below(1024); k.many_smax = 1; k.many_gap = 20000 + t.below(20000); k.chunk = k.piece = (size_t) -1; }
        else { k.many_n = 257 + t.below(444); k.many_smax = sc == 0 ? 1 : sc == 1 ? 16 : 200; k.many_gap = 50 + t.below(150); }
        auto &sc_ = k.sched[k.many_conn];
        k.many_at = sc_.size();
        for (size_t i = 0; i < k.many_n; i++) {
            sc_.push_back({ k.many_dir, 1 + (k.pseed + 31 * i) % k.many_smax });
            if ((i + 1) % k.many_gap == 0) sc_.push_back({ !k.many_dir, 1 + (k.pseed + i) % 40 });
        }
        sc_.push_back({ !k.many_dir, 3 });   // the reverse direction still works afterwards
        k.many_len = sc_.size() - k.many_at;
    }
    return k;
}

// deterministic payload bytes
static Bytes payload(uint32_t seed, int conn, int idx, size_t n) {
    Bytes b(n); uint64_t x = fnv(&seed, 4) ^ ((uint64_t) conn << 40) ^ ((uint64_t) idx << 32);
    for (size_t i = 0; i < n; i++) { x = x * 6364136223846793005ULL + 1442695040888963407ULL; b[i] = (uint8_t) (x >> 56); }
    return b;
}

// ------------------------------------------------------------------ MatrixSSL certificate callback bookkeeping
static int g_cb_calls = 0, g_cb_last_alert = -1;
static std::string g_cb_info;
static int32 cert_cb(ssl_t *, psX509Cert_t *cert, int32 alert) {
    g_cb_calls++; g_cb_last_alert = alert; g_cb_info.clear();
    for (psX509Cert_t *x = cert; x; x = x->next) g_cb_info += fmt("[cn=%s issuer=%s authStatus=%d failFlags=0x%x sigAlg=%d akLen=%d skLen=%d]", x->subject.commonName ? x->subject.commonName : "?", x->issuer.commonName ? x->issuer.commonName : "?", (int) x->authStatus, (unsigned) x->authFailFlags, (int) x->sigAlgorithm, (int) x->extensions.ak.keyLen, (int) x->extensions.sk.len);
    return alert;
}

static std::string sigs_list_ossl(int first) {
    // steer to `first`, keep every mutually supported scheme behind it so that chain signatures stay acceptable
    std::string s = first >= 0 ? ALL_SIGS[first].ossl : "";
    for (size_t i = 0; i < N_ALL_SIGS; i++) if (G.sig[i] && (int) i != first) { if (!s.empty()) s += ":"; s += ALL_SIGS[i].ossl; }
    return s;
}
static std::vector<uint16_t> sigs_list_mx(int first, int ver) {
    std::vector<uint16_t> v; if (first >= 0) v.push_back(ALL_SIGS[first].id);
    for (size_t i = 0; i < N_ALL_SIGS; i++) if (G.sig[i] && (int) i != first) {
        if (ver == TLS13 && !ALL_SIGS[i].tls13_ok && !ALL_SIGS[i].tls12_ok) continue;
        v.push_back(ALL_SIGS[i].id);
    }
    return v;
}

static bool g_debug = false;
static void dump(const char *dir, const Bytes &b, bool dtls = false) {
    fprintf(stderr, "   %s %zu bytes:", dir, b.size());
    for (auto &r : parse_records(b, dtls)) fprintf(stderr, " [type %d ver %04x epoch %u seq %llu len %zu%s]", r.type, r.ver, r.epoch, (unsigned long long) r.seq, r.len,
                                                   r.type == 22 && r.epoch == 0 ? fmt(" hs=%d", b[r.off + r.hdr]).c_str() : "");
    fprintf(stderr, "\n");
}
struct Link {
    Endpoint M; std::unique_ptr<OsslConn> O;
    const Case *k = nullptr;
    bool dtls = false;
    bool step() {
        bool moved = false;
        M.pump_out(k->piece);   // (DTLS: mxh drains only when output is pending; GetOutdata on an empty buffer would mean "retransmit timer fired")
        if (dtls) { while (!M.dgram_out.empty()) { if (g_debug) dump("M>O dgram", M.dgram_out.front(), true); O->feed_dgram(M.dgram_out.front()); M.dgram_out.pop_front(); moved = true; } }
        else if (!M.wire_out.empty()) { Bytes b = M.take_wire(); if (g_debug) dump("M>O", b); O->feed(b.data(), b.size()); moved = true; }
        if (!O->failed()) { if (!O->handshake_done()) O->handshake(); if (O->handshake_done() && !O->failed()) O->read_all(); }
        if (dtls) { for (auto &d : O->take_dgrams()) { if (g_debug) dump("O>M dgram", d, true); if (M.ssl && !M.failed) { int rc = M.feed_dgram(d); if (g_debug) fprintf(stderr, "   M.feed_dgram -> rc=%d complete=%d failed=%d\n", rc, (int) M.hs_complete(), (int) M.failed); } moved = true; } }
        else { Bytes o = O->take_out(); if (!o.empty()) { if (g_debug) dump("O>M", o); if (M.ssl && !M.failed) { int rc = M.feed(o, k->chunk); if (g_debug) fprintf(stderr, "   M.feed -> rc=%d complete=%d failed=%d\n", rc, (int) M.hs_complete(), (int) M.failed); } moved = true; } }
        return moved;
    }
    void settle(int max = 400) { for (int i = 0; i < max; i++) if (!step()) break; }
};

// Does the MatrixSSL server implement RFC 5746?  (OpenSSL 3.0 clients refuse servers that do not, unless told otherwise; that is
// an OpenSSL policy, so it belongs to the capability table and must not be read as a MatrixSSL wire defect.)
static void probe_rfc5746() {
    int v = G.ver[TLS12] ? TLS12 : TLS11;
    if (!G.ver[v]) return;
    Case k{}; k.chunk = k.piece = (size_t) -1;
    for (int si : G.suites[v]) {
        const SuiteD &sd = ALL_SUITES[si];
        if (sd.kx != KX_ECDHE_ECDSA && sd.kx != KX_ECDHE_RSA && sd.kx != KX_RSA) continue;
        int id = sd.kx == KX_ECDHE_ECDSA ? 0 : 1;
        OsslCtxConfig oc; oc.min_version = oc.max_version = wire_of(v); oc.cipher_list = sd.ossl; oc.legacy_server_connect = true;
        std::string err; auto ctx = OsslCtx::create(oc, &err);
        if (!ctx) continue;
        Link L; L.k = &k; Config mc; mc.client = false; mc.versions = { v }; mc.keys = G.mx_srv[id];
        vfh_entropy_reset(7); c10::ossl_seed(7);
        if (L.M.open(mc) < 0) continue;
        L.O.reset(new OsslConn(*ctx)); L.O->handshake(); L.settle();
        if (L.O->handshake_done() && L.M.hs_complete()) { G.rfc5746 = L.O->secure_renegotiation(); G.text += fmt("rfc5746 renegotiation_info answered by MatrixSSL server: %d%s\n", (int) G.rfc5746, G.rfc5746 ? "" : " (USE_REHANDSHAKING is off; OpenSSL clients run with SSL_OP_LEGACY_SERVER_CONNECT)"); return; }
    }
    G.text += "rfc5746 probe handshake did not complete; assuming not supported\n";
}

static std::string ev_str(const Endpoint &M) {
    std::string s; size_t n = M.events.size();
    for (size_t i = n > 10 ? n - 10 : 0; i < n; i++) s += fmt("%s(%d:%d,%d)", i ? " " : "", M.events[i].kind, M.events[i].a, M.events[i].b);
    return s;
}
static std::string alerts_str(const OsslConn &o) {
    std::string s;
    for (auto &a : o.alerts()) s += fmt("%s%s:%d/%d", s.empty() ? "" : ",", a.sent ? "ossl-sent" : "ossl-recv", a.level, a.desc);
    return s.empty() ? "none" : s;
}

// send n bytes from MatrixSSL following the caller contract (records of at most what GetWritebuf offers)
static int mx_send_all(Endpoint &M, const Bytes &b, bool use_writebuf, size_t piece) {
    if (b.size() <= 16384 && !use_writebuf) { int rc = M.send(b.data(), b.size(), 0); return rc; }
    size_t off = 0;
    do {
        unsigned char *wb = nullptr; M.sel();
        int32 room = matrixSslGetWritebuf(M.ssl, &wb, (uint32) (b.size() - off));
        if (room <= 0 && b.size() - off > 0) return room < 0 ? room : PS_FAILURE;
        size_t n = std::min((size_t) (room > 0 ? room : 0), b.size() - off);
        if (n) memcpy(wb, b.data() + off, n);
        M.sel();
        int32 rc = matrixSslEncodeWritebuf(M.ssl, (uint32) n);
        if (rc < 0) return rc;
        off += n;
        M.out_pending = true;   // (mxh only drains a DTLS endpoint when output is known to be pending)
        M.pump_out(piece);
    } while (off < b.size());
    return 0;
}

static void prop(Tape &t, Ctx &c) {
    Case k = draw_case(t);
    const SuiteD &sd = ALL_SUITES[k.suite];
    std::string desc = k.str();
    c.sample(desc);
    if (c.verbose) fprintf(stderr, "case: %s\n", desc.c_str());
    vfh_entropy_reset(0x10000 + k.eseed); vfh_clock_set_ms(1000000);
    c10::ossl_seed(k.eseed ^ 0xC10C10C10ULL);
    bool dtls = is_dtls(k.ver);

    // ---- OpenSSL context (lives across both connections: server session cache / ticket keys)
    OsslCtxConfig oc;
    oc.server = k.mx_client; oc.dtls = dtls;
    oc.min_version = oc.max_version = wire_of(k.ver);
    if (k.ver == TLS13) oc.ciphersuites = sd.ossl; else { oc.cipher_list = sd.ossl; }
    const GroupD *g = k.group >= 0 ? &ALL_GROUPS[k.group] : nullptr;
    const IdentD *sid_ = k.sident >= 0 ? &ALL_IDENTS[k.sident] : nullptr;
    const IdentD *cid_ = k.cauth ? &ALL_IDENTS[k.cident] : nullptr;
    // group lists.  TLS<=1.2: the supported_groups list also has to admit the curves of the EC certificates in play (RFC 8422 5.1).
    std::vector<int> cert_groups;
    if (k.ver != TLS13) { if (sid_ && sid_->ec_group >= 0) cert_groups.push_back(sid_->ec_group); if (cid_ && cid_->ec_group >= 0) cert_groups.push_back(cid_->ec_group); }
    auto ossl_groups = [&](bool with_hrr_first) {
        std::string s;
        if (with_hrr_first && k.hrr_first >= 0) s = ALL_GROUPS[k.hrr_first].ossl;
        if (g) { if (!s.empty()) s += ":"; s += g->ossl; }
        std::vector<int> seen; if (g) seen.push_back(k.group); if (with_hrr_first && k.hrr_first >= 0) seen.push_back(k.hrr_first);
        for (int cg : cert_groups) if (std::find(seen.begin(), seen.end(), cg) == seen.end()) { seen.push_back(cg); if (!s.empty()) s += ":"; s += ALL_GROUPS[cg].ossl; }
        return s;
    };
    // OpenSSL client: first listed group = its only key_share; OpenSSL server: supports only the target group, so a first share on another group forces HRR
    oc.groups = ossl_groups(!k.mx_client);
    oc.server_pref = true;
    if (k.mx_client) { if (k.csig >= 0 || k.ssig >= 0) oc.sigalgs = sigs_list_ossl(k.csig >= 0 ? k.csig : k.ssig); }   // server list steers the client's CertificateVerify; also its own choice
    else if (k.ssig >= 0 || k.csig >= 0) oc.sigalgs = sigs_list_ossl(k.ssig >= 0 ? k.ssig : k.csig);                    // client list steers the server's signature
    if (sd.kx == KX_PSK) { oc.psk_identity = PSK_ID; oc.psk_key.assign(PSK_KEY, PSK_KEY + 16); }
    else {
        const IdentD *own = k.mx_client ? sid_ : cid_;
        if (own) { oc.cert_file = ident_path(*own, k.mx_client, false); oc.key_file = ident_path(*own, k.mx_client, true); }
        oc.ca_file = ca_all_path();
        oc.verify_peer = k.mx_client ? k.cauth : true;
        oc.verify_host = "localhost";
    }
    oc.sni = "localhost";
    if (dtls) { oc.dtls_mtu = k.mtu; oc.dtls_cookie = k.os_cookie; matrixDtlsSetPmtu(k.mtu); }
    oc.legacy_server_connect = !G.rfc5746;
    oc.allow_no_dhe_kex = k.psk_ke;   // server: may answer with psk_ke; client: lists psk_ke next to psk_dhe_ke
    // psk_ke against an OpenSSL 3.0 server: only reachable when the resumed connection has no (EC)DHE group in common (no SSL_OP_PREFER_NO_DHE_KEX before 3.3)
    std::string psk_ke_groups;
    if (k.psk_ke && k.mx_client) {
        if (G.no_common_group >= 0) psk_ke_groups = ALL_GROUPS[G.no_common_group].ossl;
        else for (int og : G.groups13) if (og != k.group && og != k.hrr_first) { psk_ke_groups = ALL_GROUPS[og].ossl; break; }   // the MatrixSSL client lists exactly {hrr_first, group}
    }
    oc.auto_chain = k.os_send_root; oc.tickets = k.os_tickets; oc.ems = k.os_ems; oc.etm = k.os_etm; oc.max_send_fragment = k.os_max_frag;
    std::string oerr;
    std::unique_ptr<OsslCtx> octx = OsslCtx::create(oc, &oerr);
    VF_CHECK(octx != nullptr, "harness-openssl-config-refused", "OpenSSL refused a configuration that the capability table admits: %s; %s", oerr.c_str(), desc.c_str());

    // ---- MatrixSSL configuration
    sslSessionId_t *sid = nullptr;
    struct SidGuard { sslSessionId_t *&s; ~SidGuard() { if (s) matrixSslDeleteSessionId(s); } } sg{ sid };
    if (k.mx_client && matrixSslNewSessionId(&sid, NULL) < 0) throw Discard{};
    OsslSessionPtr osess;

    int nconn = k.resume == R_NONE ? 1 : 2;
    for (int conn = 0; conn < nconn; conn++) {
        Link L; L.k = &k; L.dtls = dtls;
        Config mc;
        mc.client = k.mx_client; mc.versions = { k.ver };
        mc.entropy_stream = 1 + conn;
        mc.ems = k.mx_ems;
        mc.cert_cb = cert_cb; mc.client_auth = k.cauth;
        if (k.mx_client) {
            mc.suites = { sd.id };
            mc.sid = sid;
            mc.tickets = k.resume == R_TICKET;
            mc.keys = sd.kx == KX_PSK ? G.mx_cli_psk : (k.cauth ? G.mx_cli[k.cident] : G.mx_cli_noid);
        } else mc.keys = sd.kx == KX_PSK ? G.mx_srv_psk : G.mx_srv[k.sident];
        int want_sig = k.mx_client ? (k.ssig >= 0 ? k.ssig : k.csig) : (k.csig >= 0 ? k.csig : k.ssig);
        bool steer = k.ssig >= 0 || k.csig >= 0;
        mc.tweak = [&](sslSessOpts_t &o) {
            if (k.ver == TLS13 && g) {
                uint16_t gl[4]; psSize_t n = 0;
                if (k.mx_client) { if (k.hrr_first >= 0) gl[n++] = ALL_GROUPS[k.hrr_first].id; gl[n++] = g->id; }   // client: one key_share, on the first group
                else gl[n++] = g->id;                                                                                  // server: supports only the target group
                if (matrixSslSessOptsSetKeyExGroups(&o, gl, n, 1) < 0) VF_FAIL("harness-matrixssl-config-refused", "SetKeyExGroups refused; %s", desc.c_str());
            }
            if (steer && k.ver != TLS11 && k.ver != DTLS10) {
                std::vector<uint16_t> sl = sigs_list_mx(want_sig, k.ver);
                if (matrixSslSessOptsSetSigAlgs(&o, sl.data(), (psSize_t) sl.size()) < 0) VF_FAIL("harness-matrixssl-config-refused", "SetSigAlgs refused; %s", desc.c_str());
            }
        };
        g_cb_calls = 0; g_cb_last_alert = -1;
        int orc = L.M.open(mc);
        VF_CHECK(orc >= 0 && L.M.ssl, "harness-matrixssl-config-refused", "matrixSslNew%sSession returned %d for a configuration that the capability table admits; %s", k.mx_client ? "Client" : "Server", orc, desc.c_str());
        L.O.reset(new OsslConn(*octx, k.mx_client ? nullptr : osess));
        bool force_psk_ke = conn == 1 && k.psk_ke && k.mx_client && !psk_ke_groups.empty();
        if (force_psk_ke) VF_CHECK(L.O->set_groups(psk_ke_groups), "harness-openssl-config-refused", "SSL_set1_groups_list(%s) refused; %s", psk_ke_groups.c_str(), desc.c_str());
        if (!k.mx_client) L.O->handshake();   // emit the ClientHello

        // ---- handshake
        L.settle();
        bool mdone = L.M.hs_complete() && !L.M.failed, odone = L.O->handshake_done() && !L.O->failed();
        if (!(mdone && odone)) {
            int as = L.O->fatal_alert_sent(), ar = L.O->fatal_alert_received();
            // The MatrixSSL client did not list psk_ke (this code base always does): then the forced configuration has no mode in common and
            // OpenSSL's handshake_failure is the correct outcome of a tuple outside the mutually supported matrix.
            if (force_psk_ke && as == 40 && !(L.O->client_hello_psk_modes() & 1)) { c.count("tls13-psk-ke-not-offered-by-matrixssl-client(outside-matrix)"); return; }
            // signature = symptom + coarse context (protocol generation, key-schedule hash, full/resumed, HRR), so that distinct root causes get distinct signatures
            bool sha384 = strstr(sd.std_name, "SHA384") != nullptr;
            std::string ctx = fmt("%s:%s:%s%s", k.ver == TLS13 ? "tls13" : k.ver == TLS12 ? "tls12" : k.ver == TLS11 ? "tls11" : "dtls", sha384 ? "sha384" : "sha256",
                                  conn == 1 ? "resuming" : "full", L.O->saw_hello_retry() ? ":hrr" : "");
            if (force_psk_ke) ctx += ":psk-ke";
            std::string sig = as >= 0 ? fmt("handshake-failed:openssl-rejects-matrixssl-alert-%d:%s", as, ctx.c_str())
                            : ar >= 0 ? fmt("handshake-failed:matrixssl-rejects-openssl-alert-%d:%s", ar, ctx.c_str())
                            : L.M.failed ? fmt("handshake-failed:matrixssl-error-%d:%s", L.M.last_rc, ctx.c_str()) : "handshake-failed:stalled:" + ctx;
            if (ar == 42 && g_cb_info.find("authStatus=-39") != std::string::npos) sig = "valid-chain-rejected:self-signed-root-in-chain-fails-authkey-check";
            if (as == 116 && k.cauth) sig = fmt("client-certificate-not-sent:%s", ALL_IDENTS[k.cident].name);
            VF_FAIL(sig, "conn %d: handshake did not complete (matrixssl complete=%d failed=%d rc=%d; openssl done=%d err='%s' alerts=%s trace=%s; matrixssl cert callback: calls=%d alert=%d %s); %s",
                    conn, (int) L.M.hs_complete(), (int) L.M.failed, L.M.last_rc, (int) L.O->handshake_done(), L.O->error().c_str(), alerts_str(*L.O).c_str(), L.O->hs_trace().c_str(), g_cb_calls, g_cb_last_alert, g_cb_info.c_str(), desc.c_str());
        }
        // ---- negotiated parameters agree
        int ov = ver_of_wire(L.O->version_wire());
        psProtocolVersion_t mv = matrixSslGetNegotiatedVersion(L.M.ssl);
        VF_CHECK(ov == k.ver && (mv & 0x00ffffff) == ver_bit(k.ver) && (mv & v_tls_negotiated), "negotiated-version-disagrees", "OpenSSL says %s, MatrixSSL says 0x%x, configured %s; %s", L.O->version().c_str(), (unsigned) mv, ver_name(k.ver), desc.c_str());
        psCipher16_t mcs = 0; int32 grc = matrixSslGetNegotiatedCiphersuite(L.M.ssl, &mcs);
        VF_CHECK(grc >= 0 && mcs == L.O->cipher_id() && mcs == sd.id, "negotiated-cipher-disagrees", "OpenSSL says %s (0x%04x), MatrixSSL says 0x%04x (rc %d), configured 0x%04x; %s",
                 L.O->cipher_name().c_str(), L.O->cipher_id(), mcs, grc, sd.id, desc.c_str());
        bool mres = matrixSslIsResumedSession(L.M.ssl) == PS_TRUE, ores = L.O->session_reused();
        VF_CHECK(mres == ores, "resumed-flag-disagrees", "conn %d: SSL_session_reused=%d but matrixSslIsResumedSession=%d; trace=%s; %s", conn, (int) ores, (int) mres, L.O->hs_trace().c_str(), desc.c_str());
        if (conn == 0) VF_CHECK(!ores, "resumed-flag-disagrees", "first connection reported as resumed; %s", desc.c_str());
        if (conn == 1) VF_CHECK(ores, "resumption-not-performed", "resumption (%s) was offered in an eligible configuration but a full handshake took place (trace=%s); %s", resume_name[k.resume], L.O->hs_trace().c_str(), desc.c_str());
        if (k.ver != TLS13) {
            bool want_ems = k.mx_ems >= 0 && k.os_ems;
            VF_CHECK(L.O->ems_negotiated() == want_ems, "ems-negotiation-unexpected", "extended master secret negotiated=%d, expected %d; %s", (int) L.O->ems_negotiated(), (int) want_ems, desc.c_str());
        }
        bool full = !ores;
        if (full && sd.kx != KX_PSK) {
            if (k.mx_client) VF_CHECK(g_cb_calls >= 1 && g_cb_last_alert == 0, "matrixssl-rejects-valid-server-chain", "certificate callback calls=%d alert=%d; %s", g_cb_calls, g_cb_last_alert, desc.c_str());
            else VF_CHECK(L.O->verify_result() == 0, "openssl-rejects-matrixssl-chain", "verify result %ld; %s", L.O->verify_result(), desc.c_str());
            if (k.cauth) {
                if (k.mx_client) VF_CHECK(L.O->peer_cert_present() && L.O->verify_result() == 0, "client-auth-not-performed", "OpenSSL server saw no (valid) client certificate (present=%d verify=%ld); %s", (int) L.O->peer_cert_present(), L.O->verify_result(), desc.c_str());
                else VF_CHECK(g_cb_calls >= 1 && g_cb_last_alert == 0, "client-auth-not-performed", "MatrixSSL server certificate callback calls=%d alert=%d; %s", g_cb_calls, g_cb_last_alert, desc.c_str());
            }
        }
        if (k.ver != TLS13 && G.rfc5746) VF_CHECK(L.O->secure_renegotiation(), "renegotiation-info-missing", "MatrixSSL implements RFC 5746 but OpenSSL saw no renegotiation_info; %s", desc.c_str());
        bool hrr = L.O->saw_hello_retry();
        // (a server that is being forced to psk_ke shares no group with the client, so it cannot and need not ask for another key_share)
        if (k.ver == TLS13 && k.hrr_first >= 0 && !force_psk_ke) VF_CHECK(hrr, "hello-retry-expected", "an HRR was expected (first key_share on %s, server only has %s) but none was seen (trace=%s); %s", ALL_GROUPS[k.hrr_first].name, g->name, L.O->hs_trace().c_str(), desc.c_str());
        std::string grp = L.O->group_name();
        // TLS 1.3 key-exchange mode as seen on the wire: a resumed handshake whose ServerHello has pre_shared_key but no key_share is psk_ke (RFC 8446 4.2.9)
        int sh_ks = k.ver == TLS13 ? L.O->server_hello_key_share() : -1;
        bool psk_ke_neg = k.ver == TLS13 && sh_ks == 0, psk_dhe_neg = k.ver == TLS13 && ores && sh_ks == 1;
        if (k.ver == TLS13) {
            VF_CHECK(sh_ks >= 0, "harness-serverhello-unparsed", "no parsable ServerHello in the OpenSSL message trace (%s); %s", L.O->hs_trace().c_str(), desc.c_str());
            VF_CHECK(L.O->server_hello_pre_shared_key() == ores, "resumed-flag-disagrees", "conn %d: ServerHello pre_shared_key=%d but SSL_session_reused=%d; %s", conn, (int) L.O->server_hello_pre_shared_key(), (int) ores, desc.c_str());
            if (psk_ke_neg) { VF_CHECK(ores && mres, "psk-ke-without-psk", "conn %d: ServerHello without key_share but the session is not resumed (openssl=%d matrixssl=%d); %s", conn, (int) ores, (int) mres, desc.c_str()); grp.clear(); }   // (OpenSSL reports the original session's group)
        }
        std::string psig = L.O->peer_sig_name(), osig = L.O->own_sig_name();

        // ---- application data, both directions
        Bytes m2o, o2m; int idx = 0; bool ku_done = false;
        for (auto &msg : k.sched[conn]) {
            Bytes b = payload(k.pseed, conn, idx++, msg.second);
            if (msg.first == 0) {
                if (b.empty() && dtls) continue;
                int rc = mx_send_all(L.M, b, (idx & 1) != 0, k.piece);
                if (g_debug) fprintf(stderr, "   MatrixSSL app send %zu bytes -> rc=%d, %zu datagrams / %zu stream bytes queued\n", b.size(), rc, L.M.dgram_out.size(), L.M.wire_out.size());
                VF_CHECK(rc >= 0, "matrixssl-encode-failed", "conn %d: encoding %zu application bytes returned %d (events: %s; openssl alerts %s); %s", conn, b.size(), rc, ev_str(L.M).c_str(), alerts_str(*L.O).c_str(), desc.c_str());
                m2o.insert(m2o.end(), b.begin(), b.end());
            } else {
                if (!ku_done && k.key_update && idx > 1) { ku_done = true; int kr = L.O->key_update(k.key_update == 2); VF_CHECK(kr >= 0, "harness-openssl-keyupdate-failed", "%s; %s", L.O->error().c_str(), desc.c_str()); }
                int rc = L.O->write(b.data(), b.size());
                VF_CHECK(rc == 1, "harness-openssl-write-failed", "conn %d: SSL_write(%zu) -> %d (%s); %s", conn, b.size(), rc, L.O->error().c_str(), desc.c_str());
                o2m.insert(o2m.end(), b.begin(), b.end());
            }
            L.settle();
            VF_CHECK(!L.O->failed() && L.O->fatal_alert_sent() < 0, "openssl-rejects-matrixssl-record", "conn %d after message %d (%s %zu bytes): OpenSSL error '%s' alerts=%s; %s", conn, idx, msg.first ? "O>M" : "M>O", b.size(), L.O->error().c_str(), alerts_str(*L.O).c_str(), desc.c_str());
            VF_CHECK(!L.M.failed && L.O->fatal_alert_received() < 0, "matrixssl-rejects-openssl-record", "conn %d after message %d (%s %zu bytes): MatrixSSL rc=%d, alert sent to OpenSSL=%d; %s", conn, idx, msg.first ? "O>M" : "M>O", b.size(), L.M.last_rc, L.O->fatal_alert_received(), desc.c_str());
            VF_CHECK(L.O->received == m2o, "payload-matrixssl-to-openssl-differs", "conn %d after message %d: OpenSSL delivered %zu bytes, MatrixSSL application sent %zu; %s", conn, idx, L.O->received.size(), m2o.size(), desc.c_str());
            VF_CHECK(L.M.delivered == o2m, "payload-openssl-to-matrixssl-differs", "conn %d after message %d: MatrixSSL delivered %zu bytes, OpenSSL application sent %zu; %s", conn, idx, L.M.delivered.size(), o2m.size(), desc.c_str());
        }
        bool nontriv = !m2o.empty() && !o2m.empty();

        // ---- resumption material for the next connection
        if (!k.mx_client && conn == 0 && nconn == 2) {
            osess = L.O->session();
            VF_CHECK(osess != nullptr, "no-session-issued", "MatrixSSL server completed a %s handshake but the OpenSSL client obtained no resumable session/ticket (tickets received %d); %s", ver_name(k.ver), L.O->tickets_received(), desc.c_str());
        }

        // ---- closure, both ways
        if (k.mx_closes_first) {
            int rc = L.M.send_close();
            VF_CHECK(rc >= 0, "matrixssl-close-failed", "matrixSslEncodeClosureAlert returned %d; %s", rc, desc.c_str());
            L.settle();
            VF_CHECK(L.O->got_close_notify() && !L.O->failed(), "close-notify-not-understood-by-openssl", "OpenSSL did not see MatrixSSL's close_notify (err '%s' alerts=%s); %s", L.O->error().c_str(), alerts_str(*L.O).c_str(), desc.c_str());
            L.O->shutdown(); L.settle();
            VF_CHECK(L.M.close_notify_recv && !L.M.failed, "close-notify-not-understood-by-matrixssl", "MatrixSSL did not report OpenSSL's close_notify (rc=%d fatal=%d); %s", L.M.last_rc, L.M.fatal_alert_recv, desc.c_str());
        } else {
            L.O->shutdown(); L.settle();
            VF_CHECK(L.M.close_notify_recv && !L.M.failed, "close-notify-not-understood-by-matrixssl", "MatrixSSL did not report OpenSSL's close_notify (rc=%d fatal=%d); %s", L.M.last_rc, L.M.fatal_alert_recv, desc.c_str());
            int rc = L.M.send_close();
            VF_CHECK(rc >= 0, "matrixssl-close-failed", "matrixSslEncodeClosureAlert returned %d; %s", rc, desc.c_str());
            L.settle(); L.O->read_all();
            VF_CHECK(L.O->got_close_notify() && !L.O->failed(), "close-notify-not-understood-by-openssl", "OpenSSL did not see MatrixSSL's close_notify (err '%s' alerts=%s); %s", L.O->error().c_str(), alerts_str(*L.O).c_str(), desc.c_str());
        }
        for (auto &a : L.O->alerts()) VF_CHECK(a.level == 1 && a.desc == 0, a.sent ? "openssl-sent-alert" : "matrixssl-sent-alert", "unexpected alert %d/%d (%s); all=%s; %s", a.level, a.desc, a.sent ? "sent by OpenSSL" : "sent by MatrixSSL", alerts_str(*L.O).c_str(), desc.c_str());

        // ---- statistics
        c.count(std::string("ver:") + ver_name(k.ver));
        c.count(std::string("role:") + (k.mx_client ? "mx-client" : "mx-server"));
        c.count(std::string("suite:") + sd.std_name);
        c.count(std::string("conn:") + (k.mx_client ? "mx-client:" : "mx-server:") + (ores ? resume_name[k.resume] : "full"));
        if (!grp.empty()) c.count("group:" + grp);
        if (hrr) c.count("hello-retry-request");
        if (psk_ke_neg) { c.count("tls13-psk-ke-negotiated"); c.count(std::string("tls13-psk-ke-negotiated:") + (k.mx_client ? "mx-client:" : "mx-server:") + sd.std_name); }
        if (psk_dhe_neg) { c.count("tls13-psk-dhe-ke-negotiated"); c.count(std::string("tls13-psk-dhe-ke-negotiated:") + (k.mx_client ? "mx-client:" : "mx-server:") + sd.std_name); }
        if (conn == 1 && k.psk_ke && !psk_ke_neg) c.count(k.mx_client ? "tls13-psk-ke-wanted-but-not-negotiated:mx-client" : "tls13-psk-ke-offered-by-openssl-client:matrixssl-server-chose-psk-dhe-ke(outside-matrix)");
        if (!psig.empty()) c.count(std::string(k.mx_client ? "signed-by-matrixssl(client CertificateVerify):" : "signed-by-matrixssl(server):") + psig);
        if (!osig.empty()) c.count(std::string(k.mx_client ? "signed-by-openssl(server):" : "signed-by-openssl(client CertificateVerify):") + osig);
        if (full && sid_) c.count(std::string("srv-ident:") + sid_->name);
        if (full && k.cauth) c.count(std::string("client-auth:") + cid_->name);
        if (k.ver != TLS13) c.count(fmt("ems:mx=%d,ossl=%d", k.mx_ems, (int) k.os_ems));
        if (conn == k.many_conn) {
            bool aead = strstr(sd.std_name, "GCM") || strstr(sd.std_name, "CHACHA");
            c.count(fmt("many-records:%s:%s", k.ver == TLS13 ? "tls13" : dtls ? (aead ? "dtls-aead" : "dtls-cbc") : (aead ? "tls12-aead" : k.ver == TLS12 ? "tls12-cbc" : "tls11-cbc"), k.many_dir ? "openssl-to-matrixssl" : "matrixssl-to-openssl"));
            c.count(k.many_n > 65536 ? "many-records:over-65536-in-one-direction" : "many-records:257..700-in-one-direction");
        }
        if (nontriv) {
            std::string shape = fmt("%d|%d|%d|%d|%d|%d|%d|%d|%d|%d|%d|%d|%d|%d", (int) k.mx_client, k.ver, k.suite, k.sident, k.cauth ? k.cident : -1, k.group, k.hrr_first, k.ssig, k.csig, k.resume, conn, k.mx_ems, (int) k.os_ems, (int) k.os_tickets);
            shape += fmt("|%s", psk_ke_neg ? "psk_ke" : psk_dhe_neg ? "psk_dhe_ke" : "-");
            for (size_t i = 0; i < k.sched[conn].size(); i++) if (!(conn == k.many_conn && i >= k.many_at && i < k.many_at + k.many_len)) shape += fmt("|%d:%zu", k.sched[conn][i].first, k.sched[conn][i].second);
            if (conn == k.many_conn) shape += fmt("|many:%d:%zu:%zu:%zu", k.many_dir, k.many_n, k.many_smax, k.many_gap);
            shape += fmt("|%zu|%zu", k.chunk, k.piece);
            c.nontrivial(shape);
            c.count("nontrivial-connections");
        }
    }
}

#if C10_LONG
VF_TARGET("C10.interop_long", prop, 256, 600)
#else
VF_TARGET("C10.interop", prop, 256, 120)
#endif
namespace vf { void vf_global_init(int, char **) {
    mxh::global_open();
    c10::ossl_global_init();
    build_caps();
    probe_rfc5746();
    g_keyupdate = getenv("C10_KEYUPDATE") != nullptr;
    g_debug = getenv("C10_DEBUG") != nullptr;
    if (getenv("C10_PRINT_CAPS")) fprintf(stderr, "%s", G.text.c_str());
} }
