#!/bin/sh
# Regenerates the extra C10 PKI (run once; outputs are committed). Needs the openssl CLI.
# Leaves are issued by the harness roots in /verif/pki (ca_rsa, ca_ec) and by two extra roots made here.
set -e
cd "$(dirname "$0")"
P=../../../pki
D="-not_before 20200101000000Z -not_after 20450101000000Z"
cat > ca.cnf <<X
[req]
distinguished_name=dn
prompt=no
[dn]
CN=placeholder
[v3_ca]
basicConstraints=critical,CA:TRUE
keyUsage=critical,keyCertSign,cRLSign
subjectKeyIdentifier=hash
[v3_srv]
basicConstraints=CA:FALSE
keyUsage=digitalSignature,keyEncipherment,keyAgreement
extendedKeyUsage=serverAuth
subjectAltName=DNS:localhost
subjectKeyIdentifier=hash
authorityKeyIdentifier=keyid
[v3_srv_sig]
basicConstraints=CA:FALSE
keyUsage=digitalSignature
extendedKeyUsage=serverAuth
subjectAltName=DNS:localhost
subjectKeyIdentifier=hash
authorityKeyIdentifier=keyid
[v3_cli]
basicConstraints=CA:FALSE
keyUsage=digitalSignature,keyEncipherment,keyAgreement
extendedKeyUsage=clientAuth
subjectAltName=email:client@localhost
subjectKeyIdentifier=hash
authorityKeyIdentifier=keyid
[v3_cli_sig]
basicConstraints=CA:FALSE
keyUsage=digitalSignature
extendedKeyUsage=clientAuth
subjectAltName=email:client@localhost
subjectKeyIdentifier=hash
authorityKeyIdentifier=keyid
X
mkkey() { # name type
  case $2 in
    rsa3072) openssl genrsa -traditional -out $1.key 3072 2>/dev/null ;;
    rsa2048) openssl genrsa -traditional -out $1.key 2048 2>/dev/null ;;
    ec384) openssl ecparam -name secp384r1 -genkey -noout -out $1.key ;;
    ec521) openssl ecparam -name secp521r1 -genkey -noout -out $1.key ;;
    ed25519) openssl genpkey -algorithm ED25519 -out $1.key ;;
    rsapss) openssl genpkey -algorithm RSA-PSS -pkeyopt rsa_keygen_bits:2048 -out $1.key ;;
  esac
}
mkca() { # name type digest
  mkkey $1 $2
  openssl req -new -x509 -key $1.key -$3 -subj "/C=FI/O=Verif/CN=Verif $1" -config ca.cnf -extensions v3_ca $D -out $1.pem
}
mkleaf() { # name type ca-path ext cn digest [extra x509 args]
  mkkey $1 $2
  n=$1; ca=$3; ext=$4; cn=$5; dg=$6; shift 6
  openssl req -new -key $n.key -subj "/C=FI/O=Verif/CN=$cn" -config ca.cnf -out $n.csr
  openssl x509 -req -in $n.csr -CA $ca.pem -CAkey $ca.key -set_serial 0x$(echo $n | md5sum | cut -c1-16) -$dg -extfile ca.cnf -extensions $ext $D "$@" -out $n.pem 2>/dev/null
  rm -f $n.csr
}
# extra roots: P-384 (signs with SHA-384) and Ed25519
mkca ca_ec384 ec384 sha384
mkca ca_ed25519 ed25519 sha512
# EC leaves on other curves, issued by the P-256 root (ecdsa-with-SHA256) and by the P-384 root (ecdsa-with-SHA384)
mkleaf srv_ec384 ec384 ca_ec384 v3_srv localhost sha384
mkleaf cli_ec384 ec384 ca_ec384 v3_cli client sha384
mkleaf srv_ec521 ec521 $P/ca_ec v3_srv localhost sha256
mkleaf cli_ec521 ec521 $P/ca_ec v3_cli client sha256
# RSA-3072 leaves, issued by the RSA root with sha384WithRSAEncryption
mkleaf srv_rsa3072 rsa3072 $P/ca_rsa v3_srv localhost sha384
mkleaf cli_rsa3072 rsa3072 $P/ca_rsa v3_cli client sha384
# RSA-2048 leaf whose certificate signature is RSASSA-PSS (issuer key is the plain RSA root)
mkleaf srv_rsa_pssig rsa2048 $P/ca_rsa v3_srv localhost sha256 -sigopt rsa_padding_mode:pss -sigopt rsa_pss_saltlen:32
# Ed25519 leaves
mkleaf srv_ed25519 ed25519 ca_ed25519 v3_srv_sig localhost sha512
mkleaf cli_ed25519 ed25519 ca_ed25519 v3_cli_sig client sha512
# RSASSA-PSS *keys* (id-RSASSA-PSS SubjectPublicKeyInfo), issued by the RSA root
mkleaf srv_rsapss rsapss $P/ca_rsa v3_srv_sig localhost sha256
mkleaf cli_rsapss rsapss $P/ca_rsa v3_cli_sig client sha256
cat $P/ca_rsa.pem $P/ca_ec.pem ca_ec384.pem ca_ed25519.pem > ca_all.pem
rm -f ca.cnf
