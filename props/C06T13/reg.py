"""TEMPORARY registry entry of builder-C06-tls13 (deleted after the merge into props/C06/reg.py)."""
import importlib.util, os
_spec = importlib.util.spec_from_file_location('reg13', os.path.join(os.path.dirname(os.path.dirname(os.path.abspath(__file__))), 'C06', 'reg13.py'))
_m = importlib.util.module_from_spec(_spec); _spec.loader.exec_module(_m)
PROP = dict(
    level='exploration',
    level_text='temporary build vehicle for the TLS 1.3 part of C06',
    level_note='see props/C06/reg13.py',
    technique='property-based testing with a scripted keyed peer against an explicit model of the legal handshake language',
    rule='see props/C06/reg13.py',
    assumptions=[],
    targets=_m.TARGETS,
)
