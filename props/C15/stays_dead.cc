// C15: once a session has sent/received a fatal alert, hit a protocol/decode/decrypt error, or received
// close_notify, it never again delivers data, never encrypts application data or handshake messages, and
// reports an error on later calls.
//
// Case = (victim role, version, kind, point k, event, continuation of 1-8 steps).  Death is *observed*
// (negative return from a receive call, own alert queued => REQUEST_CLOSE, fatal alert or close_notify
// received); from that moment a monitor checks every API call of the continuation.  For events that must
// kill (corrupt protected record, oversize record, plaintext fatal alert where alerts are still plaintext)
// death itself is asserted as well.
#include "mxh.h"
using namespace vf; using namespace mxh;

enum { E_PLAIN_FATAL_ALERT, E_PEER_CLOSE, E_PEER_ENC_FATAL, E_CORRUPT_PROTECTED, E_OVERSIZE, E_UNKNOWN_TYPE, E_GARBAGE, E_BAD_HS_MSG, E_N };
static const char *ev_name[] = { "plaintext-fatal-alert", "peer-close-notify", "peer-encrypted-fatal-alert", "corrupt-protected-record", "oversize-record", "unknown-record-type", "garbage-bytes", "illegal-handshake-message" };
enum { S_NEXT_LEGIT, S_ORIGINAL, S_REPLAY_OLD, S_GARBAGE, S_RECV0, S_ENCODE0, S_ENCODE1, S_CLOSE, S_N };
static const char *st_name[] = { "next-legit-record", "original-of-corrupted", "replay-old-record", "garbage", "recv(0)", "EncodeToOutdata", "GetWritebuf+EncodeWritebuf", "EncodeClosureAlert" };

static Bytes amsg(int i, size_t n) { Bytes b(n); for (size_t k = 0; k < n; k++) b[k] = (uint8_t) ('A' + (i + k) % 26); return b; }

struct Mon {
    Endpoint *V; bool dead = false; std::string why; size_t ev_at_death = 0; bool was_complete = false; std::string desc;
    size_t out_bytes_after = 0; bool own_alert = false;
    void observe() { // call after every API interaction with V
        if (!dead) {
            if (V->failed) { dead = true; why = fmt("negative rc %d", V->last_rc); }
            else if (V->req_close) { dead = true; why = "own alert sent (REQUEST_CLOSE)"; own_alert = true; }
            else if (V->fatal_alert_recv >= 0) { dead = true; why = fmt("fatal alert %d received", V->fatal_alert_recv); }
            else if (V->close_notify_recv) { dead = true; why = "close_notify received"; }
            if (dead) { ev_at_death = V->events.size(); was_complete = V->hs_complete(); V->wire_out.clear(); V->dgram_out.clear(); }
            return;
        }
        for (size_t i = ev_at_death; i < V->events.size(); i++) {
            const Event &e = V->events[i];
            VF_CHECK(e.kind != EV_APP_DATA, "appdata-delivered-after-death", "APP_DATA (%d bytes) delivered after death (%s); %s", e.a, why.c_str(), desc.c_str());
            VF_CHECK(e.kind != EV_HS_COMPLETE, "handshake-complete-after-death", "HANDSHAKE_COMPLETE reported after death (%s); %s", why.c_str(), desc.c_str());
            VF_CHECK(e.kind != EV_ENCODE_OK, "encode-succeeded-after-death", "application encode api=%d returned %d after death (%s); %s", e.b, e.a, why.c_str(), desc.c_str());
        }
        ev_at_death = V->events.size();
        VF_CHECK(was_complete || !V->hs_complete(), "handshake-became-complete-after-death", "matrixSslHandshakeIsComplete turned true after death (%s); %s", why.c_str(), desc.c_str());
    }
};

// bounded-exhaustive tier (c15_alert_sweep): every alert description byte x role x version x early handshake point
struct Forced { bool on = false; bool vclient; int ver; unsigned k; uint8_t adesc; };
static Forced g_forced;
static void prop(Tape &t, Ctx &c) {
    bool vclient = t.coin();
    int ver = (int) t.below(NVER); if (g_forced.on) ver = g_forced.ver;
    auto cand = suites_for(ver); const Suite su = cand[t.below(cand.size())];
    bool cauth = su.auth != AUTH_PSK && t.chance(1, 4);
    unsigned k = (unsigned) t.below(12);
    bool established = t.chance(1, 2);       // event after completion rather than at handshake point k
    int ev = (int) t.below(E_N);
    bool dt = is_dtls(ver);
    if (dt && (ev == E_PEER_ENC_FATAL || ev == E_CORRUPT_PROTECTED || ev == E_OVERSIZE || ev == E_UNKNOWN_TYPE || ev == E_GARBAGE)) ev = t.coin() ? E_PLAIN_FATAL_ALERT : E_PEER_CLOSE; // DTLS silently drops bad records
    if (ev == E_PEER_CLOSE || ev == E_PEER_ENC_FATAL) established = true;
    if (dt && ev == E_PLAIN_FATAL_ALERT) established = false;
    // every description byte: a fatal-level alert ends the session whatever it describes (defined codes are picked more often)
    uint8_t adesc = t.pick(std::vector<uint8_t>{ 0, 10, 20, 21, 22, 30, 40, 41, 42, 43, 44, 45, 46, 47, 48, 49, 50, 51, 60, 70, 71, 80, 86, 90, 100, 109, 110, 111, 112, 113, 114, 115, 116, 120, 255 });
    if (t.chance(1, 3)) adesc = (uint8_t) t.below(256);
    int nsteps = 1 + (int) t.below(8);
    std::vector<int> steps; for (int i = 0; i < nsteps; i++) steps.push_back((int) t.below(S_N));
    uint64_t r1 = t.u32(), r2 = t.u32();
    size_t chunk = t.chance(1, 3) ? 1 + t.below(7) : (size_t) -1;
    if (g_forced.on) { vclient = g_forced.vclient; k = g_forced.k; adesc = g_forced.adesc; ev = E_PLAIN_FATAL_ALERT; established = false; cauth = false; chunk = (size_t) -1;
        steps = { S_NEXT_LEGIT, S_NEXT_LEGIT, S_ENCODE0, S_NEXT_LEGIT, S_NEXT_LEGIT, S_ENCODE1 }; }
    std::string sd; for (int s : steps) { sd += st_name[s]; sd += ","; }
    std::string desc = fmt("victim=%s %s %s%s %s ev=%s(%u) steps=[%s] chunk=%zd (tls1.3 cases may be early-data capable)", vclient ? "client" : "server", ver_name(ver), su.name, cauth ? "+cauth" : "",
                           established ? "established" : fmt("k=%u", k).c_str(), ev_name[ev], adesc, sd.c_str(), (ssize_t) chunk);
    c.sample(desc); if (c.verbose) fprintf(stderr, "case: %s\n", desc.c_str());
    vfh_entropy_reset(77 + (uint32_t) r1 % 1000); vfh_clock_set_ms(1000000);

    // TLS 1.3 sessions resumed from a ticket that allows early data: both sides are in their "early data" states while the
    // handshake is still running (the encode gate has a separate branch for that)
    bool early = ver == TLS13 && t.chance(1, 3);
    sslSessionId_t *sid = nullptr; struct SG { sslSessionId_t *&s; ~SG() { if (s) matrixSslDeleteSessionId(s); } } sg{ sid };
    auto mkcfg = [&](Config &cc, Config &sc) { cc.client = true; sc.client = false; cc.versions = sc.versions = { ver }; cc.suites = { su.id }; cc.auth = sc.auth = su.auth;
        cc.entropy_stream = 1; sc.entropy_stream = 2; cc.client_auth = sc.client_auth = cauth; sc.cert_cb = cb_strict; if (early) { cc.sid = sid; sc.max_early_data = 16384; } };
    if (early) { if (matrixSslNewSessionId(&sid, NULL) < 0) throw Discard{}; Pair p0; Config c0, s0; mkcfg(c0, s0); if (p0.s.open(s0) < 0 || p0.c.open(c0) < 0) throw Discard{}; VF_CHECK(p0.run(60), "harness-priming-handshake-failed", "priming session for the early-data scenario did not complete"); p0.run(10); }
    Pair p; Config cc, sc; mkcfg(cc, sc);
    if (p.s.open(sc) < 0 || p.c.open(cc) < 0) throw Discard{};
    if (early) { c.count("early-data-capable-session"); p.c.sel(); if (matrixSslGetMaxEarlyData(p.c.ssl) > 0 && t.coin()) { p.c.send(amsg(3, 40), 1); c.count("client-sent-early-data"); } }
    Endpoint &V = vclient ? p.c : p.s, &P = vclient ? p.s : p.c;
    Mon mon; mon.V = &V; mon.desc = desc; int victim_pad = 0;
    // TLS 1.3 record padding on the victim (matrixSslSetTls13BlockPadding): its own alerts are padded too, up to several kB.
    // Only for events after completion, switched on once the handshake is done (as an application that pads its data would).
    auto enable_victim_padding = [&]() {
    if (ver == TLS13 && r2 % 3 == 0) { static const int PB[] = { 64, 512, 1024, 4096, 16000 }; int pb = PB[(r2 / 3) % 5]; V.sel(); if (matrixSslSetTls13BlockPadding(V.ssl, pb) >= 0) { victim_pad = pb; c.count(fmt("victim-tls13-pad-block:%d", pb)); mon.desc += fmt(" victim-pad-block=%d", pb); } } };
    const size_t HDR = dt ? 13 : 5;

    std::vector<Bytes> delivered_units; // legit units V has consumed
    std::deque<Bytes> pending;          // legit units from P not yet given to V
    Bytes original;                     // original of a corrupted record
    bool event_done = false; unsigned unit_no = 0; bool must_die = false;

    auto take_from_peer = [&]() {
        P.pump_out();
        if (dt) { while (!P.dgram_out.empty()) { pending.push_back(P.dgram_out.front()); P.dgram_out.pop_front(); } }
        else if (!P.wire_out.empty()) { Bytes x = P.take_wire(); auto rs = parse_records(x, false); size_t end = 0;
            for (auto &r : rs) { pending.emplace_back(x.begin() + r.off, x.begin() + r.off + r.hdr + r.len); end = r.off + r.hdr + r.len; }
            if (end < x.size()) pending.emplace_back(x.begin() + end, x.end()); }
    };
    auto give_to_peer = [&]() {  // V's output goes to P (keeps P realistic); after death we also audit it
        V.pump_out();
        if (mon.dead) {
            Bytes w = V.wire_out; for (auto &d : V.dgram_out) w.insert(w.end(), d.begin(), d.end());
            mon.out_bytes_after += w.size();
            if (c.verbose && !w.empty()) fprintf(stderr, "  out-after-death: %s\n", hex(w.data(), w.size(), 48).c_str());
            if (!dt) for (auto &r : parse_records(w, false)) {
                // TLS 1.3 alerts are protected: outer type 23, 2 + 1 bytes + record padding (up to the victim's pad block) + 16-byte tag
                bool ok = r.type == 21 || (ver == TLS13 && r.type == 23 && r.len <= 64 + (size_t) victim_pad);
                VF_CHECK(ok, "non-alert-output-after-death", "record type %u len %zu emitted after death (%s); %s", r.type, r.len, mon.why.c_str(), desc.c_str());
            }
            VF_CHECK(mon.out_bytes_after <= 200 + 2 * (size_t) victim_pad, "too-much-output-after-death", "%zu bytes emitted after death (%s); %s", mon.out_bytes_after, mon.why.c_str(), desc.c_str());
        }
        if (dt) { while (!V.dgram_out.empty()) { Bytes x = V.dgram_out.front(); V.dgram_out.pop_front(); if (P.ssl && !P.failed) P.feed_dgram(x); } }
        else if (!V.wire_out.empty()) { Bytes x = V.take_wire(); if (P.ssl && !P.failed) P.feed(x); }
    };
    auto deliver = [&](const Bytes &u) -> int {
        int rc; if (dt) rc = V.feed_dgram(u); else rc = V.feed(u, chunk, true);
        bool was_dead = mon.dead;
        mon.observe();
        if (was_dead && !u.empty() && !dt) VF_CHECK(rc < 0, "receive-call-succeeded-after-death", "receive call returned %d (not an error) after death (%s); %s", rc, mon.why.c_str(), desc.c_str());
        give_to_peer();
        return rc;
    };
    auto mkrec = [&](uint8_t type, const Bytes &body, size_t lenfield) {
        Bytes r; r.push_back(type); uint16_t v = dt ? (ver == DTLS10 ? 0xfeff : 0xfefd) : (ver == TLS11 ? 0x0302 : 0x0303); r.push_back((uint8_t) (v >> 8)); r.push_back((uint8_t) v);
        if (dt) { r.push_back(0); r.push_back(0); for (int i = 0; i < 4; i++) r.push_back(0); r.push_back(0xff); r.push_back((uint8_t) r2); }
        r.push_back((uint8_t) (lenfield >> 8)); r.push_back((uint8_t) lenfield); r.insert(r.end(), body.begin(), body.end()); return r;
    };
    auto do_event = [&]() {
        event_done = true; c.count(std::string("event:") + ev_name[ev]);
        bool secure_phase = V.hs_complete();
        switch (ev) {
        case E_PLAIN_FATAL_ALERT: { Bytes r = mkrec(21, { 2, adesc }, 2); must_die = !dt; deliver(r); break; }
        case E_PEER_CLOSE: { if (!P.alive() || !P.hs_complete()) return; P.send_close(); take_from_peer(); while (!pending.empty()) { Bytes u = pending.front(); pending.pop_front(); delivered_units.push_back(u); deliver(u); } must_die = true; break; }
        case E_PEER_ENC_FATAL: { if (!P.alive() || !P.hs_complete()) return; Bytes g = mkrec(23, Bytes(40, 0x99), 40); P.feed(g); take_from_peer(); while (!pending.empty()) { Bytes u = pending.front(); pending.pop_front(); deliver(u); } must_die = true; break; }
        case E_CORRUPT_PROTECTED: {
            if (!secure_phase) { if (!P.alive()) return; }
            if (pending.empty() && P.alive() && P.hs_complete()) { P.send(amsg(1, 50)); take_from_peer(); }
            if (pending.empty()) return;
            original = pending.front(); pending.pop_front(); Bytes x = original;
            bool is_protected = secure_phase || (ver == TLS13 && x[0] == 23);
            if (x.size() <= HDR) return;
            size_t bit = HDR * 8 + r1 % ((x.size() - HDR) * 8); x[bit / 8] ^= (uint8_t) (1 << (bit % 8));
            must_die = is_protected;
            // RFC 8446 4.2.10: a server that offered early data but does not use the client's skips records it cannot deprotect (up to
            // max_early_data_size) - during such a handshake an undecryptable record is not necessarily fatal for the server
            if (early && !vclient && !secure_phase) { must_die = false; c.count("corrupt-record-in-early-data-window:not-required-to-be-fatal"); }
            deliver(x); break; }
        case E_OVERSIZE: { Bytes body(64, 0x41); Bytes r = mkrec(secure_phase ? 23 : 22, body, 16384 + 2049 + (r2 % 1000)); must_die = true; deliver(r); break; }
        case E_UNKNOWN_TYPE: { Bytes r = mkrec((uint8_t) (t.coin() ? 0x19 : 0x80 | (r2 & 0x7f)), Bytes(8, 1), 8); must_die = true; deliver(r); break; }
        case E_GARBAGE: { Bytes g(1 + r2 % 60); for (size_t i = 0; i < g.size(); i++) g[i] = (uint8_t) (r1 >> (i % 24)) ^ (uint8_t) i; deliver(g); break; }
        case E_BAD_HS_MSG: { // a plaintext handshake record with an out-of-place message type
            Bytes hs = { (uint8_t) (vclient ? 1 : 2), 0, 0, 4, 1, 2, 3, 4 }; if (dt) { hs = { (uint8_t) (vclient ? 1 : 2), 0, 0, 4, 0, 9, 0, 0, 0, 0, 0, 4, 1, 2, 3, 4 }; }
            Bytes r = mkrec(22, hs, hs.size()); deliver(r); break; }
        }
        if (must_die) VF_CHECK(mon.dead, "fatal-event-did-not-kill-session", "event %s did not end the session (last rc %d); %s", ev_name[ev], V.last_rc, desc.c_str());
    };

    // ---- run the handshake, firing the event at unit k (or after completion)
    for (int round = 0; round < 60; round++) {
        give_to_peer(); take_from_peer();
        if (pending.empty()) break;
        while (!pending.empty()) {
            if (!established && !event_done && unit_no == k) { do_event(); if (mon.dead) break; }
            if (pending.empty()) break;
            Bytes u = pending.front(); pending.pop_front(); delivered_units.push_back(u); unit_no++;
            deliver(u);
            if (mon.dead) break;
        }
        if (mon.dead) break;
    }
    if (!event_done && !mon.dead) {
        if (!(V.hs_complete() && P.hs_complete())) { c.count("handshake-did-not-complete-without-event"); VF_FAIL("harness-handshake-failed", "no event fired but handshake incomplete; %s", desc.c_str()); }
        enable_victim_padding();
        // established: pre-queue legit traffic so that valid continuations exist
        for (int i = 0; i < 3; i++) P.send(amsg(10 + i, 20 + i));
        take_from_peer();
        if (t.coin() && !pending.empty()) { Bytes u = pending.front(); pending.pop_front(); delivered_units.push_back(u); deliver(u); }
        do_event();
    }
    if (!mon.dead) { c.count("event-not-fatal"); return; }   // e.g. garbage that is only a partial record, bad hs message ignored by DTLS
    c.count("died:" + mon.why.substr(0, 12));
    if (mon.own_alert) c.count("own-alert-request-close");
    // ---- continuation
    bool had_valid_continuation = false;
    for (int s : steps) {
        c.count(std::string("step:") + st_name[s]);
        switch (s) {
        case S_NEXT_LEGIT: take_from_peer(); if (!pending.empty()) { Bytes u = pending.front(); pending.pop_front(); had_valid_continuation = true; deliver(u); } break;
        case S_ORIGINAL: if (!original.empty()) { had_valid_continuation = true; deliver(original); } break;
        case S_REPLAY_OLD: if (!delivered_units.empty()) deliver(delivered_units[r2 % delivered_units.size()]); break;
        case S_GARBAGE: { Bytes g(5 + r1 % 40, (uint8_t) r2); deliver(g); break; }
        case S_RECV0: { size_t cns; unsigned char *b; (void) b; int rc = V.recv_step((const uint8_t *) "", 0, &cns); (void) rc; mon.observe(); give_to_peer(); break; }
        case S_ENCODE0: case S_ENCODE1: { size_t before = V.wire_out.size() + V.dgram_out.size(); int rc = V.send(amsg(5, 30), s == S_ENCODE1); had_valid_continuation = true;
            VF_CHECK(rc < 0, "encode-succeeded-after-death", "application encode (api %d) returned %d after death (%s); %s", s == S_ENCODE1, rc, mon.why.c_str(), desc.c_str());
            mon.observe(); (void) before; give_to_peer(); break; }
        case S_CLOSE: { V.send_close(); mon.observe(); give_to_peer(); break; }
        }
    }
    if (had_valid_continuation) c.nontrivial(fmt("%d|%d|%s|%d|%s", vclient, ver, established ? "est" : fmt("k%u", std::min(k, unit_no)).c_str(), ev, mon.why.substr(0, 8).c_str()));
}
#ifdef C15_ALERT_SWEEP
static const unsigned SWEEP_K = 4;
static void sweep(Tape &t, Ctx &c) {
    uint64_t idx = t.u64();
    if (idx >= (uint64_t) 256 * 2 * SWEEP_K * NVER) throw Discard{};
    g_forced.on = true; g_forced.adesc = (uint8_t) (idx % 256); idx /= 256; g_forced.vclient = idx % 2; idx /= 2; g_forced.k = (unsigned) (idx % SWEEP_K); idx /= SWEEP_K; g_forced.ver = (int) idx;
    prop(t, c);
}
namespace vf { uint64_t vf_enum_total() { return (uint64_t) 256 * 2 * SWEEP_K * NVER; } }
VF_TARGET("C15.alert_sweep", sweep, 16, 60)
#else
VF_TARGET("C15.stays_dead", prop, 256, 60)
#endif
namespace vf { void vf_global_init(int, char **) { mxh::global_open(); } }
