WRAPS = ['psGetEntropy', 'psGetTime', 'psDiffMsecs', 'psCompareTime', 'time']
PROP = dict(
    level='exploration',
    level_text='Generated (role x version x suite x point x fatal event x continuation) histories with a monitor that, from the first observed death, checks every later API call: no delivery, no completion, no successful encode, receive calls fail, only an alert is emitted. Samples the history space; proves nothing beyond it.',
    level_note='Trusted: harness caller contract; death is observed through documented return codes. DTLS silently drops bad records, so DTLS cases use alert/closure events only. The TLS 1.3 early-data skip exception is not generated (no client early data).',
    technique='property-based testing: stateful history generation with a post-death invariant monitor',
    rule='case = (victim role, version, suite, client-auth, event point k or established, event of 8 kinds (fatal alerts with any of the 256 descriptions), 1-8 continuation steps of 8 kinds, chunking, TLS 1.3 record padding on the victim after completion); c15_alert_sweep (enumerated): every alert description x role x version x 4 early handshake points; non-trivial = the session died and the continuation contained an input that would otherwise have been accepted (valid next record, original of the corrupted record, application encode); distinct by (role, version, point, event, death cause)',
    assumptions=[],
    targets=[dict(name='c15_stays_dead', src=['props/C15/stays_dead.cc', 'harness/wraps.c'], wraps=WRAPS, env={'VERIF_DIR': '/verif'},
                  quick=dict(cases=5000, secs=80), thorough=dict(cases=200000, secs=1200)),
             dict(name='c15_alert_sweep', src=['props/C15/stays_dead.cc', 'harness/wraps.c'], wraps=WRAPS, env={'VERIF_DIR': '/verif'}, defs=['C15_ALERT_SWEEP'], enumerate=True,
                  quick=dict(cases=0, secs=60, stride=1), thorough=dict(cases=0, secs=300, stride=1))],
)
