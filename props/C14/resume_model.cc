// C14: a server resumes a session only with its own, unexpired, untampered, not-invalidated session state whose recorded
// version / suite / extended-master-secret use match the new handshake, and then uses exactly the original secret.
//
// Stateful model-based check.  World: server key set A (+ a foreign key set B with other ticket keys), the process-global
// server session cache, 1-4 clients each holding an sslSessionId_t, live connections, the virtual clock.  A tape-drawn
// sequence of <= 25 commands (full handshakes, honest resumes, clock advances, fatal alerts, closes, cache floods, ticket-key
// changes, attacker edits of stored credentials and of the first client flight) runs against the real library; a model
// records every issued id / ticket / TLS 1.3 PSK identity with its secret and parameters and judges every attempt.
#include "mxh.h"
#include <set>
#include <array>
using namespace vf; using namespace mxh;

extern "C" {
int c14_master_secret(const ssl_t *ssl, unsigned char out[48]);
int c14_flag_resumed(const ssl_t *ssl);
int c14_flag_error(const ssl_t *ssl);
int c14_send_fatal_alert(ssl_t *ssl, int desc);
int c14_session_id(const ssl_t *ssl, unsigned char out[32]);
int c14_ems(const ssl_t *ssl);
int c14_cipher_id(const ssl_t *ssl);
int c14_tls13_chosen_psk(const ssl_t *ssl, unsigned char *out, int max, int *is_resumption);
int c14_is_tls13(const ssl_t *ssl);
int c14_sid_id(const sslSessionId_t *s, unsigned char out[32]);
int c14_sid_master(const sslSessionId_t *s, unsigned char out[48]);
int c14_sid_cipher(const sslSessionId_t *s);
int c14_sid_ticket(const sslSessionId_t *s, unsigned char *out, int max);
int c14_sid_psk_key(const sslSessionId_t *s, unsigned char *out, int max);
int c14_sid_psk_id(const sslSessionId_t *s, unsigned char *out, int max);
unsigned c14_sid_psk_lifetime(const sslSessionId_t *s);
int c14_sid_psk_cipher(const sslSessionId_t *s);
void c14_sid_set_id(sslSessionId_t *s, const unsigned char *id, int len);
void c14_sid_set_master(sslSessionId_t *s, const unsigned char *ms);
void c14_sid_set_cipher(sslSessionId_t *s, unsigned id);
int c14_sid_set_ticket(sslSessionId_t *s, const unsigned char *t, int len);
int c14_sid_set_psk_id(sslSessionId_t *s, const unsigned char *id, int len);
int c14_sid_set_psk_key(sslSessionId_t *s, const unsigned char *k, int len);
int c14_ticket_key_names(const sslKeys_t *k, unsigned char (*names)[16], int max);
int c14_session_table_size(void);
long c14_session_entry_life_ms(void);
void *c14_psk_clone_from_sid(const sslSessionId_t *s);
void c14_psk_free(void *p);
int c14_sid_install_psk(sslSessionId_t *s, const void *snap);
}

namespace {
enum { CK_ID = 0, CK_TICKET = 1, CK_PSK13 = 2 };
const char *ck_name[] = { "id", "ticket", "psk13" };

struct Cred {
    int kind; Bytes ident; int issuer; Bytes secret; int ver; uint16_t suite; bool ems; int64_t issue_ms; int64_t life_ms;
    bool invalidated = false; int key_uid = -1; void *psk_snap = nullptr; int owner = -1;
    bool established = true;   // false: the id was handed out in a ServerHello but the server has not (yet) verified the client's Finished of that handshake
};
struct TKey { std::array<uint8_t, 16> name; uint8_t sym[32], mac[32]; int symlen; int uid; bool refused = false; };
// The application's session-ticket callback (matrixSslSetSessionTicketCallback): asked before a ticket key is used to open an RFC 5077
// ticket; a negative answer means "do not use this key".  It knows no keys of its own; names in g_refused are the ones it has retired.
std::set<std::string> g_refused;
int32 ticket_cb(void *, unsigned char name[16], short found) { if (g_refused.count(std::string((const char *) name, 16))) return PS_FAILURE; return found ? PS_SUCCESS : PS_FAILURE; }
struct Server { sslKeys_t *keys = nullptr; std::vector<TKey> tk; };
struct Client { sslSessionId_t *sid = nullptr; int cred = -1; bool dirty = false; };
struct Live { std::unique_ptr<Pair> p; int cred; int client; bool tls13; };

enum Outcome { O_FAILED = 0, O_FULL = 1, O_RESUMED = 2 };
const char *out_name[] = { "failed", "full", "resumed" };

struct Hello { int ver; int ems; /* 0 = offered, -1 = not offered */ std::vector<uint16_t> suites; bool tickets; };

struct World {
    Ctx &c; Server A, B; sslKeys_t *ckeys = nullptr; int auth = AUTH_RSA;
    std::vector<Client> cl; std::vector<Cred> creds; std::vector<Live> live; std::vector<std::unique_ptr<Pair>> flood_open;
    int next_uid = 1; int registrations = 0; bool flooded = false, disturbed = false, any_failure = false, any_fatal = false, keys_changed = false, expired_jump = false;
    // what made the history "interesting" before the latest resume attempt
    bool pre_expiry = false, pre_fatal = false, pre_flood = false, pre_keyrm = false;
    std::string trace; std::multiset<std::string> kinds; int estream = 1; int force_keep = -1;   // scripted prefixes: 1 keep the next session open, 0 close it
    explicit World(Ctx &cc) : c(cc) {}
    ~World() {
        live.clear(); flood_open.clear();
        for (auto &k : cl) if (k.sid) matrixSslDeleteSessionId(k.sid);
        for (auto &cr : creds) if (cr.psk_snap) c14_psk_free(cr.psk_snap);
        if (A.keys) matrixSslDeleteKeys(A.keys);
        if (B.keys) matrixSslDeleteKeys(B.keys);
        if (ckeys) matrixSslDeleteKeys(ckeys);
    }
    void note(const std::string &s) { trace += s; trace += "; "; if (c.verbose) fprintf(stderr, "  cmd: %s\n", s.c_str()); }
};

int64_t now_ms() { return vfh_clock_get_ms(); }

bool has_key(const Server &s, int uid) { for (auto &k : s.tk) if (k.uid == uid) return true; return false; }
bool key_refused(const Server &s, int uid) { for (auto &k : s.tk) if (k.uid == uid) return k.refused; return false; }

TKey make_key(World &w, Tape &t, const std::array<uint8_t, 16> *force_name = nullptr) {
    TKey k; k.uid = w.next_uid++;
    for (int i = 0; i < 16; i++) k.name[i] = (uint8_t) ('k' + (i * 7 + k.uid * 13) % 23);
    k.name[0] = (uint8_t) k.uid; k.name[15] = (uint8_t) (0xA0 + k.uid);
    if (force_name) k.name = *force_name;
    // key material: a hash of (tape byte, uid) - the uid is unique per world, so no two keys (of A or B) ever share material
    uint8_t seed = t.u8();
    for (int i = 0; i < 32; i++) {
        uint8_t in[4] = { seed, (uint8_t) k.uid, (uint8_t) i, 0x5a }; uint64_t h1 = fnv(in, 4); in[3] = 0xa5; uint64_t h2 = fnv(in, 4);
        k.sym[i] = (uint8_t) (h1 >> 17); k.mac[i] = (uint8_t) (h2 >> 23);
    }
    k.sym[0] = (uint8_t) k.uid; k.mac[0] = (uint8_t) k.uid;   // ... and differ in the first byte by construction
    k.symlen = t.coin() ? 32 : 16;
    return k;
}
bool load_key(Server &s, const TKey &k) {
    if (matrixSslLoadSessionTicketKeys(s.keys, k.name.data(), k.sym, (short) k.symlen, k.mac, 32) < 0) return false;
    s.tk.push_back(k); return true;
}
// KeyStore::fresh() may pre-load a default ticket key into server key sets; this check manages the key list itself
void drop_preloaded_ticket_keys(sslKeys_t *k) {
    unsigned char names[40][16]; int n = c14_ticket_key_names(k, names, 40);
    for (int i = 0; i < n; i++) if (matrixSslDeleteSessionTicketKey(k, names[i]) != PS_SUCCESS) throw Discard{};
    if (c14_ticket_key_names(k, names, 40) != 0) throw Discard{};
}
// library's key list must mirror the model's (sanity of the model, and of Load/Delete themselves)
void check_key_list(World &w, const Server &s) {
    unsigned char names[40][16]; int n = c14_ticket_key_names(s.keys, names, 40);
    VF_CHECK((size_t) n == s.tk.size(), "ticket-key-list-mismatch", "library holds %d ticket keys, model %zu; %s", n, s.tk.size(), w.trace.c_str());
    for (int i = 0; i < n; i++) VF_CHECK(memcmp(names[i], s.tk[i].name.data(), 16) == 0, "ticket-key-list-mismatch", "key %d name differs; %s", i, w.trace.c_str());
}

// ---------------------------------------------------------------- wire helpers (first client flight = one ClientHello record)
struct CH { bool ok = false; size_t rec_len_off = 3, hs_len_off = 6, sid_len_off = 0, sid_off = 0, sid_len = 0, suites_off = 0, suites_len = 0, ext_len_off = 0, ext_off = 0, ext_len = 0, end = 0; };
CH parse_ch(const Bytes &b) {
    CH h; if (b.size() < 5 + 4 + 2 + 32 + 1 || b[0] != 22 || b[5] != 1) return h;
    size_t rl = (size_t) (b[3] << 8 | b[4]); if (5 + rl > b.size()) return h;
    h.end = 5 + rl; size_t o = 5 + 4 + 2 + 32;
    h.sid_len_off = o; h.sid_len = b[o]; h.sid_off = o + 1; o = h.sid_off + h.sid_len; if (o + 2 > h.end) return h;
    h.suites_len = (size_t) (b[o] << 8 | b[o + 1]); h.suites_off = o + 2; o = h.suites_off + h.suites_len; if (o + 1 > h.end) return h;
    o += 1 + b[o]; if (o + 2 > h.end) { h.ok = (o == h.end); return h; }
    h.ext_len_off = o; h.ext_len = (size_t) (b[o] << 8 | b[o + 1]); h.ext_off = o + 2; if (h.ext_off + h.ext_len != h.end) return h;
    h.ok = true; return h;
}
void fix_lengths(Bytes &b, long delta) {   // after inserting/removing bytes inside the ClientHello body
    size_t rl = (size_t) (b[3] << 8 | b[4]) + delta; b[3] = (uint8_t) (rl >> 8); b[4] = (uint8_t) rl;
    size_t hl = (size_t) (b[6] << 16 | b[7] << 8 | b[8]) + delta; b[6] = (uint8_t) (hl >> 16); b[7] = (uint8_t) (hl >> 8); b[8] = (uint8_t) hl;
}
// locate extension `type` inside the ClientHello; returns offset of its 4-byte header or 0
size_t find_ext(const Bytes &b, const CH &h, int type, size_t *len) {
    size_t o = h.ext_off;
    while (h.ok && h.ext_len_off && o + 4 <= h.end) {
        int ty = b[o] << 8 | b[o + 1]; size_t l = (size_t) (b[o + 2] << 8 | b[o + 3]);
        if (o + 4 + l > h.end) return 0;
        if (ty == type) { *len = l; return o; }
        o += 4 + l;
    }
    return 0;
}

// ---------------------------------------------------------------- running one handshake
struct Attempt {
    std::unique_ptr<Pair> p; bool tent = false; Bytes tent_secret; bool s_done = false, c_done = false, s_res = false, c_res = false, data_ok = false, tls13 = false;
    bool srv_fatal = false; int outcome = O_FAILED;
};
typedef std::function<void(int dir, int nth, Bytes &, Pair &)> Mitm;

Bytes server_secret(ssl_t *s, bool *tent) {
    *tent = false; if (!s) return Bytes();
    if (c14_is_tls13(s)) { unsigned char k[64]; int isres = 0; int n = c14_tls13_chosen_psk(s, k, 64, &isres); if (n > 0 && isres) { *tent = true; return Bytes(k, k + n); } return Bytes(); }
    if (c14_flag_resumed(s)) { unsigned char m[48]; c14_master_secret(s, m); *tent = true; return Bytes(m, m + 48); }
    return Bytes();
}

Attempt run_hs(World &w, Server &srv, sslSessionId_t *sid, const Hello &h, const Mitm &mitm, bool srv_require_ems = false) {
    Attempt a; a.p.reset(new Pair);
    Pair &p = *a.p; Config cc, sc; cc.client = true; sc.client = false;
    sc.versions = { TLS13, TLS12, TLS11 }; cc.versions = { h.ver }; cc.suites = h.suites; cc.ems = h.ems; cc.tickets = h.tickets; cc.sid = sid;
    cc.keys = w.ckeys; sc.keys = srv.keys; cc.auth = sc.auth = w.auth; sc.ems = srv_require_ems ? 1 : 0;
    cc.entropy_stream = 1 + (w.estream % 6) * 2; sc.entropy_stream = cc.entropy_stream + 1; w.estream++;
    if (p.s.open(sc) < 0) throw Discard{};
    int nth[2] = { 0, 0 };
    p.mitm = [&](int dir, Bytes &d) {
        // "the server entered resumption": it answers the hello (not with an alert) while in resumed state; sampled when its first flight leaves
        if (dir == 1 && !a.tent && !p.s.failed && !d.empty() && d[0] == 22 /* a handshake record, not an alert */) { bool t; Bytes s = server_secret(p.s.ssl, &t); if (t) { a.tent = true; a.tent_secret = s; } }
        if (mitm) mitm(dir, nth[dir], d, p);
        nth[dir]++;
    };
    int rc = p.c.open(cc);
    if (rc < 0) { a.outcome = O_FAILED; p.mitm = nullptr; return a; }   // the client library refused to even start (e.g. unusable stored credential)
    p.run();
    a.tls13 = p.s.ssl && c14_is_tls13(p.s.ssl);
    a.s_done = p.s.hs_complete() && p.s.alive(); a.c_done = p.c.hs_complete() && p.c.alive();
    a.s_res = a.s_done && matrixSslIsResumedSession(p.s.ssl) == PS_TRUE; a.c_res = a.c_done && matrixSslIsResumedSession(p.c.ssl) == PS_TRUE;
    a.srv_fatal = p.s.failed || p.s.req_close || p.s.fatal_alert_recv >= 0 || (p.s.ssl && c14_flag_error(p.s.ssl));
    if (a.s_done && a.c_done) {
        static const uint8_t m1[] = "c14 ping from client", m2[] = "c14 pong from server";
        size_t d0 = p.s.delivered.size(), d1 = p.c.delivered.size();
        p.c.send(m1, sizeof m1); p.run(); p.s.send(m2, sizeof m2); p.run();
        a.data_ok = p.s.delivered.size() == d0 + sizeof m1 && memcmp(p.s.delivered.data() + d0, m1, sizeof m1) == 0 &&
                    p.c.delivered.size() == d1 + sizeof m2 && memcmp(p.c.delivered.data() + d1, m2, sizeof m2) == 0 && p.s.alive() && p.c.alive();
    }
    a.outcome = (a.s_done && a.c_done) ? (a.s_res ? O_RESUMED : O_FULL) : O_FAILED;
    if (w.c.verbose) {
        auto ev = [](Endpoint &e) { std::string s; for (auto &x : e.events) s += fmt("(%d,%d,%d)", x.kind, x.a, x.b); return s; };
        fprintf(stderr, "    hs: outcome=%s tent=%d s_done=%d c_done=%d s_res=%d c_res=%d | client rc=%d alert_recv=%d ev=%s | server rc=%d alert_recv=%d ev=%s\n", out_name[a.outcome], a.tent, a.s_done, a.c_done, a.s_res, a.c_res,
                p.c.last_rc, p.c.fatal_alert_recv, ev(p.c).c_str(), p.s.last_rc, p.s.fatal_alert_recv, ev(p.s).c_str());
    }
    p.mitm = nullptr;   // the lambda captured locals
    return a;
}

int find_cred_by_secret(const World &w, const Bytes &s) { for (size_t i = 0; i < w.creds.size(); i++) if (w.creds[i].secret == s) return (int) i; return -1; }
int find_cred_by_ident(const World &w, int kind, const Bytes &id) { for (size_t i = 0; i < w.creds.size(); i++) if (w.creds[i].kind == kind && w.creds[i].ident == id) return (int) i; return -1; }

// After a completed handshake: which credential does the client hold now?  Creates the model record for a newly issued one.
int harvest(World &w, sslSessionId_t *sid, int ci, Attempt &a, int issuer, const Hello &h, const Bytes &pre = Bytes()) {
    struct { sslSessionId_t *sid; } k{ sid }; Pair &p = *a.p; unsigned char buf[4096];
    if (a.tls13) {
        int n = c14_sid_psk_id(k.sid, buf, sizeof buf); if (n <= 0 || n > (int) sizeof buf) return -1;
        Bytes id(buf, buf + n); int e = find_cred_by_ident(w, CK_PSK13, id); if (e >= 0) return e;
        if (id == pre) return -1;   // no NewSessionTicket arrived: the sid still holds what was put there before the handshake
        Cred cr; cr.kind = CK_PSK13; cr.ident = id; cr.issuer = issuer; unsigned char key[64]; int kn = c14_sid_psk_key(k.sid, key, 64); cr.secret.assign(key, key + kn);
        cr.ver = TLS13; cr.suite = (uint16_t) c14_sid_psk_cipher(k.sid); cr.ems = false; cr.issue_ms = now_ms(); cr.life_ms = (int64_t) c14_sid_psk_lifetime(k.sid) * 1000;
        cr.owner = ci;
        Server &s = issuer ? w.B : w.A; cr.key_uid = s.tk.empty() ? -1 : s.tk[0].uid;
        if (id.size() >= 16 && !s.tk.empty()) VF_CHECK(memcmp(id.data(), s.tk[0].name.data(), 16) == 0, "ticket-not-sealed-with-first-key", "TLS 1.3 ticket key name is not the first key's; %s", w.trace.c_str());
        cr.psk_snap = c14_psk_clone_from_sid(k.sid);
        w.creds.push_back(cr); return (int) w.creds.size() - 1;
    }
    unsigned char ms[48]; c14_master_secret(p.s.ssl, ms);
    Cred cr; cr.issuer = issuer; cr.secret.assign(ms, ms + 48); cr.ver = h.ver; cr.suite = (uint16_t) c14_cipher_id(p.s.ssl); cr.ems = c14_ems(p.s.ssl) != 0; cr.issue_ms = now_ms(); cr.life_ms = c14_session_entry_life_ms(); cr.owner = ci;
    int tn = c14_sid_ticket(k.sid, buf, sizeof buf);
    if (h.tickets && tn > 0 && tn <= (int) sizeof buf) {
        Bytes id(buf, buf + tn); int e = find_cred_by_ident(w, CK_TICKET, id); if (e >= 0) return e;
        if (id == pre) return -1;
        cr.kind = CK_TICKET; cr.ident = id; Server &s = issuer ? w.B : w.A; cr.key_uid = s.tk.empty() ? -1 : s.tk[0].uid;
        if (!s.tk.empty()) VF_CHECK(tn >= 16 && memcmp(id.data(), s.tk[0].name.data(), 16) == 0, "ticket-not-sealed-with-first-key", "ticket key name is not the first key's; %s", w.trace.c_str());
        w.creds.push_back(cr); return (int) w.creds.size() - 1;
    }
    unsigned char idb[32]; int in = c14_sid_id(k.sid, idb); if (in <= 0) return -1;
    Bytes id(idb, idb + in); int e = find_cred_by_ident(w, CK_ID, id); if (e >= 0) return e;
    // the id the client stored must be the one the server registered
    unsigned char sidb[32]; int sn = c14_session_id(p.s.ssl, sidb);
    if (sn == 0) return -1;   // the server issued no id (cache full of in-use entries): the library leaves the client's old sid content untouched
    VF_CHECK(sn == in && memcmp(sidb, idb, in) == 0, "client-server-session-id-differ", "client stored %s, server has %s; %s", hex(idb, in).c_str(), hex(sidb, sn).c_str(), w.trace.c_str());
    cr.kind = CK_ID; cr.ident = id; w.creds.push_back(cr); return (int) w.creds.size() - 1;
}

// Put credential X (as issued) into the client's sslSessionId_t.
void install(World &w, int ci, int x) {
    Client &k = w.cl[ci]; const Cred &cr = w.creds[x];
    matrixSslClearSessionId(k.sid);
    if (cr.kind == CK_PSK13) { if (c14_sid_install_psk(k.sid, cr.psk_snap) < 0) throw Discard{}; }
    else {
        c14_sid_set_cipher(k.sid, cr.suite); c14_sid_set_master(k.sid, cr.secret.data());
        if (cr.kind == CK_ID) c14_sid_set_id(k.sid, cr.ident.data(), (int) cr.ident.size());
        else if (c14_sid_set_ticket(k.sid, cr.ident.data(), (int) cr.ident.size()) < 0) throw Discard{};
    }
    k.cred = x; k.dirty = false;
}

bool expired(const Cred &cr, int64_t slack) { return now_ms() - cr.issue_ms > cr.life_ms + slack; }

// first violated clause of the property for presenting credential cr unmodified with this hello to server A; "" if it may resume
std::string why_not(const World &w, const Cred &cr, const Hello &h) {
    std::string k = std::string(":") + ck_name[cr.kind];
    if (cr.issuer != 0) return "resumed-with-foreign-ticket" + k;
    if (!cr.established) return "resumed-unestablished-session";
    if (cr.kind != CK_ID && !has_key(w.A, cr.key_uid)) return "resumed-with-removed-ticket-key" + k;
    if (cr.kind == CK_TICKET && key_refused(w.A, cr.key_uid)) return "resumed-with-ticket-key-refused-by-callback" + k;
    if (expired(cr, 1000)) return "resumed-expired" + k;
    if (cr.kind == CK_ID && cr.invalidated) return "resumed-after-fatal-alert";
    if (h.ver != cr.ver) return "resumed-version-mismatch" + k;
    if (cr.kind != CK_PSK13 && (h.ems == 0) != cr.ems) return "resumed-ems-mismatch" + k;
    if (!h.suites.empty() && std::find(h.suites.begin(), h.suites.end(), cr.suite) == h.suites.end()) return "resumed-suite-mismatch" + k;
    return "";
}

std::string cred_str(const World &w, int x) {
    if (x < 0) return "none"; const Cred &c = w.creds[x];
    return fmt("#%d[%s %s %04x ems=%d srv=%c age=%llds%s id=%s..]", x, ck_name[c.kind], ver_name(c.ver), c.suite, c.ems, c.issuer ? 'B' : 'A', (long long) ((now_ms() - c.issue_ms) / 1000), c.invalidated ? " INVALIDATED" : (c.established ? "" : " NOT-ESTABLISHED"), hex(c.ident.data(), c.ident.size(), 6).c_str());
}

// Common judgement of one attempt.  base = credential whose identifier was presented (possibly edited); never_sig != "" for attacker
// edits that must never resume; binder_attack: the PSK binder cannot be valid, so the server must not even select the PSK.
void judge(World &w, Attempt &a, int ci, int base, const Hello &h, const std::string &never_sig, bool binder_attack, bool honest, const std::string &what) {
    std::string ctx = fmt("%s -> %s (tentative=%d) base=%s now=%llds; history: %s", what.c_str(), out_name[a.outcome], a.tent, cred_str(w, base).c_str(), (long long) (now_ms() / 1000), w.trace.c_str());
    int z = -1;
    if (a.tent && base >= 0 && !w.creds[base].established) {  // the server answered in resumed state for a session whose creating handshake it never saw finished
        bool allzero = true; for (auto b : a.tent_secret) if (b) allzero = false;   // before the original's ClientKeyExchange the entry holds 48 zero bytes, afterwards the real secret
        VF_FAIL(allzero ? "resumed-unestablished-session:zero-secret" : "resumed-unestablished-session:real-secret", "server entered resumption (secret %s.., handshake %s) of a session that was never established; %s",
                hex(a.tent_secret.data(), a.tent_secret.size(), 8).c_str(), a.outcome == O_RESUMED ? "COMPLETED as resumed" : "did not complete", ctx.c_str());
    }
    if (a.tent) {
        z = find_cred_by_secret(w, a.tent_secret);
        bool allzero = true; for (auto b : a.tent_secret) if (b) allzero = false;
        VF_CHECK(z >= 0, allzero ? "resumed-with-wrong-secret:zeroed" : "resumed-with-wrong-secret:unknown", "server entered resumption with a secret (%s..) that belongs to no issued credential; %s", hex(a.tent_secret.data(), a.tent_secret.size(), 8).c_str(), ctx.c_str());
        if (base >= 0) VF_CHECK(z == base, "resumed-with-wrong-secret:other-session", "server entered resumption with the secret of %s, not of the presented credential; %s", cred_str(w, z).c_str(), ctx.c_str());
        if (binder_attack) VF_FAIL("psk-binder-not-verified", "server selected the resumption PSK although the binder cannot verify; %s", ctx.c_str());
    }
    if (a.outcome == O_RESUMED) {
        VF_CHECK(a.tent && z >= 0, "resumed-with-wrong-secret:unobserved", "resumed but no secret observed; %s", ctx.c_str());
        VF_CHECK(a.c_res, "resume-disagreement", "server reports a resumed session, client does not; %s", ctx.c_str());
        VF_CHECK(a.data_ok, "resumed-data-roundtrip-failed", "application data did not round-trip on the resumed session; %s", ctx.c_str());
        // the keys in use derive from the original secret: server's current secret still equals the credential's
        bool t; Bytes cur = server_secret(a.p->s.ssl, &t);
        VF_CHECK(t && cur == w.creds[z].secret, "resumed-with-wrong-secret:changed", "server secret after the handshake differs from the credential's; %s", ctx.c_str());
        if (!never_sig.empty()) VF_FAIL(never_sig, "attacker-modified credential was resumed; %s", ctx.c_str());
        std::string why = why_not(w, w.creds[z], h);
        if (!why.empty()) VF_FAIL(why, "server resumed a credential that must not resume; %s", ctx.c_str());
    } else if (a.s_done && a.c_done) {
        VF_CHECK(!a.c_res, "resume-disagreement", "client reports a resumed session, server does not; %s", ctx.c_str());
        VF_CHECK(a.data_ok, "full-data-roundtrip-failed", "application data did not round-trip after a full handshake; %s", ctx.c_str());
    }
    // converse, only for calm histories: an eligible credential presented honestly does resume
    static const bool strict = getenv("C14_STRICT") != nullptr;   // diagnostic mode: also expect resumption after attacker commands that should not affect other clients' cache entries (availability, outside the property)
    if (honest && base >= 0 && !w.flooded && (!w.disturbed || strict) && !w.any_failure && !w.any_fatal && !w.keys_changed && w.registrations <= 28 && !w.cl[ci].dirty) {
        const Cred &cr = w.creds[base];
        bool near_edge = llabs((now_ms() - cr.issue_ms) - cr.life_ms) <= 3000;
        bool suite_free = cr.kind == CK_PSK13 && h.suites.empty();   // TLS 1.3 negotiates the suite first; with the default list the server may pick another hash and then (correctly) ignores the PSK
        if (!near_edge && !suite_free && !expired(cr, 0) && why_not(w, cr, h).empty())
            VF_CHECK(a.outcome == O_RESUMED, "eligible-credential-not-resumed", "%s", ctx.c_str());
    }
    // model update: a connection bound to a cached session that dies with a fatal alert invalidates that session
    if (a.outcome == O_FAILED) { w.any_failure = true; if (z >= 0 && a.srv_fatal && w.creds[z].kind == CK_ID) w.creds[z].invalidated = true; }
}

void keep_or_close(World &w, Tape &t, Attempt &a, int ci, int cred) {
    if (a.outcome == O_FAILED || !a.p) return;
    unsigned m = (unsigned) t.below(4);   // 0 close_notify + delete, 1 keep open, 2 delete without closure, 3 keep open
    if (w.force_keep == 1) m = 1; else if (w.force_keep == 0) m = 0;
    if ((m == 1 || m == 3) && w.live.size() < 6) { w.live.push_back(Live{ std::move(a.p), cred, ci, a.tls13 }); return; }
    if (m == 0) { a.p->c.send_close(); a.p->run(); a.p->s.send_close(); a.p->run(); }
    a.p.reset();
}

std::vector<Suite> case_suites(const World &w, int ver) {
    std::vector<Suite> r;
    for (auto &s : suites_for(ver)) if (s.tls13 || s.auth == w.auth || s.auth == AUTH_PSK) r.push_back(s);
    return r;
}

void nontrivial_after(World &w, const std::string &kind, int outcome) {
    w.kinds.insert(kind);
    std::string key; std::set<std::string> u(w.kinds.begin(), w.kinds.end()); for (auto &k : u) key += k + fmt("x%zu,", std::min<size_t>(w.kinds.count(k), 3));
    w.c.nontrivial(key + "|" + kind + "|" + out_name[outcome]);
}
} // namespace

static void prop(Tape &t, Ctx &c) {
    g_refused.clear();
    matrixSslClose(); matrixSslOpen();   // empty process-global session cache
    vfh_entropy_reset(14000 + t.u16()); vfh_clock_set_ms(1000000);
    World w(c);
    w.auth = t.chance(1, 4) ? AUTH_EC : AUTH_RSA;
    w.A.keys = KeyStore::fresh(true, w.auth, true); w.ckeys = KeyStore::fresh(false, w.auth, false);
    if (!w.A.keys || !w.ckeys) throw Discard{};
    drop_preloaded_ticket_keys(w.A.keys);
    if (matrixSslLoadPsk(w.A.keys, KeyStore::psk_key(), 16, KeyStore::psk_id(), 8) < 0 || matrixSslLoadPsk(w.ckeys, KeyStore::psk_key(), 16, KeyStore::psk_id(), 8) < 0) throw Discard{};
    size_t nkeys = 1 + t.below(3); if (t.chance(1, 12)) nkeys = 0;
    for (size_t i = 0; i < nkeys; i++) if (!load_key(w.A, make_key(w, t))) throw Discard{};
    size_t ncl = 1 + t.below(4); w.cl.resize(ncl);
    for (auto &k : w.cl) if (matrixSslNewSessionId(&k.sid, NULL) < 0) throw Discard{};
    auto need_B = [&]() {
        if (w.B.keys) return;
        w.B.keys = KeyStore::fresh(true, w.auth, true); if (!w.B.keys) throw Discard{};
        drop_preloaded_ticket_keys(w.B.keys);
        // B's ticket key: other material; sometimes under the very name of A's sealing key
        bool same_name = !w.A.tk.empty() && t.coin();
        TKey k = make_key(w, t, same_name ? &w.A.tk[0].name : nullptr);
        if (!load_key(w.B, k)) throw Discard{};
        if (same_name) c.count("foreign-key-same-name");
    };
    const int64_t LIFE = c14_session_entry_life_ms();
    size_t ncmd = 1 + t.below(25);
    bool did_nontrivial = false;

    auto do_full = [&](int ci, int srv_i, int ver, const Suite &su, int ems, bool tickets) {
        Client &k = w.cl[ci]; Server &srv = srv_i ? w.B : w.A;
        matrixSslClearSessionId(k.sid); k.cred = -1; k.dirty = false;
        Hello h{ ver, ems, { su.id }, tickets };
        w.note(fmt("Full(c%d,%c,%s,%s,ems=%d,tickets=%d)", ci, srv_i ? 'B' : 'A', ver_name(ver), su.name, ems == 0, tickets));
        Attempt a = run_hs(w, srv, k.sid, h, nullptr);
        w.registrations++;
        c.count(fmt("full:%s", out_name[a.outcome])); c.count(fmt("full-ver:%s", ver_name(ver)));
        if (a.outcome == O_FAILED) { w.any_failure = true; k.dirty = true; c.count(fmt("full-failed:%s:%s", ver_name(ver), su.name)); return; }
        VF_CHECK(a.outcome == O_FULL && !a.tent, "resumed-without-credential", "a handshake without any stored credential was resumed; %s", w.trace.c_str());
        VF_CHECK(a.data_ok && !a.c_res, "full-data-roundtrip-failed", "full handshake: data round trip failed or client claims resumption; %s", w.trace.c_str());
        int x = harvest(w, k.sid, ci, a, srv_i, h); k.cred = x;
        if (x >= 0) c.count(fmt("issued:%s", ck_name[w.creds[x].kind])); else c.count("issued:none");
        keep_or_close(w, t, a, ci, (x >= 0 && w.creds[x].kind == CK_ID) ? x : -1);
    };

    // one resume attempt by client ci presenting whatever its sid holds now (after optional edits already applied)
    auto sid_ident = [&](sslSessionId_t *sid) { unsigned char b[4096]; int n = c14_sid_psk_id(sid, b, sizeof b); if (n <= 0) n = c14_sid_ticket(sid, b, sizeof b); if (n <= 0 || n > (int) sizeof b) return Bytes(); return Bytes(b, b + n); };
    auto do_attempt = [&](int ci, int base, Hello h, const std::string &what, std::string never_sig, bool binder_attack, bool honest, const Mitm &mitm, const std::string &ntkind, const bool *edited = nullptr) {
        Client &k = w.cl[ci]; Bytes pre = sid_ident(k.sid);
        Attempt a = run_hs(w, w.A, k.sid, h, mitm);
        if (edited && !*edited) { never_sig = ""; binder_attack = false; c.count("wire-edit-was-noop"); }   // nothing to edit in this hello (e.g. no session id in a ticket resume)
        w.registrations++;
        c.count(fmt("attempt:%s:%s", ntkind.c_str(), out_name[a.outcome]));
        if (a.tent) c.count(fmt("tentative:%s", ntkind.c_str()));
        judge(w, a, ci, base, h, never_sig, binder_attack, honest, what);
        int bound = -1;
        if (a.outcome != O_FAILED) { int x = harvest(w, k.sid, ci, a, 0, h, pre); k.cred = x; k.dirty = x < 0; if (a.outcome == O_RESUMED) bound = find_cred_by_secret(w, a.tent_secret); else if (x >= 0 && w.creds[x].kind == CK_ID) bound = x; }
        else k.dirty = true;
        bool interesting = !honest || w.pre_expiry || w.pre_fatal || w.pre_flood || w.pre_keyrm;
        if (interesting) { did_nontrivial = true; nontrivial_after(w, ntkind + (w.pre_expiry ? "+exp" : "") + (w.pre_fatal ? "+fatal" : "") + (w.pre_flood ? "+flood" : "") + (w.pre_keyrm ? "+keyrm" : ""), a.outcome); }
        if (bound >= 0 && w.creds[bound].kind != CK_ID) bound = -1;
        keep_or_close(w, t, a, ci, bound);
    };

    // pick a client that holds a credential (prefer), else -1
    auto pick_holder = [&](int kind_mask) -> int {
        std::vector<int> v; for (size_t i = 0; i < w.cl.size(); i++) if (w.cl[i].cred >= 0 && (kind_mask & (1 << w.creds[w.cl[i].cred].kind))) v.push_back((int) i);
        if (v.empty()) return -1; return v[t.below(v.size())];
    };
    auto matching_hello = [&](const Cred &cr) { return Hello{ cr.ver, cr.ems || cr.kind == CK_PSK13 ? 0 : -1, { cr.suite }, cr.kind == CK_TICKET }; };

    auto fatal_on = [&](size_t li, bool to_server, unsigned pos) {
        Live L = std::move(w.live[li]); w.live.erase(w.live.begin() + li);
        Pair &p = *L.p; static const uint8_t m[] = "x";
        Endpoint &from = to_server ? p.c : p.s, &to = to_server ? p.s : p.c;
        // variant (pos 6, 7; TLS <= 1.2): the peer itself sends a fatal-level alert - close_notify (0) or handshake_failure (40) - which the
        // other end receives; RFC 5246 7.2.2: whatever it describes, a fatal alert invalidates the session
        bool sent_alert = false; int adesc = pos == 6 ? 0 : 40;
        if (pos >= 6 && !from.dtls && from.ssl && from.hs_complete() && matrixSslGetNegotiatedVersion(from.ssl) != v_tls_1_3) {
            from.sel(); if (c14_send_fatal_alert(from.ssl, adesc) >= 0) { sent_alert = true; from.out_pending = true; from.pump_out(); Bytes rec = from.take_wire(); to.feed(rec); p.run(); } }
        bool got;
        if (sent_alert) { got = to.fatal_alert_recv == adesc; c.count(fmt("cmd:fatal-alert-from-peer:%d", adesc)); }
        else {
        from.send(m, 1); Bytes rec = from.take_wire();
        if (rec.size() > 6) rec[rec.size() - 1 - std::min<size_t>(pos, rec.size() - 6)] ^= 0x40;
        to.feed(rec); p.run();
        got = from.fatal_alert_recv >= 0; }
        w.note(fmt("FatalOn(c%d's session, %s to %s, bound=%s)%s", L.client, sent_alert ? fmt("fatal alert %d", adesc).c_str() : "corrupt record", to_server ? "server" : "client", cred_str(w, L.cred).c_str(), got ? "" : " [no alert seen]"));
        c.count(got ? "cmd:fatal-on" : "cmd:fatal-on-no-alert");
        if (got) { w.any_fatal = true; w.pre_fatal = true; if (L.cred >= 0 && w.creds[L.cred].kind == CK_ID) w.creds[L.cred].invalidated = true; }
        L.p.reset();                                    // the application deletes both ends right away, as it must after a fatal alert
    };
    auto close_live = [&](size_t li, bool notify) {
        Live L = std::move(w.live[li]); w.live.erase(w.live.begin() + li);
        if (notify) { L.p->c.send_close(); L.p->run(); L.p->s.send_close(); L.p->run(); }
        w.note(fmt("Close(c%d's session,%s)", L.client, notify ? "close_notify" : "drop")); c.count("cmd:close");
    };
    auto honest_resume = [&](int ci, int x) {
        if (w.cl[ci].cred != x || w.cl[ci].dirty) install(w, ci, x);
        const Cred cr = w.creds[x]; Hello h = matching_hello(cr);
        std::string kind = fmt("Resume-%s", ck_name[cr.kind]);
        w.note(fmt("%s(c%d,%s)", kind.c_str(), ci, cred_str(w, x).c_str()));
        do_attempt(ci, x, h, kind, "", false, true, nullptr, kind);
    };

    auto tls13_victim_id = [&](int x, int ci) {
        Client &k = w.cl[ci];
        matrixSslClearSessionId(k.sid); k.cred = -1; k.dirty = true;
        Bytes id = w.creds[x].ident; if (t.chance(1, 3)) { for (size_t i = 4; i < id.size(); i++) id[i] = 0; }   // or just "slot index + zeros"
        unsigned char junk[48]; t.bytes(junk, 48); auto cand = case_suites(w, TLS13); const Suite &su = cand[t.below(cand.size())];
        c14_sid_set_cipher(k.sid, su.id); c14_sid_set_master(k.sid, junk); c14_sid_set_id(k.sid, id.data(), (int) id.size());
        Hello h{ TLS13, 0, { su.id }, false };
        w.note(fmt("Tls13-hello-with-victim-id(c%d,%s)", ci, cred_str(w, x).c_str()));
        w.disturbed = true;
        bool follow = t.coin(); int fk = w.force_keep; if (follow) w.force_keep = 0;
        do_attempt(ci, -1, h, "Tls13-hello-with-victim-id", "tls13-hello-with-cached-id-resumes", false, false, nullptr, "Tls13-hello-with-victim-id");
        w.force_keep = fk;
        if (!follow) return;
        // follow-up: the attacker now offers the victim's id with an all-zero master secret and the TLS 1.3 suite, at the victim's version
        const Cred cr = w.creds[x]; unsigned char zero[48] = { 0 };
        matrixSslClearSessionId(k.sid); c14_sid_set_cipher(k.sid, su.id); c14_sid_set_master(k.sid, zero); c14_sid_set_id(k.sid, cr.ident.data(), (int) cr.ident.size());
        k.cred = -1; k.dirty = true;
        Hello h2{ cr.ver, cr.ems ? 0 : -1, { su.id }, false };
        w.note(fmt("Resume-victim-id-with-zero-secret(c%d,%s,suite %04x)", ci, cred_str(w, x).c_str(), su.id));
        do_attempt(ci, x, h2, "Resume-victim-id-with-zero-secret", "resumed-with-wrong-secret:zeroed", false, false, nullptr, "Resume-victim-id-with-zero-secret");
    };
    // Scripted prefix (1 case in 6, a second shape 1 in 12): history shapes that random command choice reaches too rarely - several live connections
    // of ONE cached session, one of which dies with a fatal alert while another is closed normally before/after.
    unsigned script = (unsigned) t.below(12);   // 0..8: random commands only (all-zero tape = simplest case)
    if (script >= 10) {
        int ver = (int) t.below(2); auto cand = case_suites(w, ver); const Suite &su = cand[t.below(cand.size())];
        c.count("case:scripted-shared-slot");
        w.force_keep = 1; do_full(0, 0, ver, su, t.chance(1, 4) ? -1 : 0, false);
        int x = w.cl[0].cred;
        if (x >= 0 && w.creds[x].kind == CK_ID) {
            size_t extra = 1 + t.below(2);
            for (size_t i = 0; i < extra; i++) { w.force_keep = t.chance(3, 4) ? 1 : 0; honest_resume(0, x); }
            w.force_keep = -1;
            size_t acts = 1 + t.below(3);
            for (size_t i = 0; i < acts && !w.live.empty(); i++) { if (i == 0 || t.coin()) fatal_on(t.below(w.live.size()), t.coin(), (unsigned) t.below(8)); else close_live(t.below(w.live.size()), t.coin()); }
            while (!w.live.empty() && t.chance(2, 3)) close_live(t.below(w.live.size()), t.coin());
            if (t.chance(2, 3)) honest_resume(0, x);
            else {   // what a cleared entry looks like from outside: slot index followed by zeros, presented by the client that knows the secret
                install(w, 0, x); Bytes id = w.creds[x].ident; for (size_t i = 4; i < id.size(); i++) id[i] = 0;
                c14_sid_set_id(w.cl[0].sid, id.data(), (int) id.size()); w.cl[0].dirty = true;
                w.note(fmt("Id-zero-tail(c0,%s)", cred_str(w, x).c_str()));
                do_attempt(0, x, matching_hello(w.creds[x]), "Id-zero-tail", "altered-session-id-resumes", false, false, nullptr, "Id-zero-tail");
            }
        }
        w.force_keep = -1;
    } else if (script == 9) {
        // a foreign TLS 1.3 connection that merely *names* a cached id (legacy_session_id) while the victim's connection is open or closed
        int ver = (int) t.below(2); auto cand = case_suites(w, ver); const Suite &su = cand[t.below(cand.size())];
        c.count("case:scripted-victim-id");
        w.force_keep = t.coin() ? 1 : 0; do_full(0, 0, ver, su, 0, false);
        int x = w.cl[0].cred;
        if (x >= 0 && w.creds[x].kind == CK_ID) {
            w.force_keep = 0; tls13_victim_id(x, (int) (w.cl.size() - 1));
            w.force_keep = -1;
            while (!w.live.empty()) close_live(0, t.coin());
            honest_resume(0, x);
        }
        w.force_keep = -1;
    }

    for (size_t step = 0; step < ncmd; step++) {
        unsigned op = (unsigned) t.below(100);
        bool anycred = pick_holder(7) >= 0 || !w.creds.empty();
        if (!anycred && op >= 18 && op < 80) op = 0;     // nothing to resume/attack yet: do a full handshake instead
        if (op < 18) {                                    // ---- Full
            int ci = (int) t.below(w.cl.size()); int ver = (int) t.below(3);
            auto cand = case_suites(w, ver); const Suite &su = cand[t.below(cand.size())];
            int ems = t.chance(1, 4) ? -1 : 0; bool tickets = t.chance(1, 3);
            int srv_i = (tickets || ver == TLS13) && t.chance(1, 6) ? 1 : 0;   // B only ever mints tickets (it must stay out of the shared cache)
            if (srv_i) { need_B(); if (ver != TLS13) tickets = true; }
            do_full(ci, srv_i, ver, su, ems, tickets);
        } else if (op < 46) {                             // ---- honest resume of what the client holds (or a re-installed earlier credential)
            int ci = pick_holder(7); int x;
            if (ci < 0 || t.chance(1, 5)) { ci = (int) t.below(w.cl.size()); x = (int) t.below(w.creds.size()); install(w, ci, x); c.count("reinstalled-credential"); }
            else { x = w.cl[ci].cred; if (w.cl[ci].dirty) install(w, ci, x); }
            const Cred cr = w.creds[x]; Hello h = matching_hello(cr);
            if (t.chance(1, 4)) h.suites.clear();           // offer the library's whole default list (contains the original)
            std::string kind = fmt("Resume-%s", ck_name[cr.kind]);
            w.note(fmt("%s(c%d,%s)", kind.c_str(), ci, cred_str(w, x).c_str()));
            do_attempt(ci, x, h, kind, "", false, true, nullptr, kind);
        } else if (op < 54) {                             // ---- attacker / misbehaving client: same credential, different hello parameters
            int ci = pick_holder(7); int x;
            if (ci < 0) { ci = (int) t.below(w.cl.size()); x = (int) t.below(w.creds.size()); } else x = w.cl[ci].cred;
            install(w, ci, x);
            const Cred cr = w.creds[x]; Hello h = matching_hello(cr); std::string kind;
            switch (t.below(3)) {
            case 0: { int v2 = (cr.ver + 1 + (int) t.below(2)) % 3; h.ver = v2; kind = "Hello-other-version"; if (t.coin()) h.suites.clear(); break; }
            case 1: h.ems = h.ems == 0 ? -1 : 0; kind = "Hello-ems-toggled"; break;
            default: { auto cand = case_suites(w, cr.ver); h.suites.clear(); for (auto &s : cand) if (s.id != cr.suite && h.suites.size() < 3) h.suites.push_back(s.id); kind = "Hello-suites-without-original"; if (h.suites.empty()) h.suites.push_back(cr.suite); break; }
            }
            w.note(fmt("%s(c%d,%s -> %s ems=%d)", kind.c_str(), ci, cred_str(w, x).c_str(), ver_name(h.ver), h.ems == 0));
            do_attempt(ci, x, h, kind, "", false, false, nullptr, kind);
        } else if (op < 68) {                             // ---- attacker edits the stored credential
            int ci = pick_holder(7); int x;
            if (ci < 0) { ci = (int) t.below(w.cl.size()); x = (int) t.below(w.creds.size()); } else x = w.cl[ci].cred;
            install(w, ci, x);
            const Cred cr = w.creds[x]; Hello h = matching_hello(cr); Client &k = w.cl[ci];
            std::string kind, sig; bool binder = false; int base = x;
            // another credential of the same kind (for swaps)
            int y = -1; { std::vector<int> o; for (size_t i = 0; i < w.creds.size(); i++) if ((int) i != x && w.creds[i].kind == cr.kind && w.creds[i].secret != cr.secret) o.push_back((int) i); if (!o.empty()) y = o[t.below(o.size())]; }
            unsigned e = (unsigned) t.below(6);
            Bytes id = cr.ident;
            if (e == 4 && y < 0) e = 0;
            if (cr.kind == CK_ID) {
                switch (e) {
                case 0: id[t.below(id.size())] ^= (uint8_t) (1 << t.below(8)); kind = "Id-flip"; sig = "altered-session-id-resumes"; break;
                case 1: id.resize(1 + t.below(31)); kind = fmt("Id-truncate"); sig = "truncated-session-id-resumes"; break;
                case 2: { uint8_t ix = (uint8_t) t.below(c14_session_table_size()); if (ix == id[0]) ix = (uint8_t) ((ix + 1) % c14_session_table_size()); id[0] = ix; kind = "Id-other-slot-index"; sig = "altered-session-id-resumes"; break; }
                case 3: for (size_t i = 4; i < id.size(); i++) id[i] = 0; kind = "Id-zero-tail"; sig = "altered-session-id-resumes"; break;
                case 4: id = w.creds[y].ident; base = y; kind = "Id-swap"; sig = "swapped-session-id-resumes"; break;
                default: id.resize(5 + t.below(12)); for (size_t i = 4; i < id.size(); i++) id[i] = t.u8(); kind = "Id-truncate-and-guess"; sig = "truncated-session-id-resumes"; if (id == Bytes(cr.ident.begin(), cr.ident.begin() + id.size())) id.back() ^= 1; break;
                }
                c14_sid_set_id(k.sid, id.data(), (int) id.size());
            } else {
                bool tk = cr.kind == CK_TICKET;
                switch (e) {
                case 0: { size_t pos = t.coin() ? id.size() - 1 - t.below(std::min<size_t>(32, id.size())) : t.below(id.size()); id[pos] ^= (uint8_t) (1 << t.below(8)); kind = tk ? "Ticket-flip" : "Psk-identity-flip"; sig = tk ? "altered-ticket-resumes" : "altered-psk-identity-resumes"; break; }
                case 1: id.resize(id.size() - 1 - t.below(std::min<size_t>(id.size() - 1, 40))); kind = tk ? "Ticket-truncate" : "Psk-identity-truncate"; sig = tk ? "truncated-ticket-resumes" : "truncated-psk-identity-resumes"; break;
                case 2: { size_t n = 1 + t.below(20); for (size_t i = 0; i < n; i++) id.push_back(t.u8()); kind = tk ? "Ticket-extend" : "Psk-identity-extend"; sig = tk ? "extended-ticket-resumes" : "extended-psk-identity-resumes"; break; }
                case 3: if (tk) { Bytes s = cr.secret; s[t.below(48)] ^= 1; c14_sid_set_master(k.sid, s.data()); kind = "Ticket-with-other-master-secret"; sig = "resumed-with-wrong-secret:client-secret-differs"; }
                        else { Bytes s = cr.secret; s[t.below(s.size())] ^= 1; c14_sid_set_psk_key(k.sid, s.data(), (int) s.size()); kind = "Psk-wrong-key(binder)"; sig = "psk-binder-not-verified"; binder = true; }
                        break;
                case 4: id = w.creds[y].ident; base = y; kind = tk ? "Ticket-swap" : "Psk-identity-swap"; sig = tk ? "swapped-ticket-resumes" : "swapped-psk-identity-resumes"; binder = !tk; break;
                default: { // ticket sealed under a key NAME the server knows but with altered name bytes -> unknown key
                    if (id.size() >= 16) id[t.below(16)] ^= (uint8_t) (1 << t.below(8)); kind = tk ? "Ticket-keyname-flip" : "Psk-keyname-flip"; sig = tk ? "altered-ticket-resumes" : "altered-psk-identity-resumes"; break; }
                }
                if (tk) { if (c14_sid_set_ticket(k.sid, id.data(), (int) id.size()) < 0) throw Discard{}; }
                else if (c14_sid_set_psk_id(k.sid, id.data(), (int) id.size()) < 0) throw Discard{};
            }
            if (id == cr.ident && base == x && !(e == 3 && cr.kind != CK_ID)) { sig = ""; }   // edit was a no-op
            k.dirty = true;
            w.note(fmt("%s(c%d,%s%s)", kind.c_str(), ci, cred_str(w, x).c_str(), y >= 0 && base == y ? (" with identifier of " + cred_str(w, y)).c_str() : ""));
            // an identifier flipped/truncated/extended denotes no issued credential: if the server nevertheless enters resumption the secret check uses the original
            do_attempt(ci, base, h, kind, sig, binder, false, nullptr, kind);
        } else if (op < 77) {                             // ---- attacker edits the first client flight on the wire (or breaks the handshake of an honest resume)
            int ci = pick_holder(7); int x;
            if (ci < 0) { ci = (int) t.below(w.cl.size()); x = (int) t.below(w.creds.size()); } else x = w.cl[ci].cred;
            install(w, ci, x);
            const Cred cr = w.creds[x]; Hello h = matching_hello(cr);
            unsigned e = (unsigned) t.below(7); uint32_t r1 = t.u16(), r2 = t.u8(); std::string kind; bool binder = false;
            static const char *wn[] = { "Wire-id-truncate", "Wire-id-flip", "Wire-suite-replace", "Wire-binder-or-ticket-flip", "Wire-break-client-finished", "Wire-break-server-flight", "Wire-break-extensions" };
            kind = wn[e]; if (e == 3 && cr.kind == CK_PSK13) binder = true;
            bool edited = false;
            Mitm m = [&, e, r1, r2](int dir, int nth, Bytes &d, Pair &) {
                Bytes before = d;
                struct Cmp { Bytes &b, &d; bool &e; ~Cmp() { if (b != d) e = true; } } cmp{ before, d, edited };
                if (dir == 0 && nth == 0 && e == 6) { CH ch = parse_ch(d); if (ch.ok && ch.ext_len_off) { d[ch.ext_len_off + 1] ^= 1; w.disturbed = true; } }
                else if (dir == 0 && nth == 0 && e <= 3) {
                    CH ch = parse_ch(d); if (!ch.ok) return;
                    if (e == 0 && ch.sid_len > 1 && cr.kind == CK_ID) { size_t nl = 1 + r1 % (ch.sid_len - 1); d.erase(d.begin() + ch.sid_off + nl, d.begin() + ch.sid_off + ch.sid_len); d[ch.sid_len_off] = (uint8_t) nl; fix_lengths(d, -(long) (ch.sid_len - nl)); }
                    else if (e == 1 && ch.sid_len > 0) d[ch.sid_off + r1 % ch.sid_len] ^= (uint8_t) (1 << (r2 % 8));
                    else if (e == 2) { for (size_t o = ch.suites_off; o + 1 < ch.suites_off + ch.suites_len; o += 2) if (((d[o] << 8) | d[o + 1]) == cr.suite) { uint16_t alt = cr.kind == CK_PSK13 ? (cr.suite == 0x1301 ? 0x1303 : 0x1301) : (cr.suite == 0x002F ? 0x0035 : 0x002F); d[o] = (uint8_t) (alt >> 8); d[o + 1] = (uint8_t) alt; } }
                    else if (e == 3) {
                        size_t l = 0, o = find_ext(d, ch, cr.kind == CK_PSK13 ? 41 : 35, &l);
                        if (o && l > 0) { size_t pos = cr.kind == CK_PSK13 ? o + 4 + l - 1 - (r1 % 32) : o + 4 + (r1 % l); d[pos] ^= (uint8_t) (1 << (r2 % 8)); }
                    }
                } else if (dir == 0 && nth == 1 && e == 4 && !d.empty()) d[d.size() - 1 - (r1 % std::min<size_t>(d.size(), 16))] ^= (uint8_t) (1 << (r2 % 8));
                else if (dir == 1 && nth == 0 && e == 5 && !d.empty()) d[d.size() - 1 - (r1 % std::min<size_t>(d.size(), 16))] ^= (uint8_t) (1 << (r2 % 8));
            };
            w.note(fmt("%s(c%d,%s)", kind.c_str(), ci, cred_str(w, x).c_str()));
            // the transcript differs between the two ends, so these can never complete as resumed
            do_attempt(ci, x, h, kind, "wire-edited-handshake-resumes", binder, false, m, kind, &edited);
        } else if (op < 80) {                             // ---- TLS 1.3 full handshake whose legacy_session_id is a victim's cached id
            std::vector<int> ids; for (size_t i = 0; i < w.creds.size(); i++) if (w.creds[i].kind == CK_ID) ids.push_back((int) i);
            if (ids.empty()) { c.count("cmd:tls13-victim-id-no-id"); continue; }
            tls13_victim_id(ids[t.below(ids.size())], (int) t.below(w.cl.size()));
        } else if (op < 86) {                             // ---- AdvanceClock
            static const int64_t D[] = { 1000, 59000, 358000, 363000, 3600000, 0 /*LIFE-5s*/, 1 /*LIFE+5s*/, 90000000, 200000000, 2246400000LL /* 26 days: past the int32 range of psDiffMsecs */ };
            size_t i = t.below(10); int64_t dt = D[i]; if (i == 5) dt = LIFE - 5000; if (i == 6) dt = LIFE + 5000;
            if (now_ms() + dt > 1000000 + 45LL * 86400000) { c.count("cmd:advance-clock-capped"); continue; }   // stay below 2^32 ms (49.7 days), where a 32-bit millisecond difference is ambiguous for any implementation
            vfh_clock_advance_ms(dt); w.note(fmt("AdvanceClock(%llds)", (long long) (dt / 1000)));
            for (auto &cr : w.creds) if (expired(cr, 1000)) w.pre_expiry = true;
            c.count("cmd:advance-clock");
        } else if (op < 90) {                             // ---- FatalOn(live session)
            if (w.live.empty()) { c.count("cmd:fatal-no-live-session"); continue; }
            fatal_on(t.below(w.live.size()), t.coin(), (unsigned) t.below(8));
        } else if (op < 93) {                             // ---- Close / drop a live session
            if (w.live.empty()) { c.count("cmd:close-no-live-session"); continue; }
            close_live(t.below(w.live.size()), t.coin());
        } else if (op < 96) {                             // ---- Flood
            size_t n = t.coin() ? 32 + t.below(9) : 1 + t.below(31); bool keep = t.chance(1, 3);
            Suite psk = suites()[18];
            for (size_t i = 0; i < n; i++) {
                // throw-away clients, but their ids stay in the model so that later commands can present them (eviction / slot reuse histories)
                sslSessionId_t *fs = nullptr; if (matrixSslNewSessionId(&fs, NULL) < 0) throw Discard{};
                struct G { sslSessionId_t *s; ~G() { matrixSslDeleteSessionId(s); } } g{ fs };
                Hello h{ TLS12, 0, { psk.id }, false };
                Attempt a = run_hs(w, w.A, fs, h, nullptr); w.registrations++;
                if (a.outcome != O_FULL) { c.count("flood-handshake-failed"); w.any_failure = true; continue; }
                int x = harvest(w, fs, -1, a, 0, h);
                (void) x; if (keep && w.flood_open.size() < 40) w.flood_open.push_back(std::move(a.p));
            }
            w.flooded = true; if (n >= 32) w.pre_flood = true;
            w.note(fmt("Flood(%zu,%s)", n, keep ? "kept-open" : "closed")); c.count(n >= 32 ? "cmd:flood>=32" : "cmd:flood<32");
            if (t.chance(1, 3)) { w.flood_open.clear(); w.note("FloodClose"); }
        } else {                                          // ---- ticket keys of server A
            unsigned e = (unsigned) t.below(5);
            if (e == 4 && !w.A.tk.empty()) {           // the application retires a key through its session-ticket callback; the key stays loaded
                size_t i = t.below(w.A.tk.size()); w.A.tk[i].refused = true; g_refused.insert(std::string((const char *) w.A.tk[i].name.data(), 16));
                matrixSslSetSessionTicketCallback(w.A.keys, ticket_cb);
                for (auto &cr : w.creds) if (cr.kind == CK_TICKET && cr.issuer == 0 && cr.key_uid == w.A.tk[i].uid) w.pre_keyrm = true;
                w.note(fmt("RetireKeyViaCallback(#%d)", w.A.tk[i].uid)); c.count("cmd:key-retire-via-callback");
            }
            else if (e == 4) { }
            else if (e == 0 || w.A.tk.empty()) { if (w.A.tk.size() < 6) { if (!load_key(w.A, make_key(w, t))) throw Discard{}; w.note("AddKey"); c.count("cmd:key-add"); } }
            else {
                if (e == 3) { if (!load_key(w.A, make_key(w, t))) throw Discard{}; }
                size_t i = (e == 2) ? w.A.tk.size() - 1 : 0; if (e == 3) i = 0;
                unsigned char nm[16]; memcpy(nm, w.A.tk[i].name.data(), 16);
                int rc = matrixSslDeleteSessionTicketKey(w.A.keys, nm);
                VF_CHECK(rc == PS_SUCCESS, "ticket-key-delete-failed", "matrixSslDeleteSessionTicketKey returned %d for a loaded, idle key; %s", rc, w.trace.c_str());
                int uid = w.A.tk[i].uid; w.A.tk.erase(w.A.tk.begin() + i);
                for (auto &cr : w.creds) if (cr.kind != CK_ID && cr.issuer == 0 && cr.key_uid == uid) w.pre_keyrm = true;
                w.note(e == 3 ? "RotateKeys" : (e == 2 ? "RemoveKey(newest)" : "RemoveKey(oldest)")); c.count(e == 3 ? "cmd:key-rotate" : "cmd:key-remove");
            }
            w.keys_changed = true; check_key_list(w, w.A);
        }
    }
    // ---- tail phase (appended draws: tapes recorded before it existed are exhausted here and read zeros = skip).
    // A full handshake (TLS <= 1.2, cache id) is stopped half way; its session id is already known to the client and to any eavesdropper.
    // stop 0: the server's first flight reached the client, the client's second flight is withheld;  stop 1: ClientKeyExchange and
    // ChangeCipherSpec reached the server, the client's Finished is withheld.  Then: attacks that present the id (all-zero secret / the real
    // master secret), advancing, dropping without error, or completing the handshake (after which the id is an ordinary credential).
    if (t.below(3) == 2) {
        c.count("case:inflight");
        int ci = (int) t.below(ncl); int ver = (int) t.below(2); auto cand = case_suites(w, ver); const Suite &su = cand[t.below(cand.size())];
        int ems = t.chance(1, 4) ? -1 : 0; int stop = (int) t.below(2);
        w.cl.emplace_back(); if (matrixSslNewSessionId(&w.cl.back().sid, NULL) < 0) throw Discard{};
        int att = (int) w.cl.size() - 1;                    // the attacker's own client
        Client &k = w.cl[ci]; matrixSslClearSessionId(k.sid); k.cred = -1; k.dirty = true;
        Hello h{ ver, ems, { su.id }, false };
        std::unique_ptr<Pair> ap(new Pair); Pair &p = *ap;
        { Config cc, sc; cc.client = true; sc.client = false; sc.versions = { TLS13, TLS12, TLS11 }; cc.versions = { ver }; cc.suites = h.suites; cc.ems = ems; cc.sid = k.sid;
          cc.keys = w.ckeys; sc.keys = w.A.keys; cc.auth = sc.auth = w.auth; cc.entropy_stream = 1 + (w.estream % 6) * 2; sc.entropy_stream = cc.entropy_stream + 1; w.estream++;
          if (p.s.open(sc) < 0 || p.c.open(cc) < 0) throw Discard{}; }
        w.registrations++;
        p.shuttle(p.c, p.s, 0, (size_t) -1); p.shuttle(p.s, p.c, 1, (size_t) -1); p.c.pump_out();
        Bytes flight2 = p.c.take_wire(); auto recs = parse_records(flight2, false);
        unsigned char idb[32]; int in = c14_session_id(p.c.ssl, idb); unsigned char sb[32]; int sn = c14_session_id(p.s.ssl, sb);
        bool usable = p.c.alive() && p.s.alive() && !p.s.hs_complete() && recs.size() >= 3 && recs.back().type == 22 && in == 32 && sn == 32 && memcmp(idb, sb, 32) == 0;
        w.note(fmt("InFlight(c%d,%s,%s,ems=%d,stop=%d)%s", ci, ver_name(ver), su.name, ems == 0, stop, usable ? "" : " [unusable]"));
        if (!usable) c.count("inflight-unusable");
        else {
            Bytes upto_ccs(flight2.begin(), flight2.begin() + recs.back().off), fin(flight2.begin() + recs.back().off, flight2.end());
            int cur = 0;   // 0: nothing of flight 2 delivered, 1: CKE+CCS delivered, 2: completed, 3: dropped
            auto advance = [&]() { p.s.feed(upto_ccs); p.s.pump_out(); cur = 1; };
            if (stop == 1) advance();
            usable = p.s.alive() && !p.s.hs_complete();
            Cred cr; cr.kind = CK_ID; cr.ident.assign(idb, idb + 32); cr.issuer = 0; unsigned char ms[48]; c14_master_secret(p.c.ssl, ms); cr.secret.assign(ms, ms + 48);
            cr.ver = ver; cr.suite = (uint16_t) c14_cipher_id(p.s.ssl); cr.ems = c14_ems(p.s.ssl) != 0; cr.issue_ms = now_ms(); cr.life_ms = LIFE; cr.owner = ci; cr.established = false;
            w.creds.push_back(cr); int x = (int) w.creds.size() - 1;
            if (cur == 1) { unsigned char sm[48]; c14_master_secret(p.s.ssl, sm); VF_CHECK(memcmp(sm, ms, 48) == 0, "inflight-secret-mismatch", "client and server master secret differ after ClientKeyExchange; %s", w.trace.c_str()); }
            size_t nsteps = 1 + t.below(3);
            for (size_t i = 0; i < nsteps && usable; i++) {
                unsigned act = (unsigned) t.below(6);
                if (act <= 2 && cur < 2 || (act <= 2 && cur == 3)) {     // attack while in flight, or after the half-done connection was dropped without error
                    bool zero = act != 1; Bytes sec = zero ? Bytes(48, 0) : w.creds[x].secret; Client &ak = w.cl[att];
                    matrixSslClearSessionId(ak.sid); c14_sid_set_cipher(ak.sid, w.creds[x].suite); c14_sid_set_master(ak.sid, sec.data()); c14_sid_set_id(ak.sid, idb, 32); ak.cred = -1; ak.dirty = true;
                    std::string kind = zero ? "Resume-unestablished-id-zero-secret" : "Resume-unestablished-id-real-secret";
                    w.note(fmt("%s(c%d,%s,original %s)", kind.c_str(), att, cred_str(w, x).c_str(), cur == 0 ? "awaits ClientKeyExchange" : cur == 1 ? "awaits Finished" : "dropped"));
                    do_attempt(att, x, matching_hello(w.creds[x]), kind, zero ? "resumed-unestablished-session:zero-secret" : "resumed-unestablished-session:real-secret", false, false, nullptr, kind);
                } else if (act == 3 && cur == 0) { advance(); w.note("InFlight-advance(ClientKeyExchange+ChangeCipherSpec delivered)"); if (!p.s.alive() || p.s.hs_complete()) usable = false; }
                else if (act == 4 && cur < 2) { ap.reset(); cur = 3; w.note("InFlight-drop(no error)"); c.count("inflight-dropped"); }
                else if (cur < 2) {                               // complete it: from now on an ordinary credential
                    if (cur == 0) advance();
                    p.s.feed(fin); p.run();
                    bool ok = p.s.hs_complete() && p.c.hs_complete() && p.s.alive() && p.c.alive() && matrixSslIsResumedSession(p.s.ssl) != PS_TRUE;
                    w.note(fmt("InFlight-complete%s", ok ? "" : " [failed]")); c.count(ok ? "inflight-completed" : "inflight-complete-failed");
                    if (!ok) { w.any_failure = true; usable = false; break; }
                    w.creds[x].established = true; w.creds[x].issue_ms = w.creds[x].issue_ms; cur = 2; k.cred = x; k.dirty = false;
                    unsigned char cid[32]; int cn = c14_sid_id(k.sid, cid); VF_CHECK(cn == 32 && memcmp(cid, idb, 32) == 0, "client-server-session-id-differ", "completed in-flight handshake: client stored another id; %s", w.trace.c_str());
                    Attempt a; a.p = std::move(ap); a.outcome = O_FULL; keep_or_close(w, t, a, ci, x);
                    if (t.coin()) honest_resume(t.coin() ? ci : att, x);   // by its owner or by any client that holds id + secret
                }
            }
        }
    }
    // ---- second tail phase (appended draws again): a connection that NAMES a victim's cached session id without ever holding that cache entry.
    // B resumes with its own valid RFC 5077 ticket and puts victim V's id into ClientHello.session_id (the server echoes it, RFC 5077 3.4);
    // variants: the same with a fatal alert provoked on that connection, or a ticket-less hello naming the id that dies before the cache lookup.
    // Follow-ups: V's owner resumes its id honestly; the attacker offers V's id with the secret and suite of its own ticket session.
    if (t.below(4) == 3) {
        c.count("case:foreign-id");
        int ver = (int) t.below(2); auto cand = case_suites(w, ver);
        const Suite &su = cand[t.below(cand.size())], &su2 = cand[t.below(cand.size())];
        int cv = (int) t.below(ncl); int ems = t.chance(1, 4) ? -1 : 0;
        w.cl.emplace_back(); if (matrixSslNewSessionId(&w.cl.back().sid, NULL) < 0) throw Discard{};
        int att = (int) w.cl.size() - 1;
        if (w.A.tk.empty()) { if (!load_key(w.A, make_key(w, t))) throw Discard{}; w.note("AddKey"); }
        w.force_keep = t.coin() ? 1 : 0; do_full(cv, 0, ver, su, ems, false);              // the victim (its connection stays open or not)
        int x = w.cl[cv].cred;
        w.force_keep = 0; do_full(att, 0, ver, su2, t.chance(1, 4) ? -1 : 0, true);        // the attacker's own, legitimate ticket session
        int tk = w.cl[att].cred; w.force_keep = -1;
        if (x >= 0 && tk >= 0 && w.creds[x].kind == CK_ID && w.creds[tk].kind == CK_TICKET && w.creds[x].secret != w.creds[tk].secret) {
            unsigned variant = (unsigned) t.below(4); uint32_t r1 = t.u8();
            const Cred X = w.creds[x], T = w.creds[tk]; Client &ak = w.cl[att];
            if (variant <= 2) {
                install(w, att, tk); c14_sid_set_id(ak.sid, X.ident.data(), (int) X.ident.size()); ak.dirty = true;
                Mitm m = nullptr; std::string kind = "Resume-ticket-with-foreign-session-id";
                if (variant == 2) { kind += "+fatal"; w.disturbed = true; m = [r1](int dir, int nth, Bytes &d, Pair &) { if (dir == 0 && nth == 1 && !d.empty()) d[d.size() - 1 - (r1 % std::min<size_t>(d.size(), 16))] ^= 0x10; }; }
                w.note(fmt("%s(c%d,%s,naming %s)", kind.c_str(), att, cred_str(w, tk).c_str(), cred_str(w, x).c_str()));
                w.force_keep = t.chance(1, 4) ? 1 : 0;
                do_attempt(att, tk, matching_hello(T), kind, "", false, false, m, kind);        // a legitimate resumption of the ticket; what matters is what it does to V's entry
                w.force_keep = -1;
            } else {
                matrixSslClearSessionId(ak.sid); unsigned char junk[48]; t.bytes(junk, 48);
                c14_sid_set_cipher(ak.sid, X.suite); c14_sid_set_master(ak.sid, junk); c14_sid_set_id(ak.sid, X.ident.data(), (int) X.ident.size()); ak.cred = -1; ak.dirty = true;
                bool edited = false; w.disturbed = true;
                Mitm m = [&edited](int dir, int nth, Bytes &d, Pair &) { if (dir == 0 && nth == 0) { CH ch = parse_ch(d); if (ch.ok && ch.ext_len_off) { d[ch.ext_len_off + 1] ^= 1; edited = true; } } };
                w.note(fmt("Hello-naming-victim-id-dies-before-lookup(c%d,%s)", att, cred_str(w, x).c_str()));
                do_attempt(att, x, matching_hello(X), "Hello-naming-victim-id-dies-before-lookup", "wire-edited-handshake-resumes", false, false, m, "Hello-naming-victim-id-dies-before-lookup", &edited);
            }
            size_t nf = 1 + t.below(2); bool owner_first = t.coin();
            for (size_t i = 0; i < nf; i++) {
                if ((i == 0) == owner_first) honest_resume(cv, x);
                else {
                    matrixSslClearSessionId(ak.sid); c14_sid_set_cipher(ak.sid, T.suite); c14_sid_set_master(ak.sid, T.secret.data()); c14_sid_set_id(ak.sid, X.ident.data(), (int) X.ident.size()); ak.cred = -1; ak.dirty = true;
                    Hello h2{ X.ver, X.ems ? 0 : -1, { T.suite }, false };
                    w.note(fmt("Resume-victim-id-with-own-secret(c%d,%s,secret+suite of %s)", att, cred_str(w, x).c_str(), cred_str(w, tk).c_str()));
                    do_attempt(att, x, h2, "Resume-victim-id-with-own-secret", "resumed-with-wrong-secret:other-session", false, false, nullptr, "Resume-victim-id-with-own-secret");
                }
            }
        } else c.count("foreign-id-unusable");
    }
    c.count(did_nontrivial ? "case:nontrivial" : "case:trivial");
    c.count(fmt("case:clients=%zu", ncl));
    c.sample(w.trace);
}
VF_TARGET("C14.resume_model", prop, 640, 300)
namespace vf { void vf_global_init(int, char **) { mxh::global_open(); } }
