// C12 / digests: MD5, SHA-1, SHA-256, SHA-384, SHA-512, MD5SHA1 (+ the generic psHash* wrappers and psSha512Single)
// against OpenSSL EVP_Digest for every length / split into update calls / alignment / context reuse.
//
// Oracle: byte equality with OpenSSL's digest of the same message (FIPS 180-4 / RFC 1321; MD5SHA1 = MD5 || SHA-1).
// Preconditions taken from the API and its in-tree callers: update lengths fit uint32_t; a context is Init-ed
// before use and after every Final (Final wipes it); pointers are non-NULL (zero-length updates get a valid pointer).
// Non-trivial case: length within +-1 of a block/padding boundary, >= 2 non-empty update calls, a misaligned
// source, or context reuse/copy.  Distinct by (algorithm, length class, split shape, source offset, mode bits).
#include "c12_common.h"
extern "C" {
#include "crypto/cryptoApi.h"
}
using namespace vf;
using namespace c12;

namespace {

struct Api {
    const char *name; int oalg; size_t ctxsz, hlen, block;
    int (*init)(void *);
    void (*update)(void *, const unsigned char *, uint32_t);
    void (*final)(void *, unsigned char *);
    void (*cpy)(void *, const void *);   // may be null
};

template <class T, int32_t (*I)(T *)> int initw(void *c) { return (int) I((T *) c); }
template <class T, void (*U)(T *, const unsigned char *, uint32_t)> void updw(void *c, const unsigned char *b, uint32_t l) { U((T *) c, b, l); }
template <class T, void (*F)(T *, unsigned char *)> void finw(void *c, unsigned char *h) { F((T *) c, h); }

void cpy_sha1(void *d, const void *s) { psSha1Cpy((psSha1_t *) d, (const psSha1_t *) s); }
void cpy_md5sha1(void *d, const void *s) { psMd5Sha1Cpy((psMd5Sha1_t *) d, (const psMd5Sha1_t *) s); }
void cpy_sha256(void *d, const void *s) { psSha256Cpy((psSha256_t *) d, (const psSha256_t *) s); }
void cpy_sha384(void *d, const void *s) { psSha384Cpy((psSha384_t *) d, (const psSha384_t *) s); }
void cpy_sha512(void *d, const void *s) { psSha512Cpy((psSha512_t *) d, (const psSha512_t *) s); }

// generic psHash* wrappers (hash.c): SHA-256/384/512 selected by OID
template <int OID> int hinit(void *c) { return (int) psHashInit((psDigestContext_t *) c, OID, nullptr); }
void hupd(void *c, const unsigned char *b, uint32_t l) { if (psHashUpdate((psDigestContext_t *) c, b, l) != PS_SUCCESS) VF_FAIL("pshash-update-refused", "psHashUpdate failed"); }
void hfin(void *c, unsigned char *h) { if (psHashFinal((psDigestContext_t *) c, h) != PS_SUCCESS) VF_FAIL("pshash-final-refused", "psHashFinal failed"); }

const Api APIS[] = {
    { "md5", O_MD5, sizeof(psMd5_t), 16, 64, initw<psMd5_t, psMd5Init>, updw<psMd5_t, psMd5Update>, finw<psMd5_t, psMd5Final>, nullptr },
    { "sha1", O_SHA1, sizeof(psSha1_t), 20, 64, initw<psSha1_t, psSha1Init>, updw<psSha1_t, psSha1Update>, finw<psSha1_t, psSha1Final>, cpy_sha1 },
    { "sha256", O_SHA256, sizeof(psSha256_t), 32, 64, initw<psSha256_t, psSha256Init>, updw<psSha256_t, psSha256Update>, finw<psSha256_t, psSha256Final>, cpy_sha256 },
    { "sha384", O_SHA384, sizeof(psSha384_t), 48, 128, initw<psSha384_t, psSha384Init>, updw<psSha384_t, psSha384Update>, finw<psSha384_t, psSha384Final>, cpy_sha384 },
    { "sha512", O_SHA512, sizeof(psSha512_t), 64, 128, initw<psSha512_t, psSha512Init>, updw<psSha512_t, psSha512Update>, finw<psSha512_t, psSha512Final>, cpy_sha512 },
    { "md5sha1", O_MD5SHA1, sizeof(psMd5Sha1_t), 36, 64, initw<psMd5Sha1_t, psMd5Sha1Init>, updw<psMd5Sha1_t, psMd5Sha1Update>, finw<psMd5Sha1_t, psMd5Sha1Final>, cpy_md5sha1 },
    { "pshash-sha256", O_SHA256, sizeof(psDigestContext_t), 32, 64, hinit<OID_SHA256_ALG>, hupd, hfin, nullptr },
    { "pshash-sha384", O_SHA384, sizeof(psDigestContext_t), 48, 128, hinit<OID_SHA384_ALG>, hupd, hfin, nullptr },
    { "pshash-sha512", O_SHA512, sizeof(psDigestContext_t), 64, 128, hinit<OID_SHA512_ALG>, hupd, hfin, nullptr },
};
const size_t NAPI = sizeof APIS / sizeof APIS[0];

struct RawCtx {   // exact-size heap context
    void *p; size_t n;
    RawCtx(size_t sz, int dirty) : n(sz) { p = malloc(sz); if (!p) abort(); if (dirty >= 0) memset(p, dirty, sz); }
    ~RawCtx() { free(p); }
    RawCtx(const RawCtx &) = delete; RawCtx &operator=(const RawCtx &) = delete;
};

// one message through one context; returns description of the shape for the distinct key
void one_message(Tape &t, Ctx &c, const Api &a, RawCtx &ctx, bool reused, std::string &key, std::string &desc) {
    Len L = gen_len(t, a.block);
    unsigned off = (unsigned) t.below(16);
    XBuf msg(L.n, off);
    gen_data(t, msg.p, L.n);
    int shape = 0;
    std::vector<size_t> parts = gen_parts(t, L.n, a.block, &shape);
    bool exact = t.coin();
    unsigned off2 = exact ? (unsigned) t.below(16) : off;
    unsigned hoff = (unsigned) t.below(16);
    // optional mid-stream context copy (TLS handshake-hash snapshots use ps*Cpy): finalize the copy, continue the original
    size_t cpy_at = (size_t) -1;
    if (a.cpy && !parts.empty() && t.chance(1, 5)) cpy_at = (size_t) t.below(parts.size());

    uint8_t want[64], want_prefix[64];
    C12_ORACLE_OK(c, o_digest(a.oalg, msg.p, L.n, want));

    VF_CHECK(a.init(ctx.p) == PS_SUCCESS, "digest-init-failed", "%s Init failed", a.name);
    XBuf got(a.hlen, hoff, CANARY);
    size_t pos = 0, idx = 0;
    for (size_t len : parts) {
        if (idx == cpy_at) {
            RawCtx snap(a.ctxsz, 0x5A);
            a.cpy(snap.p, ctx.p);
            XBuf g2(a.hlen, hoff, CANARY);
            a.final(snap.p, g2.p);
            C12_ORACLE_OK(c, o_digest(a.oalg, msg.p, pos, want_prefix));
            VF_CHECK(memcmp(g2.p, want_prefix, a.hlen) == 0, fmt("digest-mismatch:%s", a.name).c_str(),
                     "%s: snapshot (ps*Cpy) after %zu of %zu bytes parts=%s: got %s want %s", a.name, pos, L.n, parts_str(parts).c_str(),
                     hex(g2.p, a.hlen).c_str(), hex(want_prefix, a.hlen).c_str());
            c.count("ctx-copy");
        }
        if (exact) { XBuf b(len, off2); if (len) memcpy(b.p, msg.p + pos, len); a.update(ctx.p, b.p, (uint32_t) len); }
        else a.update(ctx.p, msg.p + pos, (uint32_t) len);
        pos += len; idx++;
    }
    a.final(ctx.p, got.p);
    VF_CHECK(memcmp(got.p, want, a.hlen) == 0, fmt("digest-mismatch:%s", a.name).c_str(),
             "%s: len=%zu off=%u parts=%s exact=%d reused=%d: got %s want %s", a.name, L.n, off, parts_str(parts).c_str(), exact, reused,
             hex(got.p, a.hlen).c_str(), hex(want, a.hlen).c_str());

    size_t nz = 0; for (size_t x : parts) if (x) nz++;
    bool nb = near_boundary(L.n, a.block);
    c.count(L.cls == 0 ? "len:0..4B+1" : L.cls == 1 ? "len:boundary" : L.cls == 3 ? "len:beyond-2^16" : "len:large");
    if (nb) c.count("len:near-boundary");
    c.count(fmt("calls:%s", nz <= 1 ? "1" : nz == 2 ? "2" : nz <= 8 ? "3-8" : ">8"));
    if (shape & 4) c.count("zero-length-update");
    if (L.n >= 1 && L.n <= 9) c.count("exhaustive-composition-range");
    if (exact) c.count("piece-exact-buffers");
    if (off) c.count("misaligned-src");
    bool nontriv = nb || nz >= 2 || off != 0 || reused || cpy_at != (size_t) -1;
    if (nontriv) {
        std::string k = fmt("%s|%s|s%d|o%u|%d%d%d", a.name, len_key(L.n, a.block).c_str(), shape, off, exact, reused, cpy_at != (size_t) -1);
        if (L.n >= 1 && L.n <= 9) k += "|" + parts_str(parts);   // every composition counts as its own shape
        key += k + ";";
    }
    desc += fmt("%s len=%zu off=%u parts=%s exact=%d; ", a.name, L.n, off, parts_str(parts).c_str(), exact);
}

// every composition of an n-byte message (1 <= n <= 9) into non-empty update calls, all 2^(n-1) of them in one case
void sweep_compositions(Tape &t, Ctx &c) {
    const Api &a = APIS[t.below(NAPI)];
    size_t n = (size_t) t.range(1, 9);
    unsigned off = (unsigned) t.below(16);
    uint8_t msg[9]; t.bytes(msg, n);
    uint8_t want[64]; C12_ORACLE_OK(c, o_digest(a.oalg, msg, n, want));
    RawCtx ctx(a.ctxsz, 0xA5);
    for (uint32_t mask = 0; mask < (1u << (n - 1)); mask++) {
        VF_CHECK(a.init(ctx.p) == PS_SUCCESS, "digest-init-failed", "%s Init failed", a.name);
        std::vector<size_t> parts; size_t cur = 1;
        for (size_t i = 0; i + 1 < n; i++) { if (mask >> i & 1) { parts.push_back(cur); cur = 1; } else cur++; }
        parts.push_back(cur);
        feed(msg, parts, true, off, [&](const uint8_t *p, size_t l) { a.update(ctx.p, p, (uint32_t) l); });
        uint8_t got[64]; a.final(ctx.p, got);
        VF_CHECK(memcmp(got, want, a.hlen) == 0, fmt("digest-mismatch:%s", a.name).c_str(), "%s: len=%zu composition %s off=%u: got %s want %s",
                 a.name, n, parts_str(parts).c_str(), off, hex(got, a.hlen).c_str(), hex(want, a.hlen).c_str());
    }
    c.count("composition-sweep"); c.count("composition-sweep-hashes", 1u << (n - 1));
    c.nontrivial(fmt("sweep|%s|%zu|o%u", a.name, n, off));
    c.sample(fmt("%s: all %u compositions of a %zu-byte message, off=%u", a.name, 1u << (n - 1), n, off));
}

void prop(Tape &t, Ctx &c) {
    if (t.u8() >= 244) { sweep_compositions(t, c); return; }
    unsigned sel = (unsigned) t.below(NAPI + 1);
    if (sel == NAPI) {
        // psSha512Single: one-shot helper
        Len L = gen_len(t, 128);
        unsigned off = (unsigned) t.below(16), hoff = (unsigned) t.below(16);
        XBuf msg(L.n, off); gen_data(t, msg.p, L.n);
        uint8_t want[64]; C12_ORACLE_OK(c, o_digest(O_SHA512, msg.p, L.n, want));
        XBuf got(64, hoff, CANARY);
        psSha512Single(msg.p, (uint32_t) L.n, got.p);
        VF_CHECK(memcmp(got.p, want, 64) == 0, "digest-mismatch:sha512single", "psSha512Single len=%zu off=%u: got %s want %s", L.n, off, hex(got.p, 64).c_str(), hex(want, 64).c_str());
        c.count("alg:sha512single");
        if (near_boundary(L.n, 128) || off) c.nontrivial(fmt("sha512single|%s|o%u", len_key(L.n, 128).c_str(), off));
        c.sample(fmt("sha512single len=%zu off=%u", L.n, off));
        return;
    }
    const Api &a = APIS[sel];
    c.count(std::string("alg:") + a.name);
    int dirty = t.coin() ? (int) t.u8() : 0;      // a function-local context holds garbage before Init
    RawCtx ctx(a.ctxsz, dirty);
    std::string key, desc;
    one_message(t, c, a, ctx, false, key, desc);
    unsigned more = t.chance(1, 4) ? (unsigned) t.range(1, 2) : 0;   // context reuse: Init again on the wiped context
    for (unsigned i = 0; i < more; i++) { c.count("ctx-reuse"); one_message(t, c, a, ctx, true, key, desc); }
    if (!key.empty()) c.nontrivial(key);
    c.sample(desc);
}

} // namespace
#ifdef C12_HUGE
// Messages of 2^29 bytes and more in one update call (the bit counters of the digests carry out of 32 bits at 2^29 bytes).  The message is a
// private anonymous mapping of zero pages, so no memory is committed.  Enumerated: case index = api * 4 + variant.
#include <sys/mman.h>
void prop_huge(Tape &t, Ctx &c) {
    uint64_t idx = t.u64(); if (idx >= NAPI * 4) throw Discard{};
    const Api &a = APIS[idx / 4]; unsigned v = (unsigned) (idx % 4);
    static const size_t LEN[4] = { (1ull << 29), (1ull << 29) + 77, (1ull << 29) - 64, (1ull << 29) + 64 };
    size_t len = LEN[v]; size_t lead = (v == 3) ? 3 : 0;   // variant 3: three buffered bytes first, then the huge call
    static unsigned char *zero = nullptr; static const size_t MAPLEN = (1ull << 29) + 4096;
    if (!zero) { zero = (unsigned char *) mmap(nullptr, MAPLEN, PROT_READ, MAP_PRIVATE | MAP_ANONYMOUS | MAP_NORESERVE, -1, 0); if (zero == MAP_FAILED) { zero = nullptr; VF_FAIL("harness-mmap-failed", "cannot map %zu bytes", MAPLEN); } }
    std::string desc = fmt("%s single update of %zu bytes%s", a.name, len, lead ? " after 3 buffered bytes" : "");
    c.sample(desc); if (c.verbose) fprintf(stderr, "case: %s\n", desc.c_str());
    RawCtx ctx(a.ctxsz, 0x5a);
    VF_CHECK(a.init(ctx.p) >= 0, "digest-init-failed", "%s", desc.c_str());
    if (lead) a.update(ctx.p, zero, (uint32_t) lead);
    a.update(ctx.p, zero, (uint32_t) len);
    unsigned char got[64], want[64]; memset(got, 0, sizeof got); a.final(ctx.p, got);
    C12_ORACLE_OK(c, o_digest(a.oalg, zero, lead + len, want));
    VF_CHECK(memcmp(got, want, a.hlen) == 0, fmt("digest-mismatch:%s:huge-update", a.name).c_str(), "%s: got %s want %s", desc.c_str(), hex(got, a.hlen).c_str(), hex(want, a.hlen).c_str());
    c.nontrivial(fmt("%s|%u", a.name, v));
}
VF_TARGET("C12.digest_huge", prop_huge, 16, 300)
namespace vf { uint64_t vf_enum_total() { return NAPI * 4; } }
#else
VF_TARGET("C12.digest", prop, 192, 20)
#endif
namespace vf { void vf_global_init(int, char **) { if (psCryptoOpen(PSCRYPTO_CONFIG) != PS_SUCCESS) { fprintf(stderr, "psCryptoOpen failed\n"); _exit(2); } } }
