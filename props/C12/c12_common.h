// C12 shared harness helpers: exact-size heap buffers at a chosen misalignment (so ASan sees any over-read /
// over-write by one byte), deterministic message fill, length / partition generators.
// Every random choice is drawn from the tape; an all-zero tape gives the simplest case (empty message,
// aligned, one call, out of place).
#pragma once
#include "vf.h"
#include "ossl_oracle.h"
#include <algorithm>
#include <memory>
#include <string>
#include <vector>

namespace c12 {
using vf::Tape;
using vf::Ctx;

static const uint8_t CANARY = 0xC5;

// n usable bytes at base+off; base comes from malloc (16-byte aligned) so (p mod 16) == off.
// The end of the allocation is exactly p+n: reading or writing p[n] is a heap-buffer-overflow under ASan.
struct XBuf {
    uint8_t *base = nullptr, *p = nullptr; size_t n = 0; unsigned off = 0;
    XBuf() {}
    XBuf(size_t len, unsigned offset, int fill = -1) { alloc(len, offset, fill); }
    void alloc(size_t len, unsigned offset, int fill = -1) {
        free(base); n = len; off = offset;
        base = (uint8_t *) malloc(len + offset);
        if (!base) { fprintf(stderr, "oom\n"); abort(); }
        p = base + offset;
        if (fill >= 0) memset(base, fill, len + offset);
    }
    ~XBuf() { free(base); }
    XBuf(const XBuf &) = delete; XBuf &operator=(const XBuf &) = delete;
    XBuf(XBuf &&o) noexcept { base = o.base; p = o.p; n = o.n; off = o.off; o.base = o.p = nullptr; }
    bool all(uint8_t v) const { for (size_t i = 0; i < n; i++) if (p[i] != v) return false; return true; }
};

// heap object of exactly sizeof(T) bytes (context overflow is visible to ASan), optionally pre-dirtied
template <class T> struct HeapObj {
    T *o;
    explicit HeapObj(int dirty = -1) { o = (T *) malloc(sizeof(T)); if (!o) abort(); if (dirty >= 0) memset((void *) o, dirty, sizeof(T)); }
    ~HeapObj() { free(o); }
    HeapObj(const HeapObj &) = delete; HeapObj &operator=(const HeapObj &) = delete;
    T *operator->() { return o; } T *get() { return o; }
};

// deterministic pseudo-random fill (splitmix64); seed 0 still gives non-trivial data
inline void fill(uint8_t *p, size_t n, uint64_t seed) {
    uint64_t z = seed * 0x9E3779B97F4A7C15ULL + 0xD1B54A32D192ED03ULL;
    for (size_t i = 0; i < n;) {
        z += 0x9E3779B97F4A7C15ULL; uint64_t x = z;
        x = (x ^ (x >> 30)) * 0xBF58476D1CE4E5B9ULL; x = (x ^ (x >> 27)) * 0x94D049BB133111EBULL; x ^= x >> 31;
        for (int k = 0; k < 8 && i < n; k++, i++) p[i] = (uint8_t) (x >> (8 * k));
    }
}
// data for a buffer: short buffers take their bytes straight from the tape (so the shrinker/fuzzer can shape
// them), long ones are expanded from an 8-byte tape seed.
inline void gen_data(Tape &t, uint8_t *p, size_t n) {
    if (n <= 24) { t.bytes(p, n); return; }
    fill(p, n, t.u64());
}

// --- lengths --------------------------------------------------------------------------------------------
// class 0: uniform in [0, 4*B+1]; class 1: k*B+d around every block / padding boundary; class 2: random up to maxLarge;
// class 3 (2%): beyond 2^16
struct Len { size_t n; int cls; };
inline Len gen_len(Tape &t, size_t B, size_t maxLarge = 65536) {
    unsigned sel = t.u8();
    if (sel < 120) return Len{ (size_t) t.below(4 * B + 2), 0 };
    if (sel < 216) {
        static const int d[] = { 0, -1, 1, -8, -9, -7, -16, -17, -15, 2, -2, -10 };   // 56/55/57 = 64-8/-9/-7; 112/111 = 128-16/-17
        size_t k = (size_t) t.range(1, 5);
        if (t.chance(1, 8)) k = (size_t) t.range(6, 40);
        long v = (long) (k * B) + d[t.below(sizeof d / sizeof d[0])];
        return Len{ (size_t) (v < 0 ? 0 : v), 1 };
    }
    if (sel >= 251 && maxLarge >= 65536) {
        // class 3: a single message beyond 2^16 bytes (length counters and helpers that are 16 bits wide wrap here); the entry
        // points driven with these lengths all take 32-bit (or wider) length arguments
        static const size_t H[] = { 65536, 65537, 65535, 65536 + 16, 65536 + 64, 65573, 131072, 131071, 131073, 196608 + 5 };
        size_t n = t.chance(1, 2) ? H[t.below(sizeof H / sizeof H[0])] : 65536 + (size_t) t.below(140000);
        return Len{ n, 3 };
    }
    unsigned bits = (unsigned) t.range(9, 16);
    size_t n = (size_t) t.below((1ULL << bits) + 1);
    if (t.chance(1, 4)) { n = n / B * B; long dd = (long) t.range(-1, 1); if ((long) n + dd >= 0) n = (size_t) ((long) n + dd); }
    if (n > maxLarge) n = maxLarge;
    return Len{ n, 2 };
}
inline bool near_boundary(size_t n, size_t B) {
    size_t r = n % B;
    return r <= 1 || r == B - 1 || (r >= B - 10 && r <= B - 7) || (B == 128 && r >= B - 18 && r <= B - 15);
}
// bucket used in distinct-shape keys
inline std::string len_key(size_t n, size_t B) {
    if (n <= 4 * B + 1) return std::to_string(n);
    unsigned lg = 0; for (size_t v = n; v > 1; v >>= 1) lg++;
    return vf::fmt("2^%u%s", lg, near_boundary(n, B) ? vf::fmt("r%zu", n % B).c_str() : "");
}

// --- partitions of a message into update calls ------------------------------------------------------------
// n <= 9: a uniformly chosen composition (all 2^(n-1) are reachable and get enumerated over a campaign);
// otherwise random shapes incl. cuts at block boundaries +-1, byte-wise prefixes, fixed chunk sizes.
// Zero-length updates are sprinkled in.  shape: 0 single call, 1 two calls, 2 few calls, 3 many calls; +4 if a zero-length update is present
inline std::vector<size_t> gen_parts(Tape &t, size_t n, size_t B, int *shape) {
    std::vector<size_t> parts;
    unsigned mode = 0;
    if (n == 0) { /* no data */ }
    else if (n <= 9) {
        uint32_t mask = (uint32_t) t.below(1ULL << (n - 1));
        size_t cur = 1;
        for (size_t i = 0; i + 1 < n; i++) { if (mask >> i & 1) { parts.push_back(cur); cur = 1; } else cur++; }
        parts.push_back(cur);
    } else {
        mode = (unsigned) t.below(6);
        std::vector<size_t> cuts;
        switch (mode) {
        case 0: break;
        case 1: cuts.push_back((size_t) t.below(n + 1)); break;
        case 2: { unsigned k = (unsigned) t.range(2, 7); for (unsigned i = 0; i < k; i++) cuts.push_back((size_t) t.below(n + 1)); break; }
        case 3: { unsigned k = (unsigned) t.range(1, 5);
                  for (unsigned i = 0; i < k; i++) { long c = (long) (t.below(n / B + 2) * B) + (long) t.range(-1, 1); if (c >= 0 && (size_t) c <= n) cuts.push_back((size_t) c); } break; }
        case 4: { size_t pre = (size_t) t.below(2 * B + 4); if (pre > n) pre = n; for (size_t i = 1; i <= pre; i++) cuts.push_back(i); break; }
        default: { size_t c = (size_t) t.range(1, (int64_t) (2 * B + 1)); for (size_t pos = c, k = 0; pos < n && k < 70; pos += c, k++) cuts.push_back(pos); break; }
        }
        std::sort(cuts.begin(), cuts.end());
        size_t prev = 0;
        for (size_t c : cuts) { parts.push_back(c - prev); prev = c; }   // equal cuts give zero-length updates
        parts.push_back(n - prev);
    }
    if (t.chance(1, 4)) { unsigned k = (unsigned) t.range(1, 2); for (unsigned i = 0; i < k; i++) parts.insert(parts.begin() + (long) t.below(parts.size() + 1), 0); }
    size_t nz = 0; bool zero = false;
    for (size_t x : parts) { if (x) nz++; else zero = true; }
    if (shape) *shape = (nz <= 1 ? 0 : nz == 2 ? 1 : nz <= 8 ? 2 : 3) + (zero ? 4 : 0);
    return parts;
}
inline std::string parts_str(const std::vector<size_t> &p) {
    std::string s = "[";
    for (size_t i = 0; i < p.size() && i < 12; i++) { if (i) s += ","; s += std::to_string(p[i]); }
    if (p.size() > 12) s += ",...(" + std::to_string(p.size()) + ")";
    return s + "]";
}

// Feed msg[0..n) to `upd` following `parts`.  exact=true: every piece is first copied to its own exact-size heap
// buffer at misalignment `off`, so an over-read past the *piece* (not just past the message) is caught.
template <class F> inline void feed(const uint8_t *msg, const std::vector<size_t> &parts, bool exact, unsigned off, F upd) {
    size_t pos = 0;
    for (size_t len : parts) {
        if (exact) { XBuf b(len, off); if (len) memcpy(b.p, msg + pos, len); upd(b.p, len); }
        else upd(msg + pos, len);
        pos += len;
    }
}

// An oracle (OpenSSL) refusal is never a verdict: the case is discarded and counted ("oracle-failed" must stay 0
// in the evidence; the engine also reports discards).
#define C12_ORACLE_OK(c, expr) do { if ((expr) < 0) { (c).count("oracle-failed"); if ((c).verbose) fprintf(stderr, "C12: oracle call failed: %s\n", #expr); throw vf::Discard{}; } } while (0)

} // namespace c12
