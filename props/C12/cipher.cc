// C12 / block ciphers: AES-128/192/256 single block (psAesEncryptBlock/psAesDecryptBlock), AES-CBC and 3DES-EDE-CBC,
// against OpenSSL EVP (ECB without padding for the raw block, CBC without padding).
//
// Oracle: FIPS 197 / SP 800-38A CBC / SP 800-67 TDEA: byte equality with OpenSSL for the whole message however it is cut
// into calls (the context carries the chaining IV), in place or out of place, at any alignment;
// decrypt(encrypt(x)) == x follows from both directions matching the same oracle.
// Preconditions from the code comments, CRYPTO_ASSERTs and in-tree callers (TLS record layer, PKCS#5/#8/#12):
//  * every call length is a multiple of the block size (16 / 8); zero-length calls are allowed;
//  * in-place means exactly pt == ct (no partial overlap);
//  * a context initialised with PS_AES_ENCRYPT only encrypts, PS_AES_DECRYPT only decrypts; key length 16/24/32 (3DES: 24);
//  * pointers non-NULL.
// Non-trivial: >= 2 blocks, >= 2 calls, in-place, or misaligned.  Distinct by (cipher, key size, direction, #blocks class,
// call shape, in-place mask class, offsets).
#include "c12_common.h"
extern "C" {
#include "crypto/cryptoApi.h"
}
using namespace vf;
using namespace c12;

namespace {

size_t gen_blocks(Tape &t, int *cls) {
    unsigned sel = t.u8();
    if (sel < 170) { *cls = 0; return (size_t) t.below(10); }            // 0..9 blocks (0..4 blocks+1 and a bit more)
    if (sel < 235) { *cls = 1; return (size_t) t.range(10, 80); }
    *cls = 2; return (size_t) t.below(4097);                              // up to 64 KiB of AES blocks
}

// split nb blocks into calls (block multiples), zero-length calls sprinkled
std::vector<size_t> gen_calls(Tape &t, size_t nb, int *shape) {
    std::vector<size_t> calls;
    unsigned mode = (unsigned) t.below(5);
    if (nb == 0 || mode == 0) calls.push_back(nb);
    else if (mode == 1) { size_t a = (size_t) t.below(nb + 1); calls.push_back(a); calls.push_back(nb - a); }
    else if (mode == 2) { size_t pre = nb < 40 ? nb : 40; for (size_t i = 0; i < pre; i++) calls.push_back(1); if (nb > pre) calls.push_back(nb - pre); }
    else { std::vector<size_t> cuts; unsigned k = (unsigned) t.range(2, 6); for (unsigned i = 0; i < k; i++) cuts.push_back((size_t) t.below(nb + 1));
           std::sort(cuts.begin(), cuts.end()); size_t prev = 0; for (size_t cpos : cuts) { calls.push_back(cpos - prev); prev = cpos; } calls.push_back(nb - prev); }
    if (t.chance(1, 5)) calls.insert(calls.begin() + (long) t.below(calls.size() + 1), 0);
    size_t nz = 0; for (size_t x : calls) if (x) nz++;
    *shape = nz <= 1 ? 0 : nz == 2 ? 1 : nz <= 8 ? 2 : 3;
    return calls;
}

void block_case(Tape &t, Ctx &c) {
    static const size_t KL[] = { 16, 24, 32 };
    size_t kl = KL[t.below(3)];
    bool enc = !t.coin();
    bool inplace = t.coin();
    unsigned ko = (unsigned) t.below(16), io = (unsigned) t.below(16), oo = (unsigned) t.below(16);
    XBuf key(kl, ko); t.bytes(key.p, kl);
    XBuf in(16, io); t.bytes(in.p, 16);
    uint8_t want[16]; C12_ORACLE_OK(c, o_aes_ecb_block(enc, key.p, kl, in.p, want));
    HeapObj<psAesKey_t> k(t.coin() ? 0x77 : 0);
    unsigned nrep = (unsigned) t.range(1, 3);    // the key schedule must survive repeated use
    int32_t rc = psAesInitBlockKey(k.get(), key.p, (uint8_t) kl, enc ? PS_AES_ENCRYPT : PS_AES_DECRYPT);
    VF_CHECK(rc == PS_SUCCESS, "aes-init-refused", "psAesInitBlockKey rc=%d keylen=%zu", rc, kl);
    for (unsigned r = 0; r < nrep; r++) {
        XBuf out(16, inplace ? io : oo, CANARY);
        const uint8_t *src = in.p;
        if (inplace) { memcpy(out.p, in.p, 16); src = out.p; }
        if (enc) psAesEncryptBlock(k.get(), src, out.p); else psAesDecryptBlock(k.get(), src, out.p);
        VF_CHECK(memcmp(out.p, want, 16) == 0, "aes-block-mismatch", "AES-%zu %s block inplace=%d rep=%u key=%s in=%s: got %s want %s", kl * 8, enc ? "enc" : "dec", inplace, r,
                 hex(key.p, kl).c_str(), hex(in.p, 16).c_str(), hex(out.p, 16).c_str(), hex(want, 16).c_str());
    }
    psAesClearBlockKey(k.get());
    c.count("aes-block"); c.count(fmt("aes-block:%zu", kl * 8));
    if (inplace || ko || io || oo) c.nontrivial(fmt("blk|%zu|%d|%d|%u,%u,%u", kl, enc, inplace, ko, io, oo));
    c.sample(fmt("aes-%zu block %s inplace=%d", kl * 8, enc ? "enc" : "dec", inplace));
}

void cbc_case(Tape &t, Ctx &c) {
    bool des = t.chance(1, 4);
    static const size_t KL[] = { 16, 32, 24 };
    size_t kl = des ? 24 : KL[t.below(3)];
    size_t B = des ? 8 : 16;
    bool enc = !t.coin();
    int bcls = 0; size_t nb = gen_blocks(t, &bcls);
    if (des && nb > 2048) nb = 2048;
    size_t len = nb * B;
    unsigned ko = (unsigned) t.below(16), vo = (unsigned) t.below(16), io = (unsigned) t.below(16), oo = (unsigned) t.below(16);
    XBuf key(kl, ko); t.bytes(key.p, kl);
    XBuf iv(B, vo); t.bytes(iv.p, B);
    XBuf in(len, io); gen_data(t, in.p, len);
    std::vector<uint8_t> want(len + 1);
    C12_ORACLE_OK(c, o_cbc(des ? O_DES3_CBC : O_AES_CBC, enc, key.p, kl, iv.p, in.p, len, want.data()));
    int shape = 0; std::vector<size_t> calls = gen_calls(t, nb, &shape);
    unsigned ipmode = (unsigned) t.below(4);    // 0 all out-of-place, 1 all in-place, 2/3 per-call coin
    bool percall_exact = t.coin();              // each call gets its own exact-size src/dst buffers (catches over-read/over-write past the call's data)
    XBuf out(len, oo, CANARY);

    HeapObj<psAesCbc_t> actx(t.coin() ? 0x99 : 0);
    HeapObj<psDes3_t> dctx(0x99);
    int32_t rc = des ? psDes3Init(dctx.get(), iv.p, key.p) : psAesInitCBC(actx.get(), iv.p, key.p, (uint8_t) kl, enc ? PS_AES_ENCRYPT : PS_AES_DECRYPT);
    VF_CHECK(rc == PS_SUCCESS, "cbc-init-refused", "%s init rc=%d keylen=%zu", des ? "psDes3Init" : "psAesInitCBC", rc, kl);
    auto run = [&](const uint8_t *src, uint8_t *dst, size_t n) {
        if (des) { if (enc) psDes3Encrypt(dctx.get(), src, dst, (uint32_t) n); else psDes3Decrypt(dctx.get(), src, dst, (uint32_t) n); }
        else { if (enc) psAesEncryptCBC(actx.get(), src, dst, (uint32_t) n); else psAesDecryptCBC(actx.get(), src, dst, (uint32_t) n); }
    };
    size_t pos = 0; unsigned nin = 0, ncall = 0;
    for (size_t cb : calls) {
        size_t n = cb * B;
        bool ip = ipmode == 1 || (ipmode >= 2 && t.coin());
        if (percall_exact) {
            unsigned o1 = (unsigned) t.below(16), o2 = (unsigned) t.below(16);
            XBuf s(n, o1); if (n) memcpy(s.p, in.p + pos, n);
            if (ip) { run(s.p, s.p, n); if (n) memcpy(out.p + pos, s.p, n); }
            else { XBuf d(n, o2, CANARY); run(s.p, d.p, n); if (n) memcpy(out.p + pos, d.p, n); }
        } else {
            if (ip) { if (n) memcpy(out.p + pos, in.p + pos, n); run(out.p + pos, out.p + pos, n); }
            else run(in.p + pos, out.p + pos, n);
        }
        if (ip && n) nin++;
        if (n) ncall++;
        pos += n;
    }
    if (des) psDes3Clear(dctx.get()); else psAesClearCBC(actx.get());
    size_t bad = 0; while (bad < len && out.p[bad] == want[bad]) bad++;
    const char *nm = des ? "3des-cbc" : "aes-cbc";
    VF_CHECK(bad == len, fmt("cbc-mismatch:%s", nm).c_str(), "%s-%zu %s blocks=%zu calls=%s inplace-mode=%u exact=%d: first difference in block %zu (byte %zu): got %s want %s", nm, kl * 8,
             enc ? "enc" : "dec", nb, parts_str(calls).c_str(), ipmode, percall_exact, bad / B, bad, hex(out.p + bad / B * B, B).c_str(), hex(want.data() + bad / B * B, B).c_str());
    c.count(des ? "cbc:3des" : fmt("cbc:aes-%zu", kl * 8)); c.count(enc ? "cbc:enc" : "cbc:dec");
    c.count(fmt("cbc-blocks-class:%d", bcls)); c.count(fmt("cbc-calls:%s", ncall <= 1 ? "1" : ncall == 2 ? "2" : ncall <= 8 ? "3-8" : ">8"));
    if (nin) c.count(nin == ncall ? "cbc-inplace:all" : "cbc-inplace:mixed");
    if (nb >= 2 || ncall >= 2 || nin || io || oo)
        c.nontrivial(fmt("%s|%zu|%d|b%zu|s%d|ip%d|%u,%u|%d", nm, kl, enc, nb < 10 ? nb : nb < 81 ? 10 + nb / 16 : 16 + nb / 512, shape, nin == 0 ? 0 : nin == ncall ? 1 : 2, io, oo, percall_exact));
    c.sample(fmt("%s-%zu %s blocks=%zu calls=%s inplace-mode=%u io=%u oo=%u", nm, kl * 8, enc ? "enc" : "dec", nb, parts_str(calls).c_str(), ipmode, io, oo));
}

void prop(Tape &t, Ctx &c) {
    if (t.u8() >= 215) block_case(t, c); else cbc_case(t, c);
}

} // namespace
VF_TARGET("C12.cipher", prop, 256, 30)
namespace vf { void vf_global_init(int, char **) { if (psCryptoOpen(PSCRYPTO_CONFIG) != PS_SUCCESS) { fprintf(stderr, "psCryptoOpen failed\n"); _exit(2); } } }
