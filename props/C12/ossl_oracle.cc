// C12 oracle: OpenSSL 3.0 libcrypto (EVP).  Only OpenSSL headers in this translation unit.
#include "ossl_oracle.h"
#include <cstring>
#include <vector>
#include <openssl/evp.h>
#include <openssl/hmac.h>
#include <openssl/kdf.h>
#include <openssl/core_names.h>
#include <openssl/params.h>
#include <openssl/crypto.h>
#include <openssl/err.h>

static const EVP_MD *md_of(int alg) {
    switch (alg) {
    case O_MD5: return EVP_md5();
    case O_SHA1: return EVP_sha1();
    case O_SHA256: return EVP_sha256();
    case O_SHA384: return EVP_sha384();
    case O_SHA512: return EVP_sha512();
    case O_MD5SHA1: return EVP_md5_sha1();
    }
    return nullptr;
}
static const char *md_name(int alg) {
    switch (alg) {
    case O_MD5: return "MD5";
    case O_SHA1: return "SHA1";
    case O_SHA256: return "SHA256";
    case O_SHA384: return "SHA384";
    case O_SHA512: return "SHA512";
    case O_MD5SHA1: return "MD5-SHA1";
    }
    return "";
}
int o_digest_len(int alg) { static const int l[] = { 16, 20, 32, 48, 64, 36 }; return l[alg]; }
int o_block_len(int alg) { static const int l[] = { 64, 64, 64, 128, 128, 64 }; return l[alg]; }
const char *o_version() { return OpenSSL_version(OPENSSL_VERSION); }

int o_digest(int alg, const uint8_t *msg, size_t len, uint8_t *out) {
    unsigned n = 0;
    static const uint8_t z = 0;
    if (!EVP_Digest(len ? msg : &z, len, out, &n, md_of(alg), nullptr)) return -1;
    return (int) n;
}

int o_hmac(int alg, const uint8_t *key, size_t klen, const uint8_t *msg, size_t len, uint8_t *out) {
    unsigned n = 0;
    static const uint8_t z = 0;
    if (!HMAC(md_of(alg), klen ? key : &z, (int) klen, len ? msg : &z, len, out, &n)) return -1;
    return (int) n;
}

static int hkdf_evp(int alg, int mode, const uint8_t *key, size_t klen, const uint8_t *salt, size_t slen,
                    const uint8_t *info, size_t ilen, uint8_t *out, size_t outlen) {
    static EVP_KDF *kdf = EVP_KDF_fetch(nullptr, "HKDF", nullptr);
    if (!kdf) return -1;
    EVP_KDF_CTX *c = EVP_KDF_CTX_new(kdf);
    if (!c) return -1;
    OSSL_PARAM p[6]; int n = 0;
    static const uint8_t z = 0;
    p[n++] = OSSL_PARAM_construct_utf8_string(OSSL_KDF_PARAM_DIGEST, (char *) md_name(alg), 0);
    p[n++] = OSSL_PARAM_construct_int(OSSL_KDF_PARAM_MODE, &mode);
    p[n++] = OSSL_PARAM_construct_octet_string(OSSL_KDF_PARAM_KEY, (void *) (klen ? key : &z), klen);
    if (slen) p[n++] = OSSL_PARAM_construct_octet_string(OSSL_KDF_PARAM_SALT, (void *) salt, slen);
    if (ilen) p[n++] = OSSL_PARAM_construct_octet_string(OSSL_KDF_PARAM_INFO, (void *) info, ilen);
    p[n] = OSSL_PARAM_construct_end();
    int ok = EVP_KDF_derive(c, out, outlen, p) > 0;
    EVP_KDF_CTX_free(c);
    if (!ok) ERR_clear_error();
    return ok ? 0 : -1;
}

int o_hkdf_extract(int alg, const uint8_t *salt, size_t slen, const uint8_t *ikm, size_t ilen, uint8_t *prk, int *fb) {
    int hl = o_digest_len(alg);
    if (fb) *fb = 0;
    if (hkdf_evp(alg, EVP_KDF_HKDF_MODE_EXTRACT_ONLY, ikm, ilen, salt, slen, nullptr, 0, prk, (size_t) hl) == 0) return hl;
    if (fb) *fb = 1;
    // RFC 5869 2.2: PRK = HMAC-Hash(salt, IKM); absent salt = HashLen zeros (== empty HMAC key after padding)
    return o_hmac(alg, salt, slen, ikm, ilen, prk);
}

int o_hkdf_expand(int alg, const uint8_t *prk, size_t plen, const uint8_t *info, size_t ilen, uint8_t *okm, size_t L, int *fb) {
    size_t hl = (size_t) o_digest_len(alg);
    if (fb) *fb = 0;
    if (L == 0) return 0;
    if (L > 255 * hl) return -1;
    if (hkdf_evp(alg, EVP_KDF_HKDF_MODE_EXPAND_ONLY, prk, plen, nullptr, 0, info, ilen, okm, L) == 0) return 0;
    if (fb) *fb = 1;
    // RFC 5869 2.3
    std::vector<uint8_t> in; uint8_t T[64]; size_t tl = 0, done = 0;
    for (unsigned i = 1; done < L; i++) {
        in.assign(T, T + tl); in.insert(in.end(), info, info + ilen); in.push_back((uint8_t) i);
        if (o_hmac(alg, prk, plen, in.data(), in.size(), T) < 0) return -1;
        tl = hl;
        size_t k = L - done < hl ? L - done : hl;
        memcpy(okm + done, T, k); done += k;
    }
    return 0;
}

int o_pbkdf2_sha1(const uint8_t *pw, size_t plen, const uint8_t *salt, size_t slen, int iter, uint8_t *out, size_t dklen) {
    static const uint8_t z = 0;
    if (!PKCS5_PBKDF2_HMAC((const char *) (plen ? pw : &z), (int) plen, slen ? salt : &z, (int) slen, iter, EVP_sha1(), (int) dklen, out)) {
        ERR_clear_error(); return -1;
    }
    return 0;
}

static int run_cipher(const EVP_CIPHER *ci, int enc, const uint8_t *key, const uint8_t *iv, const uint8_t *in, size_t len, uint8_t *out) {
    if (!ci) return -1;
    if (len == 0) return 0;
    EVP_CIPHER_CTX *c = EVP_CIPHER_CTX_new();
    if (!c) return -1;
    int ok = EVP_CipherInit_ex(c, ci, nullptr, key, iv, enc) == 1 && EVP_CIPHER_CTX_set_padding(c, 0) == 1;
    int n = 0, m = 0;
    ok = ok && EVP_CipherUpdate(c, out, &n, in, (int) len) == 1 && EVP_CipherFinal_ex(c, out + n, &m) == 1 && (size_t) (n + m) == len;
    EVP_CIPHER_CTX_free(c);
    if (!ok) ERR_clear_error();
    return ok ? 0 : -1;
}

int o_aes_ecb_block(int enc, const uint8_t *key, size_t klen, const uint8_t in[16], uint8_t out[16]) {
    const EVP_CIPHER *ci = klen == 16 ? EVP_aes_128_ecb() : klen == 24 ? EVP_aes_192_ecb() : klen == 32 ? EVP_aes_256_ecb() : nullptr;
    return run_cipher(ci, enc, key, nullptr, in, 16, out);
}

int o_cbc(int cipher, int enc, const uint8_t *key, size_t klen, const uint8_t *iv, const uint8_t *in, size_t len, uint8_t *out) {
    const EVP_CIPHER *ci = nullptr;
    if (cipher == O_AES_CBC) ci = klen == 16 ? EVP_aes_128_cbc() : klen == 24 ? EVP_aes_192_cbc() : klen == 32 ? EVP_aes_256_cbc() : nullptr;
    else if (cipher == O_DES3_CBC && klen == 24) ci = EVP_des_ede3_cbc();
    return run_cipher(ci, enc, key, iv, in, len, out);
}

static const EVP_CIPHER *aead_of(int aead, size_t klen) {
    if (aead == O_AES_GCM) return klen == 16 ? EVP_aes_128_gcm() : klen == 24 ? EVP_aes_192_gcm() : klen == 32 ? EVP_aes_256_gcm() : nullptr;
    if (aead == O_CHACHA20_POLY1305 && klen == 32) return EVP_chacha20_poly1305();
    return nullptr;
}

int o_aead_seal(int aead, const uint8_t *key, size_t klen, const uint8_t nonce[12], const uint8_t *aad, size_t aadlen,
                const uint8_t *pt, size_t len, uint8_t *ct, uint8_t *tag, size_t taglen) {
    const EVP_CIPHER *ci = aead_of(aead, klen);
    if (!ci) return -1;
    EVP_CIPHER_CTX *c = EVP_CIPHER_CTX_new();
    if (!c) return -1;
    int n = 0;
    uint8_t dummy[16];
    int ok = EVP_EncryptInit_ex(c, ci, nullptr, nullptr, nullptr) == 1
             && EVP_CIPHER_CTX_ctrl(c, EVP_CTRL_AEAD_SET_IVLEN, 12, nullptr) == 1
             && EVP_EncryptInit_ex(c, nullptr, nullptr, key, nonce) == 1;
    if (ok && aadlen) ok = EVP_EncryptUpdate(c, nullptr, &n, aad, (int) aadlen) == 1;
    if (ok && len) ok = EVP_EncryptUpdate(c, ct, &n, pt, (int) len) == 1 && (size_t) n == len;
    ok = ok && EVP_EncryptFinal_ex(c, dummy, &n) == 1;
    ok = ok && EVP_CIPHER_CTX_ctrl(c, EVP_CTRL_AEAD_GET_TAG, (int) taglen, tag) == 1;
    EVP_CIPHER_CTX_free(c);
    if (!ok) ERR_clear_error();
    return ok ? 0 : -1;
}

int o_aead_open(int aead, const uint8_t *key, size_t klen, const uint8_t nonce[12], const uint8_t *aad, size_t aadlen,
                const uint8_t *ct, size_t len, const uint8_t *tag, size_t taglen, uint8_t *pt) {
    const EVP_CIPHER *ci = aead_of(aead, klen);
    if (!ci) return -2;
    EVP_CIPHER_CTX *c = EVP_CIPHER_CTX_new();
    if (!c) return -2;
    int n = 0;
    uint8_t dummy[16];
    int ok = EVP_DecryptInit_ex(c, ci, nullptr, nullptr, nullptr) == 1
             && EVP_CIPHER_CTX_ctrl(c, EVP_CTRL_AEAD_SET_IVLEN, 12, nullptr) == 1
             && EVP_DecryptInit_ex(c, nullptr, nullptr, key, nonce) == 1
             && EVP_CIPHER_CTX_ctrl(c, EVP_CTRL_AEAD_SET_TAG, (int) taglen, (void *) tag) == 1;
    if (!ok) { EVP_CIPHER_CTX_free(c); ERR_clear_error(); return -2; }
    if (aadlen) ok = EVP_DecryptUpdate(c, nullptr, &n, aad, (int) aadlen) == 1;
    if (ok && len) ok = EVP_DecryptUpdate(c, pt, &n, ct, (int) len) == 1;
    ok = ok && EVP_DecryptFinal_ex(c, dummy, &n) == 1;
    EVP_CIPHER_CTX_free(c);
    if (!ok) ERR_clear_error();
    return ok ? 0 : -1;
}

int o_tls1_prf(int alg, const uint8_t *secret, size_t slen, const uint8_t *seed, size_t seedlen, uint8_t *out, size_t outlen) {
    static EVP_KDF *kdf = EVP_KDF_fetch(nullptr, "TLS1-PRF", nullptr);
    if (!kdf) return -1;
    EVP_KDF_CTX *c = EVP_KDF_CTX_new(kdf);
    if (!c) return -1;
    OSSL_PARAM p[4]; int n = 0;
    static const uint8_t z = 0;
    p[n++] = OSSL_PARAM_construct_utf8_string(OSSL_KDF_PARAM_DIGEST, (char *) md_name(alg), 0);
    p[n++] = OSSL_PARAM_construct_octet_string(OSSL_KDF_PARAM_SECRET, (void *) (slen ? secret : &z), slen);
    p[n++] = OSSL_PARAM_construct_octet_string(OSSL_KDF_PARAM_SEED, (void *) seed, seedlen);
    p[n] = OSSL_PARAM_construct_end();
    int ok = EVP_KDF_derive(c, out, outlen, p) > 0;
    EVP_KDF_CTX_free(c);
    if (!ok) ERR_clear_error();
    return ok ? 0 : -1;
}
