// C12 oracle interface: OpenSSL 3.0 libcrypto (EVP) behind plain C types, compiled in its own translation
// unit (ossl_oracle.cc) so OpenSSL and MatrixSSL headers never meet.  Every function returns >= 0 on success
// and -1 if OpenSSL itself refused/failed (callers treat that as an infrastructure problem, never as a verdict,
// except o_aead_open where -1 means "authentication failed").
#pragma once
#include <cstddef>
#include <cstdint>

enum OAlg { O_MD5 = 0, O_SHA1 = 1, O_SHA256 = 2, O_SHA384 = 3, O_SHA512 = 4, O_MD5SHA1 = 5 };
enum OCipher { O_AES_CBC = 0, O_DES3_CBC = 1 };
enum OAead { O_AES_GCM = 0, O_CHACHA20_POLY1305 = 1 };

int o_digest_len(int alg);                                  // bytes
int o_block_len(int alg);                                   // compression-function block (HMAC pad) length
int o_digest(int alg, const uint8_t *msg, size_t len, uint8_t *out);
int o_hmac(int alg, const uint8_t *key, size_t klen, const uint8_t *msg, size_t len, uint8_t *out);
// RFC 5869. o_hkdf_* use EVP_KDF "HKDF" (extract-only / expand-only); if EVP_KDF refuses the parameters they
// fall back to the RFC 5869 construction over OpenSSL's HMAC().  *used_fallback is set to 1 in that case.
int o_hkdf_extract(int alg, const uint8_t *salt, size_t slen, const uint8_t *ikm, size_t ilen, uint8_t *prk, int *used_fallback);
int o_hkdf_expand(int alg, const uint8_t *prk, size_t plen, const uint8_t *info, size_t ilen, uint8_t *okm, size_t L, int *used_fallback);
int o_pbkdf2_sha1(const uint8_t *pw, size_t plen, const uint8_t *salt, size_t slen, int iter, uint8_t *out, size_t dklen);
int o_aes_ecb_block(int enc, const uint8_t *key, size_t klen, const uint8_t in[16], uint8_t out[16]);
int o_cbc(int cipher, int enc, const uint8_t *key, size_t klen, const uint8_t *iv, const uint8_t *in, size_t len, uint8_t *out);
// AEAD, 12-byte nonce.  tag: taglen bytes (GCM 1..16, ChaCha20-Poly1305 16).
int o_aead_seal(int aead, const uint8_t *key, size_t klen, const uint8_t nonce[12], const uint8_t *aad, size_t aadlen,
                const uint8_t *pt, size_t len, uint8_t *ct, uint8_t *tag, size_t taglen);
int o_aead_open(int aead, const uint8_t *key, size_t klen, const uint8_t nonce[12], const uint8_t *aad, size_t aadlen,
                const uint8_t *ct, size_t len, const uint8_t *tag, size_t taglen, uint8_t *pt);
// TLS 1.0/1.1 (md5+sha1) and TLS 1.2 (sha256/sha384) PRF, RFC 2246 section 5 / RFC 5246 section 5. alg: O_MD5SHA1, O_SHA256, O_SHA384
int o_tls1_prf(int alg, const uint8_t *secret, size_t slen, const uint8_t *seed, size_t seedlen, uint8_t *out, size_t outlen);
const char *o_version();
