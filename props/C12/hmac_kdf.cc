// C12 / MACs and KDFs: HMAC-{MD5,SHA1,SHA256,SHA384} (one-shot, generic psHmac*, Init/Update/Final, psHmacSingle),
// HKDF extract / expand / TLS 1.3 expand-label, PBKDF2-HMAC-SHA1 - against OpenSSL (HMAC(), EVP_KDF HKDF, PKCS5_PBKDF2_HMAC).
//
// Oracles: RFC 2104 (HMAC), RFC 5869 (HKDF), RFC 8446 section 7.1 (HkdfLabel), RFC 8018 section 5.2 (PBKDF2): byte equality.
// Preconditions taken from the code, its CRYPTO_ASSERTs and in-tree callers:
//  * one-shot psHmac<Alg>() / psHmac(): any key length (keys longer than the block are hashed first) -> key 0..2*block+1;
//  * ps Hmac<Alg>Init / psHmacInit / psHmacSingle: keyLen <= block (psAssert(keyLen <= 64/128); the pad array is one block) -> key 0..block;
//  * psHkdfExpand: infoLen <= 80 (HKDF_MAX_INFO_LEN), prkLen >= HashLen, L <= 255*HashLen (RFC 5869) - a refusal inside this
//    domain is a failure; outside it only "success with a wrong/undefined result" is a failure;
//  * psHkdfExpandLabel: label 1..249 bytes, context 0..255, total HkdfLabel <= 80 bytes (all in-tree labels are <= 70);
//  * psPkcs5Pbkdf2: rounds >= 1, kLen >= 1, non-NULL pointers.  Password length: the in-tree caller passes an unbounded
//    user password; the main target keeps pLen <= 64, the separate target c12_pbkdf2_longpw covers 0..129 (finding
//    pbkdf2-long-password, see findings/; a wrong result for pLen > 64 has signature pbkdf2-mismatch:pw>64).
// Non-trivial: key/salt/L/dkLen within +-1 of a block/hash-length boundary, long-key path, >= 2 update calls, misaligned
// buffers, context reuse.  Distinct by (function, alg, key class, length class, split shape, offsets).
#include "c12_common.h"
extern "C" {
#include "crypto/cryptoApi.h"
}
using namespace vf;
using namespace c12;

namespace {

typedef int32_t (*OneShot)(const unsigned char *, psSize_t, const unsigned char *, uint32_t, unsigned char *, unsigned char *, psSize_t *);
struct HAlg {
    const char *name; int oalg; psCipherType_e type; size_t hlen, block, ctxsz;
    OneShot oneshot;
    int (*init)(void *, const unsigned char *, psSize_t);
    void (*update)(void *, const unsigned char *, uint32_t);
    void (*final)(void *, unsigned char *);
};
#define HW(T, P) \
    int P##_i(void *c, const unsigned char *k, psSize_t l) { return (int) P##Init((T *) c, k, l); } \
    void P##_u(void *c, const unsigned char *b, uint32_t l) { P##Update((T *) c, b, l); } \
    void P##_f(void *c, unsigned char *h) { P##Final((T *) c, h); }
HW(psHmacMd5_t, psHmacMd5)
HW(psHmacSha1_t, psHmacSha1)
HW(psHmacSha256_t, psHmacSha256)
HW(psHmacSha384_t, psHmacSha384)

const HAlg H[] = {
    { "hmac-md5", O_MD5, HMAC_MD5, 16, 64, sizeof(psHmacMd5_t), psHmacMd5, psHmacMd5_i, psHmacMd5_u, psHmacMd5_f },
    { "hmac-sha1", O_SHA1, HMAC_SHA1, 20, 64, sizeof(psHmacSha1_t), psHmacSha1, psHmacSha1_i, psHmacSha1_u, psHmacSha1_f },
    { "hmac-sha256", O_SHA256, HMAC_SHA256, 32, 64, sizeof(psHmacSha256_t), psHmacSha256, psHmacSha256_i, psHmacSha256_u, psHmacSha256_f },
    { "hmac-sha384", O_SHA384, HMAC_SHA384, 48, 128, sizeof(psHmacSha384_t), psHmacSha384, psHmacSha384_i, psHmacSha384_u, psHmacSha384_f },
};

struct RawCtx {
    void *p;
    RawCtx(size_t sz, int dirty) { p = malloc(sz); if (!p) abort(); if (dirty >= 0) memset(p, dirty, sz); }
    ~RawCtx() { free(p); }
    RawCtx(const RawCtx &) = delete; RawCtx &operator=(const RawCtx &) = delete;
};

// key length classes: 0 (all-zero tape) -> 0; dense around hlen, block, 2*block
size_t gen_keylen(Tape &t, size_t hlen, size_t block, size_t maxlen) {
    unsigned sel = t.u8();
    size_t n;
    if (sel < 100) n = (size_t) t.below(maxlen + 1);
    else if (sel < 200) { static const int d[] = { 0, -1, 1 }; size_t base[] = { hlen, block, 2 * block, block / 2 };
                          long v = (long) base[t.below(4)] + d[t.below(3)]; n = (size_t) (v < 0 ? 0 : v); }
    else n = (size_t) t.below(hlen + 2);
    return n > maxlen ? maxlen : n;
}
std::string key_class(size_t k, size_t hlen, size_t block) {
    if (k > block) return fmt("long%s", k <= block + 1 ? "+1" : k >= 2 * block ? "2B" : "");
    if (k + 1 >= block) return fmt("B%+d", (int) k - (int) block);
    if (k + 1 >= hlen && k <= hlen + 1) return fmt("H%+d", (int) k - (int) hlen);
    return k == 0 ? "0" : "short";
}

void hmac_case(Tape &t, Ctx &c) {
    const HAlg &a = H[t.below(4)];
    unsigned api = (unsigned) t.below(5);   // 0 one-shot specific, 1 psHmac, 2 Init/Update/Final specific, 3 psHmacInit/Update/Final, 4 psHmacSingle
    bool longok = api <= 1;
    size_t klen = gen_keylen(t, a.hlen, a.block, longok ? 2 * a.block + 1 : a.block);
    unsigned koff = (unsigned) t.below(16), moff = (unsigned) t.below(16), hoff = (unsigned) t.below(16);
    XBuf key(klen, koff); gen_data(t, key.p, klen);
    Len L = gen_len(t, a.block);
    XBuf msg(L.n, moff); gen_data(t, msg.p, L.n);
    uint8_t want[64]; C12_ORACLE_OK(c, o_hmac(a.oalg, key.p, klen, msg.p, L.n, want));
    static const char *apin[] = { "oneshot", "psHmac", "init-upd-final", "psHmacInit-upd-final", "psHmacSingle" };
    std::string sig = fmt("hmac-mismatch:%s", a.name);
    int shape = 0; std::vector<size_t> parts;
    bool reuse = false;

    if (api == 0) {
        XBuf got(a.hlen, hoff, CANARY);
        XBuf hk(a.hlen, (unsigned) t.below(16), CANARY);     // receives H(key) when the key is longer than a block
        psSize_t hkl = 0xFFFF;
        int32_t rc = a.oneshot(key.p, (psSize_t) klen, msg.p, (uint32_t) L.n, got.p, hk.p, &hkl);
        VF_CHECK(rc == PS_SUCCESS, "hmac-refused", "%s one-shot rc=%d klen=%zu len=%zu", a.name, rc, klen, L.n);
        VF_CHECK(memcmp(got.p, want, a.hlen) == 0, sig.c_str(), "%s one-shot klen=%zu len=%zu koff=%u moff=%u: got %s want %s", a.name, klen, L.n, koff, moff,
                 hex(got.p, a.hlen).c_str(), hex(want, a.hlen).c_str());
        // documented side outputs: the effective key
        if (klen > a.block) {
            uint8_t hkey[64]; C12_ORACLE_OK(c, o_digest(a.oalg, key.p, klen, hkey));
            VF_CHECK(hkl == a.hlen && memcmp(hk.p, hkey, a.hlen) == 0, "hmac-effective-key-wrong", "%s klen=%zu: hmacKeyLen=%u hmacKey=%s want H(key)=%s", a.name, klen, hkl,
                     hex(hk.p, a.hlen).c_str(), hex(hkey, a.hlen).c_str());
        } else {
            VF_CHECK(hkl == klen, "hmac-effective-key-wrong", "%s klen=%zu (<= block): hmacKeyLen=%u", a.name, klen, hkl);
        }
    } else if (api == 1) {
        XBuf got(MAX_HASHLEN, hoff, CANARY);
        int32_t rc = psHmac(a.type, key.p, (psSize_t) klen, msg.p, (uint32_t) L.n, got.p);
        VF_CHECK(rc == PS_SUCCESS, "hmac-refused", "psHmac(%s) rc=%d klen=%zu len=%zu", a.name, rc, klen, L.n);
        VF_CHECK(memcmp(got.p, want, a.hlen) == 0, sig.c_str(), "psHmac(%s) klen=%zu len=%zu: got %s want %s", a.name, klen, L.n, hex(got.p, a.hlen).c_str(), hex(want, a.hlen).c_str());
    } else if (api == 2 || api == 3) {
        parts = gen_parts(t, L.n, a.block, &shape);
        bool exact = t.coin(); unsigned off2 = (unsigned) t.below(16);
        reuse = t.chance(1, 4);
        int dirty = t.coin() ? (int) t.u8() : 0;
        RawCtx sctx(a.ctxsz, dirty);
        HeapObj<psHmac_t> gctx(dirty);
        for (int round = 0; round < (reuse ? 2 : 1); round++) {
            // second round: same context object, fresh key (derived), same message -> context reuse after Final
            XBuf k2(klen, koff); memcpy(k2.p, key.p, klen);
            if (round == 1) { for (size_t i = 0; i < klen; i++) k2.p[i] ^= (uint8_t) (0x3c + i); C12_ORACLE_OK(c, o_hmac(a.oalg, k2.p, klen, msg.p, L.n, want)); }
            XBuf got(api == 3 ? (size_t) MAX_HASHLEN : a.hlen, hoff, CANARY);
            if (api == 2) {
                VF_CHECK(a.init(sctx.p, k2.p, (psSize_t) klen) == PS_SUCCESS, "hmac-refused", "%s Init failed klen=%zu", a.name, klen);
                feed(msg.p, parts, exact, off2, [&](const uint8_t *p, size_t l) { a.update(sctx.p, p, (uint32_t) l); });
                a.final(sctx.p, got.p);
            } else {
                VF_CHECK(psHmacInit(gctx.get(), a.type, k2.p, (psSize_t) klen) == PS_SUCCESS, "hmac-refused", "psHmacInit(%s) failed klen=%zu", a.name, klen);
                feed(msg.p, parts, exact, off2, [&](const uint8_t *p, size_t l) { psHmacUpdate(gctx.get(), p, (uint32_t) l); });
                psHmacFinal(gctx.get(), got.p);
            }
            VF_CHECK(memcmp(got.p, want, a.hlen) == 0, sig.c_str(), "%s %s klen=%zu len=%zu parts=%s exact=%d round=%d: got %s want %s", a.name, apin[api], klen, L.n,
                     parts_str(parts).c_str(), exact, round, hex(got.p, a.hlen).c_str(), hex(want, a.hlen).c_str());
        }
    } else {
        HeapObj<psHmac_t> gctx(t.coin() ? 0xEE : 0);
        XBuf got(MAX_HASHLEN, hoff, CANARY);
        int32_t rc = psHmacSingle(gctx.get(), a.type, key.p, (psSize_t) klen, msg.p, L.n, got.p);
        VF_CHECK(rc == PS_SUCCESS, "hmac-refused", "psHmacSingle(%s) rc=%d", a.name, rc);
        VF_CHECK(memcmp(got.p, want, a.hlen) == 0, sig.c_str(), "psHmacSingle(%s) klen=%zu len=%zu: got %s want %s", a.name, klen, L.n, hex(got.p, a.hlen).c_str(), hex(want, a.hlen).c_str());
    }
    std::string kc = key_class(klen, a.hlen, a.block);
    c.count(std::string("hmac:") + apin[api]); c.count(std::string("hmac-alg:") + a.name);
    c.count("hmac-key:" + (klen > a.block ? std::string("long(hashed)") : klen == a.block ? std::string("=block") : klen == 0 ? std::string("empty") : std::string("short")));
    if (reuse) c.count("hmac-ctx-reuse");
    bool nb = near_boundary(L.n, a.block);
    if (nb || kc != "short" || shape || koff || moff || reuse)
        c.nontrivial(fmt("%s|%s|k%s|%s|s%d|%u,%u|%d", a.name, apin[api], kc.c_str(), len_key(L.n, a.block).c_str(), shape, koff, moff, reuse));
    c.sample(fmt("%s %s klen=%zu len=%zu parts=%s koff=%u moff=%u", a.name, apin[api], klen, L.n, parts_str(parts).c_str(), koff, moff));
}

// ---------------------------------------------------------------------------------------------- HKDF
size_t gen_okm_len(Tape &t, size_t hl, int *cls) {
    unsigned sel = t.u8();
    size_t maxL = 255 * hl;
    if (sel < 90) { *cls = 0; return (size_t) t.below(4 * hl + 2); }                        // includes L = 0
    if (sel < 170) { *cls = 1; size_t k = (size_t) t.range(1, 6); if (t.chance(1, 4)) k = (size_t) t.range(7, 254);
                     long v = (long) (k * hl) + (long) t.range(-1, 1); return (size_t) v; }
    if (sel < 215) { *cls = 2; static const int d[] = { 0, -1, -2, 1 }; long v = (long) maxL + d[t.below(4)] - (long) (t.chance(1, 3) ? hl : 0); return (size_t) v; }  // 255*HashLen region, +1 = invalid
    *cls = 3; return (size_t) t.below(maxL + 1);
}

void hkdf_case(Tape &t, Ctx &c) {
    const HAlg &a = H[t.below(4)];
    unsigned fn = (unsigned) t.below(3);   // 0 extract 1 expand 2 expand-label
    size_t hl = a.hlen;
    if (fn == 0) {
        size_t slen = t.chance(1, 8) ? gen_keylen(t, hl, a.block, 2 * a.block + 1) : (size_t) t.below(81);
        size_t ilen = t.chance(1, 8) ? (size_t) t.below(301) : (size_t) t.below(81);
        unsigned so = (unsigned) t.below(16), io = (unsigned) t.below(16), po = (unsigned) t.below(16);
        XBuf salt(slen, so), ikm(ilen, io); gen_data(t, salt.p, slen); gen_data(t, ikm.p, ilen);
        uint8_t want[64]; int fb = 0; C12_ORACLE_OK(c, o_hkdf_extract(a.oalg, salt.p, slen, ikm.p, ilen, want, &fb));
        if (fb) c.count("hkdf-oracle-rfc-fallback");
        XBuf prk(MAX_HASHLEN, po, CANARY); psSize_t pl = 0xFFFF;
        int32_t rc = psHkdfExtract(a.type, salt.p, (psSize_t) slen, ikm.p, (psSize_t) ilen, prk.p, &pl);
        VF_CHECK(rc == PS_SUCCESS, "hkdf-refused", "psHkdfExtract(%s) rc=%d slen=%zu ilen=%zu", a.name, rc, slen, ilen);
        VF_CHECK(pl == hl && memcmp(prk.p, want, hl) == 0, "hkdf-extract-mismatch", "psHkdfExtract(%s) slen=%zu ilen=%zu: prkLen=%u got %s want %s", a.name, slen, ilen, pl,
                 hex(prk.p, hl).c_str(), hex(want, hl).c_str());
        c.count("hkdf:extract"); if (slen == 0) c.count("hkdf:extract-empty-salt"); if (slen > a.block) c.count("hkdf:extract-long-salt");
        c.nontrivial(fmt("hkdf-extract|%s|s%s|i%zu|%u,%u", a.name, key_class(slen, hl, a.block).c_str(), ilen > 80 ? 99 : ilen / 8, so, io));
        c.sample(fmt("hkdf-extract %s salt=%zu ikm=%zu", a.name, slen, ilen));
        return;
    }
    // PRK: usually exactly HashLen (output of extract); sometimes longer, rarely longer than the HMAC block
    size_t plen = hl;
    { unsigned s = t.u8(); if (s >= 200) plen = hl + (size_t) t.below(81 - (hl > 80 ? 80 : hl) + 1); if (s >= 245) plen = a.block + (size_t) t.range(-1, 2); if (plen < hl) plen = hl; }
    unsigned po = (unsigned) t.below(16), io = (unsigned) t.below(16), oo = (unsigned) t.below(16);
    XBuf prk(plen, po); gen_data(t, prk.p, plen);
    int lcls = 0; size_t L = gen_okm_len(t, hl, &lcls);
    bool validL = L <= 255 * hl;
    if (fn == 1) {
        size_t ilen = (size_t) t.below(81);
        if (t.chance(1, 16)) ilen = 81 + (size_t) t.below(8);                    // beyond HKDF_MAX_INFO_LEN: refusal allowed
        XBuf info(ilen, io); gen_data(t, info.p, ilen);
        XBuf okm(L, oo, CANARY);
        int32_t rc = psHkdfExpand(a.type, prk.p, (psSize_t) plen, info.p, (psSize_t) ilen, okm.p, (psSize_t) L);
        c.count("hkdf:expand"); c.count(fmt("hkdf-L-class:%d", lcls));
        if (!validL) {
            VF_CHECK(rc != PS_SUCCESS, "hkdf-overlong-accepted", "psHkdfExpand(%s) accepted L=%zu > 255*HashLen=%zu", a.name, L, 255 * hl);
            c.count("hkdf:L>255*HashLen-refused");
        } else if (ilen > 80) {
            if (rc != PS_SUCCESS) { c.count("hkdf:info>80-refused"); return; }
        } else VF_CHECK(rc == PS_SUCCESS, "hkdf-refused", "psHkdfExpand(%s) rc=%d plen=%zu ilen=%zu L=%zu (valid per RFC 5869 and the API limits)", a.name, rc, plen, ilen, L);
        if (rc == PS_SUCCESS) {
            std::vector<uint8_t> want(L + 1); int fb = 0;
            C12_ORACLE_OK(c, o_hkdf_expand(a.oalg, prk.p, plen, info.p, ilen, want.data(), L, &fb));
            if (fb) c.count("hkdf-oracle-rfc-fallback");
            size_t bad = 0; while (bad < L && okm.p[bad] == want[bad]) bad++;
            VF_CHECK(bad == L, "hkdf-expand-mismatch", "psHkdfExpand(%s) plen=%zu ilen=%zu L=%zu: first difference at byte %zu (block T(%zu)): got %s want %s", a.name, plen, ilen, L, bad,
                     bad / hl + 1, hex(okm.p + bad, L - bad, 16).c_str(), hex(want.data() + bad, L - bad, 16).c_str());
        }
        if (L == 255 * hl) c.count("hkdf:L=255*HashLen");
        if (L == 0) c.count("hkdf:L=0");
        c.nontrivial(fmt("hkdf-expand|%s|p%zu|i%zu|L%zu.%zu|%u,%u,%u", a.name, plen - hl > 2 ? 3 : plen - hl, ilen / 8, L / hl > 6 ? 6 + (L / hl) / 64 : L / hl, L % hl <= 1 ? L % hl : L % hl == hl - 1 ? 2 : 3, po, io, oo));
        c.sample(fmt("hkdf-expand %s prk=%zu info=%zu L=%zu", a.name, plen, ilen, L));
        return;
    }
    // TLS 1.3 HKDF-Expand-Label(Secret, Label, Context, Length): HkdfLabel = uint16 Length || opaque label<7..255> = "tls13 " + Label || opaque context<0..255>
    size_t llen = (size_t) t.range(1, 18);
    size_t room = 80 - (2 + 1 + 6 + llen + 1);
    size_t clen = (size_t) t.below(room + 1);
    if (t.chance(1, 3)) clen = t.coin() ? 0 : (hl <= room ? hl : room);   // in-tree contexts are empty or a transcript hash
    if (L > 65535) L = 65535;
    XBuf label(llen, 0), ctxd(clen, io);
    for (size_t i = 0; i < llen; i++) label.p[i] = (uint8_t) ("abcdefghijklmnopqrstuvwxyz ,"[t.below(28)]);
    gen_data(t, ctxd.p, clen);
    XBuf out(L, oo, CANARY);
    int32_t rc = psHkdfExpandLabel(nullptr, a.type, prk.p, (psSize_t) plen, (const char *) label.p, (psSize_t) llen, ctxd.p, (psSize_t) clen, (psSize_t) L, out.p);
    c.count("hkdf:expand-label");
    if (!validL) { VF_CHECK(rc != PS_SUCCESS, "hkdf-overlong-accepted", "psHkdfExpandLabel(%s) accepted L=%zu", a.name, L); c.count("hkdf:L>255*HashLen-refused"); return; }
    VF_CHECK(rc == PS_SUCCESS, "hkdf-refused", "psHkdfExpandLabel(%s) rc=%d plen=%zu label=%zu ctx=%zu L=%zu", a.name, rc, plen, llen, clen, L);
    std::vector<uint8_t> info;
    info.push_back((uint8_t) (L >> 8)); info.push_back((uint8_t) L);
    info.push_back((uint8_t) (6 + llen)); info.insert(info.end(), (const uint8_t *) "tls13 ", (const uint8_t *) "tls13 " + 6); info.insert(info.end(), label.p, label.p + llen);
    info.push_back((uint8_t) clen); info.insert(info.end(), ctxd.p, ctxd.p + clen);
    std::vector<uint8_t> want(L + 1); int fb = 0;
    C12_ORACLE_OK(c, o_hkdf_expand(a.oalg, prk.p, plen, info.data(), info.size(), want.data(), L, &fb));
    VF_CHECK(memcmp(out.p, want.data(), L) == 0, "hkdf-expand-label-mismatch", "psHkdfExpandLabel(%s) plen=%zu label=%zu ctx=%zu L=%zu: got %s want %s", a.name, plen, llen, clen, L,
             hex(out.p, L, 24).c_str(), hex(want.data(), L, 24).c_str());
    c.nontrivial(fmt("hkdf-label|%s|l%zu|c%zu|L%zu.%zu|%u", a.name, llen, clen / 8, L / hl > 6 ? 6 + (L / hl) / 64 : L / hl, L % hl <= 1 ? L % hl : 2, oo));
    c.sample(fmt("hkdf-expand-label %s secret=%zu label=%zu ctx=%zu L=%zu", a.name, plen, llen, clen, L));
}

// ---------------------------------------------------------------------------------------------- PBKDF2
#ifndef C12_PBKDF2_MAXPW
#define C12_PBKDF2_MAXPW 64
#endif
void pbkdf2_case(Tape &t, Ctx &c) {
    size_t plen = gen_keylen(t, 20, 64, C12_PBKDF2_MAXPW);
    size_t slen;
    { unsigned s = t.u8(); slen = s < 100 ? 8 : s < 200 ? (size_t) t.below(41) : (size_t) t.range(55, 130); }   // in-tree: 8; salt||INT(i) crosses the SHA-1 block at 60
    int rounds;
    { unsigned s = t.u8(); rounds = s < 140 ? (int) t.range(1, 4) : s < 235 ? (int) t.range(5, 64) : (int) t.range(65, 2000); }
    size_t dk;
    { unsigned s = t.u8(); static const int d[] = { 0, -1, 1 };
      dk = s < 120 ? (size_t) t.range(1, 61) : s < 230 ? (size_t) ((long) (20 * t.range(1, 4)) + d[t.below(3)]) : (size_t) t.range(62, 200); }
    if (rounds > 64 && dk > 41) dk = 41;   // cost bound
    unsigned po = (unsigned) t.below(16), so = (unsigned) t.below(16), ko = (unsigned) t.below(16);
    XBuf pw(plen, po), salt(slen, so); gen_data(t, pw.p, plen); gen_data(t, salt.p, slen);
    std::vector<uint8_t> want(dk);
    C12_ORACLE_OK(c, o_pbkdf2_sha1(pw.p, plen, salt.p, slen, rounds, want.data(), dk));
    XBuf key(dk, ko, CANARY);
    psPkcs5Pbkdf2(pw.p, (uint32) plen, salt.p, (uint32) slen, rounds, key.p, (uint32) dk);
    VF_CHECK(memcmp(key.p, want.data(), dk) == 0, plen > 64 ? "pbkdf2-mismatch:pw>64" : "pbkdf2-mismatch", "psPkcs5Pbkdf2 pLen=%zu sLen=%zu rounds=%d kLen=%zu: got %s want %s", plen, slen, rounds, dk,
             hex(key.p, dk, 40).c_str(), hex(want.data(), dk, 40).c_str());
    c.count("pbkdf2"); c.count(rounds <= 4 ? "pbkdf2-rounds:1-4" : rounds <= 64 ? "pbkdf2-rounds:5-64" : "pbkdf2-rounds:65-2000");
    c.count(dk % 20 == 0 ? "pbkdf2-dk:k*20" : dk % 20 == 1 ? "pbkdf2-dk:k*20+1" : dk % 20 == 19 ? "pbkdf2-dk:k*20-1" : "pbkdf2-dk:other");
    if (plen > 64) c.count("pbkdf2-pw>64");
    c.nontrivial(fmt("pbkdf2|p%s|s%zu|r%d|dk%zu.%zu|%u,%u,%u", key_class(plen, 20, 64).c_str(), slen / 8, rounds <= 4 ? rounds : rounds <= 64 ? 5 : 6, dk / 20, dk % 20 <= 1 ? dk % 20 : dk % 20 == 19 ? 2 : 3, po, so, ko));
    c.sample(fmt("pbkdf2 pLen=%zu sLen=%zu rounds=%d kLen=%zu", plen, slen, rounds, dk));
}

void prop(Tape &t, Ctx &c) {
#ifdef C12_ONLY_PBKDF2
    pbkdf2_case(t, c);
#else
    unsigned sel = t.u8();
    if (sel < 150) hmac_case(t, c);
    else if (sel < 225) hkdf_case(t, c);
    else pbkdf2_case(t, c);
#endif
}

} // namespace
#ifdef C12_ONLY_PBKDF2
VF_TARGET("C12.pbkdf2_longpw", prop, 128, 30)
#else
VF_TARGET("C12.hmac_kdf", prop, 192, 30)
#endif
namespace vf { void vf_global_init(int, char **) { if (psCryptoOpen(PSCRYPTO_CONFIG) != PS_SUCCESS) { fprintf(stderr, "psCryptoOpen failed\n"); _exit(2); } } }
