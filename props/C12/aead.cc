// C12 / AEADs: AES-GCM (128/192/256; psAesInitGCM, psAesReadyGCM, psAesEncryptGCM, psAesGetGCMTag, psAesDecryptGCM,
// psAesDecryptGCM2, psAesDecryptGCMtagless) and ChaCha20-Poly1305-IETF (psChacha20Poly1305Ietf{Encrypt,EncryptDetached,
// Decrypt,DecryptDetached}) against OpenSSL EVP.
//
// Oracles (SP 800-38D, RFC 8439):
//  * seal: ciphertext and tag (every tag length the API accepts: GCM 1..16, ChaCha 16) byte-equal to OpenSSL;
//  * open of the untouched message succeeds and returns the plaintext;
//  * open after a modification (single bit of ciphertext / tag / nonce / AAD, AAD length +-1, truncation of the
//    ciphertext||tag string by 1..16 bytes): the verdict must equal OpenSSL's verdict on the same modified input with the same
//    tag length (for tag lengths >= 8 that is always "reject"; shorter tags can collide legitimately, so the oracle's
//    verdict - not a blanket "reject" - is the expectation).  Exhaustive over every bit for short messages (sweep cases).
//  * no plaintext on failure: the output buffer is pre-filled with a canary; after a rejected open of a message of >= 8 bytes
//    it must not hold the decryption of the presented ciphertext (signature aead-plaintext-released:<alg>; zeroed or
//    untouched buffers are fine).  Not applied to psAesDecryptGCMtagless, which by contract leaves verification to the caller.
//    This check is compiled only with -DC12_STRICT (target c12_aead_strict) so that the decrypt-then-verify behaviour of
//    psAesDecryptGCM/psAesDecryptGCM2 (findings/gcm-plaintext-released.md) cannot stop the main AEAD campaign.
//  * context reuse after a tag shorter than 16 bytes: also only in c12_aead_strict (findings/gcm-short-tag-context-reuse.md);
//    the main target re-initialises the context after a short tag.
// Preconditions from the in-tree callers (cipherSuite.c, tls13CipherSuite.c, tls13Resume.c): 12-byte nonce; AAD pointer may be
// NULL iff aadLen == 0; in place means exactly pt == ct; tag lengths 1..16; psAesDecryptGCM's ctLen = ptLen + tagLen;
// one Init, then Ready + Encrypt/Decrypt + GetTag per record on the same context (context reuse).
// Non-trivial: length near a 16/64-byte boundary, split encryption, in place, misaligned, short tag, or any negative test.
#include "c12_common.h"
extern "C" {
#include "crypto/cryptoApi.h"
}
using namespace vf;
using namespace c12;

namespace {

size_t gen_aad(Tape &t) {
    unsigned s = t.u8();
    if (s < 170) return (size_t) t.below(65);
    if (s < 215) { static const size_t v[] = { 0, 5, 13, 15, 16, 17, 31, 32, 33, 63, 64 }; return v[t.below(11)]; }
    if (s < 245) return (size_t) t.range(65, 130);
    return (size_t) t.range(126, 300);
}

struct Msg {                       // one sealed message as presented to open()
    std::vector<uint8_t> nonce, aad, ct, tag;
};
enum Corr { C_NONE = 0, C_CT, C_TAG, C_NONCE, C_AAD, C_AADLEN, C_TRUNC, C_NKINDS };
static const char *CN[] = { "none", "ct-bit", "tag-bit", "nonce-bit", "aad-bit", "aad-len", "truncate" };

// apply a corruption; returns false if not applicable to this message shape
bool corrupt(Msg &m, int kind, size_t pos, unsigned bit) {
    switch (kind) {
    case C_CT: if (m.ct.empty()) return false; m.ct[pos % m.ct.size()] ^= (uint8_t) (1u << bit); return true;
    case C_TAG: m.tag[pos % m.tag.size()] ^= (uint8_t) (1u << bit); return true;
    case C_NONCE: m.nonce[pos % 12] ^= (uint8_t) (1u << bit); return true;
    case C_AAD: if (m.aad.empty()) return false; m.aad[pos % m.aad.size()] ^= (uint8_t) (1u << bit); return true;
    case C_AADLEN: if ((bit & 1) && !m.aad.empty()) m.aad.pop_back(); else m.aad.push_back((uint8_t) pos); return true;
    case C_TRUNC: {   // the peer sends k fewer bytes: the boundary between ciphertext and tag moves left
        size_t k = 1 + pos % 16; if (k > m.ct.size()) return false;
        std::vector<uint8_t> all(m.ct); all.insert(all.end(), m.tag.begin(), m.tag.end());
        all.resize(all.size() - k);
        size_t tl = m.tag.size();
        m.ct.assign(all.begin(), all.end() - (long) tl); m.tag.assign(all.end() - (long) tl, all.end()); return true; }
    }
    return false;
}

// true plaintext leak test after a *rejected* open: does `out` hold the CTR/stream decryption of what was presented?
bool released(const uint8_t *out, const std::vector<uint8_t> &leak) {
    size_t n = leak.size();
    if (n < 8) return false;
    size_t same = 0, zeros = 0, canary = 0;
    for (size_t i = 0; i < n; i++) { same += out[i] == leak[i]; zeros += out[i] == 0; canary += out[i] == CANARY; }
    if (zeros == n || canary == n) return false;      // wiped or never written: nothing released (even if the plaintext itself is all zeros)
    return same + 1 >= n;
}
// plaintext: tape data whitened with a fixed pattern so that sparse (mostly zero) tapes do not give all-zero plaintexts
void gen_plain(Tape &t, std::vector<uint8_t> &pt) {
    gen_data(t, pt.data(), pt.size());
    for (size_t i = 0; i < pt.size(); i++) pt[i] ^= (uint8_t) (0x5A + 29 * i);
}

// ------------------------------------------------------------------------------------------------- AES-GCM
struct Gcm {
    HeapObj<psAesGcm_t> ctx; std::vector<uint8_t> key;
    bool stale = false;     // last tag fetched from this context was shorter than 16 bytes (see findings/gcm-short-tag-context-reuse.md)
    explicit Gcm(int dirty) : ctx(dirty) {}
    void init(Tape &t) {
        XBuf k(key.size(), (unsigned) t.below(16)); memcpy(k.p, key.data(), key.size());
        int32_t rc = psAesInitGCM(ctx.get(), k.p, (uint8_t) key.size());
        VF_CHECK(rc == PS_SUCCESS, "gcm-init-refused", "psAesInitGCM rc=%d keylen=%zu", rc, key.size());
        stale = false;
    }
    // Called after every tag computation.  The strict target (-DC12_STRICT) keeps using the context, as the API allows;
    // the main target re-initialises it after a short tag so that the known stale-keystream defect cannot mask everything else.
    void after_tag(Tape &t, Ctx &c, size_t taglen) {
#ifdef C12_STRICT
        (void) t; (void) c; stale = taglen < 16;
#else
        if (taglen < 16) { init(t); c.count("gcm-reinit-after-short-tag"); }
#endif
    }
    const char *sig(const char *normal) const { return stale ? "gcm-stale-keystream-after-short-tag" : normal; }
};

// open through one of the three APIs. returns rc (<0 = rejected). out receives plaintext buffer contents.
int32_t gcm_open(Tape &t, Ctx &c, Gcm &g, const Msg &m, unsigned api, bool inplace, unsigned off, std::vector<uint8_t> &out, bool null_aad) {
    size_t len = m.ct.size(), tl = m.tag.size();
    XBuf nonce(12, (unsigned) t.below(16)); memcpy(nonce.p, m.nonce.data(), 12);
    XBuf aad(m.aad.size(), (unsigned) t.below(16)); if (!m.aad.empty()) memcpy(aad.p, m.aad.data(), m.aad.size());
    psAesReadyGCM(g.ctx.get(), nonce.p, (m.aad.empty() && null_aad) ? nullptr : aad.p, (psSize_t) m.aad.size());
    int32_t rc;
    out.assign(len, 0);
    if (api == 0) {
        XBuf in(len + tl, off); if (len) memcpy(in.p, m.ct.data(), len); memcpy(in.p + len, m.tag.data(), tl);
        if (inplace) { rc = psAesDecryptGCM(g.ctx.get(), in.p, (uint32_t) (len + tl), in.p, (uint32_t) len); if (len) memcpy(out.data(), in.p, len); }
        else { XBuf pt(len, (unsigned) t.below(16), CANARY); rc = psAesDecryptGCM(g.ctx.get(), in.p, (uint32_t) (len + tl), pt.p, (uint32_t) len); if (len) memcpy(out.data(), pt.p, len); }
    } else if (api == 1) {
        XBuf in(len, off); if (len) memcpy(in.p, m.ct.data(), len);
        XBuf tag(tl, (unsigned) t.below(16)); memcpy(tag.p, m.tag.data(), tl);
        if (inplace) { rc = psAesDecryptGCM2(g.ctx.get(), in.p, in.p, (uint32_t) len, tag.p, (uint32_t) tl); if (len) memcpy(out.data(), in.p, len); }
        else { XBuf pt(len, (unsigned) t.below(16), CANARY); rc = psAesDecryptGCM2(g.ctx.get(), in.p, pt.p, (uint32_t) len, tag.p, (uint32_t) tl); if (len) memcpy(out.data(), pt.p, len); }
    } else {
        XBuf in(len, off); if (len) memcpy(in.p, m.ct.data(), len);
        XBuf pt(len, (unsigned) t.below(16), CANARY);
        uint8_t *dst = inplace ? in.p : pt.p;
        psAesDecryptGCMtagless(g.ctx.get(), in.p, dst, (uint32_t) len);
        XBuf tag(tl, (unsigned) t.below(16), CANARY);
        psAesGetGCMTag(g.ctx.get(), (uint8_t) tl, tag.p);
        if (len) memcpy(out.data(), dst, len);
        rc = memcmp(tag.p, m.tag.data(), tl) == 0 ? PS_SUCCESS : PS_AUTH_FAIL;   // the caller's comparison
    }
    g.after_tag(t, c, api == 1 ? 16 : tl);      // psAesDecryptGCM2 always computes the full tag internally
    return rc;
}

void gcm_case(Tape &t, Ctx &c) {
    static const size_t KL[] = { 16, 32, 24 };
    Gcm g(t.coin() ? 0xB7 : 0);
    size_t kl = KL[t.below(3)];
    g.key.resize(kl); t.bytes(g.key.data(), kl);
    g.init(t);
    unsigned nmsg = t.chance(1, 4) ? 2 : 1;      // records share one context
    std::string key, desc;
    for (unsigned mi = 0; mi < nmsg; mi++) {
        unsigned neg = t.u8();                       // < 110: one random modification; 110..121: sweep over every bit (short message); else none
        bool sweep = neg >= 110 && neg < 122;
        Msg m; m.nonce.resize(12); t.bytes(m.nonce.data(), 12);
        size_t alen = gen_aad(t); if (sweep) alen %= 21; m.aad.resize(alen); gen_data(t, m.aad.data(), alen);
        Len L = gen_len(t, 16); if (sweep) L.n %= 34;
        std::vector<uint8_t> pt(L.n); gen_plain(t, pt);
        size_t tl = 16; { unsigned s = t.u8(); if (s >= 150) tl = (size_t) t.range(1, 16); if (s >= 240) tl = (size_t) t.range(1, 7); }
        bool null_aad = t.coin();
        // ---- seal
        std::vector<uint8_t> wct(L.n + 1), wtag(16);
        C12_ORACLE_OK(c, o_aead_seal(O_AES_GCM, g.key.data(), kl, m.nonce.data(), m.aad.data(), alen, pt.data(), L.n, wct.data(), wtag.data(), tl));
        unsigned io = (unsigned) t.below(16), oo = (unsigned) t.below(16);
        bool ip = t.coin();
        int shape = 0; std::vector<size_t> parts;
        if (t.chance(1, 3)) parts = gen_parts(t, L.n, 16, &shape); else parts.push_back(L.n);
        {
            XBuf nonce(12, (unsigned) t.below(16)); memcpy(nonce.p, m.nonce.data(), 12);
            XBuf aad(alen, (unsigned) t.below(16)); if (alen) memcpy(aad.p, m.aad.data(), alen);
            psAesReadyGCM(g.ctx.get(), nonce.p, (alen == 0 && null_aad) ? nullptr : aad.p, (psSize_t) alen);
            XBuf in(L.n, io); if (L.n) memcpy(in.p, pt.data(), L.n);
            XBuf out(L.n, oo, CANARY);
            uint8_t *dst = ip ? in.p : out.p;
            size_t pos = 0;
            for (size_t n : parts) { psAesEncryptGCM(g.ctx.get(), in.p + pos, dst + pos, (uint32_t) n); pos += n; }
            XBuf tag(tl, (unsigned) t.below(16), CANARY);
            psAesGetGCMTag(g.ctx.get(), (uint8_t) tl, tag.p);
            size_t bad = 0; while (bad < L.n && dst[bad] == wct[bad]) bad++;
            VF_CHECK(bad == L.n, g.sig("gcm-ciphertext-mismatch"), "AES-%zu-GCM enc len=%zu aad=%zu parts=%s inplace=%d io=%u oo=%u msg#%u: first difference at byte %zu: got %s want %s", kl * 8, L.n, alen,
                     parts_str(parts).c_str(), ip, io, oo, mi, bad, hex(dst + bad, L.n - bad, 16).c_str(), hex(wct.data() + bad, L.n - bad, 16).c_str());
            VF_CHECK(memcmp(tag.p, wtag.data(), tl) == 0, g.sig("gcm-tag-mismatch"), "AES-%zu-GCM tag len=%zu aad=%zu taglen=%zu parts=%s msg#%u: got %s want %s", kl * 8, L.n, alen, tl,
                     parts_str(parts).c_str(), mi, hex(tag.p, tl).c_str(), hex(wtag.data(), tl).c_str());
            g.after_tag(t, c, tl);
        }
        m.ct.assign(wct.begin(), wct.begin() + (long) L.n); m.tag.assign(wtag.begin(), wtag.begin() + (long) tl);
        // ---- open (positive)
        unsigned api = (unsigned) t.below(3);
        bool dip = t.coin(); unsigned doff = (unsigned) t.below(16);
        std::vector<uint8_t> out;
        bool was_stale = g.stale;
        int32_t rc = gcm_open(t, c, g, m, api, dip, doff, out, null_aad);
        static const char *AN[] = { "psAesDecryptGCM", "psAesDecryptGCM2", "tagless+GetGCMTag" };
        VF_CHECK(rc == PS_SUCCESS, was_stale ? "gcm-stale-keystream-after-short-tag" : "gcm-valid-rejected", "%s rejected an untouched message rc=%d AES-%zu len=%zu aad=%zu taglen=%zu inplace=%d msg#%u", AN[api], rc, kl * 8, L.n, alen, tl, dip, mi);
        VF_CHECK(out == pt, was_stale ? "gcm-stale-keystream-after-short-tag" : "gcm-decrypt-mismatch", "%s AES-%zu len=%zu aad=%zu taglen=%zu inplace=%d off=%u msg#%u: plaintext differs (previous tag on this context was %s)", AN[api], kl * 8, L.n, alen, tl, dip, doff, mi,
                 was_stale ? "shorter than 16 bytes" : "16 bytes");
        c.count(std::string("gcm-open:") + AN[api]);
        // ---- open (negative)
        std::string negs = "-";
        auto try_corrupt = [&](int kind, size_t pos, unsigned bit) {
            Msg x = m;
            if (!corrupt(x, kind, pos, bit)) return false;
            std::vector<uint8_t> opt(x.ct.size() + 1);
            int ov = o_aead_open(O_AES_GCM, g.key.data(), kl, x.nonce.data(), x.aad.data(), x.aad.size(), x.ct.data(), x.ct.size(), x.tag.data(), x.tag.size(), opt.data());
            if (ov == -2) { c.count("oracle-failed"); throw Discard{}; }
            bool expect_reject = ov != 0;
            if (!expect_reject) c.count("gcm-neg:oracle-accepts(short-tag collision)");
            std::vector<uint8_t> o2;
            int32_t r = gcm_open(t, c, g, x, api, dip, doff, o2, null_aad);
            VF_CHECK((r < 0) == expect_reject, expect_reject ? "gcm-forgery-accepted" : "gcm-valid-rejected",
                     "%s %s a message with %s (pos=%zu bit=%u) AES-%zu len=%zu aad=%zu taglen=%zu; OpenSSL %s it", AN[api], r < 0 ? "rejected" : "ACCEPTED", CN[kind], pos, bit, kl * 8,
                     x.ct.size(), x.aad.size(), x.tag.size(), expect_reject ? "rejects" : "accepts");
#ifdef C12_STRICT
            if (r < 0 && api != 2) {
                // what a decrypt-before-verify implementation would have written: CTR decryption of the presented ciphertext
                std::vector<uint8_t> leak;
                if (kind != C_NONCE) { leak.resize(x.ct.size()); for (size_t i = 0; i < leak.size(); i++) leak[i] = (uint8_t) (x.ct[i] ^ m.ct[i] ^ pt[i]); }
                VF_CHECK(!released(o2.data(), leak), "aead-plaintext-released:gcm", "%s returned rc=%d (%s) but left the decrypted plaintext of the unauthenticated message in the output buffer (len=%zu, inplace=%d)",
                         AN[api], r, CN[kind], leak.size(), dip);
                c.count("release-checked:gcm");
            }
#endif
            c.count(std::string("gcm-neg:") + CN[kind]);
            return true;
        };
        if (neg < 110) {
            int kind = 1 + (int) t.below(C_NKINDS - 1);
            size_t pos = (size_t) t.u16(); unsigned bit = (unsigned) t.below(8);
            if (try_corrupt(kind, pos, bit)) negs = CN[kind];
        } else if (sweep) {
            // every single-bit corruption of ciphertext, tag, nonce and AAD
            size_t n = 0;
            for (int kind = C_CT; kind <= C_AAD; kind++) {
                size_t sz = kind == C_CT ? L.n : kind == C_TAG ? tl : kind == C_NONCE ? 12 : alen;
                for (size_t pos = 0; pos < sz; pos++) for (unsigned bit = 0; bit < 8; bit++) { try_corrupt(kind, pos, bit); n++; }
            }
            for (size_t k = 0; k < 16; k++) try_corrupt(C_TRUNC, k, 0);     // every truncation by 1..16 bytes
            c.count("gcm-neg-sweeps"); c.count("gcm-neg-sweep-opens", n);
            negs = "sweep";
        }
        if (t.chance(1, 16)) {
            // a ciphertext with no tag at all (ctLen == ptLen) must be refused, not "verified" over zero bytes
            XBuf in(L.n, doff); if (L.n) memcpy(in.p, m.ct.data(), L.n);
            XBuf o(L.n, 0, CANARY);
            XBuf nonce(12, 0); memcpy(nonce.p, m.nonce.data(), 12);
            XBuf aad(alen, 0); if (alen) memcpy(aad.p, m.aad.data(), alen);
            psAesReadyGCM(g.ctx.get(), nonce.p, aad.p, (psSize_t) alen);
            int32_t r = psAesDecryptGCM(g.ctx.get(), in.p, (uint32_t) L.n, o.p, (uint32_t) L.n);
            VF_CHECK(r < 0, "gcm-forgery-accepted", "psAesDecryptGCM accepted ctLen == ptLen == %zu (no tag)", L.n);
            g.init(t);     // the refused call may or may not have consumed keystream; start clean
            c.count("gcm-neg:no-tag");
        }
        c.count(fmt("gcm:aes-%zu", kl * 8)); c.count(tl == 16 ? "gcm-tag:16" : tl >= 8 ? "gcm-tag:8-15" : "gcm-tag:1-7");
        c.count(alen == 0 ? "gcm-aad:0" : alen <= 64 ? "gcm-aad:1-64" : alen <= 128 ? "gcm-aad:65-128" : "gcm-aad:>128");
        c.count(L.cls == 0 ? "gcm-len:0..65" : L.cls == 1 ? "gcm-len:boundary" : L.cls == 3 ? "gcm-len:beyond-2^16" : "gcm-len:large");
        if (parts.size() > 1) c.count("gcm-enc-split");
        if (ip) c.count("gcm-enc-inplace"); if (dip) c.count("gcm-dec-inplace");
        if (mi) c.count("gcm-ctx-reuse");
        key += fmt("gcm%zu|%s|a%zu|t%zu|s%d|%d%d|api%u|%u,%u|%s;", kl, len_key(L.n, 16).c_str(), alen <= 17 ? alen : 18 + alen / 32, tl, shape, ip, dip, api, io, doff, negs.c_str());
        desc += fmt("aes-%zu-gcm len=%zu aad=%zu taglen=%zu enc-parts=%s inplace=%d/%d open=%s neg=%s; ", kl * 8, L.n, alen, tl, parts_str(parts).c_str(), ip, dip, AN[api], negs.c_str());
    }
    psAesClearGCM(g.ctx.get());
    c.nontrivial(key); c.sample(desc);
}

// ------------------------------------------------------------------------------------------------- ChaCha20-Poly1305
struct Cha { HeapObj<psChacha20Poly1305Ietf_t> ctx; std::vector<uint8_t> key; explicit Cha(int d) : ctx(d) {} };

int32_t cha_open(Tape &t, Cha &g, const Msg &m, unsigned api, bool inplace, unsigned off, std::vector<uint8_t> &out) {
    size_t len = m.ct.size(), tl = m.tag.size();
    XBuf nonce(12, (unsigned) t.below(16)); memcpy(nonce.p, m.nonce.data(), 12);
    XBuf aad(m.aad.size(), (unsigned) t.below(16)); if (!m.aad.empty()) memcpy(aad.p, m.aad.data(), m.aad.size());
    out.assign(len, 0);
    int32_t rc;
    if (api == 0) {   // combined: ciphertext || tag
        XBuf in(len + tl, off); if (len) memcpy(in.p, m.ct.data(), len); memcpy(in.p + len, m.tag.data(), tl);
        if (inplace) { rc = psChacha20Poly1305IetfDecrypt(g.ctx.get(), in.p, len + tl, nonce.p, aad.p, m.aad.size(), in.p); if (len) memcpy(out.data(), in.p, len); }
        else { XBuf pt(len, (unsigned) t.below(16), CANARY); rc = psChacha20Poly1305IetfDecrypt(g.ctx.get(), in.p, len + tl, nonce.p, aad.p, m.aad.size(), pt.p); if (len) memcpy(out.data(), pt.p, len); }
    } else {
        XBuf in(len, off); if (len) memcpy(in.p, m.ct.data(), len);
        XBuf tag(16, (unsigned) t.below(16)); memcpy(tag.p, m.tag.data(), 16);
        if (inplace) { rc = psChacha20Poly1305IetfDecryptDetached(g.ctx.get(), in.p, len, nonce.p, aad.p, m.aad.size(), tag.p, in.p); if (len) memcpy(out.data(), in.p, len); }
        else { XBuf pt(len, (unsigned) t.below(16), CANARY); rc = psChacha20Poly1305IetfDecryptDetached(g.ctx.get(), in.p, len, nonce.p, aad.p, m.aad.size(), tag.p, pt.p); if (len) memcpy(out.data(), pt.p, len); }
    }
    if (rc >= 0) VF_CHECK((size_t) rc == len, "chacha-length-wrong", "open returned %d for a %zu-byte message", rc, len);
    return rc;
}

void chacha_case(Tape &t, Ctx &c) {
    Cha g(t.coin() ? 0xB7 : 0);
    g.key.resize(32); t.bytes(g.key.data(), 32);
    { XBuf k(32, (unsigned) t.below(16)); memcpy(k.p, g.key.data(), 32);
      VF_CHECK(psChacha20Poly1305IetfInit(g.ctx.get(), k.p) == PS_SUCCESS, "chacha-init-refused", "init failed"); }
    unsigned nmsg = t.chance(1, 4) ? 2 : 1;
    std::string key, desc;
    for (unsigned mi = 0; mi < nmsg; mi++) {
        unsigned neg = t.u8();
        bool sweep = neg >= 110 && neg < 122;
        Msg m; m.nonce.resize(12); t.bytes(m.nonce.data(), 12);
        size_t alen = gen_aad(t); if (sweep) alen %= 21; m.aad.resize(alen); gen_data(t, m.aad.data(), alen);
        Len L = gen_len(t, 64);                     // ChaCha20 block = 64, Poly1305 block = 16
        if (t.u8() >= 170) L = gen_len(t, 16);
        if (sweep) L.n %= 34;
        std::vector<uint8_t> pt(L.n); gen_plain(t, pt);
        std::vector<uint8_t> wct(L.n + 1), wtag(16);
        C12_ORACLE_OK(c, o_aead_seal(O_CHACHA20_POLY1305, g.key.data(), 32, m.nonce.data(), m.aad.data(), alen, pt.data(), L.n, wct.data(), wtag.data(), 16));
        unsigned io = (unsigned) t.below(16), oo = (unsigned) t.below(16);
        bool ip = t.coin(); unsigned eapi = (unsigned) t.below(2);
        {
            XBuf nonce(12, (unsigned) t.below(16)); memcpy(nonce.p, m.nonce.data(), 12);
            XBuf aad(alen, (unsigned) t.below(16)); if (alen) memcpy(aad.p, m.aad.data(), alen);
            uint8_t gtag[16]; const uint8_t *gct; int32_t rc;
            XBuf in(ip && eapi == 0 ? L.n + 16 : L.n, io); if (L.n) memcpy(in.p, pt.data(), L.n);
            XBuf out(eapi == 0 ? L.n + 16 : L.n, oo, CANARY);
            XBuf dtag(16, (unsigned) t.below(16), CANARY);
            uint8_t *dst = ip ? in.p : out.p;
            if (eapi == 0) {
                rc = psChacha20Poly1305IetfEncrypt(g.ctx.get(), in.p, L.n, nonce.p, aad.p, alen, dst);
                VF_CHECK(rc == (int32_t) (L.n + 16), "chacha-length-wrong", "psChacha20Poly1305IetfEncrypt returned %d for len=%zu", rc, L.n);
                memcpy(gtag, dst + L.n, 16);
            } else {
                rc = psChacha20Poly1305IetfEncryptDetached(g.ctx.get(), in.p, L.n, nonce.p, aad.p, (psSize_t) alen, dst, dtag.p);
                VF_CHECK(rc == (int32_t) L.n, "chacha-length-wrong", "psChacha20Poly1305IetfEncryptDetached returned %d for len=%zu", rc, L.n);
                memcpy(gtag, dtag.p, 16);
            }
            gct = dst;
            size_t bad = 0; while (bad < L.n && gct[bad] == wct[bad]) bad++;
            VF_CHECK(bad == L.n, "chacha-ciphertext-mismatch", "chacha20-poly1305 %s len=%zu aad=%zu inplace=%d io=%u oo=%u: first difference at byte %zu: got %s want %s", eapi ? "EncryptDetached" : "Encrypt",
                     L.n, alen, ip, io, oo, bad, hex(gct + bad, L.n - bad, 16).c_str(), hex(wct.data() + bad, L.n - bad, 16).c_str());
            VF_CHECK(memcmp(gtag, wtag.data(), 16) == 0, "chacha-tag-mismatch", "chacha20-poly1305 %s len=%zu aad=%zu: tag got %s want %s", eapi ? "EncryptDetached" : "Encrypt", L.n, alen,
                     hex(gtag, 16).c_str(), hex(wtag.data(), 16).c_str());
        }
        m.ct.assign(wct.begin(), wct.begin() + (long) L.n); m.tag = wtag;
        unsigned api = (unsigned) t.below(2); bool dip = t.coin(); unsigned doff = (unsigned) t.below(16);
        static const char *AN[] = { "psChacha20Poly1305IetfDecrypt", "psChacha20Poly1305IetfDecryptDetached" };
        std::vector<uint8_t> out;
        int32_t rc = cha_open(t, g, m, api, dip, doff, out);
        VF_CHECK(rc >= 0, "chacha-valid-rejected", "%s rejected an untouched message rc=%d len=%zu aad=%zu inplace=%d", AN[api], rc, L.n, alen, dip);
        VF_CHECK(out == pt, "chacha-decrypt-mismatch", "%s len=%zu aad=%zu inplace=%d off=%u: plaintext differs", AN[api], L.n, alen, dip, doff);
        std::string negs = "-";
        auto try_corrupt = [&](int kind, size_t pos, unsigned bit) {
            Msg x = m;
            if (!corrupt(x, kind, pos, bit)) return false;
            std::vector<uint8_t> opt(x.ct.size() + 1);
            int ov = o_aead_open(O_CHACHA20_POLY1305, g.key.data(), 32, x.nonce.data(), x.aad.data(), x.aad.size(), x.ct.data(), x.ct.size(), x.tag.data(), 16, opt.data());
            if (ov == -2) { c.count("oracle-failed"); throw Discard{}; }
            VF_CHECK(ov == -1, "oracle-accepted-forgery", "OpenSSL accepted a modified chacha20-poly1305 message (%s)", CN[kind]);   // 128-bit tag: never expected
            std::vector<uint8_t> o2;
            int32_t r = cha_open(t, g, x, api, dip, doff, o2);
            VF_CHECK(r < 0, "chacha-forgery-accepted", "%s ACCEPTED a message with %s (pos=%zu bit=%u) len=%zu aad=%zu", AN[api], CN[kind], pos, bit, x.ct.size(), x.aad.size());
#ifdef C12_STRICT
            std::vector<uint8_t> leak;
            if (kind != C_NONCE) { leak.resize(x.ct.size()); for (size_t i = 0; i < leak.size(); i++) leak[i] = (uint8_t) (x.ct[i] ^ m.ct[i] ^ pt[i]); }
            VF_CHECK(!released(o2.data(), leak), "aead-plaintext-released:chacha", "%s returned rc=%d (%s) but left the decrypted plaintext of the unauthenticated message in the output buffer (len=%zu)", AN[api], r,
                     CN[kind], leak.size());
            c.count("release-checked:chacha");
#endif
            c.count(std::string("chacha-neg:") + CN[kind]);
            return true;
        };
        if (neg < 110) {
            int kind = 1 + (int) t.below(C_NKINDS - 1);
            size_t pos = (size_t) t.u16(); unsigned bit = (unsigned) t.below(8);
            if (try_corrupt(kind, pos, bit)) negs = CN[kind];
        } else if (sweep) {
            size_t n = 0;
            for (int kind = C_CT; kind <= C_AAD; kind++) {
                size_t sz = kind == C_CT ? L.n : kind == C_TAG ? 16 : kind == C_NONCE ? 12 : alen;
                for (size_t pos = 0; pos < sz; pos++) for (unsigned bit = 0; bit < 8; bit++) { try_corrupt(kind, pos, bit); n++; }
            }
            for (size_t k = 0; k < 16; k++) try_corrupt(C_TRUNC, k, 0);
            c.count("chacha-neg-sweeps"); c.count("chacha-neg-sweep-opens", n); negs = "sweep";
        }
        if (api == 0 && t.chance(1, 16)) {   // fewer than 16 bytes in total: there is no tag at all
            size_t n = (size_t) t.below(16);
            XBuf in(n, doff, 0x11); XBuf nonce(12, 0); memcpy(nonce.p, m.nonce.data(), 12); XBuf aad(alen, 0); if (alen) memcpy(aad.p, m.aad.data(), alen);
            XBuf o(16, 0, CANARY);
            int32_t r = psChacha20Poly1305IetfDecrypt(g.ctx.get(), in.p, n, nonce.p, aad.p, alen, o.p);
            VF_CHECK(r < 0, "chacha-forgery-accepted", "psChacha20Poly1305IetfDecrypt accepted a %zu-byte input (shorter than a tag)", n);
            c.count("chacha-neg:shorter-than-tag");
        }
        c.count("chacha"); c.count(alen == 0 ? "chacha-aad:0" : alen <= 64 ? "chacha-aad:1-64" : "chacha-aad:>64");
        c.count(L.cls == 0 ? "chacha-len:small" : L.cls == 1 ? "chacha-len:boundary" : L.cls == 3 ? "chacha-len:beyond-2^16" : "chacha-len:large");
        if (ip) c.count("chacha-enc-inplace"); if (dip) c.count("chacha-dec-inplace"); if (mi) c.count("chacha-ctx-reuse");
        c.count(eapi ? "chacha-seal:detached" : "chacha-seal:combined"); c.count(api ? "chacha-open:detached" : "chacha-open:combined");
        key += fmt("cha|%s|a%zu|%u%u|%d%d|%u,%u|%s;", len_key(L.n, 64).c_str(), alen <= 17 ? alen : 18 + alen / 32, eapi, api, ip, dip, io, doff, negs.c_str());
        desc += fmt("chacha20-poly1305 len=%zu aad=%zu seal=%s inplace=%d/%d open=%s neg=%s; ", L.n, alen, eapi ? "detached" : "combined", ip, dip, api ? "detached" : "combined", negs.c_str());
    }
    psChacha20Poly1305IetfClear(g.ctx.get());
    c.nontrivial(key); c.sample(desc);
}

void prop(Tape &t, Ctx &c) {
#ifdef C12_CHACHA_ONLY
    chacha_case(t, c);
#else
    if (t.u8() < 150) gcm_case(t, c); else chacha_case(t, c);
#endif
}

} // namespace
#if defined(C12_CHACHA_ONLY)
VF_TARGET("C12.chacha_ref", prop, 320, 60)
#elif defined(C12_STRICT)
VF_TARGET("C12.aead_strict", prop, 320, 60)
#else
VF_TARGET("C12.aead", prop, 320, 60)
#endif
namespace vf { void vf_global_init(int, char **) { if (psCryptoOpen(PSCRYPTO_CONFIG) != PS_SUCCESS) { fprintf(stderr, "psCryptoOpen failed\n"); _exit(2); } } }
