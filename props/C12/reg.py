"""C12 registry entry (loaded by bin/registry.py)."""
_O = ['props/C12/ossl_oracle.cc']
PROP = dict(
    level='exploration',
    level_text='x',
    level_note='x',
    technique='x',
    rule='x',
    assumptions=[],
    targets=[
        dict(name='c12_pbkdf2_longpw', src=['props/C12/hmac_kdf.cc'] + _O, libs=['-lcrypto'], defs=['C12_ONLY_PBKDF2', 'C12_PBKDF2_MAXPW=129'],
             quick=dict(cases=4000, secs=20), thorough=dict(cases=200000, secs=60)),
        dict(name='c12_digest', src=['props/C12/digest.cc'] + _O, libs=['-lcrypto'],
             quick=dict(cases=100000, secs=40), thorough=dict(cases=8000000, secs=200)),
        dict(name='c12_hmac_kdf', src=['props/C12/hmac_kdf.cc'] + _O, libs=['-lcrypto'],
             quick=dict(cases=100000, secs=40), thorough=dict(cases=8000000, secs=200)),
        dict(name='c12_cipher', src=['props/C12/cipher.cc'] + _O, libs=['-lcrypto'],
             quick=dict(cases=100000, secs=40), thorough=dict(cases=8000000, secs=200)),
        dict(name='c12_aead', src=['props/C12/aead.cc'] + _O, libs=['-lcrypto'],
             quick=dict(cases=100000, secs=40), thorough=dict(cases=8000000, secs=200)),
        dict(name='c12_aead_strict', src=['props/C12/aead.cc'] + _O, libs=['-lcrypto'], defs=['C12_STRICT'],
             quick=dict(cases=20000, secs=40), thorough=dict(cases=800000, secs=200)),
    ],
)
