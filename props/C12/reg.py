"""C12 registry entry (loaded by bin/registry.py).

Targets (all tape/PBT, all link the OpenSSL oracle in ossl_oracle.cc):
  c12_digest         MD5, SHA-1, SHA-256, SHA-384, SHA-512, MD5SHA1, psHash* wrappers, psSha512Single
  c12_hmac_kdf       HMAC-{MD5,SHA1,SHA256,SHA384} (all entry points), HKDF extract/expand/expand-label, PBKDF2 (pLen <= 64)
  c12_cipher         AES block, AES-CBC 128/192/256, 3DES-CBC
  c12_aead           AES-GCM 128/192/256 (all seal/open entry points, tag lengths 1..16), ChaCha20-Poly1305-IETF, negative tests
  c12_chacha_ref     ChaCha20-Poly1305 part of c12_aead with MATRIX_CHACHA20POLY1305_REF=1 (portable reference implementation)
  c12_aead_strict    same source with -DC12_STRICT: additionally (a) no plaintext left in the output buffer after a rejected open,
                     (b) context reuse after a tag shorter than 16 bytes.  Kept separate because the pinned tree fails both
                     (findings/gcm-plaintext-released.md, findings/gcm-short-tag-context-reuse.md) and every shard would stop at once.
  c12_pbkdf2_longpw  PBKDF2 with passwords of 0..129 bytes (findings/pbkdf2-long-password.md: > 64 bytes overflows the HMAC pad).
"""
_O = ['props/C12/ossl_oracle.cc']
_L = ['-lcrypto']
PROP = dict(
    level='exploration',
    level_text='Generated differential testing of every digest, HMAC, HKDF, PBKDF2, AES/3DES-CBC, AES-GCM and ChaCha20-Poly1305 entry point '
               'against OpenSSL 3.0 EVP over message lengths dense around every block/padding boundary and random up to 64 KiB, every composition '
               'of short messages into update calls (enumerated) and random splits otherwise, exact-size heap buffers at misalignments 0..15 under '
               'ASan/UBSan, in-place operation, context reuse, all key sizes, AAD 0..300, all GCM tag lengths, and AEAD negative tests (every single-bit '
               'modification of ciphertext/tag/nonce/AAD for short messages, truncation). Finds wrong outputs with high probability where they depend on '
               'length/split/alignment/call pattern; proves nothing about unexplored inputs (e.g. messages >= 2^29 bytes, specific data-dependent carries).',
    level_note='Trusted: OpenSSL 3.0 libcrypto as the reference, ASan/UBSan, the harness glue. Only the software AES/GHASH path is exercised: AES-NI/PCLMUL '
               'is a compile-time switch (-maes => __AES__ => crypto/layer/layer.h) that the makefile does not enable on this host; a second library variant '
               'is needed for aes_aesni.c. ChaCha20/Poly1305 run with the implementation picked at run time (best available); set '
               'MATRIX_CHACHA20POLY1305_REF=1 in a target env to force the reference code. psHmacSha1Tls/psHmacSha2Tls are not compiled in this configuration.',
    technique='property-based differential testing vs OpenSSL EVP (tape generators + shrinking), sanitizer oracle for buffer bounds',
    rule='cases = (algorithm/entry point, key size, message length class, partition into calls, buffer offsets 0..15, in-place flag, context reuse, '
         'AAD/tag length, modification kind) drawn from the tape; oracle = byte equality with OpenSSL (and OpenSSL\'s accept/reject verdict for modified AEAD '
         'inputs); non-trivial = length within +-1 of a block/padding boundary, >= 2 non-empty calls, misaligned or in-place buffers, context reuse, long-key '
         'path, short tag, or any negative AEAD test; distinct = distinct (algorithm, length class, split shape, offsets, mode flags)',
    assumptions=['OpenSSL 3.0 libcrypto is correct for these algorithms',
                 'functions are called inside the domain their in-tree callers / CRYPTO_ASSERTs define (CBC lengths are block multiples, 12-byte GCM nonce, '
                 'HMAC Init keys <= block, exact in-situ overlap only, update lengths fit uint32_t)'],
    targets=[
        dict(name='c12_pbkdf2_longpw', src=['props/C12/hmac_kdf.cc'] + _O, libs=_L, defs=['C12_ONLY_PBKDF2', 'C12_PBKDF2_MAXPW=129'],
             quick=dict(cases=5000, secs=10), thorough=dict(cases=300000, secs=60)),
        dict(name='c12_digest', src=['props/C12/digest.cc'] + _O, libs=_L,
             quick=dict(cases=130000, secs=15), thorough=dict(cases=12000000, secs=180)),
        dict(name='c12_digest_huge', src=['props/C12/digest.cc'] + _O, libs=_L, defs=['C12_HUGE'], enumerate=True,
             quick=dict(cases=0, secs=120, stride=4), thorough=dict(cases=0, secs=400, stride=1)),
        dict(name='c12_hmac_kdf', src=['props/C12/hmac_kdf.cc'] + _O, libs=_L,
             quick=dict(cases=130000, secs=20), thorough=dict(cases=6000000, secs=180)),
        dict(name='c12_cipher', src=['props/C12/cipher.cc'] + _O, libs=_L,
             quick=dict(cases=90000, secs=12), thorough=dict(cases=6000000, secs=130)),
        dict(name='c12_aead', src=['props/C12/aead.cc'] + _O, libs=_L,
             quick=dict(cases=120000, secs=25), thorough=dict(cases=2500000, secs=170)),
        # ChaCha20/Poly1305 reference code (chacha20_ref.c + poly1305_donna.c) instead of the SSSE3/SSE2 code picked at run time on x86
        dict(name='c12_chacha_ref', src=['props/C12/aead.cc'] + _O, libs=_L, defs=['C12_CHACHA_ONLY'], env={'MATRIX_CHACHA20POLY1305_REF': '1'},
             quick=dict(cases=30000, secs=10), thorough=dict(cases=600000, secs=50)),
        dict(name='c12_aead_strict', src=['props/C12/aead.cc'] + _O, libs=_L, defs=['C12_STRICT'],
             quick=dict(cases=25000, secs=10), thorough=dict(cases=400000, secs=50)),
    ],
)
