// mint.cc - C03 certificate/CRL minting with OpenSSL 3.0 libcrypto (independent DER encoder).
// No MatrixSSL header is included here.
#define OPENSSL_SUPPRESS_DEPRECATED
#include "mint.h"

#include <openssl/asn1.h>
#include <openssl/bn.h>
#include <openssl/crypto.h>
#include <openssl/evp.h>
#include <openssl/objects.h>
#include <openssl/pem.h>
#include <openssl/rand.h>
#include <openssl/sha.h>
#include <openssl/x509.h>
#include <openssl/x509v3.h>

#include <cstdio>
#include <cstring>
#include <ctime>

namespace mint {

// deliberately never destroyed: the pool must stay reachable until process exit (LeakSanitizer runs after static destructors)
static std::vector<KeyInfo> &g_info = *new std::vector<KeyInfo>();
static std::vector<EVP_PKEY *> &g_keys = *new std::vector<EVP_PKEY *>();

// ---- deterministic randomness for libcrypto ------------------------------------------------------------------
// ECDSA signing draws its nonce from RAND.  To make every minted byte a pure function of the case (replays and
// shrinking must see the same certificates), libcrypto's RAND is replaced by a counter-mode generator that the
// harness reseeds at the start of each case.  (RAND_set_rand_method is deprecated in 3.0 but still honoured.)
static uint64_t g_rs = 1, g_rc = 0;
static uint64_t mix64(uint64_t x)
{
    x += 0x9E3779B97F4A7C15ULL;
    x = (x ^ (x >> 30)) * 0xBF58476D1CE4E5B9ULL;
    x = (x ^ (x >> 27)) * 0x94D049BB133111EBULL;
    return x ^ (x >> 31);
}
static int det_bytes(unsigned char *buf, int num)
{
    for (int i = 0; i < num; i += 8)
    {
        uint64_t v = mix64(g_rs * 0x100000001B3ULL + g_rc++);
        memcpy(buf + i, &v, (size_t) (num - i < 8 ? num - i : 8));
    }
    return 1;
}
static int det_seed(const void *, int) { return 1; }
static int det_add(const void *, int, double) { return 1; }
static int det_status(void) { return 1; }
void reseed(uint64_t seed)
{
    g_rs = seed; g_rc = 0;
}

const char *kind_name(KeyKind k)
{
    static const char *n[] = { "p256", "ed25519", "p384", "p521", "rsa2048", "rsa1024", "rsa3072", "rsa768" };
    return k < K_KINDS ? n[k] : "?";
}
const char *hash_name(Hash h)
{
    static const char *n[] = { "sha256", "sha384", "sha512", "sha1", "md5" };
    return n[h];
}
const char *version() { return OpenSSL_version(OPENSSL_VERSION); }
const std::vector<KeyInfo> &keys() { return g_info; }

bool init(const std::string &dir, std::string *err)
{
    static const struct { KeyKind k; int n; } pool[] = {
        { K_P256, 12 }, { K_ED25519, 10 }, { K_P384, 4 }, { K_P521, 3 }, { K_RSA2048, 5 }, { K_RSA1024, 3 }, { K_RSA3072, 2 }, { K_RSA768, 1 },
    };
    if (!g_keys.empty())
    {
        return true;
    }
    {
        static RAND_METHOD m;
        memset(&m, 0, sizeof m);
        m.seed = det_seed; m.bytes = det_bytes; m.add = det_add; m.pseudorand = det_bytes; m.status = det_status;
        if (RAND_set_rand_method(&m) != 1)
        {
            if (err) *err = "RAND_set_rand_method failed";
            return false;
        }
    }
    for (auto &e : pool)
    {
        for (int i = 0; i < e.n; i++)
        {
            std::string f = dir + "/" + kind_name(e.k) + "_" + std::to_string(i) + ".pem";
            FILE *fp = fopen(f.c_str(), "r");
            if (!fp)
            {
                if (err) *err = "cannot open " + f;
                return false;
            }
            EVP_PKEY *k = PEM_read_PrivateKey(fp, NULL, NULL, NULL);
            fclose(fp);
            if (!k)
            {
                if (err) *err = "cannot parse " + f;
                return false;
            }
            g_keys.push_back(k);
            g_info.push_back(KeyInfo{ e.k, f });
        }
    }
    return true;
}

Bytes key_id(int k)
{
    Bytes out(SHA_DIGEST_LENGTH);
    X509_PUBKEY *pub = NULL;
    const unsigned char *pk = NULL;
    int pklen = 0;
    X509_PUBKEY_set(&pub, g_keys.at(k));
    X509_PUBKEY_get0_param(NULL, &pk, &pklen, NULL, pub);
    SHA1(pk, (size_t) pklen, out.data());
    X509_PUBKEY_free(pub);
    return out;
}

static const EVP_MD *md_of(Hash h)
{
    switch (h)
    {
    case H_SHA256: return EVP_sha256();
    case H_SHA384: return EVP_sha384();
    case H_SHA512: return EVP_sha512();
    case H_SHA1: return EVP_sha1();
    case H_MD5: return EVP_md5();
    }
    return EVP_sha256();
}

static X509_NAME *mk_name(const Name &n)
{
    X509_NAME *x = X509_NAME_new();
    if (!n.c.empty())
    {
        X509_NAME_add_entry_by_NID(x, NID_countryName, MBSTRING_ASC, (const unsigned char *) n.c.data(), (int) n.c.size(), -1, 0);
    }
    if (!n.o.empty())
    {
        X509_NAME_add_entry_by_NID(x, NID_organizationName, MBSTRING_ASC, (const unsigned char *) n.o.data(), (int) n.o.size(), -1, 0);
    }
    if (!n.cn.empty())
    {
        X509_NAME_add_entry_by_NID(x, NID_commonName, MBSTRING_ASC, (const unsigned char *) n.cn.data(), (int) n.cn.size(), -1, 0);
    }
    return x;
}

// epoch -> RFC 5280 encoding chosen by libcrypto, or the given characters verbatim under the given tag (no validation on purpose)
static void set_time(ASN1_TIME *t, int enc, const std::string &str, int64_t epoch)
{
    if (enc == T_AUTO)
    {
        ASN1_TIME_set(t, (time_t) epoch);
        return;
    }
    ASN1_STRING_set(t, str.data(), (int) str.size());
    t->type = enc == T_UTC ? V_ASN1_UTCTIME : V_ASN1_GENERALIZEDTIME;
}

bool time_to_epoch(int enc, const std::string &str, int64_t *epoch)
{
    ASN1_TIME *t = ASN1_TIME_new();
    struct tm tm;
    bool ok = false;
    set_time(t, enc == T_UTC ? T_UTC : T_GEN, str, 0);
    memset(&tm, 0, sizeof tm);
    if (ASN1_TIME_to_tm(t, &tm) == 1)
    {
        *epoch = (int64_t) timegm(&tm);
        ok = true;
    }
    ASN1_TIME_free(t);
    return ok;
}

static ASN1_INTEGER *mk_serial(const Bytes &s)
{
    BIGNUM *bn = BN_bin2bn(s.data(), (int) s.size(), NULL);
    ASN1_INTEGER *a = BN_to_ASN1_INTEGER(bn, NULL);
    BN_free(bn);
    return a;
}

static int other_sig_nid(int nid)
{
    switch (nid)
    {
    case NID_sha256WithRSAEncryption: return NID_sha384WithRSAEncryption;
    case NID_sha384WithRSAEncryption: return NID_sha512WithRSAEncryption;
    case NID_sha512WithRSAEncryption: return NID_sha256WithRSAEncryption;
    case NID_ecdsa_with_SHA256: return NID_ecdsa_with_SHA384;
    case NID_ecdsa_with_SHA384: return NID_ecdsa_with_SHA512;
    case NID_ecdsa_with_SHA512: return NID_ecdsa_with_SHA256;
    case NID_ED25519: return NID_ecdsa_with_SHA256;
    default: return NID_sha256WithRSAEncryption;
    }
}

// Manipulate the outer signature fields in place (TBS untouched).
static void sig_postop(ASN1_BIT_STRING *sig, X509_ALGOR *alg, int op, unsigned bit, const Bytes &repl)
{
    if (op == SIGOP_FLIPBIT && sig->length > 0)
    {
        // The flipped bit must change the signature *value*.  For an ECDSA-Sig-Value (SEQUENCE { INTEGER r, INTEGER s }) only
        // the significant content octets of r and s qualify: a flip in a tag/length octet may merely yield another (non-DER)
        // encoding of the same (r, s), which is an encoding-strictness matter (C09/C11) and not a forged signature.
        std::vector<int> cand;
        const unsigned char *d = sig->data;
        int n = sig->length, p = 0;
        if (n > 8 && d[0] == 0x30)
        {
            p = 1;
            if (d[p] & 0x80) p += 1 + (d[p] & 0x7f); else p += 1;
            for (int k = 0; k < 2 && p + 2 <= n && d[p] == 0x02 && !(d[p + 1] & 0x80); k++)
            {
                int l = d[p + 1], st = p + 2;
                if (st + l > n) { cand.clear(); break; }
                for (int i = (l > 1 && d[st] == 0x00) ? 1 : 0; i < l; i++) cand.push_back(st + i);
                p = st + l;
            }
            if (p != n) cand.clear();
        }
        if (cand.empty()) for (int i = 0; i < n; i++) cand.push_back(i);
        int idx = cand[(bit / 8) % cand.size()];
        sig->data[idx] ^= (unsigned char) (1u << (bit % 8));
    }
    else if (op == SIGOP_REPLACE)
    {
        ASN1_STRING_set(sig, repl.data(), (int) repl.size());
        sig->flags &= ~(ASN1_STRING_FLAG_BITS_LEFT | 0x07);
        sig->flags |= ASN1_STRING_FLAG_BITS_LEFT;
    }
    else if (op == SIGOP_OUTER_ALG)
    {
        int nid = OBJ_obj2nid(alg->algorithm);
        int o = other_sig_nid(nid);
        bool rsa = (o == NID_sha256WithRSAEncryption || o == NID_sha384WithRSAEncryption || o == NID_sha512WithRSAEncryption);
        X509_ALGOR_set0(alg, OBJ_nid2obj(o), rsa ? V_ASN1_NULL : V_ASN1_UNDEF, NULL);
    }
}

template <class T> static void add_ext(X509 *x, int nid, T *val, bool crit)
{
    X509_add1_ext_i2d(x, nid, val, crit ? 1 : 0, X509V3_ADD_APPEND);
}

bool mint_cert(const CertSpec &s, Minted &out, std::string *err)
{
    X509 *x = X509_new();
    EVP_PKEY *subj = g_keys.at(s.subjectKey), *signer = g_keys.at(s.signKey);
    bool ok = false;
    X509_set_version(x, s.version == 3 ? 2 : 0);
    { ASN1_INTEGER *a = mk_serial(s.serial); X509_set_serialNumber(x, a); ASN1_INTEGER_free(a); }
    { X509_NAME *n = mk_name(s.subject); X509_set_subject_name(x, n); X509_NAME_free(n); }
    { X509_NAME *n = mk_name(s.issuer); X509_set_issuer_name(x, n); X509_NAME_free(n); }
    set_time(X509_getm_notBefore(x), s.notBeforeEnc, s.notBeforeStr, s.notBefore);
    set_time(X509_getm_notAfter(x), s.notAfterEnc, s.notAfterStr, s.notAfter);
    X509_set_pubkey(x, subj);
    if (s.version == 3)
    {
        if (s.bc != BC_ABSENT)
        {
            BASIC_CONSTRAINTS *bc = BASIC_CONSTRAINTS_new();
            bc->ca = (s.bc == BC_TRUE) ? 0xFF : 0;
            if (s.pathLen >= 0)
            {
                bc->pathlen = ASN1_INTEGER_new();
                ASN1_INTEGER_set(bc->pathlen, s.pathLen);
            }
            add_ext(x, NID_basic_constraints, bc, s.bcCritical);
            BASIC_CONSTRAINTS_free(bc);
        }
        if (s.ku >= 0)
        {
            ASN1_BIT_STRING *ku = ASN1_BIT_STRING_new();
            for (int b = 0; b < 9; b++)
            {
                if (s.ku & (1 << b)) ASN1_BIT_STRING_set_bit(ku, b, 1);
            }
            add_ext(x, NID_key_usage, ku, s.kuCritical);
            ASN1_BIT_STRING_free(ku);
        }
        if (!s.eku.empty())
        {
            EXTENDED_KEY_USAGE *e = sk_ASN1_OBJECT_new_null();
            for (int u : s.eku)
            {
                int nid = u == EKU_SERVER ? NID_server_auth : u == EKU_CLIENT ? NID_client_auth : NID_code_sign;
                sk_ASN1_OBJECT_push(e, OBJ_nid2obj(nid));
            }
            add_ext(x, NID_ext_key_usage, e, s.ekuCritical);
            sk_ASN1_OBJECT_free(e);
        }
        if (s.ski)
        {
            Bytes id = key_id(s.subjectKey);
            ASN1_OCTET_STRING *o = ASN1_OCTET_STRING_new();
            ASN1_OCTET_STRING_set(o, id.data(), (int) id.size());
            add_ext(x, NID_subject_key_identifier, o, false);
            ASN1_OCTET_STRING_free(o);
        }
        if (s.aki)
        {
            AUTHORITY_KEYID *a = AUTHORITY_KEYID_new();
            a->keyid = ASN1_OCTET_STRING_new();
            ASN1_OCTET_STRING_set(a->keyid, s.akiValue.data(), (int) s.akiValue.size());
            add_ext(x, NID_authority_key_identifier, a, false);
            AUTHORITY_KEYID_free(a);
        }
        if (s.crlDp)
        {
            static const char uri[] = "http://crl.c03.invalid/ca.crl";
            CRL_DIST_POINTS *dps = sk_DIST_POINT_new_null();
            DIST_POINT *dp = DIST_POINT_new();
            GENERAL_NAMES *gns = sk_GENERAL_NAME_new_null();
            GENERAL_NAME *gn = GENERAL_NAME_new();
            ASN1_IA5STRING *ia5 = ASN1_IA5STRING_new();
            ASN1_STRING_set(ia5, uri, (int) strlen(uri));
            GENERAL_NAME_set0_value(gn, GEN_URI, ia5);
            sk_GENERAL_NAME_push(gns, gn);
            dp->distpoint = DIST_POINT_NAME_new();
            dp->distpoint->type = 0;
            dp->distpoint->name.fullname = gns;
            sk_DIST_POINT_push(dps, dp);
            add_ext(x, NID_crl_distribution_points, dps, false);
            sk_DIST_POINT_pop_free(dps, DIST_POINT_free);
        }
        if (s.unknownExt)
        {
            static const unsigned char val[] = { 0x04, 0x03, 'c', '0', '3' };   // OCTET STRING inside the extnValue
            ASN1_OBJECT *obj = OBJ_txt2obj("1.3.6.1.4.1.55555.3.1", 1);
            ASN1_OCTET_STRING *o = ASN1_OCTET_STRING_new();
            ASN1_OCTET_STRING_set(o, val, sizeof val);
            X509_EXTENSION *ex = X509_EXTENSION_create_by_OBJ(NULL, obj, s.unknownExt == 2 ? 1 : 0, o);
            X509_add_ext(x, ex, -1);
            X509_EXTENSION_free(ex);
            ASN1_OCTET_STRING_free(o);
            ASN1_OBJECT_free(obj);
        }
    }
    {
        const EVP_MD *md = (EVP_PKEY_id(signer) == EVP_PKEY_ED25519) ? NULL : md_of(s.hash);
        if (X509_sign(x, signer, md) <= 0)
        {
            if (err) *err = "X509_sign failed";
            goto done;
        }
    }
    if (s.mislabelFamily && EVP_PKEY_id(signer) != EVP_PKEY_ED25519)
    {
        // relabel both AlgorithmIdentifiers, then sign the re-encoded TBS with the real key and hash
        const ASN1_BIT_STRING *psig = NULL;
        const X509_ALGOR *palg = NULL;
        bool toRsa = EVP_PKEY_id(signer) == EVP_PKEY_EC;
        int nid = toRsa ? (s.hash == H_SHA384 ? NID_sha384WithRSAEncryption : s.hash == H_SHA512 ? NID_sha512WithRSAEncryption : s.hash == H_SHA1 ? NID_sha1WithRSAEncryption : NID_sha256WithRSAEncryption)
                        : (s.hash == H_SHA384 ? NID_ecdsa_with_SHA384 : s.hash == H_SHA512 ? NID_ecdsa_with_SHA512 : s.hash == H_SHA1 ? NID_ecdsa_with_SHA1 : NID_ecdsa_with_SHA256);
        X509_get0_signature(&psig, &palg, x);
        X509_ALGOR_set0((X509_ALGOR *) X509_get0_tbs_sigalg(x), OBJ_nid2obj(nid), toRsa ? V_ASN1_NULL : V_ASN1_UNDEF, NULL);
        X509_ALGOR_set0((X509_ALGOR *) palg, OBJ_nid2obj(nid), toRsa ? V_ASN1_NULL : V_ASN1_UNDEF, NULL);
        unsigned char *tbs = NULL;
        int tl = i2d_re_X509_tbs(x, &tbs);
        EVP_MD_CTX *ctx = EVP_MD_CTX_new();
        size_t sl = 0;
        bool good = tl > 0 && EVP_DigestSignInit(ctx, NULL, md_of(s.hash), NULL, signer) == 1 && EVP_DigestSign(ctx, NULL, &sl, tbs, (size_t) tl) == 1;
        Bytes sg(sl);
        good = good && EVP_DigestSign(ctx, sg.data(), &sl, tbs, (size_t) tl) == 1;
        EVP_MD_CTX_free(ctx);
        OPENSSL_free(tbs);
        if (!good)
        {
            if (err) *err = "relabelled signing failed";
            goto done;
        }
        ASN1_BIT_STRING *bs = (ASN1_BIT_STRING *) psig;
        ASN1_STRING_set(bs, sg.data(), (int) sl);
        bs->flags &= ~(ASN1_STRING_FLAG_BITS_LEFT | 0x07);
        bs->flags |= ASN1_STRING_FLAG_BITS_LEFT;
    }
    {
        const ASN1_BIT_STRING *psig = NULL;
        const X509_ALGOR *palg = NULL;
        X509_get0_signature(&psig, &palg, x);
        sig_postop((ASN1_BIT_STRING *) psig, (X509_ALGOR *) palg, s.sigOp, s.sigBit, s.sigReplace);
        out.signature.assign(psig->data, psig->data + psig->length);
    }
    {
        unsigned char *p = NULL;
        int n = i2d_X509(x, &p);
        if (n <= 0)
        {
            if (err) *err = "i2d_X509 failed";
            goto done;
        }
        out.der.assign(p, p + n);
        OPENSSL_free(p);
    }
    ok = true;
done:
    X509_free(x);
    return ok;
}

int verify_cert(const Bytes &der, int k)
{
    const unsigned char *p = der.data();
    X509 *x = d2i_X509(NULL, &p, (long) der.size());
    if (!x)
    {
        return -1;
    }
    int r = X509_verify(x, g_keys.at(k));
    X509_free(x);
    return r == 1 ? 1 : 0;
}

int verify_raw(const Bytes &der, int k, Hash h)
{
    const unsigned char *p = der.data();
    X509 *x = d2i_X509(NULL, &p, (long) der.size());
    if (!x)
    {
        return -1;
    }
    const ASN1_BIT_STRING *psig = NULL;
    const X509_ALGOR *palg = NULL;
    X509_get0_signature(&psig, &palg, x);
    unsigned char *tbs = NULL;
    int tl = i2d_re_X509_tbs(x, &tbs);
    EVP_MD_CTX *ctx = EVP_MD_CTX_new();
    int r = 0;
    if (tl > 0 && EVP_DigestVerifyInit(ctx, NULL, EVP_PKEY_id(g_keys.at(k)) == EVP_PKEY_ED25519 ? NULL : md_of(h), NULL, g_keys.at(k)) == 1)
    {
        r = EVP_DigestVerify(ctx, psig->data, (size_t) psig->length, tbs, (size_t) tl) == 1 ? 1 : 0;
    }
    EVP_MD_CTX_free(ctx);
    OPENSSL_free(tbs);
    X509_free(x);
    return r;
}

bool mint_crl(const CrlSpec &s, Bytes &der, std::string *err)
{
    X509_CRL *c = X509_CRL_new();
    EVP_PKEY *signer = g_keys.at(s.signKey);
    bool ok = false;
    X509_CRL_set_version(c, 1);
    { X509_NAME *n = mk_name(s.issuer); X509_CRL_set_issuer_name(c, n); X509_NAME_free(n); }
    {
        ASN1_TIME *t = ASN1_TIME_new();
        ASN1_TIME_set(t, (time_t) s.thisUpdate); X509_CRL_set1_lastUpdate(c, t);
        set_time(t, s.nextEnc, s.nextStr, s.nextUpdate); X509_CRL_set1_nextUpdate(c, t);
        for (auto &sn : s.revoked)
        {
            X509_REVOKED *r = X509_REVOKED_new();
            ASN1_INTEGER *a = mk_serial(sn);
            X509_REVOKED_set_serialNumber(r, a);
            ASN1_INTEGER_free(a);
            ASN1_TIME_set(t, (time_t) (s.thisUpdate - 3600));
            X509_REVOKED_set_revocationDate(r, t);
            X509_CRL_add0_revoked(c, r);
        }
        ASN1_TIME_free(t);
    }
    if (s.aki)
    {
        AUTHORITY_KEYID *a = AUTHORITY_KEYID_new();
        a->keyid = ASN1_OCTET_STRING_new();
        ASN1_OCTET_STRING_set(a->keyid, s.akiValue.data(), (int) s.akiValue.size());
        X509_CRL_add1_ext_i2d(c, NID_authority_key_identifier, a, 0, X509V3_ADD_APPEND);
        AUTHORITY_KEYID_free(a);
    }
    if (s.crlNumber)
    {
        ASN1_INTEGER *n = ASN1_INTEGER_new();
        ASN1_INTEGER_set(n, 7);
        X509_CRL_add1_ext_i2d(c, NID_crl_number, n, 0, X509V3_ADD_APPEND);
        ASN1_INTEGER_free(n);
    }
    X509_CRL_sort(c);
    {
        const EVP_MD *md = (EVP_PKEY_id(signer) == EVP_PKEY_ED25519) ? NULL : md_of(s.hash);
        if (X509_CRL_sign(c, signer, md) <= 0)
        {
            if (err) *err = "X509_CRL_sign failed";
            goto done;
        }
    }
    {
        const ASN1_BIT_STRING *psig = NULL;
        const X509_ALGOR *palg = NULL;
        X509_CRL_get0_signature(c, &psig, &palg);
        sig_postop((ASN1_BIT_STRING *) psig, (X509_ALGOR *) palg, s.sigOp, s.sigBit, Bytes());
    }
    {
        unsigned char *p = NULL;
        int n = i2d_X509_CRL(c, &p);
        if (n <= 0)
        {
            if (err) *err = "i2d_X509_CRL failed";
            goto done;
        }
        der.assign(p, p + n);
        OPENSSL_free(p);
    }
    ok = true;
done:
    X509_CRL_free(c);
    return ok;
}

int verify_crl(const Bytes &der, int k)
{
    const unsigned char *p = der.data();
    X509_CRL *c = d2i_X509_CRL(NULL, &p, (long) der.size());
    if (!c)
    {
        return -1;
    }
    int r = X509_CRL_verify(c, g_keys.at(k));
    X509_CRL_free(c);
    return r == 1 ? 1 : 0;
}

}  // namespace mint
