#!/bin/bash
# One-time generation of the C03 key pool (already committed under keys/; rerun only to rebuild the pool).
# Uses the system OpenSSL 3.0 CLI. RSA keys are NEVER generated per test case; the harness only loads these files.
set -e
O=/usr/bin/openssl
cd "$(dirname "$0")/keys"
gen_rsa() { for i in $(seq 0 $(($2 - 1))); do [ -f rsa$1_$i.pem ] || $O genpkey -algorithm RSA -pkeyopt rsa_keygen_bits:$1 -out rsa$1_$i.pem 2>/dev/null; done; }
gen_ec()  { for i in $(seq 0 $(($3 - 1))); do [ -f $1_$i.pem ] || $O genpkey -algorithm EC -pkeyopt ec_paramgen_curve:$2 -pkeyopt ec_param_enc:named_curve -out $1_$i.pem 2>/dev/null; done; }
gen_ed()  { for i in $(seq 0 $(($1 - 1))); do [ -f ed25519_$i.pem ] || $O genpkey -algorithm ED25519 -out ed25519_$i.pem 2>/dev/null; done; }
gen_rsa 768 1
gen_rsa 1024 3
gen_rsa 2048 5
gen_rsa 3072 2
gen_ec p256 P-256 12
gen_ec p384 P-384 4
gen_ec p521 P-521 3
gen_ed 10
ls | wc -l
