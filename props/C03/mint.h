// mint.h - C03 certificate/CRL minting interface.
//
// Everything behind this header is implemented with the system OpenSSL 3.0 libcrypto (mint.cc) and
// shares NO code with MatrixSSL: it is the independent DER *encoder* of the check.  Only plain byte
// vectors and plain structs cross the boundary, so OpenSSL and MatrixSSL headers never meet in one
// translation unit.  Keys come from the pre-generated pool in props/C03/keys (see gen_keys.sh);
// no key is ever generated at run time.
#pragma once
#include <cstdint>
#include <string>
#include <vector>

namespace mint {
typedef std::vector<uint8_t> Bytes;

enum KeyKind { K_P256 = 0, K_ED25519, K_P384, K_P521, K_RSA2048, K_RSA1024, K_RSA3072, K_RSA768, K_KINDS };
const char *kind_name(KeyKind k);
inline bool kind_is_rsa(KeyKind k) { return k == K_RSA2048 || k == K_RSA1024 || k == K_RSA3072 || k == K_RSA768; }
inline bool kind_is_ec(KeyKind k) { return k == K_P256 || k == K_P384 || k == K_P521; }

struct KeyInfo { KeyKind kind; std::string file; };

// Load the key pool; returns false and sets *err on failure.
bool init(const std::string &keydir, std::string *err);
const std::vector<KeyInfo> &keys();
// Reseed libcrypto's (replaced, deterministic) random source; call at the start of every case.
void reseed(uint64_t seed);
// SHA-1 of the subjectPublicKey BIT STRING contents (RFC 5280 4.2.1.2 method 1) of pool key k.
Bytes key_id(int k);

enum Hash { H_SHA256 = 0, H_SHA384, H_SHA512, H_SHA1, H_MD5 };
const char *hash_name(Hash h);

struct Name { std::string c, o, cn; };

// keyUsage bits (bit numbers of RFC 5280)
enum { KU_DIGSIG = 1 << 0, KU_KEYENC = 1 << 2, KU_CERTSIGN = 1 << 5, KU_CRLSIGN = 1 << 6 };
enum { EKU_SERVER = 1, EKU_CLIENT = 2, EKU_CODESIGN = 3 };
enum { BC_ABSENT = 0, BC_FALSE = 1, BC_TRUE = 2 };
enum { SIGOP_NONE = 0, SIGOP_FLIPBIT = 1, SIGOP_REPLACE = 2, SIGOP_OUTER_ALG = 3 };
enum { T_AUTO = 0, T_UTC = 1, T_GEN = 2 };
// libcrypto's reading of a UTCTime/GeneralizedTime string (ASN1_TIME_to_tm, which applies the RFC 5280 two-digit-year rule):
// true and *epoch set when libcrypto can interpret it.  Used only to cross-check the model's own interpretation.
bool time_to_epoch(int enc, const std::string &str, int64_t *epoch);

struct CertSpec {
    int version = 3;                  // 3 or 1
    Bytes serial;                     // big-endian magnitude (positive)
    Name subject, issuer;
    int64_t notBefore = 0, notAfter = 0;   // absolute epoch seconds (encoded per RFC 5280: UTCTime through 2049, else GeneralizedTime)
    // forced encodings: T_AUTO = use the epoch value above; otherwise the given characters are emitted verbatim with that tag
    int notBeforeEnc = 0, notAfterEnc = 0;
    std::string notBeforeStr, notAfterStr;
    int subjectKey = 0;               // pool index of the certified key
    int signKey = 0;                  // pool index of the signing key
    Hash hash = H_SHA256;             // ignored for Ed25519 signers
    int bc = BC_ABSENT; bool bcCritical = false; int pathLen = -1;
    int ku = -1; bool kuCritical = false;             // -1 = absent, else bit mask
    std::vector<int> eku; bool ekuCritical = false;   // empty = absent
    bool ski = false;                 // subjectKeyIdentifier = key_id(subjectKey)
    bool aki = false; Bytes akiValue; // authorityKeyIdentifier.keyIdentifier
    int unknownExt = 0;               // 0 none, 1 non-critical, 2 critical (private OID 1.3.6.1.4.1.55555.3.1)
    bool crlDp = false;               // add a cRLDistributionPoints URI (benign)
    // post-signing manipulation of the outer signature fields (TBS is left untouched)
    // family mislabel: the signature is made by signKey with `hash` as usual, but BOTH algorithm identifiers (TBS and outer) name the
    // other family: an EC signer is labelled <hash>WithRSAEncryption, an RSA signer ecdsa-with-<hash> (ignored for Ed25519 signers)
    bool mislabelFamily = false;
    int sigOp = SIGOP_NONE;
    unsigned sigBit = 0;              // SIGOP_FLIPBIT: bit index (mod length)
    Bytes sigReplace;                 // SIGOP_REPLACE: new signature BIT STRING contents
};
struct Minted {
    Bytes der;        // full Certificate
    Bytes signature;  // contents of the signature BIT STRING as encoded in der
};
bool mint_cert(const CertSpec &s, Minted &out, std::string *err);
// Independent check (libcrypto X509_verify): does the signature on this DER certificate verify under pool key k?
// 1 yes, 0 no, -1 could not decode.
int verify_cert(const Bytes &der, int k);
// Raw check that ignores the algorithm identifiers: is the signature BIT STRING a signature by pool key k over the TBS bytes with hash h?
int verify_raw(const Bytes &der, int k, Hash h);

struct CrlSpec {
    Name issuer;
    int64_t thisUpdate = 0, nextUpdate = 0;
    int nextEnc = 0; std::string nextStr;      // forced nextUpdate encoding (T_*)
    std::vector<Bytes> revoked;       // serial numbers
    int signKey = 0; Hash hash = H_SHA256;
    bool aki = false; Bytes akiValue;
    bool crlNumber = true;
    int sigOp = SIGOP_NONE; unsigned sigBit = 0;
};
bool mint_crl(const CrlSpec &s, Bytes &der, std::string *err);
int verify_crl(const Bytes &der, int k);

const char *version();
}  // namespace mint
