// C03: X.509 validation succeeds only for a genuinely signed path to a trust anchor.
//
// Case  = abstract certificate universe (model.h) minted to DER with libcrypto (mint.cc), a presented chain,
//         a trust-anchor list and optionally CRLs loaded into MatrixSSL's CRL cache.
// SUT   = psX509ParseCert on every presented certificate (as matrixssl/hsDecode.c does), psX509ParseCRL /
//         psCRL_Update / psX509AuthenticateCRL (as apps/ssl/client.c does), then matrixValidateCertsExt with no
//         expected name (optionally after matrixSslReorderCertChain, as the TLS 1.3 path does).
// Oracle = reference path validator over the abstract description (never parses DER):
//         success (PS_SUCCESS and every authStatus PASS)  =>  may_accept      [soundness]
//         must_accept                                      =>  success         [completeness]
//         PS_SUCCESS                                       =>  every authStatus == PS_CERT_AUTH_PASS  [documented contract]
// The same source builds four targets: C03_KIND unset = mixed generator, 1 = attacker CA with copied signature (F5),
// 2 = single soft defect (F4), 3 = revocation, 4 = history of validations over one CRL cache (prop_history),
// 5 = validity-date encodings x boundary years x position relative to a (movable) virtual now,
// 6 = certificates that reuse their issuer's subject DN (non-CA / CA issuers x keyUsage x basicConstraints, key roll-over),
// 7 = trust store with one defective (usually unparseable) entry, loaded as one CA bundle the way matrixSslLoadKeys loads it.
#include "vf.h"
#include "mint.h"
#include "model.h"

extern "C" {
#include "matrixssl/matrixsslApi.h"
void matrixSslReorderCertChain(psX509Cert_t *a_cert);   /* matrixssl/matrixssllib.h (library-internal header); used by tls13Authenticate.c */
void vfh_epoch_set(int64_t base);
void vfh_clock_set_ms(int64_t ms);
}
#include <memory>

using namespace c03;

#ifndef C03_KIND
# define C03_KIND -1
#endif

// ------------------------------------------------------------------------------------------------ minting
static bool node_spec(const Case &cs, const Node &x, mint::CertSpec &s)
{
    s.version = x.version;
    s.serial = x.serial;
    s.subject = x.subj;
    s.issuer = x.issuerName;
    s.notBefore = cs.now + x.nb;
    s.notAfter = cs.now + x.na;
    s.notBeforeEnc = x.nbEnc; s.notBeforeStr = x.nbStr;
    s.notAfterEnc = x.naEnc; s.notAfterStr = x.naStr;
    s.subjectKey = x.key;
    s.signKey = x.signKey;
    s.hash = x.hash;
    s.mislabelFamily = x.mislabel;
    s.bc = x.bc; s.bcCritical = x.bcCrit; s.pathLen = x.bc == mint::BC_TRUE ? x.pathLen : -1;
    s.ku = x.ku; s.kuCritical = x.kuCrit;
    if (x.eku) s.eku.push_back(x.eku);
    s.ekuCritical = x.ekuCrit;
    s.ski = x.ski;
    if (x.aki == AKI_MATCH) { s.aki = true; s.akiValue = mint::key_id(x.akiKey); }
    else if (x.aki == AKI_MISMATCH) { s.aki = true; s.akiValue = x.akiBad; }
    s.unknownExt = x.unk;
    s.crlDp = x.crlDp;
    switch (x.sig)
    {
    case SIG_BITFLIP: s.sigOp = mint::SIGOP_FLIPBIT; s.sigBit = x.sigBit; break;
    case SIG_COPIED:
        if (x.sigSrc < 0 || cs.n[(size_t) x.sigSrc].sigBytes.empty()) return false;
        s.sigOp = mint::SIGOP_REPLACE; s.sigReplace = cs.n[(size_t) x.sigSrc].sigBytes; break;
    case SIG_ALGMISMATCH: s.sigOp = mint::SIGOP_OUTER_ALG; break;
    default: break;
    }
    return true;
}

static bool mint_all(Case &cs, std::string &err)
{
    size_t done = 0, total = cs.n.size();
    for (int pass = 0; pass < 4 && done < total; pass++)
    {
        for (auto &x : cs.n)
        {
            if (!x.der.empty()) continue;
            if (x.sig == SIG_COPIED && (x.sigSrc < 0 || cs.n[(size_t) x.sigSrc].der.empty())) continue;
            mint::CertSpec s;
            mint::Minted m;
            if (!node_spec(cs, x, s) || !mint::mint_cert(s, m, &err)) { err += " node " + describe_node(x); return false; }
            x.der = m.der; x.sigBytes = m.signature;
            done++;
        }
    }
    if (done < total) { err = "copy cycle"; return false; }
    int k = 0;
    std::vector<Crl *> all;
    for (auto &r : cs.crls) all.push_back(&r);
    for (auto &r : cs.altCrls) all.push_back(&r);
    for (Crl *rp : all)
    {
        Crl &r = *rp;
        mint::CrlSpec s;
        s.issuer = r.issuer;
        s.nextUpdate = cs.now + r.next;
        s.nextEnc = r.nextEnc; s.nextStr = r.nextStr;
        s.thisUpdate = (r.next < 0 ? s.nextUpdate : cs.now) - 7 * DAY;
        for (int id : r.revokedNodes) s.revoked.push_back(cs.n[(size_t) id].serial);
        for (int e = 0; e < r.extraSerials; e++) s.revoked.push_back(Bytes{ 0x7e, (uint8_t) (k * 8 + e), 0x01 });
        s.signKey = r.signKey; s.hash = r.hash;
        s.aki = r.aki; if (r.aki) s.akiValue = mint::key_id(r.signKey);
        if (r.sigBad) { s.sigOp = mint::SIGOP_FLIPBIT; s.sigBit = 77; }
        if (!mint::mint_crl(s, r.der, &err)) return false;
        k++;
    }
    return true;
}

// harness self-check with libcrypto: the abstract "who signed what" must be what was really minted
static bool selfcheck(const Case &cs, std::string &why)
{
    for (auto &x : cs.n)
    {
        int v = mint::verify_cert(x.der, x.signKey);
        bool expect = (x.sig == SIG_OK || x.sig == SIG_WRONGKEY);
        if (x.mislabel && kkind(x.signKey) != mint::K_ED25519)
        {
            // libcrypto refuses the mislabelled certificate (key type does not fit the algorithm identifier); the raw signature is genuine
            int raw = mint::verify_raw(x.der, x.signKey, x.hash);
            if (v != 0 || (raw == 1) != expect) { why = "mislabelled cert " + describe_node(x) + vf::fmt(" verify=%d raw=%d", v, raw); return false; }
        }
        else if (v < 0 || (v == 1) != expect) { why = "cert " + describe_node(x) + vf::fmt(" verify=%d", v); return false; }
        // the model's RFC 5280 reading of a forced date string must be libcrypto's reading (whenever libcrypto has one)
        int64_t e = 0;
        if (x.nbEnc && mint::time_to_epoch(x.nbEnc, x.nbStr, &e) && e != cs.now + x.nb) { why = "notBefore meaning " + describe_node(x); return false; }
        if (x.naEnc && mint::time_to_epoch(x.naEnc, x.naStr, &e) && e != cs.now + x.na) { why = "notAfter meaning " + describe_node(x); return false; }
    }
    for (auto &r : cs.crls)
    {
        int v = mint::verify_crl(r.der, r.signKey);
        if (v < 0 || (v == 1) != !r.sigBad) { why = vf::fmt("crl verify=%d", v); return false; }
    }
    for (auto &r : cs.altCrls)
    {
        int v = mint::verify_crl(r.der, r.signKey);
        if (v < 0 || (v == 1) != !r.sigBad) { why = vf::fmt("alt crl verify=%d", v); return false; }
    }
    return true;
}

// ------------------------------------------------------------------------------------------------ MatrixSSL side
// psX509FreeCert releases the buffered TBS (allocated when the *signature* algorithm is Ed25519) only when the certificate's
// *own key* is Ed25519, so e.g. a P-256 certificate signed by an Ed25519 CA leaks it (see findings/leak-tbs-of-ed25519-signed-cert.md;
// a memory-hygiene defect outside C03).  Release it here so that LeakSanitizer does not abort the campaign; counted in g_tbsLeakMasked.
static uint64_t g_tbsLeakMasked = 0;
static void free_cert(psX509Cert_t *c)
{
    if (c->tbsCertStart != NULL && c->pubKeyAlgorithm != OID_ED25519_KEY_ALG)
    {
        psFree(c->tbsCertStart, c->pool);
        c->tbsCertStart = NULL;
        g_tbsLeakMasked++;
    }
    psX509FreeCert(c);
}

struct Mx {
    std::vector<psX509Cert_t *> chain, anchors;   // individually parsed, then linked through ->next
    std::vector<int> anchorNode;                  // node id per loaded anchor
    bool chainParsed = true; int parseFailPos = -1; int32 parseRc = 0; int parseStatus = 0;
    int anchorsFailed = 0;
    bool called = false;
    int32 rc = 0;
    std::vector<int32> status; std::vector<uint32> flags; std::vector<int> order;   // per cert after validation, in list order; order = chain index
    int foundNode = -1;
    bool foundUnparsed = false; // the trust-store entry reported as issuer has parseStatus != PS_X509_PARSE_SUCCESS
    int bundleEntries = 0, bundleUnparsed = 0;
    bool nullIssuerCalled = false; int32 nullIssuerRc = 0;     // empty trust store: API called with issuerCerts == NULL (counted only)
    bool ownsStore = true;      // false: anchors and the CRL cache belong to a longer-lived Mx (history mode)
    ~Mx()
    {
        // every cert was parsed on its own: unlink before freeing so nothing is freed twice
        for (auto *c : chain) if (c) { c->next = NULL; }
        for (auto *c : chain) if (c) free_cert(c);
        if (!ownsStore) return;
        for (auto *c : anchors) if (c) { c->next = NULL; }
        for (auto *c : anchors) if (c) free_cert(c);
        psCRL_DeleteAll();
    }
};

static const char *rc_name(int32 rc)
{
    switch (rc)
    {
    case PS_SUCCESS: return "SUCCESS";
    case PS_CERT_AUTH_PASS: return "PASS";
    case PS_CERT_AUTH_FAIL_BC: return "FAIL_BC";
    case PS_CERT_AUTH_FAIL_DN: return "FAIL_DN";
    case PS_CERT_AUTH_FAIL_SIG: return "FAIL_SIG";
    case PS_CERT_AUTH_FAIL_REVOKED: return "FAIL_REVOKED";
    case PS_CERT_AUTH_FAIL: return "FAIL";
    case PS_CERT_AUTH_FAIL_EXTENSION: return "FAIL_EXTENSION";
    case PS_CERT_AUTH_FAIL_PATH_LEN: return "FAIL_PATH_LEN";
    case PS_CERT_AUTH_FAIL_AUTHKEY: return "FAIL_AUTHKEY";
    case PS_PARSE_FAIL: return "PARSE_FAIL";
    case PS_UNSUPPORTED_FAIL: return "UNSUPPORTED_FAIL";
    case PS_ARG_FAIL: return "ARG_FAIL";
    case PS_LIMIT_FAIL: return "LIMIT_FAIL";
    case PS_MEM_FAIL: return "MEM_FAIL";
    case PS_FAILURE: return "FAILURE";
    default: return "OTHER";
    }
}

// 1. presented chain: one psX509ParseCert per certificate, linked leaf-first (hsDecode.c parseCertificate)
static bool parse_chain(const Case &cs, Mx &mx)
{
    for (size_t i = 0; i < cs.chain.size(); i++)
    {
        const Bytes &der = cs.n[(size_t) cs.chain[i]].der;
        psX509Cert_t *cert = NULL;
        int32 rc = psX509ParseCert(NULL, der.data(), (uint32) der.size(), &cert, 0);
        mx.chain.push_back(cert);
        if (rc < 0)
        {
            mx.chainParsed = false; mx.parseFailPos = (int) i; mx.parseRc = rc; mx.parseStatus = cert ? (int) cert->parseStatus : -1;
            return false;       // the handshake layer aborts here
        }
        if (i > 0) mx.chain[i - 1]->next = cert;
    }
    return true;
}
// 2. trust anchors.  Either one psX509ParseCert per certificate (an application that holds its CAs one by one: a certificate that does
//    not parse cannot be loaded), or - cs.anchorBundle - the whole CA file in one call with the flags of matrixSslAddTrustAnchors
//    (matrixsslKeys.c: CERT_STORE_DN_BUFFER | CERT_ALLOW_BUNDLE_PARTIAL_PARSE); the list the library hands back IS keys->CAcerts,
//    entries that failed to parse included ("a dummy psX509Cert_t will be added to the CAcerts list", matrixsslConfig.h).
static void parse_anchors(const Case &cs, Mx &mx)
{
    if (cs.anchorBundle)
    {
        Bytes file;
        for (int a : cs.anchors) file.insert(file.end(), cs.n[(size_t) a].der.begin(), cs.n[(size_t) a].der.end());
        psX509Cert_t *list = NULL;
        int32 rc = psX509ParseCert(NULL, file.data(), (uint32) file.size(), &list, CERT_STORE_DN_BUFFER | CERT_ALLOW_BUNDLE_PARTIAL_PARSE);
        size_t i = 0;
        for (psX509Cert_t *p = list; p != NULL; p = p->next, i++)
        {
            mx.anchors.push_back(p);
            mx.anchorNode.push_back(i < cs.anchors.size() ? cs.anchors[i] : -1);       // entries come back in file order
            mx.bundleEntries++;
            if (p->parseStatus != PS_X509_PARSE_SUCCESS) mx.bundleUnparsed++;
        }
        if (rc <= 0)
        {
            // matrixSslAddTrustAnchors: "Failed to load any CA certs" -> the key load fails, the application has no trust store
            mx.anchorsFailed += mx.bundleEntries;
            for (auto *c : mx.anchors) c->next = NULL;
            for (auto *c : mx.anchors) free_cert(c);
            mx.anchors.clear(); mx.anchorNode.clear();
        }
        return;
    }
    for (int a : cs.anchors)
    {
        const Bytes &der = cs.n[(size_t) a].der;
        psX509Cert_t *cert = NULL;
        int32 rc = psX509ParseCert(NULL, der.data(), (uint32) der.size(), &cert, 0);
        if (rc < 0) { free_cert(cert); mx.anchorsFailed++; continue; }
        if (!mx.anchors.empty()) mx.anchors.back()->next = cert;
        mx.anchors.push_back(cert);
        mx.anchorNode.push_back(a);
    }
}
// 3. a CRL (apps/ssl/client.c fetchParseAndAuthCRLfromUrl): parse, put into the global cache (replacing the CRL of the same
//    issuer), authenticate against the loaded CAs and then against further certificates the application holds
static void load_crl(Crl &r, psX509Cert_t *cas, psX509Cert_t *more)
{
    psX509Crl_t *crl = NULL;
    r.mxAuthenticated = false;
    if (psX509ParseCRL(NULL, &crl, r.der.data(), (int32) r.der.size()) < 0) { r.mxParsed = false; return; }
    r.mxParsed = true;
    psCRL_Update(crl, 1);
    psX509Cert_t *ic;
    for (ic = cas; ic != NULL; ic = ic->next) if (psX509AuthenticateCRL(ic, crl, NULL) >= 0) break;
    if (crl->authenticated == 0)
        for (ic = more; ic != NULL; ic = ic->next) if (psX509AuthenticateCRL(ic, crl, NULL) >= 0) break;
    r.mxAuthenticated = crl->authenticated == 1;
}
// 4. validate
static void validate(const Case &cs, Mx &mx)
{
    matrixValidateCertsOptions_t opts;
    memset(&opts, 0, sizeof opts);
    if (cs.revalidateDates) opts.flags |= VCERTS_FLAG_REVALIDATE_DATES;
    if (cs.reorderFirst) matrixSslReorderCertChain(mx.chain[0]);        // tls13Authenticate.c
    psX509Cert_t *found = NULL;
    mx.called = true;
    mx.rc = matrixValidateCertsExt(NULL, mx.chain[0], mx.anchors[0], NULL, &found, NULL, NULL, &opts);
    for (psX509Cert_t *p = mx.chain[0]; p != NULL; p = p->next)
    {
        mx.status.push_back(p->authStatus);
        mx.flags.push_back(p->authFailFlags);
        int idx = -1;
        for (size_t i = 0; i < mx.chain.size(); i++) if (mx.chain[i] == p) idx = (int) i;
        mx.order.push_back(idx);
        if (mx.status.size() > mx.chain.size()) break;     // reordering must not create a cycle
    }
    for (size_t i = 0; i < mx.anchors.size(); i++)
        if (mx.anchors[i] == found) { mx.foundNode = mx.anchorNode[i]; mx.foundUnparsed = found->parseStatus != PS_X509_PARSE_SUCCESS; }
}

static void run_matrixssl(Case &cs, Mx &mx)
{
    if (!parse_chain(cs, mx)) return;
    parse_anchors(cs, mx);
    if (mx.anchors.empty())
    {
        // No CA material.  issuerCerts == NULL is a documented mode of the API ("To validate a single, self-signed certificate, the
        // issuerCerts parameter must be set to NULL", CertificatesAndCRLs 2.1.5; matrixssl/test/certValidate.c relies on it): it checks
        // the chain against its own self-signed top and says nothing about the caller's trust.  Not judged here - what the TLS layer
        // makes of that PS_SUCCESS (hsDecode.c adds an UNKNOWN_CA guard, tls13Authenticate.c does not) is C04's subject; only counted.
        matrixValidateCertsOptions_t opts;
        memset(&opts, 0, sizeof opts);
        psX509Cert_t *found = NULL;
        mx.nullIssuerRc = matrixValidateCertsExt(NULL, mx.chain[0], NULL, NULL, &found, NULL, NULL, &opts);
        mx.nullIssuerCalled = true;
        return;
    }
    for (auto &r : cs.crls) load_crl(r, mx.anchors[0], mx.chain[0]);
    validate(cs, mx);
}

static void dump_case(const Case &cs)
{
    const char *dir = getenv("C03_DUMP");
    if (!dir) return;
    for (size_t i = 0; i < cs.chain.size(); i++)
        vf::write_file(std::string(dir) + "/chain" + std::to_string(i) + ".der", cs.n[(size_t) cs.chain[i]].der.data(), cs.n[(size_t) cs.chain[i]].der.size());
    for (size_t i = 0; i < cs.anchors.size(); i++)
        vf::write_file(std::string(dir) + "/anchor" + std::to_string(i) + ".der", cs.n[(size_t) cs.anchors[i]].der.data(), cs.n[(size_t) cs.anchors[i]].der.size());
    for (size_t i = 0; i < cs.crls.size(); i++)
        vf::write_file(std::string(dir) + "/crl" + std::to_string(i) + ".der", cs.crls[i].der.data(), cs.crls[i].der.size());
}

// ------------------------------------------------------------------------------------------------ property
static void judge(Case &cs, Mx &mx, vf::Ctx &c, const std::string &where);

static void prop(vf::Tape &t, vf::Ctx &c)
{
    mint::reseed(0xC03);
    Gen g(t);
    Case cs = g.run(C03_KIND);
    std::string err;
    if (!mint_all(cs, err)) { c.count("discard:mint-failed"); if (c.verbose) fprintf(stderr, "mint failed: %s\n", err.c_str()); throw vf::Discard(); }
    if (!selfcheck(cs, err)) { c.count("discard:HARNESS-SELFCHECK-MISMATCH"); fprintf(stderr, "[c03] selfcheck mismatch: %s\n", err.c_str()); throw vf::Discard(); }
    if (c.verbose) dump_case(cs);

    vfh_epoch_set(cs.now);      // MatrixSSL checks validity dates at parse time against time()
    Mx mx;
    run_matrixssl(cs, mx);
    vfh_epoch_set(c03::NOW);
    // a certificate that is valid now but uses a legal-yet-unusual date encoding: rejection is only counted (completeness is asserted
    // for RFC 5280-conformant encodings inside MatrixSSL's documented year range only)
    {
        bool any = false;
        for (int id : cs.chain) if (cs.n[(size_t) id].dateUnusual) any = true;
        for (int id : cs.anchors) if (cs.n[(size_t) id].dateUnusual) any = true;
        if (any)
        {
            Case plain = cs;
            for (auto &x : plain.n) x.dateUnusual = false;
            if (must_accept(plain))
            {
                bool ok = mx.called && mx.rc == PS_SUCCESS;
                c.count(ok ? "date:unusual-encoding-valid-now:accepted" : "date:unusual-encoding-valid-now:REJECTED(counted-only)");
            }
        }
    }
    judge(cs, mx, c, "");
}

// Statistics and the three oracle checks for one validation; `where` prefixes the failure detail in history mode.
static void judge(Case &cs, Mx &mx, vf::Ctx &c, const std::string &where)
{
    bool allPass = mx.called && !mx.status.empty();
    int firstBad = -1;
    for (size_t i = 0; i < mx.status.size(); i++) if (mx.status[i] != PS_CERT_AUTH_PASS) { allPass = false; if (firstBad < 0) firstBad = (int) i; }
    if (mx.called && mx.status.size() != mx.chain.size()) allPass = false;
    bool rcOk = mx.called && mx.rc == PS_SUCCESS;
    bool success = rcOk && allPass;

    std::string whyNot;
    bool may = may_accept(cs);
    bool must = must_accept(cs, &whyNot);
    std::string d = where + describe(cs);
    std::string verdict = !mx.chainParsed ? vf::fmt("chain-parse-fail@%d(rc=%d,status=%d)", mx.parseFailPos, mx.parseRc, mx.parseStatus)
                        : !mx.called ? "no-anchor-loaded"
                        : vf::fmt("rc=%d(%s)", mx.rc, rc_name(mx.rc));
    if (mx.called)
    {
        verdict += " authStatus=[";
        for (size_t i = 0; i < mx.status.size(); i++) verdict += vf::fmt("%s%s/%x", i ? "," : "", rc_name(mx.status[i]), mx.flags[i]);
        verdict += vf::fmt("] found=#%d", mx.foundNode);
    }
    if (c.verbose) fprintf(stderr, "[c03] %s\n      => %s | ref may=%d must=%d(%s)\n", d.c_str(), verdict.c_str(), may, must, whyNot.c_str());

    // ---- statistics
    if (g_tbsLeakMasked) { c.count("note:tbs-buffer-released-by-harness(ed25519-signed,non-ed25519-key)", g_tbsLeakMasked); g_tbsLeakMasked = 0; }
    c.count("kind:" + cs.kind);
    c.count("shape:" + cs.shape);
    c.count("anchors:" + cs.anchorKind);
    c.count("len:" + std::to_string(cs.chain.size()));
    for (auto &df : cs.defects) c.count("defect:" + df.cls);
    if (cs.defects.empty()) c.count("defect:none");
    if (!cs.crls.empty()) c.count("with-crl");
    for (auto &r : cs.crls) c.count(!r.mxParsed ? "crl:not-parsed" : r.mxAuthenticated ? "crl:authenticated" : "crl:not-authenticated");
    for (int id : cs.chain)
    {
        const Node &x = cs.n[(size_t) id];
        if (x.mislabel)
            c.count(std::string("mislabel:") + (mint::kind_is_rsa(kkind(x.signKey)) ? "rsa-signed-labelled-ecdsa" : "ec-signed-labelled-rsa")
                    + (x.sig == SIG_WRONGKEY ? ":wrong-key" : ":genuine") + (success ? ":accepted(counted-only)" : ":rejected"));
    }
    if (cs.reorderFirst) c.count("opt:reorder-first");
    if (cs.revalidateDates) c.count("opt:revalidate-dates");
    if (cs.anchorBundle)
    {
        c.count("opt:ca-bundle-load");
        if (mx.bundleUnparsed) c.count("bundle:has-unparsed-entry");
        if (mx.bundleEntries && mx.bundleEntries != (int) cs.anchors.size()) c.count("bundle:ENTRY-COUNT-DIFFERS");
        if (success && mx.foundUnparsed) c.count("bundle:success-through-unparsed-entry");
    }
    c.count(!mx.chainParsed ? "mx:chain-parse-reject" : !mx.called ? "mx:no-anchor" : success ? "mx:success" : std::string("mx:rc=") + rc_name(mx.rc));
    if (mx.anchorsFailed) c.count("mx:anchor-parse-failed");
    if (mx.nullIssuerCalled) c.count(std::string("no-anchor:api-with-NULL-issuers:rc=") + rc_name(mx.nullIssuerRc) + "(documented self-signed mode, counted only)");
    c.count(must ? "ref:must-accept" : may ? "ref:may-accept(dont-care)" : "ref:must-reject");
    c.count(std::string(success ? "agree:accept/" : "agree:reject/") + (must ? "must" : may ? "dontcare" : "reject"));
    if (mx.called && mx.rc < 0 && allPass) c.count("note:failure-rc-with-all-authstatus-pass");
    {
        std::string keys;
        for (int id : cs.chain) { keys += mint::kind_name(kkind(cs.n[(size_t) id].key)); keys += ","; }
        std::string defs;
        for (auto &df : cs.defects) defs += df.cls + "@" + std::to_string(df.pos) + ",";
        bool shaped = cs.shape != "inorder" && cs.shape != "root-appended";
        bool nontrivial = (cs.chain.size() >= 2 && (!cs.defects.empty() || shaped)) || (must && cs.chain.size() >= 3);
        if (nontrivial)
        {
            c.count("nontrivial");
            c.nontrivial(cs.kind + "|" + cs.shape + "|" + cs.anchorKind + "|" + std::to_string(cs.chain.size()) + "|" + defs + "|" + keys);
        }
    }
    c.sample(d + " => " + verdict + vf::fmt(" | ref may=%d must=%d", may, must));

    // ---- oracle
    // (1) documented contract of matrixValidateCertsExt (MatrixSSL_CertificatesAndCRLs 2.1.5): PS_SUCCESS means every certificate
    //     of the chain has authStatus PS_CERT_AUTH_PASS; any failed part of the validation gives an error return.
    if (mx.called && mx.rc >= 0 && !allPass)
    {
        int i = firstBad < 0 ? 0 : firstBad;
        VF_FAIL("success-with-failing-authstatus", "matrixValidateCertsExt returned %d but chain[%d].authStatus=%d(%s) authFailFlags=0x%x | %s => %s | ref may=%d",
            mx.rc, i, i < (int) mx.status.size() ? mx.status[(size_t) i] : 0, i < (int) mx.status.size() ? rc_name(mx.status[(size_t) i]) : "?",
            i < (int) mx.flags.size() ? mx.flags[(size_t) i] : 0, d.c_str(), verdict.c_str(), may);
    }
    // (2) soundness
    if (success && !may)
    {
        // one root cause whatever made the entry unparseable: validateCertsInner never looks at parseStatus of an issuerCerts entry
        std::string sig = mx.foundUnparsed ? "accepts-unparsed-trust-anchor" : first_violation(cs, mx.foundNode);
        VF_FAIL(sig, "MatrixSSL accepted a chain for which no valid path to a trust anchor exists | %s => %s", d.c_str(), verdict.c_str());
    }
    // (3) completeness
    if (must && !success)
    {
        std::string sig = !mx.chainParsed ? "rejects-valid-chain-at-parse" : !mx.called ? "rejects-valid-anchor-at-parse" : std::string("rejects-valid-chain-") + rc_name(mx.rc);
        VF_FAIL(sig, "MatrixSSL rejected a correctly ordered, fully valid chain of supported certificates | %s => %s", d.c_str(), verdict.c_str());
    }
}

// ------------------------------------------------------------------------------------------------ history of validations
// One trust store and one CRL cache (the library's global one), 2-4 validations.  The application loads and authenticates the
// CRL once (and may re-load / replace it between validations); after EVERY validation the same oracle applies.  What the
// application authenticated at load time is what counts: a certificate revoked by such a CRL must never validate, whatever was
// validated (and failed) before.
static void prop_history(vf::Tape &t, vf::Ctx &c)
{
    mint::reseed(0xC03);
    Gen g(t);
    Case cs = g.run(4);
    std::string err;
    if (!mint_all(cs, err)) { c.count("discard:mint-failed"); if (c.verbose) fprintf(stderr, "mint failed: %s\n", err.c_str()); throw vf::Discard(); }
    if (!selfcheck(cs, err)) { c.count("discard:HARNESS-SELFCHECK-MISMATCH"); fprintf(stderr, "[c03] selfcheck mismatch: %s\n", err.c_str()); throw vf::Discard(); }

    Mx store;                                   // owns the anchors and, through its destructor, the CRL cache
    parse_anchors(cs, store);
    if (store.anchors.empty()) { c.count("discard:no-anchor-loaded"); throw vf::Discard(); }
    // certificates of the genuine CAs the application may hold besides its trust store (e.g. kept from an earlier handshake)
    Mx known; known.ownsStore = false;
    if (cs.appTriesPathCAs)
    {
        for (auto &x : cs.n)
        {
            if (x.bc != mint::BC_TRUE || std::string(x.role) == "Impostor") continue;
            psX509Cert_t *cert = NULL;
            const Bytes &der = x.der;
            if (psX509ParseCert(NULL, der.data(), (uint32) der.size(), &cert, 0) < 0) { free_cert(cert); continue; }
            if (!known.chain.empty()) known.chain.back()->next = cert;
            known.chain.push_back(cert);
        }
    }
    psX509Cert_t *more = known.chain.empty() ? NULL : known.chain[0];
    for (auto &r : cs.crls) load_crl(r, store.anchors[0], more);
    c.count(std::string("hist:initial-crl-") + (!cs.crls[0].mxParsed ? "not-parsed" : cs.crls[0].mxAuthenticated ? "authenticated" : "not-authenticated"));
    if (cs.crls.size() > 1) c.count("hist:initial-other-issuer-crls", cs.crls.size() - 1);

    std::string seq;
    for (size_t k = 0; k < cs.steps.size(); k++)
    {
        const Case::Step &st = cs.steps[k];
        if (st.crlAction == 1)
        {
            load_crl(cs.crls[0], store.anchors[0], more);        // same CRL fetched again: replaces the cached one
            c.count("hist:crl-reloaded");
        }
        else if (st.crlAction == 2)
        {
            Crl a = cs.altCrls[(size_t) st.altIdx % cs.altCrls.size()];
            load_crl(a, store.anchors[0], more);                // newer CRL of the same issuer replaces the cached one
            cs.crls[0] = a;
            c.count("hist:crl-replaced");
        }
        if (st.otherLoad > 0 && !cs.otherCrls.empty())
        {
            // CRL of ANOTHER issuer fetched (psCRL_Update): replaces that issuer's cached CRL only; crls[0] stays the leaf issuer's CRL
            Crl o = cs.otherCrls[(size_t) (st.otherLoad - 1) % cs.otherCrls.size()];
            load_crl(o, store.anchors[0], more);
            bool had = false;
            for (size_t q = 1; q < cs.crls.size(); q++) if (name_eq(cs.crls[q].issuer, o.issuer)) { cs.crls[q] = o; had = true; }
            if (!had) cs.crls.push_back(o);
            c.count("hist:other-issuer-crl-loaded");
        }
        cs.chain = st.chain;
        cs.shape = st.what;
        cs.revalidateDates = st.revalidateDates;
        cs.reorderFirst = st.reorderFirst;
        seq += (k ? ">" : "") + st.what + (st.crlAction == 1 ? "(reload)" : st.crlAction == 2 ? "(replace)" : "") + (st.otherLoad ? "(+other-issuer-crl)" : "");
        Mx mx; mx.ownsStore = false;
        mx.anchors = store.anchors; mx.anchorNode = store.anchorNode;
        if (parse_chain(cs, mx)) validate(cs, mx);
        c.count("hist:step:" + st.what);
        judge(cs, mx, c, vf::fmt("history step %zu/%zu [%s] ", k + 1, cs.steps.size(), seq.c_str()));
    }
    c.count("hist:steps", cs.steps.size());
    c.nontrivial("history|" + cs.anchorKind + "|" + std::to_string(cs.mainDepth) + "|" + (cs.defects.empty() ? "" : cs.defects[0].cls) + "|" + seq);
}

#if C03_KIND == 4
VF_TARGET("c03_crl_history", prop_history, 768, 60)
#elif C03_KIND == 5
VF_TARGET("c03_dates", prop, 768, 60)
#elif C03_KIND == 6
VF_TARGET("c03_same_name", prop, 768, 60)
#elif C03_KIND == 7
VF_TARGET("c03_anchor_load", prop, 768, 60)
#elif C03_KIND == 1
VF_TARGET("c03_copied_sig", prop, 768, 60)
#elif C03_KIND == 2
VF_TARGET("c03_soft_defect", prop, 768, 60)
#elif C03_KIND == 3
VF_TARGET("c03_crl", prop, 768, 60)
#else
VF_TARGET("c03_x509_path", prop, 768, 60)
#endif

namespace vf {
void vf_global_init(int, char **)
{
    if (matrixSslOpen() < 0) { fprintf(stderr, "matrixSslOpen failed\n"); _exit(2); }
    const char *vd = getenv("VERIF_DIR");
    std::string dir = std::string(vd ? vd : "/verif") + "/props/C03/keys";
    std::string err;
    if (!mint::init(dir, &err)) { fprintf(stderr, "C03 key pool: %s\n", err.c_str()); _exit(2); }
    vfh_epoch_set(c03::NOW);
    vfh_clock_set_ms(1000000);
}
}
