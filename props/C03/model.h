// model.h - C03 abstract certificate universe, case generator and REFERENCE PATH VALIDATOR.
//
// Nothing in this file looks at DER, at OpenSSL objects or at MatrixSSL structures: a case is a set of abstract
// nodes (who holds which key, who really signed what, which names/dates/extensions were requested) and the
// reference decides from that description alone.
//
// Two reference predicates bound the behaviour the property allows:
//   may_accept  (upper bound, used for SOUNDNESS)   = the laxest reading of the C03 statement: some path
//       leaf -> ... -> trust anchor exists in which every rule that the statement names holds.  Where the statement
//       is silent (name chaining, AKI/SKI, EKU, date of the anchor, clock-skew tolerance) the reference is permissive.
//   must_accept (lower bound, used for COMPLETENESS) = the strictest reading: correctly ordered chain, every
//       feature inside the documented supported set, every check that MatrixSSL documents passes.
// MatrixSSL success  => may_accept   (else VIOLATION: accepted something the property forbids)
// must_accept        => MatrixSSL success (else VIOLATION: rejected a chain the property says is accepted)
// Everything in between is "don't care" and is only counted.
#pragma once
#include <algorithm>
#include <cstdint>
#include <string>
#include <vector>
#include "vf.h"
#include "mint.h"

namespace c03 {
using mint::Bytes;
using mint::Name;

static const int64_t NOW = 1790000000;     // harness/wraps.c pins time() to this (2026-09-21)
static const int64_t DAY = 86400;
static const int64_t LINGER = 86400;       // PS_X509_TIME_LINGER / PS_CRL_TIME_LINGER (documented clock-skew tolerance)

enum SigClass { SIG_OK = 0, SIG_BITFLIP, SIG_COPIED, SIG_WRONGKEY, SIG_ALGMISMATCH };
enum AkiClass { AKI_ABSENT = 0, AKI_MATCH, AKI_MISMATCH };
enum DateState { D_IN = 0, D_GREY, D_OUT };

static inline bool name_eq(const Name &a, const Name &b) { return a.c == b.c && a.o == b.o && a.cn == b.cn; }

struct Node {
    int id = 0;
    const char *role = "";
    int parent = -1;            // genuine issuer node (-1: none / self)
    bool selfIssued = false;    // root: issuer name = own name, signed with own key
    int key = 0;                // pool index of the certified key
    int signKey = 0;            // pool index of the key that really produced the signature
    Name subj, issuerName;
    int version = 3;
    Bytes serial;
    int64_t nb = -30 * DAY, na = 365 * DAY;   // offsets relative to the case's "now" = what the encoded dates MEAN per RFC 5280
    int nbEnc = mint::T_AUTO, naEnc = mint::T_AUTO;     // forced encodings (c03_dates): the characters below are emitted verbatim
    std::string nbStr, naStr;
    bool dateUnusual = false;   // legal but not RFC 5280-conformant / outside MatrixSSL's documented range: completeness not asserted
    int bc = mint::BC_ABSENT; bool bcCrit = false; int pathLen = -1;
    int ku = -1; bool kuCrit = false;
    int eku = 0; bool ekuCrit = false;        // 0 absent, else mint::EKU_*
    bool ski = false;
    int aki = AKI_ABSENT; Bytes akiBad; int akiKey = 0;   // akiKey: pool key whose identifier an AKI_MATCH extension carries
    int unk = 0;
    bool crlDp = false;
    int sig = SIG_OK; int sigSrc = -1; unsigned sigBit = 0;
    // both AlgorithmIdentifiers name the other signature family (EC signer labelled ...WithRSAEncryption, RSA signer ecdsa-with-...); the
    // signature itself is the genuine one by signKey with `hash`.  Soundness: still a genuine signature by that key with an enabled
    // algorithm, so the lax reference ignores the label; completeness is not asserted for such a non-conforming certificate.
    bool mislabel = false;
    mint::Hash hash = mint::H_SHA256;
    // filled by minting (opaque to the reference)
    Bytes der, sigBytes;
};

struct Crl {
    Name issuer;               // issuer name of the CRL
    int signKey = 0;
    bool sigBad = false;       // signature corrupted after signing
    int64_t next = 7 * DAY;    // nextUpdate offset (meaning per RFC 5280)
    int nextEnc = mint::T_AUTO; std::string nextStr;
    std::vector<int> revokedNodes;   // nodes whose serial is listed
    int extraSerials = 0;
    mint::Hash hash = mint::H_SHA256;
    bool aki = false;
    // results of loading into MatrixSSL (filled by the harness; used only to *weaken* the oracle)
    bool mxParsed = false, mxAuthenticated = false;
    Bytes der;
};

struct Defect { std::string cls; int pos; };

struct Case {
    std::vector<Node> n;
    std::vector<int> chain;      // presented chain, chain[0] = end entity
    std::vector<int> anchors;    // trust anchors in list order
    std::vector<Crl> crls;
    std::vector<Defect> defects; // bookkeeping for statistics only (the reference never reads it)
    std::string kind = "general", shape = "inorder", anchorKind = "root";
    int mainDepth = 0;
    bool revalidateDates = false, reorderFirst = false;
    int64_t now = NOW;          // virtual wall clock of this case (c03_dates moves it to calendar boundaries)
    // trust store loaded the way matrixSslLoadKeys does it (matrixsslKeys.c matrixSslAddTrustAnchors): ONE psX509ParseCert call over the
    // concatenated CA file with CERT_STORE_DN_BUFFER | CERT_ALLOW_BUNDLE_PARTIAL_PARSE; entries that fail to parse stay in the list
    bool anchorBundle = false;
    // ---- history mode (c03_crl_history): several validations against one trust store and one CRL cache
    bool history = false;
    bool appTriesPathCAs = false;        // when loading a CRL the application also tries the genuine CA certificates it knows
    std::vector<Crl> altCrls;            // CRLs the application may load later (replace the same-issuer CRL in the cache)
    std::vector<Crl> otherCrls;          // CRLs of OTHER issuers (root, foreign CA, unrelated root): loading one never changes what is known about
                                         // the leaf's issuer (the reference is per issuer name; apps/ssl/client.c loads one CRL per chain level)
    struct Step { std::vector<int> chain; std::string what; int crlAction = 0; int altIdx = 0; bool revalidateDates = false, reorderFirst = false;
                  int otherLoad = 0; };    // otherLoad: 0 none, else load otherCrls[otherLoad - 1] (psCRL_Update) before the step
    std::vector<Step> steps;             // crlAction before the step: 0 none, 1 re-load the current CRL, 2 load altCrls[altIdx]
};

// ------------------------------------------------------------------------------------------------ helpers
static inline mint::KeyKind kkind(int k) { return mint::keys()[(size_t) k].kind; }
static inline bool key_enabled(int k) { return kkind(k) != mint::K_RSA768; }
static inline bool hash_enabled(mint::Hash h) { return h == mint::H_SHA256 || h == mint::H_SHA384 || h == mint::H_SHA512; }
static inline bool in_list(const std::vector<int> &v, int x) { return std::find(v.begin(), v.end(), x) != v.end(); }

static inline DateState date_state(const Node &x)
{
    if (x.na < x.nb) return D_OUT;
    if (x.nb <= 0 && x.na >= 0) return D_IN;
    if (x.na < -LINGER || x.nb > LINGER) return D_OUT;
    return D_GREY;     // outside the window by less than the documented linger: neither direction is asserted
}

// ---- calendar arithmetic of the reference (proleptic Gregorian, no leap seconds), independent of libc and of MatrixSSL
static inline int64_t days_from_civil(int64_t y, unsigned m, unsigned d)
{
    y -= m <= 2;
    const int64_t era = (y >= 0 ? y : y - 399) / 400;
    const unsigned yoe = (unsigned) (y - era * 400);
    const unsigned doy = (153 * (m + (m > 2 ? -3 : 9)) + 2) / 5 + d - 1;
    const unsigned doe = yoe * 365 + yoe / 4 - yoe / 100 + doy;
    return era * 146097 + (int64_t) doe - 719468;
}
static inline void civil_from_epoch(int64_t t, int &y, int &mo, int &d, int &h, int &mi, int &sec)
{
    int64_t z = t / 86400, r = t % 86400;
    if (r < 0) { r += 86400; z -= 1; }
    h = (int) (r / 3600); mi = (int) (r % 3600 / 60); sec = (int) (r % 60);
    z += 719468;
    const int64_t era = (z >= 0 ? z : z - 146096) / 146097;
    const unsigned doe = (unsigned) (z - era * 146097);
    const unsigned yoe = (doe - doe / 1460 + doe / 36524 - doe / 146096) / 365;
    int64_t yy = (int64_t) yoe + era * 400;
    const unsigned doy = doe - (365 * yoe + yoe / 4 - yoe / 100);
    const unsigned mp = (5 * doy + 2) / 153;
    d = (int) (doy - (153 * mp + 2) / 5 + 1);
    mo = (int) (mp < 10 ? mp + 3 : mp - 9);
    y = (int) (yy + (mo <= 2));
}
// What a Time value MEANS (RFC 5280 4.1.2.5): UTCTime YYMMDDHHMM[SS]Z with YY >= 50 -> 19YY, YY < 50 -> 20YY;
// GeneralizedTime YYYYMMDDHHMMSSZ.  Returns false for strings the reference does not understand.
static inline bool rfc5280_epoch(int enc, const std::string &s, int64_t &epoch)
{
    size_t yl = enc == mint::T_UTC ? 2 : 4;
    if (s.size() != yl + 11 && !(enc == mint::T_UTC && s.size() == yl + 9)) return false;
    if (s.back() != 'Z') return false;
    for (size_t i = 0; i + 1 < s.size(); i++) if (s[i] < '0' || s[i] > '9') return false;
    auto num = [&](size_t at, size_t n) { int v = 0; for (size_t i = 0; i < n; i++) v = v * 10 + (s[at + i] - '0'); return v; };
    int y = num(0, yl);
    if (enc == mint::T_UTC) y += y >= 50 ? 1900 : 2000;
    int mo = num(yl, 2), d = num(yl + 2, 2), h = num(yl + 4, 2), mi = num(yl + 6, 2);
    int sec = s.size() == yl + 11 ? num(yl + 8, 2) : 0;
    if (mo < 1 || mo > 12 || d < 1 || d > 31 || h > 23 || mi > 59 || sec > 59) return false;
    epoch = days_from_civil(y, (unsigned) mo, (unsigned) d) * 86400 + h * 3600 + mi * 60 + sec;
    return true;
}
static inline std::string time_string(int enc, int64_t epoch)
{
    int y, mo, d, h, mi, sec;
    civil_from_epoch(epoch, y, mo, d, h, mi, sec);
    if (enc == mint::T_UTC) return vf::fmt("%02d%02d%02d%02d%02d%02dZ", y % 100, mo, d, h, mi, sec);
    return vf::fmt("%04d%02d%02d%02d%02d%02dZ", y, mo, d, h, mi, sec);
}
static inline int year_of(int64_t epoch) { int y, mo, d, h, mi, sec; civil_from_epoch(epoch, y, mo, d, h, mi, sec); return y; }

// Does the signature on `c` verify under the public key of `iss` with an enabled algorithm?
static inline bool sig_verifies(const Node &c, const Node &iss)
{
    if (!(c.sig == SIG_OK || c.sig == SIG_WRONGKEY)) return false;      // corrupted / copied / outer alg mismatch never verify
    if (c.signKey != iss.key) return false;
    if (!key_enabled(iss.key)) return false;
    if (kkind(c.signKey) != mint::K_ED25519 && !hash_enabled(c.hash)) return false;
    return true;
}

static inline bool crl_expired(const Crl &r) { return r.next < -LINGER; }
static inline bool crl_grey(const Crl &r) { return r.next < 0 && !crl_expired(r); }
static inline bool crl_lists(const Case &cs, const Crl &r, const Node &c)
{
    (void) cs;
    return in_list(r.revokedNodes, c.id);
}

// Laxest reading: `c` is revoked on the link c <- iss only by a CRL that was issued under c's issuer name, genuinely signed by
// iss's key, iss may sign CRLs, the CRL is current, and the library itself reported it authenticated when the harness loaded it.
static inline bool revoked_lax(const Case &cs, const Node &c, const Node &iss)
{
    for (auto &r : cs.crls)
    {
        if (!r.mxParsed || !r.mxAuthenticated) continue;
        if (r.sigBad || r.signKey != iss.key) continue;
        if (!name_eq(r.issuer, c.issuerName) || !name_eq(r.issuer, iss.subj)) continue;
        if (iss.ku < 0 || !(iss.ku & mint::KU_CRLSIGN)) continue;
        if (r.next < 0) continue;                   // expired or inside the linger band
        if (!hash_enabled(r.hash) && kkind(r.signKey) != mint::K_ED25519) continue;
        if (crl_lists(cs, r, c)) return true;
    }
    return false;
}
// Strictest reading: any loaded CRL under the issuer name that lists the serial and could possibly authenticate.
static inline bool revoked_strict(const Case &cs, const Node &c)
{
    for (auto &r : cs.crls)
    {
        if (!name_eq(r.issuer, c.issuerName) || !crl_lists(cs, r, c)) continue;
        if (r.sigBad) continue;                     // can never authenticate
        bool can = false;
        for (int a : cs.anchors) if (cs.n[(size_t) a].key == r.signKey) can = true;
        for (int a : cs.chain) if (cs.n[(size_t) a].key == r.signKey) can = true;
        if (cs.history) for (auto &x : cs.n) if (x.key == r.signKey) can = true;   // an earlier validation may have presented it
        if (can) return true;
    }
    return false;
}

// ------------------------------------------------------------------------------------------------ may_accept
static inline bool issuer_ok_lax(const Case &cs, const Node &iss, int below)
{
    bool isAnchor = in_list(cs.anchors, iss.id);
    // "no unrecognised critical extension occurs" is not limited to the certificates below the anchor (the date rule is): a CA certificate
    // that MatrixSSL itself cannot parse for that reason is not a usable trust anchor (it is only reachable through a partial bundle load)
    if (isAnchor && iss.unk == 2) return false;
    if (iss.version == 3)
    {
        if (iss.bc != mint::BC_TRUE) return false;
        if (iss.pathLen >= 0 && iss.pathLen < below) return false;
        if (iss.ku >= 0 && !(iss.ku & mint::KU_CERTSIGN)) return false;
    }
    else if (!isAnchor)
    {
        return false;       // a v1 certificate has no basicConstraints; only tolerated as a locally trusted anchor
    }
    return true;
}
static inline bool subject_ok_lax(const Node &c)
{
    if (date_state(c) == D_OUT) return false;
    if (c.unk == 2) return false;
    return true;
}
static inline bool link_ok_lax(const Case &cs, const Node &c, const Node &iss, int below)
{
    return sig_verifies(c, iss) && issuer_ok_lax(cs, iss, below) && !revoked_lax(cs, c, iss);
}
static inline bool lax_rec(const Case &cs, int cur, int below, std::vector<int> &visited)
{
    const Node &c = cs.n[(size_t) cur];
    if (below > 0 && in_list(cs.anchors, cur)) return true;     // reached a certificate that is itself a trust anchor
    if (!subject_ok_lax(c)) return false;
    for (int a : cs.anchors)
    {
        if (a != cur && link_ok_lax(cs, c, cs.n[(size_t) a], below)) return true;
    }
    for (int x : cs.chain)
    {
        if (in_list(visited, x)) continue;
        if (!link_ok_lax(cs, c, cs.n[(size_t) x], below)) continue;
        visited.push_back(x);
        // RFC 5280 6.1.4 (l): only certificates that are not self-issued (subject DN != issuer DN) use up path length
        const Node &xn = cs.n[(size_t) x];
        bool r = lax_rec(cs, x, below + (name_eq(xn.subj, xn.issuerName) ? 0 : 1), visited);
        visited.pop_back();
        if (r) return true;
    }
    return false;
}
static inline bool may_accept(const Case &cs)
{
    int leaf = cs.chain[0];
    if (in_list(cs.anchors, leaf)) return true;     // end entity directly trusted (zero-length path)
    std::vector<int> visited{ leaf };
    return lax_rec(cs, leaf, 0, visited);
}

// ------------------------------------------------------------------------------------------------ must_accept
static inline bool node_strict(const Node &x)
{
    // the certificate itself must be parseable: v3, supported key, supported signature algorithm (also on a trust anchor), no unknown critical extension
    if (x.sig == SIG_ALGMISMATCH || x.mislabel) return false;
    if (x.dateUnusual) return false;
    if (kkind(x.signKey) != mint::K_ED25519 && !hash_enabled(x.hash)) return false;
    return x.version == 3 && key_enabled(x.key) && date_state(x) == D_IN && x.unk != 2 && !x.serial.empty();
}
static inline bool link_strict(const Case &cs, const Node &c, const Node &iss, int below)
{
    if (c.sig != SIG_OK || c.signKey != iss.key) return false;
    if (kkind(c.signKey) != mint::K_ED25519 && !hash_enabled(c.hash)) return false;
    if (!name_eq(c.issuerName, iss.subj)) return false;
    if (iss.bc != mint::BC_TRUE) return false;
    if (iss.ku < 0 || !(iss.ku & mint::KU_CERTSIGN)) return false;       // MatrixSSL documents keyUsage as mandatory on CA certs (RFC 3280+)
    if (iss.pathLen >= 0 && iss.pathLen < below) return false;
    if (&c != &iss)
    {
        // an authorityKeyIdentifier, when present, must name the issuer's subjectKeyIdentifier (documented); a certificate WITHOUT the
        // extension states nothing about the issuer key and meets every rule of the property whether or not the issuer carries an SKI
        if (!((c.aki == AKI_MATCH && iss.ski) || c.aki == AKI_ABSENT)) return false;
    }
    else if (!(c.aki == AKI_ABSENT || (c.aki == AKI_MATCH && c.ski)))
    {
        return false;
    }
    if (revoked_strict(cs, c)) return false;
    return true;
}
// why == NULL or receives a short reason when the answer is false
static inline bool must_accept(const Case &cs, std::string *why = nullptr)
{
    auto no = [&](const char *w) { if (why) *why = w; return false; };
    size_t m = cs.chain.size();
    if (m == 0 || m > 5) return no("length");
    for (size_t i = 0; i < m; i++) for (size_t j = i + 1; j < m; j++) if (cs.chain[i] == cs.chain[j]) return no("dup");
    for (size_t j = 0; j + 1 < m; j++) if (cs.n[(size_t) cs.chain[j]].parent != cs.chain[j + 1]) return no("order");
    const Node &leaf = cs.n[(size_t) cs.chain[0]];
    const Node &top = cs.n[(size_t) cs.chain[m - 1]];
    if (leaf.eku != 0 && leaf.eku != mint::EKU_SERVER && leaf.eku != mint::EKU_CLIENT) return no("eku");
    for (size_t j = 0; j < m; j++) if (!node_strict(cs.n[(size_t) cs.chain[j]])) return no("node");
    // well-formed naming on every presented certificate: issuer name = subject name of the genuine issuer, self-issued only for roots
    for (size_t j = 0; j < m; j++)
    {
        const Node &x = cs.n[(size_t) cs.chain[j]];
        if (x.selfIssued ? !name_eq(x.issuerName, x.subj)
                         : (x.parent < 0 || !name_eq(x.issuerName, cs.n[(size_t) x.parent].subj) || name_eq(x.issuerName, x.subj))) return no("names");
    }
    for (size_t j = 0; j + 1 < m; j++)
        if (!link_strict(cs, cs.n[(size_t) cs.chain[j]], cs.n[(size_t) cs.chain[j + 1]], (int) j)) return no("link");
    bool caseA = top.parent >= 0 && !top.selfIssued && in_list(cs.anchors, top.parent);
    bool caseB = in_list(cs.anchors, top.id) && m >= 2;
    if (!caseA && !caseB) return no("anchor");
    if (caseA)
    {
        const Node &a = cs.n[(size_t) top.parent];
        if (!node_strict(a) || a.sig != SIG_OK) return no("anchor-node");
        if (!link_strict(cs, top, a, (int) m - 1)) return no("anchor-link");
    }
    if (caseB)
    {
        if (top.selfIssued)
        {
            if (top.signKey != top.key || !link_strict(cs, top, top, (int) m - 2)) return no("self-link");
        }
        else if (top.pathLen >= 0 && top.pathLen < (int) m - 2)
        {
            return no("self-link");
        }
    }
    // every other anchor must be plainly unrelated or fail on the signature, never on a soft (extension) check
    for (int ai : cs.anchors)
    {
        const Node &a = cs.n[(size_t) ai];
        if (ai == top.parent || ai == top.id) continue;
        if (name_eq(a.subj, top.issuerName) && a.key == top.signKey) return no("ambiguous-anchor");
    }
    return true;
}

// First rule that is broken along the path MatrixSSL itself walked (chain order, then the anchor it reported).
// Used only to name the failure signature when MatrixSSL accepted a case the reference rejects.
static inline std::string first_violation(const Case &cs, int foundAnchor)
{
    std::vector<int> path(cs.chain);
    if (foundAnchor >= 0) path.push_back(foundAnchor);
    int below = 0;      // intermediates below the issuer of the current link
    for (size_t j = 0; j + 1 < path.size(); j++)
    {
        const Node &c = cs.n[(size_t) path[j]];
        const Node &iss = cs.n[(size_t) path[j + 1]];
        bool last = (j + 2 == path.size()) && foundAnchor >= 0;
        if (path[j] == path[j + 1]) continue;       // the same certificate twice (duplicate, or the anchor presented in the chain)
        if (date_state(c) == D_OUT) return "accepts-out-of-date-cert";
        if (c.unk == 2) return "accepts-unknown-critical-ext";
        if (!sig_verifies(c, iss))
        {
            if (c.sig == SIG_COPIED) return last ? "accepts-copied-signature-as-root" : "accepts-copied-signature";
            if (c.sig == SIG_BITFLIP) return "accepts-corrupted-signature";
            if (c.sig == SIG_ALGMISMATCH) return "accepts-sigalg-mismatch";
            if (c.signKey != iss.key) return "accepts-signature-by-wrong-key";
            if (!key_enabled(iss.key)) return "accepts-weak-issuer-key";
            return "accepts-disabled-hash";
        }
        if (last && iss.unk == 2) return "accepts-unknown-critical-ext";      // the anchor itself parsed (else judge() names it accepts-unparsed-trust-anchor)
        if (iss.version == 3 && iss.bc != mint::BC_TRUE) return "accepts-non-ca-issuer";
        if (iss.version != 3 && !last) return "accepts-non-ca-issuer";
        if (iss.version == 3 && iss.pathLen >= 0 && iss.pathLen < below) return "accepts-pathlen-violation";
        if (iss.version == 3 && iss.ku >= 0 && !(iss.ku & mint::KU_CERTSIGN)) return "accepts-issuer-without-keycertsign";
        if (revoked_lax(cs, c, iss)) return "accepts-revoked-cert";
        if (!name_eq(iss.subj, iss.issuerName)) below++;        // this issuer is a (not self-issued) intermediate below the next one
    }
    return foundAnchor < 0 ? "accepts-without-anchor" : "accepts-invalid-path";
}

// ------------------------------------------------------------------------------------------------ generator
struct Gen {
    vf::Tape &t;
    Case cs;
    std::vector<bool> used;
    int nameCtr = 0;
    explicit Gen(vf::Tape &tape) : t(tape), used(mint::keys().size(), false) {}

    int key_of_kind(mint::KeyKind k)
    {
        const auto &ks = mint::keys();
        for (size_t i = 0; i < ks.size(); i++) if (ks[i].kind == k && !used[i]) { used[i] = true; return (int) i; }
        return -1;
    }
    int new_key()
    {
        unsigned r = (unsigned) t.below(100);
        mint::KeyKind k = r < 40 ? mint::K_P256 : r < 62 ? mint::K_ED25519 : r < 70 ? mint::K_P384 : r < 74 ? mint::K_P521
                        : r < 88 ? mint::K_RSA2048 : r < 94 ? mint::K_RSA1024 : mint::K_RSA3072;
        int i = key_of_kind(k);
        if (i < 0) i = key_of_kind(mint::K_P256);
        if (i < 0) i = key_of_kind(mint::K_ED25519);
        if (i < 0) { for (size_t j = 0; j < used.size(); j++) if (!used[j] && mint::keys()[j].kind != mint::K_RSA768) { used[j] = true; return (int) j; } }
        return i < 0 ? 0 : i;
    }
    Name new_name(const char *base)
    {
        Name nm;
        nm.c = "FI";
        nm.o = std::string("C03 Org ") + (char) ('A' + t.below(3));
        nm.cn = std::string(base) + " " + std::to_string(nameCtr++) + std::string((size_t) t.below(5), 'x');
        return nm;
    }
    Bytes new_serial(int id)
    {
        size_t len = 1 + (size_t) t.below(18);
        Bytes s(len);
        for (auto &b : s) b = t.u8();
        s[0] = (uint8_t) (1 + (s[0] % 0x7f));
        s.push_back((uint8_t) (0x10 + id));      // unique per node
        return s;
    }
    mint::Hash good_hash()
    {
        unsigned r = (unsigned) t.below(10);
        return r < 7 ? mint::H_SHA256 : r < 9 ? mint::H_SHA384 : mint::H_SHA512;
    }
    void good_dates(Node &x)
    {
        x.nb = -(int64_t) (2 + t.below(400)) * DAY - (int64_t) t.below(3600);
        unsigned r = (unsigned) t.below(16);
        if (r == 15) x.na = (int64_t) (30 * 365) * DAY;                 // 2056: GeneralizedTime
        else x.na = (int64_t) (2 + t.below(800)) * DAY + (int64_t) t.below(3600);
    }
    int add(const char *role, int parent, bool ca)
    {
        Node x;
        x.id = (int) cs.n.size();
        x.role = role;
        x.parent = parent;
        x.key = new_key();
        x.subj = new_name(role);
        if (parent < 0)
        {
            x.selfIssued = true; x.signKey = x.key; x.issuerName = x.subj;
        }
        else
        {
            x.signKey = cs.n[(size_t) parent].key; x.issuerName = cs.n[(size_t) parent].subj;
        }
        x.serial = new_serial(x.id);
        good_dates(x);
        x.hash = good_hash();
        unsigned v = (unsigned) t.u8();
        if (ca)
        {
            x.bc = mint::BC_TRUE; x.bcCrit = !(v & 1);
            x.ku = mint::KU_CERTSIGN | mint::KU_CRLSIGN | ((v & 2) ? mint::KU_DIGSIG : 0); x.kuCrit = !(v & 4);
            x.ski = !(v & 8);
            x.pathLen = -1;
        }
        else
        {
            x.bc = (v & 1) ? mint::BC_FALSE : mint::BC_ABSENT; x.bcCrit = (v & 2) != 0;
            x.ku = (v & 4) ? (mint::KU_DIGSIG | mint::KU_KEYENC) : -1; x.kuCrit = (v & 8) != 0;
            unsigned e = (v >> 4) & 3;
            x.eku = e == 1 ? mint::EKU_SERVER : e == 2 ? mint::EKU_CLIENT : 0; x.ekuCrit = (v & 64) != 0;
            x.ski = (v & 128) != 0;
        }
        unsigned w = (unsigned) t.u8();
        x.unk = (w & 7) == 7 ? 1 : 0;
        x.crlDp = (w & 0x18) == 0x18;
        // AKI follows the issuer's SKI unless a defect says otherwise
        if (parent >= 0) { x.aki = cs.n[(size_t) parent].ski ? AKI_MATCH : AKI_ABSENT; x.akiKey = cs.n[(size_t) parent].key; }
        else { x.aki = (x.ski && (w & 0x20)) ? AKI_MATCH : AKI_ABSENT; x.akiKey = x.key; }
        cs.n.push_back(x);
        return x.id;
    }
    // main path by chain index: 0 = leaf, 1.. = intermediates bottom-up, last = root
    std::vector<int> mainPath;
    Node &mp(int pos) { return cs.n[(size_t) mainPath[(size_t) pos]]; }
    int mpLen() const { return (int) mainPath.size(); }

    void resign_children_of(int id)     // a node's key changed: its genuine children are signed with the new key
    {
        for (auto &x : cs.n) if (x.parent == id) { x.akiKey = cs.n[(size_t) id].key; if (x.sig != SIG_WRONGKEY) x.signKey = cs.n[(size_t) id].key; }
        if (cs.n[(size_t) id].selfIssued) { cs.n[(size_t) id].signKey = cs.n[(size_t) id].key; cs.n[(size_t) id].akiKey = cs.n[(size_t) id].key; }
    }
    void note(const char *cls, int pos) { cs.defects.push_back(Defect{ cls, pos }); }
    // the CRL cache keeps one CRL per issuer name (psCRL_Update replaces): generate at most one per name
    bool add_crl(const Crl &r)
    {
        for (auto &o : cs.crls) if (name_eq(o.issuer, r.issuer)) return false;
        cs.crls.push_back(r);
        return true;
    }

    int other_node(int self)
    {
        int nn = (int) cs.n.size();
        int o = (int) t.below((uint64_t) nn);
        if (o == self) o = (o + 1) % nn;
        return o;
    }

    // ---- defect injection on the main path -----------------------------------------------------------
    void defect(unsigned cls, int subPos, int issPos)
    {
        int last = mpLen() - 1;                    // root position
        if (subPos > last) subPos = last;
        if (issPos < 1) issPos = 1;
        if (issPos > last) issPos = last;
        Node &s = mp(subPos);
        Node &i = mp(issPos);
        bool edSigner = kkind(s.signKey) == mint::K_ED25519;
        bool rsaSigner = mint::kind_is_rsa(kkind(s.signKey));
        switch (cls)
        {
        case 0: s.sig = SIG_BITFLIP; s.sigBit = (unsigned) t.u16(); note("sig-bitflip", subPos); break;
        case 1:
        {
            int src = other_node(s.id);
            if (cs.n[(size_t) src].sig == SIG_COPIED) { s.sig = SIG_BITFLIP; note("sig-bitflip", subPos); break; }
            s.sig = SIG_COPIED; s.sigSrc = src; note("sig-copied", subPos); break;
        }
        case 2:
        {
            int k = t.coin() ? new_key() : cs.n[(size_t) other_node(s.id)].key;
            if (k == s.signKey) k = new_key();
            s.sig = SIG_WRONGKEY; s.signKey = k; note("sig-wrongkey", subPos); break;
        }
        case 3: s.sig = SIG_ALGMISMATCH; note("sig-algmismatch", subPos); break;
        case 4:
            if (edSigner) { s.sig = SIG_BITFLIP; note("sig-bitflip", subPos); }
            else { s.hash = mint::H_SHA1; note("hash-sha1", subPos); }
            break;
        case 5:
            if (rsaSigner) { s.hash = mint::H_MD5; note("hash-md5", subPos); }
            else if (!edSigner) { s.hash = mint::H_SHA1; note("hash-sha1", subPos); }
            else { s.sig = SIG_BITFLIP; note("sig-bitflip", subPos); }
            break;
        case 6: s.na = -(int64_t) (2 + t.below(300)) * DAY; if (s.nb > s.na) s.nb = s.na - 10 * DAY; note("expired", subPos); break;
        case 7: s.nb = (int64_t) (2 + t.below(300)) * DAY; if (s.na < s.nb) s.na = s.nb + 10 * DAY; note("not-yet-valid", subPos); break;
        case 8:
            if (t.coin()) { s.na = -(int64_t) (600 + t.below(80000)); if (s.nb > s.na) s.nb = s.na - 10 * DAY; }
            else { s.nb = (int64_t) (600 + t.below(80000)); if (s.na < s.nb) s.na = s.nb + 10 * DAY; }
            note("date-within-linger", subPos); break;
        case 9: i.bc = mint::BC_ABSENT; i.pathLen = -1; note("issuer-bc-absent", issPos); break;
        case 10: i.bc = mint::BC_FALSE; i.pathLen = -1; note("issuer-bc-false", issPos); break;
        case 11:
            if (issPos >= 2 && i.bc == mint::BC_TRUE) { i.pathLen = (int) t.below((uint64_t) (issPos - 1)); note("pathlen-too-small", issPos); }
            else if (last >= 2) { Node &r = mp(last); r.pathLen = (int) t.below((uint64_t) (last - 1)); note("pathlen-too-small", last); }
            else { i.bc = mint::BC_FALSE; i.pathLen = -1; note("issuer-bc-false", issPos); }
            break;
        case 12: i.ku = mint::KU_DIGSIG | (t.coin() ? mint::KU_CRLSIGN : 0); note("issuer-ku-no-certsign", issPos); break;
        case 13: i.ku = -1; note("issuer-ku-absent", issPos); break;
        case 14: { Node &l = mp(0); l.eku = mint::EKU_CODESIGN; l.ekuCrit = t.coin(); note(l.ekuCrit ? "leaf-eku-critical-other" : "leaf-eku-other", 0); break; }
        case 15: if (s.selfIssued && subPos == last) { s.ski = true; } s.aki = AKI_MISMATCH; s.akiBad = t.vec(20); note("aki-mismatch", subPos); break;
        case 16:
            if (subPos < last && t.coin()) { s.aki = AKI_ABSENT; mp(subPos + 1).ski = true; }
            else if (subPos < last) { s.aki = AKI_MATCH; mp(subPos + 1).ski = false; }
            note("aki-ski-inconsistent", subPos); break;
        case 17: s.unk = 2; note("unknown-critical-ext", subPos); break;
        case 18: s.version = 1; note("v1", subPos); break;
        case 19:
        {
            int o = other_node(s.id);
            if (name_eq(cs.n[(size_t) o].subj, s.issuerName)) { s.issuerName = new_name("Nobody"); }
            else s.issuerName = cs.n[(size_t) o].subj;
            if (s.selfIssued) s.selfIssued = false;
            note("issuer-name-mismatch", subPos); break;
        }
        case 20:
        {
            int k = key_of_kind(mint::K_RSA768);
            if (k < 0) { s.sig = SIG_BITFLIP; note("sig-bitflip", subPos); break; }
            s.key = k; resign_children_of(s.id); note("weak-rsa-key", subPos); break;
        }
        case 21:
        {
            if (subPos >= last) subPos = last - 1;
            Node &c = mp(subPos); Node &ci = mp(subPos + 1);
            Crl r; r.issuer = c.issuerName; r.signKey = ci.key; r.revokedNodes.push_back(c.id); r.hash = good_hash();
            r.extraSerials = (int) t.below(3); r.aki = t.coin();
            if (add_crl(r)) note("revoked", subPos);
            break;
        }
        case 22: s.nb = 100 * DAY; s.na = -100 * DAY; note("dates-inverted", subPos); break;
        default: break;
        }
    }
    enum { NDEFECT = 23 };

    // ---- universe -----------------------------------------------------------------------------------
    int twin = -1, twinOf = -1;
    std::vector<int> extraRoots, foreign;
    void build_universe(int depth)
    {
        int r0 = add("Root", -1, true);
        std::vector<int> cas;
        int p = r0;
        for (int d = 0; d < depth; d++) { p = add("Inter", p, true); cas.push_back(p); }
        int leaf = add("Leaf", p, false);
        mainPath.clear();
        mainPath.push_back(leaf);
        for (int d = depth - 1; d >= 0; d--) mainPath.push_back(cas[(size_t) d]);
        mainPath.push_back(r0);
        cs.mainDepth = depth;
        unsigned e = (unsigned) t.below(100);
        int nx = e < 50 ? 0 : e < 82 ? 1 : 2;
        for (int k = 0; k < nx; k++) extraRoots.push_back(add("OtherRoot", -1, true));
        if (t.coin())
        {
            int fp = extraRoots.empty() ? r0 : extraRoots[0];
            int fi = add("ForeignInter", fp, true);
            int fl = add("ForeignLeaf", fi, false);
            foreign.push_back(fi); foreign.push_back(fl);
        }
        // generous (non-violating) pathLen on some CAs
        for (int pos = 1; pos < mpLen(); pos++) if (t.chance(1, 4)) mp(pos).pathLen = (pos - 1) + (int) t.below(3);
    }
    void add_twin()
    {
        int pos = 1 + (int) t.below((uint64_t) (mpLen() - 1));
        const Node orig = mp(pos);
        Node x = orig;
        x.id = (int) cs.n.size();
        x.role = "Twin";
        x.key = new_key();
        x.signKey = x.key;                 // signed by the impostor's own key under the same issuer name
        x.serial = new_serial(x.id);
        x.sig = SIG_OK; x.sigSrc = -1;
        x.parent = orig.selfIssued ? -1 : -1;
        cs.n.push_back(x);
        twin = x.id; twinOf = orig.id;
    }

    // ---- chain shapes and anchor sets ------------------------------------------------------------------
    void shape_and_anchors()
    {
        int last = mpLen() - 1;
        std::vector<int> chain(mainPath.begin(), mainPath.begin() + last);      // without the root
        unsigned s = (unsigned) t.below(100);
        if (s < 55) cs.shape = "inorder";
        else if (s < 67) { chain.push_back(mainPath[(size_t) last]); cs.shape = "root-appended"; }
        else if (s < 75 && chain.size() >= 3)
        {
            // permute the intermediates (positions >= 1)
            for (size_t i = chain.size() - 1; i > 1; i--) { size_t j = 1 + (size_t) t.below(i); std::swap(chain[i], chain[j]); }
            if (chain == std::vector<int>(mainPath.begin(), mainPath.begin() + last)) std::swap(chain[1], chain[2]);
            cs.shape = "permuted";
        }
        else if (s < 81 && chain.size() >= 2)
        {
            chain.erase(chain.begin() + 1 + (long) t.below(chain.size() - 1)); cs.shape = "missing-link";
        }
        else if (s < 89 && (!foreign.empty() || !extraRoots.empty() || twin >= 0))
        {
            std::vector<int> pool(foreign); pool.insert(pool.end(), extraRoots.begin(), extraRoots.end()); if (twin >= 0) pool.push_back(twin);
            int x = pool[(size_t) t.below(pool.size())];
            size_t at = 1 + (size_t) t.below(chain.size());
            chain.insert(chain.begin() + (long) at, x); cs.shape = "foreign-extra";
        }
        else if (s < 94 && twin >= 0)
        {
            for (auto &c : chain) if (c == twinOf) c = twin;
            if (twinOf == mainPath[(size_t) last]) chain.push_back(twin);
            cs.shape = "twin-substituted";
        }
        else if (s < 97 && !extraRoots.empty()) { chain.push_back(extraRoots[0]); cs.shape = "wrong-root-appended"; }
        else if (s < 100 && chain.size() >= 2) { chain.insert(chain.begin() + 1, chain[(size_t) t.below(chain.size())]); cs.shape = "duplicate"; }
        while (chain.size() > 5) chain.pop_back();
        cs.chain = chain;

        int r0 = mainPath[(size_t) last];
        unsigned a = (unsigned) t.below(100);
        std::vector<int> an;
        if (a < 45) { an = { r0 }; cs.anchorKind = "root"; }
        else if (a < 65)
        {
            an = extraRoots; an.insert(an.begin() + (long) t.below(an.size() + 1), r0);
            cs.anchorKind = an.size() > 1 ? "root-among-others" : "root";
        }
        else if (a < 74)
        {
            an = extraRoots; if (an.empty()) an.push_back(add("OtherRoot", -1, true)); cs.anchorKind = "unrelated-only";
        }
        else if (a < 83 && last >= 2) { an = { mainPath[(size_t) last - 1] }; cs.anchorKind = "top-intermediate-as-root"; }
        else if (a < 87 && last >= 3) { an = { mainPath[1 + (size_t) t.below((uint64_t) last - 1)] }; cs.anchorKind = "some-intermediate-as-root"; }
        else if (a < 91 && last >= 2) { an = { r0, mainPath[(size_t) last - 1] }; if (t.coin()) std::swap(an[0], an[1]); cs.anchorKind = "root-and-intermediate"; }
        else if (a < 95 && twin >= 0) { an = { twin }; cs.anchorKind = "twin-only"; }
        else if (a < 100 && twin >= 0) { an = { r0, twin }; if (t.coin()) std::swap(an[0], an[1]); cs.anchorKind = "root-and-twin"; }
        else { an = { r0 }; cs.anchorKind = "root"; }
        cs.anchors = an;
    }

    static int depth_from(unsigned r) { return r < 25 ? 0 : r < 60 ? 1 : r < 85 ? 2 : 3; }

    void gen_general()
    {
        cs.kind = "general";
        build_universe(depth_from((unsigned) t.below(100)));
        if (t.chance(1, 4)) add_twin();
        unsigned nd = (unsigned) t.below(100);
        int ndef = nd < 38 ? 0 : nd < 86 ? 1 : 2;
        for (int k = 0; k < ndef; k++)
        {
            unsigned cls = (unsigned) t.below(NDEFECT + 3);
            if (cls >= NDEFECT) cls = cls == NDEFECT + 1 ? 1 : 11;     // extra weight: pathLen violations, copied signatures
            int sub = (int) t.below((uint64_t) mpLen());
            if (sub == mpLen() - 1 && !t.chance(1, 3)) sub = (int) t.below((uint64_t) (mpLen() - 1));
            int iss = 1 + (int) t.below((uint64_t) (mpLen() - 1));
            defect(cls, sub, iss);
        }
        if (twin >= 0 && t.chance(1, 3))
        {
            // a genuine child re-signed by the impostor ("signed by a different key under the same issuer name")
            for (auto &x : cs.n) if (x.parent == twinOf && x.sig == SIG_OK) { x.signKey = cs.n[(size_t) twin].key; x.sig = SIG_WRONGKEY; note("signed-by-twin", 0); break; }
        }
        shape_and_anchors();
        if (t.chance(1, 6)) benign_crl();
    }

    // a CRL that revokes nothing on the path (or is forged): must not disturb validation
    void benign_crl()
    {
        int pos = (int) t.below((uint64_t) (mpLen() - 1));
        Node &c = mp(pos); Node &ci = mp(pos + 1);
        Crl r; r.issuer = c.issuerName; r.signKey = ci.key; r.hash = good_hash(); r.extraSerials = 1 + (int) t.below(3); r.aki = t.coin();
        unsigned v = (unsigned) t.below(4);
        const char *cls = "crl-clean";
        if (v == 1) { r.sigBad = true; r.revokedNodes.push_back(c.id); cls = "crl-forged-lists-cert"; }
        else if (v == 2) { r.signKey = new_key(); r.revokedNodes.push_back(c.id); cls = "crl-wrong-signer-lists-cert"; }
        else if (!foreign.empty()) r.revokedNodes.push_back(foreign[0]);
        if (add_crl(r)) note(cls, pos);
    }

    // F4 class: exactly one "soft" defect that psX509AuthenticateCert records in authStatus
    void gen_soft()
    {
        cs.kind = "soft-defect";
        build_universe(depth_from((unsigned) t.below(100)));
        static const unsigned cl[] = { 6, 7, 12, 15, 22, 14, 6, 12, 15 };
        unsigned cls = cl[t.below(sizeof cl / sizeof cl[0])];
        int sub = (int) t.below((uint64_t) (mpLen() - 1));
        int iss = 1 + (int) t.below((uint64_t) (mpLen() - 1));
        defect(cls, sub, iss);
        int last = mpLen() - 1;
        cs.chain.assign(mainPath.begin(), mainPath.begin() + last);
        if (t.chance(1, 5)) { cs.chain.push_back(mainPath[(size_t) last]); cs.shape = "root-appended"; }
        cs.anchors = extraRoots;
        cs.anchors.insert(cs.anchors.begin() + (long) t.below(cs.anchors.size() + 1), mainPath[(size_t) last]);
        cs.anchorKind = cs.anchors.size() > 1 ? "root-among-others" : "root";
    }

    // F5 class: attacker-made CA whose signature field is copied from some other certificate (usually a trust anchor)
    void gen_attacker()
    {
        cs.kind = "attacker-ca";
        build_universe(depth_from((unsigned) t.below(100)));
        int last = mpLen() - 1;
        int r0 = mainPath[(size_t) last];
        // trust anchors: genuine roots (and sometimes a genuine intermediate)
        std::vector<int> an(extraRoots);
        an.insert(an.begin() + (long) t.below(an.size() + 1), r0);
        if (last >= 2 && t.chance(1, 4)) an.insert(an.begin() + (long) t.below(an.size() + 1), mainPath[(size_t) last - 1]);
        cs.anchors = an;
        cs.anchorKind = "genuine-anchors";
        int victim = an[(size_t) t.below(an.size())];
        // the forged CA
        int e = add("EvilCA", -1, true);
        Node &E = cs.n[(size_t) e];
        E.selfIssued = false;
        unsigned nv = (unsigned) t.below(8);
        if (nv < 3) E.issuerName = E.subj;                                   // looks self-issued
        else if (nv < 5) E.issuerName = new_name("Nonexistent CA");
        else if (nv < 7) E.issuerName = cs.n[(size_t) victim].subj;           // DN matches the anchor: the copied signature is really verified,
                                                                              // under whatever algorithm the forged certificate declares
        else E.issuerName = cs.n[(size_t) mainPath[0]].subj;
        E.aki = AKI_ABSENT;
        unsigned sv = (unsigned) t.below(8);
        E.sig = SIG_COPIED;
        E.sigSrc = sv < 6 ? victim : (sv < 7 ? mainPath[0] : r0);
        if (t.chance(1, 8)) { E.sig = SIG_OK; }                               // honest self-made CA (plain untrusted root)
        int issuer = e;
        int mid = -1;
        if (t.chance(1, 3))
        {
            mid = add("EvilSubCA", e, true);
            issuer = mid;
        }
        int el = add("EvilLeaf", issuer, false);
        cs.chain.clear();
        cs.chain.push_back(el);
        if (mid >= 0) cs.chain.push_back(mid);
        cs.chain.push_back(e);
        if (t.chance(1, 8)) { cs.chain.push_back(victim); cs.shape = "anchor-appended"; }
        else cs.shape = "inorder";
        note(cs.n[(size_t) e].sig == SIG_COPIED ? "attacker-ca-copied-sig" : "attacker-ca-selfsigned", (int) cs.chain.size() - 1);
    }

    // revocation focus
    void gen_crl()
    {
        cs.kind = "crl";
        build_universe(1 + depth_from((unsigned) t.below(100)) % 3);
        int last = mpLen() - 1;
        cs.chain.assign(mainPath.begin(), mainPath.begin() + last);
        if (t.chance(1, 6)) { cs.chain.push_back(mainPath[(size_t) last]); cs.shape = "root-appended"; }
        cs.anchors = extraRoots;
        cs.anchors.insert(cs.anchors.begin() + (long) t.below(cs.anchors.size() + 1), mainPath[(size_t) last]);
        cs.anchorKind = cs.anchors.size() > 1 ? "root-among-others" : "root";
        int ncrl = 1 + (int) t.below(2);
        for (int k = 0; k < ncrl; k++)
        {
            int pos = (int) t.below((uint64_t) last);
            Node &c = mp(pos); Node &ci = mp(pos + 1);
            Crl r; r.issuer = c.issuerName; r.signKey = ci.key; r.hash = good_hash(); r.extraSerials = (int) t.below(4); r.aki = t.coin();
            bool lists = !t.chance(1, 4);
            if (lists) r.revokedNodes.push_back(c.id);
            if (!foreign.empty() && t.coin()) r.revokedNodes.push_back(foreign[1]);
            unsigned v = (unsigned) t.below(16);
            const char *cls = lists ? "revoked" : "crl-clean";
            if (v == 8 || v == 9) { r.sigBad = true; cls = lists ? "crl-forged-lists-cert" : "crl-forged"; }
            else if (v == 10) { r.signKey = new_key(); cls = lists ? "crl-wrong-signer-lists-cert" : "crl-wrong-signer"; }
            else if (v == 11) { ci.ku = mint::KU_CERTSIGN | mint::KU_DIGSIG; cls = lists ? "crl-issuer-without-crlsign" : "crl-clean"; }
            else if (v == 12) { r.next = -(int64_t) (3 + t.below(100)) * DAY; cls = lists ? "crl-expired-lists-cert" : "crl-expired"; }
            else if (v == 13) { r.next = -(int64_t) (600 + t.below(80000)); cls = lists ? "crl-grey-lists-cert" : "crl-grey"; }
            if (!add_crl(r)) continue;
            note(cls, pos);
        }
    }

    // History of validations over one CRL cache.  The revocation verdict of a certificate must not depend on what was validated
    // before: failing validations through a same-name impostor / wrong-key parent, chains with and without the issuer presented,
    // CRL re-loads and replacements are interleaved, and the last steps tend to present the (revoked) leaf again.
    void gen_history()
    {
        cs.kind = "crl-history";
        cs.history = true;
        unsigned dr = (unsigned) t.below(100);
        build_universe(dr < 45 ? 0 : dr < 80 ? 1 : 2);
        int last = mpLen() - 1;
        int L = mainPath[0], I = mainPath[1], r0 = mainPath[(size_t) last];
        if (kkind(cs.n[(size_t) I].key) == mint::K_ED25519)
        {
            // MatrixSSL cannot parse Ed25519-signed CRLs; give the CRL issuer an ECDSA key so that the history is about a usable CRL
            int k = key_of_kind(mint::K_P256);
            if (k >= 0) { cs.n[(size_t) I].key = k; resign_children_of(I); }
        }
        int G = add("GoodLeaf", I, false);
        // impostor: the issuer's subject name, its own key, self-made signature
        {
            const Node orig = cs.n[(size_t) I];
            Node x = orig;
            x.id = (int) cs.n.size(); x.role = "Impostor"; x.key = new_key(); x.signKey = x.key; x.akiKey = x.key;
            x.serial = new_serial(x.id); x.sig = SIG_OK; x.sigSrc = -1; x.parent = -1;
            unsigned v = (unsigned) t.below(8);
            if (v == 6) x.ku = mint::KU_CERTSIGN | mint::KU_DIGSIG;         // impostor without cRLSign
            if (v == 7) x.selfIssued = false;
            cs.n.push_back(x);
            twin = x.id; twinOf = I;
        }
        int wrongCa = foreign.empty() ? add("ForeignInter", r0, true) : foreign[0];
        // trust store
        std::vector<int> an(extraRoots);
        an.insert(an.begin() + (long) t.below(an.size() + 1), r0);
        cs.anchorKind = an.size() > 1 ? "root-among-others" : "root";
        if (last >= 2)
        {
            unsigned a = (unsigned) t.below(100);
            if (a < 35) { an.insert(an.begin() + (long) t.below(an.size() + 1), I); cs.anchorKind = "root-and-issuer"; }
            else if (a < 50) { an = { I }; cs.anchorKind = "issuer-only"; }
        }
        cs.anchors = an;
        cs.appTriesPathCAs = !t.chance(2, 5);
        // the CRL of L's issuer
        {
            Crl r; r.issuer = cs.n[(size_t) I].subj; r.signKey = cs.n[(size_t) I].key; r.hash = good_hash(); r.extraSerials = (int) t.below(3); r.aki = t.coin();
            bool lists = !t.chance(1, 7);
            if (lists) r.revokedNodes.push_back(L);
            if (t.chance(1, 10)) r.revokedNodes.push_back(G);
            unsigned v = (unsigned) t.below(16);
            const char *cls = lists ? "revoked" : "crl-clean";
            if (v == 12) { r.sigBad = true; cls = "crl-forged"; }
            else if (v == 13) { r.signKey = cs.n[(size_t) twin].key; cls = "crl-signed-by-impostor"; }
            else if (v == 14) { r.next = -(int64_t) (3 + t.below(100)) * DAY; cls = "crl-expired"; }
            else if (v == 15) { cs.n[(size_t) I].ku = mint::KU_CERTSIGN | mint::KU_DIGSIG; cls = "crl-issuer-without-crlsign"; }
            cs.crls.push_back(r);
            note(cls, 0);
            Crl a; a.issuer = r.issuer; a.signKey = cs.n[(size_t) I].key; a.hash = good_hash(); a.extraSerials = 1; a.aki = r.aki;
            unsigned w = (unsigned) t.below(3);
            if (w == 1) a.revokedNodes.push_back(G);
            if (w == 2) { a.revokedNodes.push_back(L); a.revokedNodes.push_back(G); }
            cs.altCrls.push_back(a);
        }
        // steps
        std::vector<int> above;                                                      // genuine CAs above the issuer, root excluded
        if (last >= 2) above.assign(mainPath.begin() + 2, mainPath.begin() + last);
        int nsteps = 2 + (int) t.below(3);
        for (int k = 0; k < nsteps; k++)
        {
            Case::Step st;
            unsigned c = (unsigned) t.below(100);
            bool lastStep = k == nsteps - 1;
            if (lastStep && k > 0) c = c % 40;          // finish on the leaf again: alone or with its genuine parents
            int subj = L;
            std::vector<int> ch;
            if (c < 22) { ch = { L }; st.what = "leaf-alone"; }
            else if (c < 40) { ch = { L }; if (last >= 2) { ch.push_back(I); ch.insert(ch.end(), above.begin(), above.end()); } else ch.push_back(r0); st.what = "leaf+genuine-parents"; }
            else if (c < 58) { ch = { L, twin }; st.what = "leaf+impostor"; }
            else if (c < 66) { ch = { L, twin }; ch.insert(ch.end(), above.begin(), above.end()); if (t.coin()) ch.push_back(r0); st.what = "leaf+impostor+rest"; }
            else if (c < 74) { ch = { L, wrongCa }; st.what = "leaf+wrong-key-parent"; }
            else if (c < 80) { ch = { L, I, twin }; st.what = "leaf+issuer+impostor"; }
            else if (c < 88) { subj = G; ch = { G }; if (last >= 2 && t.coin()) ch.push_back(I); st.what = "sibling"; }
            else if (c < 96) { subj = G; ch = { G, twin }; st.what = "sibling+impostor"; }
            else { ch = { L, twin, I }; st.what = "leaf+impostor+issuer"; }
            (void) subj;
            while (ch.size() > 5) ch.pop_back();
            st.chain = ch;
            if (k > 0)
            {
                unsigned a = (unsigned) t.below(100);
                st.crlAction = a < 76 ? 0 : a < 88 ? 1 : 2;
            }
            unsigned o = (unsigned) t.u8();
            st.revalidateDates = (o & 7) == 7;
            st.reorderFirst = (o & 0x38) == 0x38;
            cs.steps.push_back(st);
        }
        cs.chain = cs.steps[0].chain;
        // CRLs of OTHER issuers, loaded through psCRL_Update after the leaf issuer's CRL (so that one is the FIRST cache entry) and/or
        // between validations.  Drawn last: tapes recorded before this dimension existed decode to the same case (exhausted tape = none).
        {
            auto other = [&](int ca, int lists) {
                const Node &x = cs.n[(size_t) ca];
                Crl r; r.issuer = x.subj; r.signKey = x.key; r.hash = good_hash(); r.extraSerials = 1 + (int) t.below(2); r.aki = t.coin();
                if (lists >= 0) r.revokedNodes.push_back(lists);
                for (auto &o : cs.otherCrls) if (name_eq(o.issuer, r.issuer)) return;
                if (name_eq(r.issuer, cs.crls[0].issuer)) return;
                cs.otherCrls.push_back(r);
            };
            unsigned pre = (unsigned) t.below(4);                    // 0: none, 1/3: one, 2: two other-issuer CRLs in the initial load
            other(wrongCa, -1);
            if (last >= 2) other(r0, (cs.n[(size_t) wrongCa].parent == r0 && t.coin()) ? wrongCa : -1);
            if (!extraRoots.empty()) other(extraRoots[0], -1);
            size_t npre = pre == 0 ? 0 : pre == 2 ? 2 : 1;
            size_t first = (size_t) t.below(cs.otherCrls.size());
            for (size_t k = 0; k < npre && k < cs.otherCrls.size(); k++) cs.crls.push_back(cs.otherCrls[(first + k) % cs.otherCrls.size()]);
            if (npre) note("other-issuer-crl-loaded-after", 0);
            for (size_t k = 1; k < cs.steps.size(); k++)
                if (t.below(5) == 1) cs.steps[k].otherLoad = 1 + (int) t.below(cs.otherCrls.size());
        }
    }

    // ---- trust store loading: one entry of the CA file is defective (usually: cannot be parsed), loaded as a bundle -----------------
    // The defective entry is the path's own root (then no valid path exists through it if the defect is one the property names) or an
    // unrelated entry before/after the good root (then the good path must still be accepted).
    void gen_anchor()
    {
        cs.kind = "anchor-load";
        unsigned dr = (unsigned) t.below(100);
        build_universe(dr < 45 ? 0 : dr < 85 ? 1 : 2);
        int last = mpLen() - 1;
        int r0 = mainPath[(size_t) last];
        if (extraRoots.empty()) extraRoots.push_back(add("OtherRoot", -1, true));     // a CA file whose only entry fails to parse cannot be loaded at all
        bool onPath = t.below(8) < 5;
        int target = onPath ? r0 : extraRoots[(size_t) t.below(extraRoots.size())];
        {
            Node &x = cs.n[(size_t) target];
            bool ed = kkind(x.signKey) == mint::K_ED25519, rsa = mint::kind_is_rsa(kkind(x.signKey));
            unsigned v = (unsigned) t.below(64);
            const char *cls;
            if (v < 20) { x.unk = 2; cls = "anchor-unknown-critical-ext"; }
            else if (v < 27) { x.version = 1; cls = "anchor-v1"; }
            else if (v < 33)
            {
                int k = key_of_kind(mint::K_RSA768);
                if (k >= 0) { x.key = k; resign_children_of(x.id); cls = "anchor-weak-rsa-key"; } else { x.unk = 2; cls = "anchor-unknown-critical-ext"; }
            }
            else if (v < 39 && !ed) { x.hash = rsa && t.coin() ? mint::H_MD5 : mint::H_SHA1; cls = "anchor-selfsig-weak-hash"; }
            else if (v < 44) { x.sig = SIG_BITFLIP; x.sigBit = (unsigned) t.u16(); cls = "anchor-selfsig-corrupt"; }
            else if (v < 48) { x.sig = SIG_ALGMISMATCH; cls = "anchor-sigalg-mismatch"; }
            else if (v < 54) { x.na = -(int64_t) (2 + t.below(300)) * DAY; cls = "anchor-expired"; }
            else cls = "anchor-clean";
            note((std::string(cls) + (onPath ? ":path-root" : ":other-entry")).c_str(), onPath ? last : -1);
        }
        // a child without authorityKeyIdentifier under an issuer that carries a subjectKeyIdentifier (and nothing else unusual)
        if (t.below(6) == 0)
        {
            int pos = (int) t.below((uint64_t) last);
            mp(pos).aki = AKI_ABSENT; mp(pos + 1).ski = true;
            if (mp(pos + 1).selfIssued && mp(pos + 1).aki == AKI_MATCH) { /* self AKI stays consistent with its own SKI */ }
            note("aki-absent-under-ski", pos);
        }
        cs.chain.assign(mainPath.begin(), mainPath.begin() + last);
        if (t.chance(1, 5)) { cs.chain.push_back(r0); cs.shape = "root-appended"; }
        cs.anchors = extraRoots;
        cs.anchors.insert(cs.anchors.begin() + (long) t.below(cs.anchors.size() + 1), r0);
        cs.anchorKind = cs.anchors.size() > 1 ? "root-among-others" : "root";
    }

    // ---- validity-date dimension: encodings x boundary years x position relative to "now" ------------------------------
    struct DateLit { int enc; const char *s; bool unusual; };
    // Give one validity bound of x a chosen encoding/instant.  x.nb / x.na always hold what the encoded characters MEAN per RFC 5280.
    void special_date(Node &x, bool after, int pos)
    {
        static const DateLit lits[] = {
            { mint::T_UTC, "490101000000Z", false }, { mint::T_UTC, "491231235959Z", false },
            { mint::T_UTC, "500101000000Z", false }, { mint::T_UTC, "501231235959Z", false },
            { mint::T_UTC, "510615120000Z", false }, { mint::T_UTC, "991231235959Z", false },
            { mint::T_UTC, "000101000000Z", false }, { mint::T_UTC, "000229120000Z", false },
            { mint::T_UTC, "700101000000Z", false }, { mint::T_UTC, "380119031408Z", false },
            { mint::T_GEN, "19500101000000Z", true }, { mint::T_GEN, "19491231235959Z", true },
            { mint::T_GEN, "19700101000000Z", true }, { mint::T_GEN, "20491231235959Z", true },
            { mint::T_GEN, "20500101000000Z", false }, { mint::T_GEN, "20991231235959Z", false },
            { mint::T_GEN, "21000228235959Z", false }, { mint::T_GEN, "99991231235959Z", false },
            { mint::T_GEN, "29991231235959Z", false }, { mint::T_GEN, "20380119031408Z", true },
        };
        static const DateLit exotic[] = {
            { mint::T_GEN, "30000101000000Z", true }, { mint::T_GEN, "99991231235958Z", true },
            { mint::T_UTC, "2601010000Z", true }, { mint::T_GEN, "19000101000000Z", true },
            { mint::T_GEN, "18991231235959Z", true }, { mint::T_UTC, "4912312359Z", true },
        };
        int enc = mint::T_AUTO; std::string str; int64_t off = 0; bool unusual = false; const char *cls;
        unsigned cat = (unsigned) t.below(100);
        if (cat < 45)
        {
            static const int64_t offs[] = { -LINGER - 1, -LINGER, -LINGER + 1, -1, 0, 1, LINGER - 1, LINGER, LINGER + 1, -3600, 3600 };
            off = offs[t.below(11)];
            int64_t abs = cs.now + off;
            int y = year_of(abs);
            unsigned e = (unsigned) t.below(4);
            if (e == 2) enc = (y >= 1950 && y <= 2049) ? mint::T_UTC : mint::T_GEN;
            else if (e == 3) { enc = mint::T_GEN; unusual = y < 2050; }      // GeneralizedTime before 2050: legal ASN.1, outside the RFC 5280 profile
            if (enc != mint::T_AUTO) str = time_string(enc, abs);
            cls = after ? "date-notafter-near-now" : "date-notbefore-near-now";
        }
        else
        {
            const DateLit &l = cat < 88 ? lits[t.below(sizeof lits / sizeof lits[0])] : exotic[t.below(sizeof exotic / sizeof exotic[0])];
            int64_t e = 0;
            enc = l.enc; str = l.s; unusual = l.unusual;
            if (!rfc5280_epoch(enc, str, e)) return;
            off = e - cs.now;
            cls = cat < 88 ? (after ? "date-notafter-boundary-year" : "date-notbefore-boundary-year")
                           : (after ? "date-notafter-exotic" : "date-notbefore-exotic");
        }
        if (after) { x.na = off; x.naEnc = enc; x.naStr = str; }
        else { x.nb = off; x.nbEnc = enc; x.nbStr = str; }
        if (unusual) x.dateUnusual = true;
        note(cls, pos);
        cs.defects.back().cls += std::string(":") + (enc == mint::T_AUTO ? "auto" : enc == mint::T_UTC ? "utc" : "gen");
    }
    void gen_dates()
    {
        cs.kind = "dates";
        unsigned nv = (unsigned) t.below(16);
        if (nv >= 10)
        {
            static const struct { int y, m, d; int64_t add; } nows[] = {
                { 2050, 1, 1, -1 }, { 2050, 1, 1, 0 }, { 2050, 1, 2, 1 }, { 2028, 2, 29, 86399 }, { 2038, 1, 19, 11648 }, { 2100, 3, 1, 0 },
            };
            cs.now = days_from_civil(nows[nv - 10].y, (unsigned) nows[nv - 10].m, (unsigned) nows[nv - 10].d) * 86400 + nows[nv - 10].add;
        }
        unsigned dr = (unsigned) t.below(100);
        build_universe(dr < 40 ? 0 : dr < 80 ? 1 : 2);
        int last = mpLen() - 1;
        cs.chain.assign(mainPath.begin(), mainPath.begin() + last);
        if (t.chance(1, 4)) { cs.chain.push_back(mainPath[(size_t) last]); cs.shape = "root-appended"; }
        cs.anchors = extraRoots;
        cs.anchors.insert(cs.anchors.begin() + (long) t.below(cs.anchors.size() + 1), mainPath[(size_t) last]);
        cs.anchorKind = cs.anchors.size() > 1 ? "root-among-others" : "root";
        int pos = (int) t.below((uint64_t) mpLen());
        if (pos == last && !t.chance(1, 2)) pos = (int) t.below((uint64_t) last);
        unsigned f = (unsigned) t.below(8);
        if (f < 4) special_date(mp(pos), true, pos);
        else if (f < 7) special_date(mp(pos), false, pos);
        else { special_date(mp(pos), false, pos); special_date(mp(pos), true, pos); }
        if (t.chance(1, 5)) special_date(mp((int) t.below((uint64_t) mpLen())), t.coin(), -1);      // a second certificate
        if (t.chance(3, 10))
        {
            // CRL of the leaf's issuer with a chosen nextUpdate encoding
            Node &c = mp(0); Node &ci = mp(1);
            Crl r; r.issuer = c.issuerName; r.signKey = ci.key; r.hash = good_hash(); r.extraSerials = (int) t.below(3); r.aki = t.coin();
            bool lists = !t.chance(3, 10);
            if (lists) r.revokedNodes.push_back(c.id);
            static const DateLit nx[] = { { mint::T_GEN, "20500101000000Z", false }, { mint::T_UTC, "491231235959Z", false },
                                          { mint::T_UTC, "500101000000Z", false }, { mint::T_GEN, "20491231235959Z", false } };
            unsigned v = (unsigned) t.below(10);
            const char *cls = lists ? "revoked" : "crl-clean";
            if (v < 4)
            {
                int64_t e = 0;
                r.nextEnc = nx[v].enc; r.nextStr = nx[v].s;
                if (rfc5280_epoch(r.nextEnc, r.nextStr, e)) r.next = e - cs.now; else { r.nextEnc = mint::T_AUTO; r.nextStr.clear(); }
                cls = lists ? "revoked:crl-next-boundary-year" : "crl-clean:crl-next-boundary-year";
            }
            else if (v < 7)
            {
                static const int64_t offs[] = { -LINGER - 1, 1, LINGER + 1 };
                r.next = offs[v - 4];
                cls = lists ? "revoked:crl-next-near-now" : "crl-clean:crl-next-near-now";
            }
            if (add_crl(r)) note(cls, 0);
        }
    }

    // ---- same-name structure: a certificate that REUSES its issuer's subject DN (looks self-issued, is signed by another key) ----
    // issuer = the end entity itself / an intermediate / the root, with basicConstraints absent / cA=FALSE / cA=TRUE (+pathLen) and
    // keyUsage absent / with / without keyCertSign; the same-name child is an end entity or a CA with a leaf below it (the latter
    // with a real CA as issuer is the key-rollover layout of RFC 5280).  Only the issuer's attributes decide: the reference applies
    // the ordinary rules, a shared name earns no exemption.
    void gen_samename()
    {
        cs.kind = "same-name";
        unsigned dr = (unsigned) t.below(100);
        build_universe(dr < 35 ? 0 : dr < 75 ? 1 : 2);
        int last = mpLen() - 1;
        unsigned pr = (unsigned) t.below(100);
        int pp = pr < 45 ? 0 : (last >= 2 && pr < 85) ? 1 + (int) t.below((uint64_t) (last - 1)) : pr < 93 ? last : 0;
        int P = mainPath[(size_t) pp];
        std::string cls = pp == 0 ? "ee-issuer" : pp == last ? "root-issuer" : "ca-issuer";
        {
            Node &p = cs.n[(size_t) P];
            unsigned bv = (unsigned) t.below(8);
            if (pp == 0) p.bc = bv < 3 ? mint::BC_ABSENT : bv < 6 ? mint::BC_FALSE : mint::BC_TRUE;
            else p.bc = bv < 5 ? mint::BC_TRUE : bv == 5 ? mint::BC_FALSE : bv == 6 ? mint::BC_ABSENT : mint::BC_TRUE;
            p.bcCrit = t.coin();
            p.pathLen = -1;
            if (p.bc == mint::BC_TRUE)
            {
                unsigned pv = (unsigned) t.below(4);
                p.pathLen = pv == 0 ? -1 : pv == 1 ? 0 : pv == 2 ? 1 : 3;
            }
            unsigned kv = (unsigned) t.below(8);
            if (kv < 3) p.ku = mint::KU_CERTSIGN | mint::KU_DIGSIG | (t.coin() ? mint::KU_CRLSIGN : 0);
            else if (kv < 5) p.ku = -1;
            else if (kv < 7) p.ku = mint::KU_DIGSIG | mint::KU_KEYENC;
            else p.ku = mint::KU_CERTSIGN;
            p.kuCrit = t.coin();
            cls += p.bc == mint::BC_TRUE ? ":bc=ca" : p.bc == mint::BC_FALSE ? ":bc=false" : ":bc=absent";
            cls += p.ku < 0 ? ":ku=absent" : (p.ku & mint::KU_CERTSIGN) ? ":ku=certsign" : ":ku=no-certsign";
        }
        bool sIsCa = t.below(100) < 45;
        int S = add(sIsCa ? "SameNameCA" : "SameNameLeaf", P, sIsCa);
        cs.n[(size_t) S].subj = cs.n[(size_t) P].subj;             // reuse the issuer's DN; issuerName is already that DN
        if (t.chance(1, 7)) { cs.n[(size_t) S].signKey = cs.n[(size_t) S].key; cs.n[(size_t) S].sig = SIG_WRONGKEY; cls += ":selfsigned"; }
        std::vector<int> ch;
        if (sIsCa) ch.push_back(add("LeafBelowSameName", S, false));
        ch.push_back(S);
        bool pIsRoot = pp == last;
        if (!pIsRoot || t.chance(1, 3)) ch.push_back(P);
        if (!pIsRoot)
        {
            for (int q = pp + 1; q < last; q++) ch.push_back(mainPath[(size_t) q]);
            if (t.chance(1, 5)) { ch.push_back(mainPath[(size_t) last]); cs.shape = "root-appended"; }
        }
        while (ch.size() > 5) ch.pop_back();
        cs.chain = ch;
        std::vector<int> an(extraRoots);
        an.insert(an.begin() + (long) t.below(an.size() + 1), mainPath[(size_t) last]);
        cs.anchorKind = an.size() > 1 ? "root-among-others" : "root";
        if (!pIsRoot)
        {
            unsigned av = (unsigned) t.below(100);
            if (av < 15) { an.insert(an.begin() + (long) t.below(an.size() + 1), P); cs.anchorKind = "root-and-pinned-issuer"; }
            else if (av < 22) { an = { P }; cs.anchorKind = "pinned-issuer-only"; }
        }
        cs.anchors = an;
        note(("same-name:" + cls + (sIsCa ? ":child=ca" : ":child=ee")).c_str(), pp);
    }

    Case run(int forcedKind)
    {
        if (forcedKind == 4) { gen_history(); return cs; }
        if (forcedKind == 6) { gen_samename(); finish_opts(); return cs; }
        if (forcedKind == 5) { gen_dates(); finish_opts(); return cs; }
        if (forcedKind == 7) { gen_anchor(); finish_opts(); cs.anchorBundle = !t.chance(1, 8); mislabel_some(); return cs; }
        unsigned k = (unsigned) t.below(100);
        int kind = forcedKind >= 0 ? forcedKind : (k < 70 ? 0 : k < 80 ? 1 : k < 92 ? 2 : k < 96 ? 3 : k < 98 ? 5 : 6);
        switch (kind)
        {
        case 5: gen_dates(); break;
        case 6: gen_samename(); break;
        case 1: gen_attacker(); break;
        case 2: gen_soft(); break;
        case 3: gen_crl(); break;
        default: gen_general(); break;
        }
        finish_opts();
        return cs;
    }
    // a certificate below the root whose algorithm identifiers name the other signature family (sometimes also signed by a wrong key)
    void mislabel_some()
    {
        unsigned m = (unsigned) t.below(8);
        if (m != 1 && m != 2) return;
        int pos = (int) t.below((uint64_t) (mpLen() - 1));
        Node &x = mp(pos);
        if (x.sig != SIG_OK || kkind(x.signKey) == mint::K_ED25519) return;
        x.mislabel = true;
        if (m == 2)
        {
            int k = new_key();
            if (kkind(k) != mint::K_ED25519 && k != x.signKey) { x.sig = SIG_WRONGKEY; x.signKey = k; note("sig-wrongkey", pos); }
        }
        note("sig-family-mislabel", pos);
    }
    void finish_opts()
    {
        unsigned o = (unsigned) t.u8();
        cs.revalidateDates = (o & 3) == 3;
        cs.reorderFirst = (o & 0x1c) == 0x1c;
        cs.anchorBundle = (o & 0x60) == 0x60;       // same option byte: tapes recorded earlier keep decoding to the same universe
    }
};

// ------------------------------------------------------------------------------------------------ description
static inline std::string describe_node(const Node &x)
{
    std::string s = vf::fmt("#%d:%s[%s", x.id, x.role, mint::kind_name(kkind(x.key)));
    s += vf::fmt(" by=%s/%s", mint::kind_name(kkind(x.signKey)), kkind(x.signKey) == mint::K_ED25519 ? "-" : mint::hash_name(x.hash));
    static const char *sg[] = { "", " sig=BITFLIP", " sig=COPIED", " sig=WRONGKEY", " sig=ALGMISMATCH" };
    s += sg[x.sig];
    if (x.sig == SIG_COPIED) s += vf::fmt("(from #%d)", x.sigSrc);
    if (x.mislabel) s += " alg-ids=OTHER-FAMILY";
    if (x.version != 3) s += " v1";
    DateState d = date_state(x);
    if (d != D_IN) s += vf::fmt(" date=%s(nb%+lldd,na%+lldd)", d == D_OUT ? "OUT" : "GREY", (long long) (x.nb / DAY), (long long) (x.na / DAY));
    if (x.nbEnc) s += vf::fmt(" notBefore=%s'%s'(%+llds)", x.nbEnc == mint::T_UTC ? "UTC" : "GEN", x.nbStr.c_str(), (long long) x.nb);
    if (x.naEnc) s += vf::fmt(" notAfter=%s'%s'(%+llds)", x.naEnc == mint::T_UTC ? "UTC" : "GEN", x.naStr.c_str(), (long long) x.na);
    if (x.dateUnusual) s += " date-unusual";
    s += x.bc == mint::BC_TRUE ? " CA" : x.bc == mint::BC_FALSE ? " bc=false" : "";
    if (x.pathLen >= 0) s += vf::fmt(" pl=%d", x.pathLen);
    if (x.ku >= 0) s += vf::fmt(" ku=%02x", x.ku);
    if (x.eku) s += vf::fmt(" eku=%d%s", x.eku, x.ekuCrit ? "!" : "");
    s += vf::fmt(" ski=%d aki=%d", x.ski ? 1 : 0, x.aki);
    if (x.unk) s += x.unk == 2 ? " unk=CRIT" : " unk";
    s += " iss='" + x.issuerName.cn + "' subj='" + x.subj.cn + "'";
    s += "]";
    return s;
}
static inline std::string describe(const Case &cs)
{
    std::string s = cs.kind + " shape=" + cs.shape + " anchors=" + cs.anchorKind;
    if (cs.now != NOW) s += " now=" + time_string(mint::T_GEN, cs.now);
    s += " chain=[";
    for (size_t i = 0; i < cs.chain.size(); i++) s += (i ? " " : "") + describe_node(cs.n[(size_t) cs.chain[i]]);
    s += "] trust=[";
    for (size_t i = 0; i < cs.anchors.size(); i++) s += (i ? " " : "") + describe_node(cs.n[(size_t) cs.anchors[i]]);
    s += "]";
    if (!cs.crls.empty())
    {
        s += " crls=[";
        for (auto &r : cs.crls)
        {
            s += vf::fmt("{by=%s%s next%+lldd%s%s lists:", mint::kind_name(kkind(r.signKey)), r.sigBad ? " FORGED" : "", (long long) (r.next / DAY),
                         r.nextEnc ? (r.nextEnc == mint::T_UTC ? " UTC:" : " GEN:") : "", r.nextStr.c_str());
            for (int x : r.revokedNodes) s += vf::fmt("#%d ", x);
            s += vf::fmt("mxauth=%d}", r.mxAuthenticated ? 1 : 0);
        }
        s += "]";
    }
    s += " defects=[";
    for (size_t i = 0; i < cs.defects.size(); i++) s += (i ? "," : "") + cs.defects[i].cls + "@" + std::to_string(cs.defects[i].pos);
    s += "]";
    if (cs.revalidateDates) s += " +revalidate-dates";
    if (cs.reorderFirst) s += " +reorder";
    if (cs.anchorBundle) s += " +ca-bundle-load";
    return s;
}

}  // namespace c03
