"""C03 registry entry (loaded by bin/registry.py)."""
import hashlib as _hl, os as _os
_D = _os.path.dirname(_os.path.abspath(__file__))
# the build cache keys on the listed sources and on this dict only: fold the headers in so that editing them rebuilds the targets
_HDR = _hl.sha256(b''.join(open(_os.path.join(_D, f), 'rb').read() for f in ('model.h', 'mint.h'))).hexdigest()[:10]
WRAPS = ['psGetEntropy', 'psGetTime', 'psDiffMsecs', 'psCompareTime', 'time']
_SRC = ['props/C03/x509_path.cc', 'props/C03/mint.cc', 'harness/wraps.c']
_ENV = {'VERIF_DIR': '/verif'}


def _t(name, kind, quick, thorough, tsecs):
    # cost is ~30 ms per case (ASan build: up to 9 certificates parsed, up to 5 signature verifications)
    d = dict(name=name, src=_SRC, libs=['-lcrypto'], wraps=WRAPS, env=_ENV,
             quick=dict(cases=quick, secs=70, shrink_secs=20), thorough=dict(cases=thorough, secs=tsecs))
    d['defs'] = ['C03_HDR_' + _HDR] + (['C03_KIND=%d' % kind] if kind is not None else [])
    return d


PROP = dict(
    level='exploration',
    level_text='Generated differential testing of psX509ParseCert + matrixValidateCertsExt (+ CRL cache) against a reference path '
               'validator that works on the abstract description of a generated certificate universe; certificates and CRLs are '
               'minted by an independent encoder (OpenSSL libcrypto). Finds accept/reject decisions that contradict the property '
               'for the explored chains; proves nothing about unexplored encodings or features.',
    level_note='Trusted: libcrypto X509/X509_CRL encoder and signer (self-checked per case with X509_verify), the abstract reference '
               '(two-sided: may_accept = laxest reading, must_accept = strictest reading; cases in between are only counted), the '
               'pinned clock (ld --wrap=time, now = 2026-09-21). Not covered here: max_verify_depth (enforced in the TLS layer, C04), '
               'name matching (C05), malformed DER (C09).',
    technique='property-based differential testing (tape generators + shrinking) against an executable reference model',
    rule='case = (universe of 1-3 roots, 0-3 intermediates, leaf, foreign branch, impostor twin; per-node key type from a pool of '
         'P-256/384/521, Ed25519, RSA 1024/2048/3072(/768), hash, names, validity, basicConstraints/pathLen, keyUsage, EKU, AKI/SKI, '
         'unknown (critical) extension, version, serial, signature class valid/bit-flipped/copied/wrong-key/alg-mismatch; presented chain '
         'in order/root appended/permuted/missing link/foreign extra/twin substituted/duplicate; anchor list; CRLs genuine/forged/'
         'wrong signer/no cRLSign/expired; c03_crl_history: sequences of 2-4 validations (leaf alone / with genuine parents / with a same-name impostor or wrong-key parent, sibling leaf) over one trust store and one CRL cache with CRL re-loads and replacements, same oracle after every step; c03_dates: one validity bound of one path certificate (leaf/intermediate/root) encoded as UTCTime YY in {49,50,51,99,00,70,38} or GeneralizedTime 1949/1950/1970/2038/2049/2050/2099/2100/2999/9999 or placed -86401..+86401 s around the virtual now in auto/UTCTime/GeneralizedTime encoding, virtual now also moved to 2049-12-31T23:59:59/2050-01-01/2028-02-29/2038-01-19/2100-03-01, CRL nextUpdate likewise; the reference reads dates per RFC 5280 4.1.2.5; c03_same_name: a certificate reusing the subject DN of its issuer (end entity / intermediate / root as issuer, basicConstraints absent/false/true+pathLen x keyUsage absent/with/without keyCertSign, child = end entity or CA with a leaf below, self-signed impostor variant, issuer also pinned as trust anchor), self-issued intermediates do not consume pathLen in the soundness reference (RFC 5280 6.1.4 l)); c03_anchor_load: the trust store is one CA file parsed in a single call with the flags of matrixSslAddTrustAnchors (CERT_ALLOW_BUNDLE_PARTIAL_PARSE), one entry - the root of the path or an unrelated entry before/after it - carries an unknown critical extension / is v1 / has a 768-bit key / weak-hash, corrupted or mislabelled self-signature / is expired (the option is also drawn in 1/4 of the cases of the other non-history generators); a trust anchor with an unrecognised critical extension is not a usable anchor for the reference, any accepted path whose reported issuer entry has parseStatus != SUCCESS gets the signature accepts-unparsed-trust-anchor; c03_crl_history also loads CRLs of OTHER issuers (root, foreign CA, unrelated root) through psCRL_Update after the CRL of the leaf issuer and between validations, the reference being per issuer name; c03_anchor_load also relabels both AlgorithmIdentifiers of a path certificate to the other signature family (EC signer labelled shaNNNWithRSAEncryption, RSA signer ecdsa-with-SHANNN; genuine or wrong-key signature): the lax reference ignores the label because the signature is still a genuine one by the issuer key with an enabled algorithm (acceptance is only counted, mislabel:* counters), a wrong-key signature must still be rejected; an empty trust store makes the harness call the API with issuerCerts == NULL (documented self-signed mode) and only count the result (TLS side: C04); completeness: a child WITHOUT authorityKeyIdentifier is accepted whether or not its issuer has a subjectKeyIdentifier (a present, mismatching identifier stays counted only). non-trivial = chain length >= 2 with an injected defect or non-standard shape, or a fully '
         'valid chain of length >= 3; distinct by (generator kind, shape, anchor kind, length, defect classes and positions, key types)',
    assumptions=['OpenSSL 3.0 libcrypto encodes and signs certificates/CRLs correctly',
                 'time() is the only wall-clock source of the certificate date check (interposed by ld --wrap)'],
    targets=[
        _t('c03_x509_path', None, 4200, 200000, 340),
        _t('c03_same_name', 6, 480, 16000, 50),        # children that reuse their issuer's subject DN
        _t('c03_copied_sig', 1, 480, 14000, 55),
        _t('c03_soft_defect', 2, 560, 14000, 55),
        _t('c03_crl', 3, 560, 20000, 60),
        _t('c03_crl_history', 4, 560, 20000, 80),      # sequences of 2-4 validations over one CRL cache
        _t('c03_dates', 5, 640, 24000, 60),            # date encodings x boundary years x position relative to "now"
        _t('c03_anchor_load', 7, 420, 16000, 50),      # CA file with one defective / unparseable entry, loaded as a bundle (matrixSslLoadKeys)
    ],
)
