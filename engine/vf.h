// vf.h - tiny tape-based property-testing engine used by every check in /verif.
//
// A *case* is a byte tape.  A property is a function that draws every random
// choice from the tape (vf::Tape), runs real library code, and throws vf::Fail
// when the oracle disagrees.  The same property function is driven by
//   (a) the seeded random driver (this file, main()),      -> PBT
//   (b) libFuzzer (define VF_LIBFUZZER)                     -> coverage-guided
//   (c) --replay <file>                                     -> regression/replay
// Failing tapes are shrunk Hypothesis-style (truncate, delete blocks, lower
// bytes) while the failure signature stays the same, and written as replay files.
//
// Everything is a pure function of (code under test, --seed, --shard).
#pragma once
#include <cstdint>
#include <cstdio>
#include <cstdlib>
#include <cstring>
#include <cstdarg>
#include <string>
#include <vector>
#include <map>
#include <set>
#include <unordered_set>
#include <deque>
#include <functional>
#include <chrono>
#include <csignal>
#include <unistd.h>
#include <fcntl.h>

extern "C" void __sanitizer_set_death_callback(void (*cb)(void));
extern "C" int __lsan_do_recoverable_leak_check(void) __attribute__((weak));   // absent under ThreadSanitizer
extern "C" void __lsan_disable(void);
extern "C" void __lsan_enable(void);

namespace vf {

// ---------------------------------------------------------------- hashing
inline uint64_t fnv(const void *p, size_t n, uint64_t h = 1469598103934665603ULL) {
    const uint8_t *b = (const uint8_t *) p;
    for (size_t i = 0; i < n; i++) { h ^= b[i]; h *= 1099511628211ULL; }
    return h;
}
inline uint64_t hstr(const std::string &s) { return fnv(s.data(), s.size()); }

// ---------------------------------------------------------------- rng (driver only)
struct Rng {
    uint64_t s[2];
    explicit Rng(uint64_t seed) {
        uint64_t z = seed + 0x9E3779B97F4A7C15ULL;
        for (int i = 0; i < 2; i++) {
            z += 0x9E3779B97F4A7C15ULL; uint64_t x = z;
            x = (x ^ (x >> 30)) * 0xBF58476D1CE4E5B9ULL;
            x = (x ^ (x >> 27)) * 0x94D049BB133111EBULL;
            s[i] = x ^ (x >> 31);
        }
    }
    uint64_t next() {
        uint64_t s1 = s[0], s0 = s[1], r = s0 + s1;
        s[0] = s0; s1 ^= s1 << 23;
        s[1] = s1 ^ s0 ^ (s1 >> 18) ^ (s0 >> 5);
        return r;
    }
};

// ---------------------------------------------------------------- tape
struct Tape {
    const uint8_t *p; size_t n; size_t pos; size_t overrun;
    Tape(const uint8_t *d, size_t len) : p(d), n(len), pos(0), overrun(0) {}
    bool exhausted() const { return pos >= n; }
    uint8_t u8() { if (pos < n) return p[pos++]; overrun++; return 0; }
    uint16_t u16() { uint16_t a = u8(); return (uint16_t) (a << 8 | u8()); }
    uint32_t u32() { uint32_t a = u16(); return a << 16 | u16(); }
    uint64_t u64() { uint64_t a = u32(); return a << 32 | u32(); }
    // uniform-ish in [0,n); consumes as few bytes as needed
    uint64_t below(uint64_t m) {
        if (m <= 1) return 0;
        if (m <= 256) return u8() % m;
        if (m <= 65536) return u16() % m;
        if (m <= 0x100000000ULL) return u32() % m;
        return u64() % m;
    }
    int64_t range(int64_t lo, int64_t hi) { return lo + (int64_t) below((uint64_t) (hi - lo + 1)); }
    bool coin() { return u8() & 1; }
    bool chance(unsigned num, unsigned den) { return below(den) < num; }
    template <class T> const T &pick(const std::vector<T> &v) { return v[below(v.size())]; }
    void bytes(uint8_t *out, size_t len) { for (size_t i = 0; i < len; i++) out[i] = u8(); }
    std::vector<uint8_t> vec(size_t len) { std::vector<uint8_t> v(len); bytes(v.data(), len); return v; }
};

// ---------------------------------------------------------------- failure
struct Fail {
    std::string sig;     // stable signature (root cause id), used for known-finding matching
    std::string detail;  // human readable
};
struct Discard {};

inline std::string fmt(const char *f, ...) {
    char buf[2048]; va_list ap; va_start(ap, f); vsnprintf(buf, sizeof buf, f, ap); va_end(ap);
    return buf;
}
#define VF_FAIL(sig, ...) throw vf::Fail{ (sig), vf::fmt(__VA_ARGS__) }
#define VF_CHECK(cond, sig, ...) do { if (!(cond)) VF_FAIL(sig, __VA_ARGS__); } while (0)

inline std::string hex(const void *p, size_t n, size_t max = 96) {
    static const char *d = "0123456789abcdef"; std::string s; const uint8_t *b = (const uint8_t *) p;
    for (size_t i = 0; i < n && i < max; i++) { s += d[b[i] >> 4]; s += d[b[i] & 15]; }
    if (n > max) s += "...";
    return s;
}
inline std::string jesc(const std::string &s) {
    std::string o;
    for (unsigned char c : s) {
        if (c == '"' || c == '\\') { o += '\\'; o += (char) c; }
        else if (c == '\n') o += "\\n";
        else if (c < 0x20 || c >= 0x7f) { char b[8]; snprintf(b, sizeof b, "\\u%04x", c); o += b; }
        else o += (char) c;
    }
    return o;
}

// ---------------------------------------------------------------- per-run context
struct Ctx {
    std::map<std::string, uint64_t> counters;
    std::unordered_set<uint64_t> distinct;   // hashes of distinct non-trivial case shapes
    std::vector<std::string> samples;        // JSON-ish strings of actual cases
    std::set<std::string> known;             // known-finding signatures (excluded, counted)
    std::map<std::string, uint64_t> known_hits;
    std::map<std::string, std::string> known_detail;
    uint64_t evaluations = 0, discards = 0;
    uint64_t sample_seen = 0;
    bool replaying = false;                  // true in --replay and while shrinking
    bool verbose = false;
    void count(const std::string &k, uint64_t d = 1) { counters[k] += d; }
    // Register this case as non-trivial with a shape key; distinct shapes are counted.
    void nontrivial(const std::string &shape) { if (!replaying) distinct.insert(hstr(shape)); }
    void nontrivial(uint64_t h) { if (!replaying) distinct.insert(h); }
    void sample(const std::string &s) {
        if (replaying) return;
        sample_seen++;
        if (samples.size() < 6) samples.push_back(s);
        else if ((sample_seen & (sample_seen - 1)) == 0) samples[2 + (sample_seen % 4)] = s; // sparse refresh
    }
    // A failure with a known signature is counted and the campaign continues.
    bool is_known(const std::string &sig) const {
        for (auto &k : known) if (sig.compare(0, k.size(), k) == 0) return true;
        return false;
    }
};

typedef void (*PropFn)(Tape &, Ctx &);

struct PropDef {
    const char *name;
    PropFn fn;
    size_t tape_len;       // bytes of randomness per generated case
    unsigned case_timeout; // seconds; 0 = none. A hang is reported with sig "hang".
};

#define VF_TARGET(NAME, FN, TAPELEN, TIMEOUT) namespace vf { PropDef vf_property() { return PropDef{ NAME, FN, TAPELEN, TIMEOUT }; } }
#define VF_NO_INIT namespace vf { void vf_global_init(int, char **) {} }
// implemented by each target:
PropDef vf_property();
// optional: total number of cases for --enumerate mode (tape = 8-byte big-endian index, then zeros)
uint64_t vf_enum_total() __attribute__((weak));
// optional hooks
void vf_global_init(int argc, char **argv);

// ---------------------------------------------------------------- driver state
struct Driver {
    Ctx ctx;
    std::string out_path;
    const uint8_t *cur = nullptr; size_t cur_len = 0;
    std::string prop_name;
    uint64_t seed = 1; unsigned shard = 0;
    bool budget_hit = false;
    double wall = 0;
    std::string fail_sig, fail_detail, fail_replay;
    int violations = 0;
    uint64_t leak_ctr = 0;
};
inline Driver &drv() { static Driver *d = new Driver; return *d; }   // intentionally never destroyed (used from the sanitizer death callback at exit)
// run LeakSanitizer's recoverable check after every N-th case (0 = only at process exit); set by targets in vf_global_init
inline unsigned &leak_check_interval() { static unsigned n = 0; return n; }
inline bool &force_leak_check() { static bool f = false; return f; }

inline void write_file(const std::string &path, const void *p, size_t n) {
    int fd = open(path.c_str(), O_WRONLY | O_CREAT | O_TRUNC, 0644);
    if (fd < 0) return;
    const uint8_t *b = (const uint8_t *) p;
    while (n) { ssize_t w = write(fd, b, n); if (w <= 0) break; b += w; n -= (size_t) w; }
    close(fd);
}

inline void write_stats(const char *status) {
    Driver &d = drv();
    if (d.out_path.empty()) return;
    std::string j = "{";
    j += "\"prop\":\"" + jesc(d.prop_name) + "\",\"status\":\"" + status + "\"";
    j += fmt(",\"seed\":%llu,\"shard\":%u", (unsigned long long) d.seed, d.shard);
    j += fmt(",\"evaluations\":%llu,\"discards\":%llu", (unsigned long long) d.ctx.evaluations, (unsigned long long) d.ctx.discards);
    j += fmt(",\"budget_hit\":%s,\"wall_s\":%.3f,\"violations\":%d", d.budget_hit ? "true" : "false", d.wall, d.violations);
    j += ",\"counters\":{"; bool first = true;
    for (auto &kv : d.ctx.counters) { if (!first) j += ","; first = false; j += "\"" + jesc(kv.first) + "\":" + std::to_string(kv.second); }
    j += "},\"known_hits\":{"; first = true;
    for (auto &kv : d.ctx.known_hits) { if (!first) j += ","; first = false; j += "\"" + jesc(kv.first) + "\":{\"n\":" + std::to_string(kv.second) + ",\"detail\":\"" + jesc(d.ctx.known_detail[kv.first]) + "\"}"; }
    j += "},\"samples\":["; first = true;
    for (auto &s : d.ctx.samples) { if (!first) j += ","; first = false; j += "\"" + jesc(s) + "\""; }
    j += "],\"distinct\":["; first = true; size_t k = 0;
    for (auto h : d.ctx.distinct) { if (k++ >= 2000000) break; if (!first) j += ","; first = false; j += std::to_string(h >> 11); } // 53-bit for JSON safety
    j += "]";
    if (!d.fail_sig.empty()) j += ",\"fail\":{\"sig\":\"" + jesc(d.fail_sig) + "\",\"detail\":\"" + jesc(d.fail_detail) + "\",\"replay\":\"" + jesc(d.fail_replay) + "\"}";
    j += "}\n";
    write_file(d.out_path, j.data(), j.size());
}

inline void on_death() {
    Driver &d = drv();
    static bool once = false; if (once) return; once = true;
    if (!d.out_path.empty()) {
        std::string p = d.out_path + ".crash.tape";
        write_file(p, d.cur ? d.cur : (const uint8_t *) "", d.cur ? d.cur_len : 0);
        d.fail_sig = "sanitizer"; d.fail_detail = "sanitizer abort (see stderr log)"; d.fail_replay = p; d.violations = 1;
        write_stats("crash");
    }
}
inline void on_alarm(int) {
    Driver &d = drv();
    if (!d.out_path.empty() && d.cur) {
        std::string p = d.out_path + ".hang.tape";
        write_file(p, d.cur, d.cur_len);
        d.fail_sig = "hang"; d.fail_detail = "case exceeded per-case time limit"; d.fail_replay = p; d.violations = 1;
        write_stats("hang");
    }
    _exit(3);
}

// run one case; returns "" on pass/discard, else signature
inline std::string run_case(const PropDef &pd, const uint8_t *data, size_t len, std::string *detail, bool *discarded = nullptr) {
    Driver &d = drv();
    d.cur = data; d.cur_len = len;
    Tape t(data, len);
    if (pd.case_timeout) alarm(pd.case_timeout);
    std::string sig;
    try { pd.fn(t, d.ctx); }
    catch (const Fail &f) { sig = f.sig.empty() ? "fail" : f.sig; if (detail) *detail = f.detail; }
    catch (const Discard &) { if (discarded) *discarded = true; }
    if (pd.case_timeout) alarm(0);
    if (sig.empty() && __lsan_do_recoverable_leak_check && leak_check_interval() && (force_leak_check() || (++d.leak_ctr % leak_check_interval()) == 0)) {
        if (__lsan_do_recoverable_leak_check()) { sig = "lsan:leak-after-case"; if (detail) *detail = "LeakSanitizer found memory leaked by this case (see log for allocation stacks)"; }
    }
    return sig;
}

inline bool same_root(const std::string &a, const std::string &b) { return a == b; }

inline std::vector<uint8_t> shrink(const PropDef &pd, std::vector<uint8_t> best, const std::string &sig, double max_secs) {
    Driver &d = drv();
    auto t0 = std::chrono::steady_clock::now();
    auto left = [&] { return max_secs - std::chrono::duration<double>(std::chrono::steady_clock::now() - t0).count(); };
    bool was = d.ctx.replaying; d.ctx.replaying = true;
    auto still = [&](const std::vector<uint8_t> &c) { std::string dd; return same_root(run_case(pd, c.data(), c.size(), &dd), sig); };
    // 1. truncate tail (binary search on length; zeros are implied past the end)
    { size_t lo = 0, hi = best.size();
      while (lo < hi && left() > 0) { size_t mid = (lo + hi) / 2; std::vector<uint8_t> c(best.begin(), best.begin() + mid);
          if (still(c)) hi = mid; else lo = mid + 1; }
      std::vector<uint8_t> c(best.begin(), best.begin() + hi); if (hi < best.size() && still(c)) best = c; }
    bool progress = true; int rounds = 0;
    while (progress && left() > 0 && rounds++ < 6) {
        progress = false;
        // 2. delete blocks
        for (size_t bs = 64; bs >= 1 && left() > 0; bs /= 2) {
            for (size_t i = 0; i + bs <= best.size() && left() > 0;) {
                std::vector<uint8_t> c(best); c.erase(c.begin() + i, c.begin() + i + bs);
                if (still(c)) { best = c; progress = true; } else i += bs;
            }
        }
        // 3. zero blocks then lower single bytes
        for (size_t bs = 16; bs >= 1 && left() > 0; bs /= 4) {
            for (size_t i = 0; i + bs <= best.size() && left() > 0; i += bs) {
                bool allz = true; for (size_t k = 0; k < bs; k++) if (best[i + k]) allz = false;
                if (allz) continue;
                std::vector<uint8_t> c(best); for (size_t k = 0; k < bs; k++) c[i + k] = 0;
                if (still(c)) { best = c; progress = true; }
            }
        }
        for (size_t i = 0; i < best.size() && left() > 0; i++) {
            if (!best[i]) continue;
            uint8_t lo = 0, hi = best[i];
            // find small value that still fails (not necessarily monotone; bounded tries)
            for (int tries = 0; tries < 4 && lo < hi; tries++) {
                uint8_t mid = (uint8_t) ((lo + hi) / 2);
                std::vector<uint8_t> c(best); c[i] = mid;
                if (still(c)) { hi = mid; best = c; progress = true; } else lo = (uint8_t) (mid + 1);
            }
        }
    }
    d.ctx.replaying = was;
    return best;
}

inline double now_s() { return std::chrono::duration<double>(std::chrono::steady_clock::now().time_since_epoch()).count(); }

#ifndef VF_LIBFUZZER
inline int driver_main(int argc, char **argv) {
    Driver &d = drv();
    uint64_t cases = 1000; double secs = 1e9; std::string replay, known_file, replay_dir; double shrink_secs = 60;
    bool enumerate = false; uint64_t nshards = 1, stride = 1; uint64_t dump_idx = (uint64_t) -1; std::string dump_path;
    for (int i = 1; i < argc; i++) {
        std::string a = argv[i];
        auto nxt = [&]() -> const char * { return i + 1 < argc ? argv[++i] : ""; };
        if (a == "--seed") d.seed = strtoull(nxt(), 0, 10);
        else if (a == "--shard") d.shard = (unsigned) atoi(nxt());
        else if (a == "--cases") cases = strtoull(nxt(), 0, 10);
        else if (a == "--secs") secs = atof(nxt());
        else if (a == "--out") d.out_path = nxt();
        else if (a == "--replay") replay = nxt();
        else if (a == "--known") known_file = nxt();
        else if (a == "--shrink-secs") shrink_secs = atof(nxt());
        else if (a == "-v") d.ctx.verbose = true;
        else if (a == "--enumerate") enumerate = true;
        else if (a == "--dump-case") { dump_idx = strtoull(nxt(), 0, 10); dump_path = nxt(); }
        else if (a == "--nshards") nshards = strtoull(nxt(), 0, 10);
        else if (a == "--enum-stride") stride = strtoull(nxt(), 0, 10);
    }
    if (!known_file.empty()) {
        FILE *f = fopen(known_file.c_str(), "r");
        if (f) { char line[512]; while (fgets(line, sizeof line, f)) { std::string s(line); while (!s.empty() && (s.back() == '\n' || s.back() == '\r')) s.pop_back(); if (!s.empty()) d.ctx.known.insert(s); } fclose(f); }
    }
    PropDef pd = vf_property();
    d.prop_name = pd.name;
    __sanitizer_set_death_callback(on_death);
    signal(SIGALRM, on_alarm);
    vf_global_init(argc, argv);
    double t0 = now_s();
    if (!replay.empty()) {
        FILE *f = fopen(replay.c_str(), "rb");
        if (!f) { fprintf(stderr, "cannot open %s\n", replay.c_str()); return 2; }
        std::vector<uint8_t> buf; uint8_t tmp[4096]; size_t r;
        while ((r = fread(tmp, 1, sizeof tmp, f)) > 0) buf.insert(buf.end(), tmp, tmp + r);
        fclose(f);
        d.ctx.replaying = false; d.ctx.verbose = true; force_leak_check() = true;
        std::string detail; bool disc = false;
        std::string sig = run_case(pd, buf.data(), buf.size(), &detail, &disc);
        d.cur = nullptr;
        d.ctx.evaluations = 1; d.wall = now_s() - t0;
        if (!sig.empty()) {
            bool known = d.ctx.is_known(sig);
            printf("REPLAY %s sig=%s known=%d detail=%s\n", replay.c_str(), sig.c_str(), known, detail.c_str());
            d.fail_sig = sig; d.fail_detail = detail; d.fail_replay = replay; d.violations = known ? 0 : 1;
            if (known) { d.ctx.known_hits[sig]++; d.ctx.known_detail[sig] = detail; d.fail_sig.clear(); }
            write_stats(known ? "ok" : "fail");
            fflush(stdout);
            return known ? 0 : 1;
        }
        printf("REPLAY %s pass%s\n", replay.c_str(), disc ? " (discarded)" : "");
        fflush(stdout);
        write_stats("ok");
        return 0;
    }
    if (enumerate) {
        uint64_t total = vf_enum_total ? vf_enum_total() : 0;
        if (stride < 1) stride = 1;
        uint64_t done = 0; bool complete = true;
        for (uint64_t j = d.shard; ; j += nshards) {
            uint64_t i = j * stride + (stride > 1 ? d.seed % stride : 0);
            if (i >= total) break;
            if (now_s() - t0 > secs) { d.budget_hit = true; complete = false; break; }
            uint8_t tp[16]; memset(tp, 0, sizeof tp); for (int k = 0; k < 8; k++) tp[k] = (uint8_t) (i >> (8 * (7 - k)));
            std::string detail; bool disc = false;
            std::string sig = run_case(pd, tp, sizeof tp, &detail, &disc);
            d.ctx.evaluations++; done++;
            if (disc) d.ctx.discards++;
            if (sig.empty()) continue;
            if (d.ctx.is_known(sig)) { d.ctx.known_hits[sig]++; if (!d.ctx.known_detail.count(sig)) d.ctx.known_detail[sig] = detail; continue; }
            d.fail_sig = sig; d.fail_detail = detail; d.fail_replay = d.out_path + ".fail.tape";
            write_file(d.fail_replay, tp, sizeof tp);
            d.violations = 1; d.wall = now_s() - t0; write_stats("fail");
            return 1;
        }
        d.ctx.count(complete && stride == 1 ? "enumeration-complete-shards" : "enumeration-partial-shards");
        d.ctx.count("enumeration-total", d.shard == 0 ? total : 0);
        d.cur = nullptr; d.wall = now_s() - t0; write_stats("ok");
        return 0;
    }
    Rng rng(d.seed * 1000003ULL + d.shard * 7919ULL + 17);
    std::vector<uint8_t> tape(pd.tape_len);
    std::deque<std::vector<uint8_t>> recent;
    for (uint64_t c = 0; c < cases; c++) {
        if (now_s() - t0 > secs) { d.budget_hit = true; break; }
        // mostly uniform bytes; sometimes sparse (many zeros) or small-valued to reach edge cases
        unsigned mode = (unsigned) (rng.next() % 8);
        for (size_t i = 0; i < tape.size(); i += 8) {
            uint64_t v = rng.next();
            if (mode == 6) { uint64_t m = rng.next() & rng.next(); v &= m; }
            if (mode == 7) v &= 0x0f0f0f0f0f0f0f0fULL;
            size_t k = tape.size() - i < 8 ? tape.size() - i : 8; memcpy(&tape[i], &v, k);
        }
        if (c == dump_idx) { write_file(dump_path, tape.data(), tape.size()); return 0; }
        std::string detail; bool disc = false;
        if (leak_check_interval() > 1) { recent.push_back(tape); if (recent.size() > leak_check_interval()) recent.pop_front(); }
        std::string sig = run_case(pd, tape.data(), tape.size(), &detail, &disc);
        d.ctx.evaluations++;
        if (disc) d.ctx.discards++;
        if (sig == "lsan:leak-after-case" && leak_check_interval() > 1) {
            // the periodic check fired: find which of the recent cases leaks by re-running them with a check after each
            force_leak_check() = true; bool was = d.ctx.replaying; d.ctx.replaying = true; bool found = false;
            for (auto &rt : recent) { std::string dd; if (run_case(pd, rt.data(), rt.size(), &dd) == "lsan:leak-after-case") { tape = rt; detail = dd; found = true; break; } }
            d.ctx.replaying = was;
            if (!found) { force_leak_check() = false; fprintf(stderr, "[vf] periodic leak check fired but no recent case reproduces it (ignored)\n"); continue; }
        }
        if (sig.empty()) continue;
        if (d.ctx.is_known(sig)) { d.ctx.known_hits[sig]++; if (!d.ctx.known_detail.count(sig)) d.ctx.known_detail[sig] = detail; continue; }
        // genuine failure: shrink, store, stop
        fprintf(stderr, "[vf] FAIL sig=%s detail=%s (shrinking)\n", sig.c_str(), detail.c_str());
        std::vector<uint8_t> best = shrink(pd, tape, sig, shrink_secs);
        std::string d2; d.ctx.replaying = true; run_case(pd, best.data(), best.size(), &d2); d.ctx.replaying = false;
        d.fail_sig = sig; d.fail_detail = d2.empty() ? detail : d2;
        d.fail_replay = d.out_path + ".fail.tape";
        write_file(d.fail_replay, best.data(), best.size());
        d.violations = 1; d.wall = now_s() - t0;
        write_stats("fail");
        return 1;
    }
    d.cur = nullptr;
    d.wall = now_s() - t0;
    write_stats("ok");
    return 0;
}
} // namespace vf
int main(int argc, char **argv) { return vf::driver_main(argc, argv); }
namespace vf {
#else
} // namespace vf
// libFuzzer mode: any failure traps (after dumping the input via libFuzzer's crash artifact)
static void vf_lf_atexit() { vf::Driver &d = vf::drv(); d.cur = nullptr; vf::write_stats("ok"); }
extern "C" int LLVMFuzzerInitialize(int *argc, char ***argv) {
    const char *o = getenv("VF_OUT");
    if (o) { vf::drv().out_path = std::string(o) + "." + std::to_string((long) getpid()) + ".json"; atexit(vf_lf_atexit); }
    vf::drv().prop_name = vf::vf_property().name;
    vf::vf_global_init(*argc, *argv); return 0; }
extern "C" int LLVMFuzzerTestOneInput(const uint8_t *data, size_t size) {
    static vf::PropDef pd = vf::vf_property();
    static bool init = false;
    if (!init) { init = true; const char *k = getenv("VF_KNOWN"); if (k) { FILE *f = fopen(k, "r"); if (f) { char line[512]; while (fgets(line, sizeof line, f)) { std::string s(line); while (!s.empty() && (s.back() == '\n')) s.pop_back(); if (!s.empty()) vf::drv().ctx.known.insert(s); } fclose(f); } } }
    std::string detail;
    std::string sig = vf::run_case(pd, data, size, &detail);
    vf::drv().ctx.evaluations++;
    { static double last = 0; if ((vf::drv().ctx.evaluations & 1023) == 0) { double n = vf::now_s(); if (n - last > 3) { last = n; vf::Driver &d = vf::drv(); const uint8_t *sv = d.cur; d.cur = nullptr; vf::write_stats("running"); d.cur = sv; } } }
    if (!sig.empty() && vf::drv().ctx.is_known(sig)) { vf::drv().ctx.known_hits[sig]++; vf::drv().ctx.known_detail[sig] = detail; }
    if (!sig.empty() && !vf::drv().ctx.is_known(sig)) {
        fprintf(stderr, "VF-FAIL sig=%s detail=%s\n", sig.c_str(), detail.c_str());
        __builtin_trap();
    }
    return 0;
}
namespace vf {
#endif
} // namespace vf
