#!/bin/bash
# usage: bin/confirm_seed.sh <ID>   -- independently confirms a seeded change produced in /tmp/seed-<ID> + /tmp/seed-out-<ID>:
# (1) demo passes on the clean worktree, (2) with the patch the library builds and the pinned tests pass, (3) the demo fails.
# On success copies patch.diff, demo files and meta.json to /verif/seeded/<ID>/ and records what was run.
ID="$1"; WT=/tmp/seed-$ID; OUT=/tmp/seed-out-$ID; DST=/verif/seeded/$ID${2:+-$2}
[ -f "$OUT/patch.diff" ] || { echo "no patch for $ID"; exit 2; }
cd "$WT" || exit 2
git checkout -q -- . ; git apply --check "$OUT/patch.diff" || { echo "patch does not apply"; exit 2; }
tests() { make -j8 libs >/dev/null 2>&1 && make -j8 tests >/dev/null 2>&1 || return 9; ( cd crypto/test && ./algorithmTest >/dev/null 2>&1 && ./eccTest >/dev/null 2>&1 && ./rsaTest >/dev/null 2>&1 && ./hmacTest >/dev/null 2>&1 ); }
sh "$OUT/run_demo.sh" "$WT" > "$OUT/confirm_demo_clean.log" 2>&1; d0=$?
git apply "$OUT/patch.diff"
tests; t1=$?
sh "$OUT/run_demo.sh" "$WT" > "$OUT/confirm_demo_patched.log" 2>&1; d1=$?
git checkout -q -- .
make -j8 libs >/dev/null 2>&1
echo "$ID: demo(clean)=$d0 tests(patched)=$t1 demo(patched)=$d1"
if [ $d0 -eq 0 ] && [ $t1 -eq 0 ] && [ $d1 -ne 0 ]; then
  mkdir -p "$DST"; cp "$OUT/patch.diff" "$OUT/meta.json" "$OUT/run_demo.sh" "$DST/"; cp "$OUT"/demo*.c "$DST/" 2>/dev/null; [ -d "$OUT/certs" ] && cp -r "$OUT/certs" "$DST/"
  cp "$OUT/PROPERTY.txt" "$DST/" 2>/dev/null
  echo "{\"confirmed_by\": \"bin/confirm_seed.sh\", \"demo_clean_exit\": $d0, \"pinned_tests_with_patch_exit\": $t1, \"demo_patched_exit\": $d1}" > "$DST/confirmation.json"
  echo "CONFIRMED -> $DST"
else echo "NOT CONFIRMED"; fi
