"""Driver library for /verif checks: builds matrixssl from /repo's working tree (content-addressed
cache), builds targets, runs sharded campaigns, merges statistics, confirms and reports violations,
applies the known-findings list, and writes evidence JSON."""
import fcntl, glob, hashlib, json, os, re, shutil, subprocess, sys, tempfile, time

VERIF = os.path.dirname(os.path.dirname(os.path.abspath(__file__)))
REPO = os.environ.get('VERIF_REPO', '/repo')
CACHE = os.path.join(VERIF, '.cache')
SCRATCH = os.environ.get('VERIF_SCRATCH', '/var/tmp')
NPROC = int(os.environ.get('VERIF_JOBS', os.cpu_count() or 4))

SAN = '-g -O1 -fno-omit-frame-pointer -fsanitize=address,undefined'
VARIANTS = {
    'asan': dict(cc='clang', cflags=SAN),
    'fuzz': dict(cc='clang', cflags=SAN + ' -fsanitize=fuzzer-no-link'),
    'tsan': dict(cc='clang', cflags='-g -O1 -fno-omit-frame-pointer -fsanitize=thread'),
}
SRC_DIRS = ['core', 'crypto', 'matrixssl']
SRC_PAT = re.compile(r'.*\.(c|h|mk|inc|S)$|^(GNU)?[Mm]akefile.*$')


def log(*a):
    print('[verif]', *a, file=sys.stderr, flush=True)


def tree_hash():
    h = hashlib.sha256()
    files = []
    for d in SRC_DIRS:
        for root, dirs, fs in os.walk(os.path.join(REPO, d)):
            dirs[:] = [x for x in dirs if x not in ('.git',)]
            for f in fs:
                if SRC_PAT.match(f):
                    files.append(os.path.join(root, f))
    for f in ['Makefile', 'common.mk']:
        files.append(os.path.join(REPO, f))
    for root, dirs, fs in os.walk(os.path.join(REPO, 'configs', 'default')):
        for f in fs:
            files.append(os.path.join(root, f))
    for root, dirs, fs in os.walk(os.path.join(REPO, 'makefiles')):
        for f in fs:
            files.append(os.path.join(root, f))
    for f in sorted(set(files)):
        try:
            with open(f, 'rb') as fh:
                data = fh.read()
        except OSError:
            continue
        h.update(os.path.relpath(f, REPO).encode() + b'\0' + str(len(data)).encode() + b'\0')
        h.update(data)
    return h.hexdigest()[:16]


class Lock:
    def __init__(self, name):
        os.makedirs(CACHE, exist_ok=True)
        self.path = os.path.join(CACHE, name + '.lock')

    def __enter__(self):
        self.f = open(self.path, 'w')
        fcntl.flock(self.f, fcntl.LOCK_EX)
        return self

    def __exit__(self, *a):
        fcntl.flock(self.f, fcntl.LOCK_UN)
        self.f.close()


def prune(prefix, keep=2):
    ds = sorted(glob.glob(os.path.join(CACHE, prefix + '-*')), key=os.path.getmtime, reverse=True)
    for d in ds[keep:]:
        shutil.rmtree(d, ignore_errors=True)


_hash_memo = None


def mxbuild(variant):
    """Build /repo's current working tree with the given sanitizer variant; returns cache dir
    containing lib/*.a and include/ (a header snapshot matching the libs)."""
    global _hash_memo
    if _hash_memo is None:
        _hash_memo = tree_hash()
    v = VARIANTS[variant]
    key = hashlib.sha256((_hash_memo + v['cc'] + v['cflags']).encode()).hexdigest()[:12]
    out = os.path.join(CACHE, 'lib-%s-%s' % (variant, key))
    with Lock('lib-' + variant):
        if os.path.exists(os.path.join(out, 'ok')):
            os.utime(out)
            return out
        t0 = time.time()
        scratch = tempfile.mkdtemp(prefix='verif-build.', dir=SCRATCH)
        try:
            src = os.path.join(scratch, 'src')
            subprocess.check_call(['rsync', '-a', '--exclude=*.o', '--exclude=*.a', '--exclude=.git', '--exclude=*.map',
                                   '--exclude=/doc', '--exclude=/xcode', '--exclude=/apps', REPO + '/', src + '/'])
            # the repository's own makefiles decide the source list and per-file flags
            r = subprocess.run(['make', 'libs', 'CC=' + v['cc'], 'EXTRA_CFLAGS=' + v['cflags'] + ' -DMATRIXSSL_VERIF', '-j%d' % NPROC],
                               cwd=src, stdout=subprocess.PIPE, stderr=subprocess.STDOUT, text=True)
            if r.returncode != 0:
                sys.stderr.write(r.stdout[-6000:])
                raise SystemExit('BUILD-ERROR: make libs failed for variant %s (this is a build failure, not a property verdict)' % variant)
            tmp = out + '.tmp'
            shutil.rmtree(tmp, ignore_errors=True)
            os.makedirs(os.path.join(tmp, 'lib'))
            for a in ['matrixssl/libssl_s.a', 'crypto/libcrypt_s.a', 'core/libcore_s.a']:
                shutil.copy(os.path.join(src, a), os.path.join(tmp, 'lib'))
            subprocess.check_call(['rsync', '-a', '-m', '--include=*/', '--include=*.h', '--exclude=*', src + '/', os.path.join(tmp, 'include') + '/'])
            open(os.path.join(tmp, 'ok'), 'w').write(_hash_memo)
            shutil.rmtree(out, ignore_errors=True)
            os.rename(tmp, out)
        finally:
            shutil.rmtree(scratch, ignore_errors=True)
        prune('lib-' + variant, keep=16)
        log('built matrixssl variant=%s hash=%s in %.1fs' % (variant, _hash_memo, time.time() - t0))
    return out


def inc_flags(libdir):
    inc = os.path.join(libdir, 'include')
    return ['-I' + inc, '-I' + inc + '/core/config', '-I' + inc + '/core/include', '-I' + inc + '/core/osdep/include',
            '-I' + inc + '/core/include/sfzcl', '-I' + inc + '/matrixssl', '-I' + inc + '/crypto',
            '-I' + os.path.join(VERIF, 'engine'), '-I' + os.path.join(VERIF, 'harness')]


def file_hash(paths):
    h = hashlib.sha256()
    for p in sorted(paths):
        with open(p, 'rb') as f:
            h.update(p.encode() + b'\0' + f.read())
    return h.hexdigest()[:12]


def build_target(t):
    """t: dict(name, src=[...], variant, libs=[...], wraps=[...], engine='tape'|'libfuzzer', defs=[...])"""
    variant = t.get('variant', 'asan')
    if t.get('engine') == 'libfuzzer' and variant == 'asan':
        variant = 'fuzz'
    libdir = mxbuild(variant)
    srcs = [os.path.join(VERIF, s) for s in t['src']]
    deps = srcs + glob.glob(os.path.join(VERIF, 'engine', '*.h')) + glob.glob(os.path.join(VERIF, 'harness', '*'))
    deps = [d for d in deps if os.path.isfile(d)]
    key = hashlib.sha256((file_hash(deps) + os.path.basename(libdir) + json.dumps(t, sort_keys=True)).encode()).hexdigest()[:12]
    outdir = os.path.join(CACHE, 'bin-%s-%s' % (t['name'], key))
    exe = os.path.join(outdir, t['name'])
    with Lock('bin-' + t['name']):
        if os.path.exists(exe):
            os.utime(outdir)
            return exe
        t0 = time.time()
        tmp = outdir + '.tmp'
        shutil.rmtree(tmp, ignore_errors=True)
        os.makedirs(tmp)
        vflags = VARIANTS[variant]['cflags'].split()
        if t.get('engine') == 'libfuzzer':
            vflags = [f for f in vflags if 'fuzzer-no-link' not in f]
        defs = ['-D' + d for d in t.get('defs', [])] + ['-DMATRIXSSL_VERIF']
        objs = []
        procs = []
        for s in srcs:
            o = os.path.join(tmp, os.path.basename(s) + '.o')
            if s.endswith('.c'):
                cmd = ['clang', '-std=gnu99'] + vflags + defs + inc_flags(libdir) + ['-c', s, '-o', o]
            else:
                cmd = ['clang++', '-std=gnu++17'] + vflags + defs + inc_flags(libdir) + ['-c', s, '-o', o]
                if t.get('engine') == 'libfuzzer':
                    cmd += ['-DVF_LIBFUZZER']
            procs.append((s, subprocess.Popen(cmd, stdout=subprocess.PIPE, stderr=subprocess.STDOUT, text=True)))
            objs.append(o)
        for s, p in procs:
            out, _ = p.communicate()
            if p.returncode != 0:
                sys.stderr.write(out[-8000:])
                raise SystemExit('BUILD-ERROR: compiling %s failed (harness build failure, not a property verdict)' % s)
        link = ['clang++'] + vflags + objs
        if t.get('engine') == 'libfuzzer':
            link += ['-fsanitize=fuzzer']
        for w in t.get('wraps', []):
            link += ['-Wl,--wrap=' + w]
        link += [os.path.join(libdir, 'lib', x) for x in ('libssl_s.a', 'libcrypt_s.a', 'libcore_s.a')]
        link += t.get('libs', []) + ['-lpthread', '-o', os.path.join(tmp, t['name'])]
        r = subprocess.run(link, stdout=subprocess.PIPE, stderr=subprocess.STDOUT, text=True)
        if r.returncode != 0:
            sys.stderr.write(r.stdout[-8000:])
            raise SystemExit('BUILD-ERROR: linking %s failed (harness build failure, not a property verdict)' % t['name'])
        shutil.rmtree(outdir, ignore_errors=True)
        os.rename(tmp, outdir)
        prune('bin-' + t['name'], keep=4)
        log('built target %s in %.1fs' % (t['name'], time.time() - t0))
    return exe


def san_env(extra=None):
    e = dict(os.environ)
    supp = os.path.join(VERIF, 'engine', 'ubsan.supp')
    e['ASAN_OPTIONS'] = 'detect_leaks=1:abort_on_error=0:allocator_may_return_null=1:detect_stack_use_after_return=0:symbolize=1:handle_abort=1'
    e['UBSAN_OPTIONS'] = 'halt_on_error=1:print_stacktrace=1:suppressions=' + supp
    e['LSAN_OPTIONS'] = 'exitcode=23:print_suppressions=0'
    e['TSAN_OPTIONS'] = 'halt_on_error=1:second_deadlock_stack=1:exitcode=66'
    if extra:
        e.update(extra)
    return e


SAN_RE = [
    (re.compile(r'ERROR: AddressSanitizer: ([\w-]+)'), 'asan'),
    (re.compile(r'ERROR: LeakSanitizer: (detected memory leaks)'), 'lsan'),
    (re.compile(r'([\w./-]+:\d+):\d+: runtime error: (.*)'), 'ubsan'),
    (re.compile(r'WARNING: ThreadSanitizer: ([\w -]+?) \('), 'tsan'),
]
FRAME_RE = re.compile(r'#\d+ 0x[0-9a-f]+ in (\S+) (\S+)|#\d+ (\S+) (\S+) \(')


def sanitizer_signature(text):
    """Derive a root-cause signature kind@function from a sanitizer report."""
    kind = None
    for rx, name in SAN_RE:
        m = rx.search(text)
        if m:
            if name == 'ubsan':
                return 'ubsan:' + os.path.basename(m.group(1))
            kind = name + ':' + m.group(1).replace(' ', '-')
            pos = m.end()
            break
    if not kind:
        return None
    for m in FRAME_RE.finditer(text, pos):
        fn, loc = (m.group(1), m.group(2)) if m.group(1) else (m.group(3), m.group(4))   # second form: ThreadSanitizer frames
        if any(x in loc for x in ('/compiler-rt/', 'libc.so', 'asan_', 'sanitizer_common')) or fn.startswith('__interceptor') or fn.startswith('__asan') or fn in ('malloc', 'calloc', 'realloc', 'free', 'memcpy', 'memcmp', 'strlen', 'strcasecmp', 'memmove', 'memset'):
            continue
        if fn.startswith('__wrap_') or fn.startswith('vf::') or 'harness' in loc:
            continue
        return kind + '@' + fn
    return kind


def load_known(prop):
    p = os.path.join(VERIF, 'known_findings.json')
    if not os.path.exists(p):
        return []
    data = json.load(open(p))
    return [f for f in data.get('findings', []) if f.get('property') == prop and f.get('status') == 'known']


def run_tape_target(t, exe, tier, seed, workdir, known_sigs, budget_scale=1.0):
    cfg = t[tier]
    shards = cfg.get('shards', NPROC)
    known_file = os.path.join(workdir, 'known.txt')
    open(known_file, 'w').write('\n'.join(known_sigs) + ('\n' if known_sigs else ''))
    procs = []
    for sh in range(shards):
        out = os.path.join(workdir, '%s.%d.json' % (t['name'], sh))
        cmd = [exe, '--seed', str(seed), '--shard', str(sh), '--cases', str(max(1, int(cfg['cases'] // shards))),
               '--secs', str(cfg['secs'] * budget_scale), '--out', out, '--known', known_file,
               '--shrink-secs', str(cfg.get('shrink_secs', 45))] + t.get('args', [])
        if t.get('enumerate'):
            cmd += ['--enumerate', '--nshards', str(shards), '--enum-stride', str(cfg.get('stride', 1))]
        lg = open(out + '.log', 'w')
        procs.append((sh, out, subprocess.Popen(cmd, stdout=lg, stderr=subprocess.STDOUT, env=san_env(t.get('env')), cwd=workdir), lg))
    results = []
    deadline = time.time() + cfg['secs'] * budget_scale + cfg.get('grace', 180)
    for sh, out, p, lg in procs:
        try:
            p.wait(timeout=max(1, deadline - time.time()))
        except subprocess.TimeoutExpired:
            p.kill()
            p.wait()
            results.append(dict(shard=sh, out=out, rc='timeout'))
            lg.close()
            continue
        lg.close()
        results.append(dict(shard=sh, out=out, rc=p.returncode))
    return results


def replay_once(t, exe, path, workdir, known_sigs, idx=0):
    known_file = os.path.join(workdir, 'known.txt')
    if not os.path.exists(known_file):
        open(known_file, 'w').write('\n'.join(known_sigs) + ('\n' if known_sigs else ''))
    out = os.path.join(workdir, 'replay.%d.json' % idx)
    if t.get('engine') == 'libfuzzer':
        cmd = [exe, path]
        env = san_env(dict(t.get('env', {}), VF_KNOWN=known_file))
    else:
        cmd = [exe, '--replay', path, '--out', out, '--known', known_file] + t.get('args', [])
        env = san_env(t.get('env'))
    try:
        r = subprocess.run(cmd, stdout=subprocess.PIPE, stderr=subprocess.STDOUT, text=True, env=env, cwd=workdir, timeout=t.get('replay_timeout', 150), errors='replace')
        rc, text = r.returncode, r.stdout
    except subprocess.TimeoutExpired as e:
        rc, text = 'timeout', (e.stdout or b'').decode('utf-8', 'replace') if isinstance(e.stdout, bytes) else (e.stdout or '')
    sig, detail = None, ''
    m = re.search(r'REPLAY \S+ sig=(\S+) known=(\d) detail=(.*)', text)
    if m:
        sig, detail = m.group(1), m.group(3)
        if m.group(2) == '1':
            return dict(rc=0, sig=sig, known=True, detail=detail, text=text)
    m = re.search(r'VF-FAIL sig=(\S+) detail=(.*)', text)
    if m:
        sig, detail = m.group(1), m.group(2)
    ss = sanitizer_signature(text)
    if ss and (rc != 0):
        sig = ss
        detail = (re.search(r'(ERROR: \w+Sanitizer:.*|.*runtime error:.*)', text) or [''])[0]
    if rc == 'timeout' or rc == 3:
        sig = sig or 'hang'
    if rc != 0 and not sig:
        sig = 'abnormal-exit-%s' % rc
    return dict(rc=rc, sig=sig, known=False, detail=detail, text=text)
