#!/bin/bash
# usage: bin/mutant_test.sh <patch-file|-R commit> <ID> [tier]   -- applies a patch to a scratch copy of /repo and runs the check there.
# Prints the check's tail and CAUGHT/MISSED. Scratch copy is removed afterwards.
set -u
P="$1"; ID="$2"; TIER="${3:-quick}"
D=$(mktemp -d /var/tmp/mut-XXXXXX)
rsync -a --exclude='*.o' --exclude='*.a' /repo/ "$D/"
cd "$D"
if [ "$P" = "-R" ]; then git revert --no-edit -n "$ID" >/dev/null 2>&1 || { echo "revert failed"; rm -rf "$D"; exit 2; }; ID="$3"; TIER="${4:-quick}";
else git apply "$P" 2>/dev/null || patch -p1 -s < "$P" || { echo "patch failed"; rm -rf "$D"; exit 2; }; fi
cd /verif
out=$(VERIF_REPO="$D" VERIF_EVIDENCE_DIR="$D/.verif-evidence" bin/check "$ID" --tier "$TIER" 2>&1 | grep -v "^inconclusive:" | tail -12)
echo "$out"
if echo "$out" | grep -q "^VIOLATION"; then echo "RESULT: CAUGHT"; else echo "RESULT: MISSED"; fi
rm -rf "$D"
