"""Registry of properties -> targets.  Each props/<ID>/reg.py defines PROP = dict(level, level_text, level_note,
technique, rule, assumptions, targets=[...]).  A target is one binary built against /repo's working tree:
  dict(name, src=[paths relative to /verif], libs=[...], wraps=[symbols for ld --wrap], engine='tape'|'libfuzzer',
       variant='asan'|'tsan', defs=[...], args=[...], env={...},
       quick=dict(cases=N, secs=T[, shards=K]), thorough=dict(...))
  libfuzzer targets additionally: corpus=[dirs relative to /verif], max_len, timeout, dict, hang_is_violation."""
import glob, importlib.util, os

VERIF = os.path.dirname(os.path.dirname(os.path.abspath(__file__)))
OSSL = ['-lssl', '-lcrypto']
PROPS = {}
# Properties deliberately not claimed (with reason); anything absent from PROPS and from here is "not built yet".
NOT_APPLICABLE = {}

for _f in sorted(glob.glob(os.path.join(VERIF, 'props', 'C*', 'reg.py'))):
    _pid = os.path.basename(os.path.dirname(_f))
    _spec = importlib.util.spec_from_file_location('reg_' + _pid, _f)
    _m = importlib.util.module_from_spec(_spec)
    _spec.loader.exec_module(_m)
    PROPS[_pid] = _m.PROP
