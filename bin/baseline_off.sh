#!/bin/sh
# Runs the repository's stock build and its pinned test binaries with the verification guard OFF
# (no -DMATRIXSSL_VERIF; the guard currently protects no code in /repo at all).
set -e
cd "${VERIF_REPO:-/repo}"
make -j8 libs >/dev/null 2>&1 || { echo "baseline build failed"; exit 1; }
make -j8 tests >/dev/null 2>&1 || { echo "baseline test build failed"; exit 1; }
rc=0
for b in crypto/test/algorithmTest crypto/test/eccTest crypto/test/rsaTest crypto/test/hmacTest; do
  echo "=== $b"
  ( cd "$(dirname $b)" && ./"$(basename $b)" ) || rc=1
done
# MatrixSSL's own self-interoperability test (not part of the pinned 106, run as an extra regression gate for fix: commits)
if [ -x matrixssl/test/sslTest ]; then echo "=== matrixssl/test/sslTest"; ( cd matrixssl/test && ./sslTest >/dev/null 2>&1 ) || { echo "sslTest FAILED"; rc=1; }; fi
exit $rc
