#!/bin/sh
# Regenerates the harness PKI (run once; outputs are committed). Needs the openssl CLI.
set -e
cd "$(dirname "$0")"
D="-not_before 20200101000000Z -not_after 20450101000000Z"
cat > ca.cnf <<X
[req]
distinguished_name=dn
prompt=no
[dn]
CN=placeholder
[v3_ca]
basicConstraints=critical,CA:TRUE
keyUsage=critical,keyCertSign,cRLSign
subjectKeyIdentifier=hash
[v3_srv]
basicConstraints=CA:FALSE
keyUsage=digitalSignature,keyEncipherment,keyAgreement
extendedKeyUsage=serverAuth
subjectAltName=DNS:localhost
subjectKeyIdentifier=hash
authorityKeyIdentifier=keyid
[v3_cli]
basicConstraints=CA:FALSE
keyUsage=digitalSignature,keyEncipherment,keyAgreement
extendedKeyUsage=clientAuth
subjectAltName=email:client@localhost
subjectKeyIdentifier=hash
authorityKeyIdentifier=keyid
X
mkkey() { # name type
  case $2 in
    rsa) openssl genrsa -traditional -out $1.key 2048 2>/dev/null ;;
    ec) openssl ecparam -name prime256v1 -genkey -noout -out $1.key ;;
    ec384) openssl ecparam -name secp384r1 -genkey -noout -out $1.key ;;
  esac
}
mkca() { # name type
  mkkey $1 $2
  openssl req -new -x509 -key $1.key -sha256 -subj "/C=FI/O=Verif/CN=Verif $1" -config ca.cnf -extensions v3_ca $D -out $1.pem
}
mkleaf() { # name type ca ext cn
  mkkey $1 $2
  openssl req -new -key $1.key -subj "/C=FI/O=Verif/CN=$5" -config ca.cnf -out $1.csr
  openssl x509 -req -in $1.csr -CA $3.pem -CAkey $3.key -set_serial 0x$(echo $1 | md5sum | cut -c1-16) -sha256 -extfile ca.cnf -extensions $4 $D -out $1.pem 2>/dev/null
  rm -f $1.csr
}
mkca ca_rsa rsa
mkca ca_ec ec
mkca ca_other rsa
mkleaf srv_rsa rsa ca_rsa v3_srv localhost
mkleaf cli_rsa rsa ca_rsa v3_cli client
mkleaf srv_ec ec ca_ec v3_srv localhost
mkleaf cli_ec ec ca_ec v3_cli client
mkleaf srv_ecrsa ec ca_rsa v3_srv localhost
mkleaf srv_other rsa ca_other v3_srv localhost
cat ca_rsa.pem ca_ec.pem > ca_all.pem
rm -f ca.cnf
