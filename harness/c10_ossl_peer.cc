// c10_ossl_peer.cc - OpenSSL 3.0 endpoint over memory BIOs (see c10_ossl_peer.h).
// This translation unit must not include any MatrixSSL header (type/macro clashes).
#define OPENSSL_SUPPRESS_DEPRECATED 1
#include "c10_ossl_peer.h"
#include <openssl/ssl.h>
#include <openssl/err.h>
#include <openssl/rand.h>
#include <openssl/x509v3.h>
#include <openssl/bio.h>
#include <openssl/evp.h>
#include <openssl/objects.h>
#include <cstring>
#include <deque>

namespace c10 {

// ------------------------------------------------------------------ deterministic RAND
static uint64_t g_rseed = 1, g_rctr = 0;
static uint64_t mix64(uint64_t x) {
    x += 0x9E3779B97F4A7C15ULL;
    x = (x ^ (x >> 30)) * 0xBF58476D1CE4E5B9ULL;
    x = (x ^ (x >> 27)) * 0x94D049BB133111EBULL;
    return x ^ (x >> 31);
}
static int dr_bytes(unsigned char *buf, int num) {
    int i = 0;
    while (i < num) {
        uint64_t v = mix64(g_rseed * 0x100000001B3ULL + 0x5151515151515151ULL + g_rctr++);
        int k = num - i < 8 ? num - i : 8;
        memcpy(buf + i, &v, (size_t) k);
        i += k;
    }
    return 1;
}
static int dr_seed(const void *, int) { return 1; }
static void dr_cleanup(void) {}
static int dr_add(const void *, int, double) { return 1; }
static int dr_status(void) { return 1; }
static const RAND_METHOD g_dr = { dr_seed, dr_bytes, dr_cleanup, dr_add, dr_bytes, dr_status };

void ossl_global_init() {
    static bool done = false;
    if (done) return;
    done = true;
    OPENSSL_init_ssl(OPENSSL_INIT_LOAD_SSL_STRINGS | OPENSSL_INIT_LOAD_CRYPTO_STRINGS | OPENSSL_INIT_NO_LOAD_CONFIG, NULL);
    RAND_set_rand_method(&g_dr);
}
void ossl_seed(uint64_t seed) { ossl_global_init(); g_rseed = seed; g_rctr = 0; }
std::string ossl_version_text() { return OpenSSL_version(OPENSSL_VERSION); }

static std::string err_text() {
    std::string s;
    unsigned long e;
    char buf[256];
    while ((e = ERR_get_error()) != 0) {
        ERR_error_string_n(e, buf, sizeof buf);
        if (!s.empty()) s += " | ";
        s += buf;
    }
    return s;
}

// ------------------------------------------------------------------ datagram-preserving BIO (DTLS)
typedef std::deque<Bytes> DQ;
static int dq_write(BIO *b, const char *d, int n) {
    DQ *q = (DQ *) BIO_get_data(b);
    if (n < 0) return -1;
    q->emplace_back((const uint8_t *) d, (const uint8_t *) d + n);
    return n;
}
static int dq_read(BIO *b, char *out, int n) {
    DQ *q = (DQ *) BIO_get_data(b);
    BIO_clear_retry_flags(b);
    if (q->empty()) { BIO_set_retry_read(b); return -1; }
    Bytes &f = q->front();
    int k = (int) f.size() < n ? (int) f.size() : n;  // a datagram longer than the buffer is truncated, like recv()
    memcpy(out, f.data(), (size_t) k);
    q->pop_front();
    return k;
}
static long dq_ctrl(BIO *b, int cmd, long num, void *) {
    DQ *q = (DQ *) BIO_get_data(b);
    switch (cmd) {
    case BIO_CTRL_FLUSH: case BIO_CTRL_DUP: case BIO_CTRL_PUSH: case BIO_CTRL_POP: return 1;
    case BIO_CTRL_PENDING: return q->empty() ? 0 : (long) q->front().size();
    case BIO_CTRL_WPENDING: return 0;
    case BIO_CTRL_EOF: return 0;
    case BIO_CTRL_DGRAM_QUERY_MTU: case BIO_CTRL_DGRAM_GET_FALLBACK_MTU: return 1400;
    case BIO_CTRL_DGRAM_SET_MTU: return num;
    case BIO_CTRL_DGRAM_GET_MTU_OVERHEAD: return 0;
    case BIO_CTRL_DGRAM_MTU_EXCEEDED: return 0;
    case BIO_CTRL_DGRAM_SET_NEXT_TIMEOUT: return 1;
    default: return 0;
    }
}
static int dq_create(BIO *b) { BIO_set_init(b, 1); BIO_set_data(b, NULL); return 1; }
static int dq_destroy(BIO *) { return 1; }
static BIO_METHOD *dq_method() {
    static BIO_METHOD *m = nullptr;
    if (!m) {
        m = BIO_meth_new(BIO_get_new_index() | BIO_TYPE_SOURCE_SINK, "c10 datagram queue");
        BIO_meth_set_write(m, dq_write);
        BIO_meth_set_read(m, dq_read);
        BIO_meth_set_ctrl(m, dq_ctrl);
        BIO_meth_set_create(m, dq_create);
        BIO_meth_set_destroy(m, dq_destroy);
    }
    return m;
}

// ------------------------------------------------------------------ session handle
struct OsslSession {
    SSL_SESSION *s;
    explicit OsslSession(SSL_SESSION *x) : s(x) {}
    ~OsslSession() { if (s) SSL_SESSION_free(s); }
};

// ------------------------------------------------------------------ context
struct OsslCtx::Impl {
    SSL_CTX *ctx = nullptr;
    OsslCtxConfig cfg;
};

struct OsslConn::Impl {
    SSL *ssl = nullptr;
    OsslCtx::Impl *cx = nullptr;
    BIO *rbio = nullptr, *wbio = nullptr;
    DQ in_q, out_q;
    bool dtls = false;
    bool hs_done = false, fail = false, close_notify = false, sent_close = false;
    std::string err;
    std::vector<OsslAlert> alerts;
    int fatal_sent = -1, fatal_recv = -1;
    std::string trace;
    int n_ch = 0;
    bool hrr = false;
    int sh_key_share = -1; bool sh_psk = false; int ch_psk_modes = 0;
    OsslSessionPtr sess;
    int n_tickets = 0;
    void set_err(const char *what, int sslerr) {
        std::string q = err_text();
        if (!fail) { fail = true; err = std::string(what) + ": SSL_get_error=" + std::to_string(sslerr) + " " + q; }
    }
};

static OsslConn::Impl *conn_of(const SSL *ssl) { return (OsslConn::Impl *) SSL_get_app_data(ssl); }

static void info_cb(const SSL *ssl, int where, int ret) {
    if (!(where & SSL_CB_ALERT)) return;
    OsslConn::Impl *c = conn_of(ssl);
    if (!c) return;
    OsslAlert a; a.sent = (where & SSL_CB_WRITE) != 0; a.level = (ret >> 8) & 0xff; a.desc = ret & 0xff;
    c->alerts.push_back(a);
    if (a.level == SSL3_AL_FATAL) { if (a.sent) { if (c->fatal_sent < 0) c->fatal_sent = a.desc; } else if (c->fatal_recv < 0) c->fatal_recv = a.desc; }
}

static const unsigned char HRR_RANDOM[32] = { 0xCF, 0x21, 0xAD, 0x74, 0xE5, 0x9A, 0x61, 0x11, 0xBE, 0x1D, 0x8C, 0x02, 0x1E, 0x65, 0xB8, 0x91,
                                              0xC2, 0xA2, 0x11, 0x16, 0x7A, 0xBB, 0x8C, 0x5E, 0x07, 0x9E, 0x09, 0xE2, 0xC8, 0xA8, 0x33, 0x9C };

// Extension block of a TLS ClientHello / ServerHello handshake message (4-byte header included); returns false when malformed.
static bool hello_extensions(const unsigned char *b, size_t len, bool client, const unsigned char **ext, size_t *ext_len) {
    size_t o = 4 + 2 + 32;
    if (len < o + 1) return false;
    o += 1 + b[o];                                            // legacy_session_id(_echo)
    if (client) {
        if (len < o + 2) return false;
        o += 2 + ((size_t) b[o] << 8 | b[o + 1]);            // cipher_suites
        if (len < o + 1) return false;
        o += 1 + b[o];                                        // legacy_compression_methods
    } else o += 3;                                            // cipher_suite, legacy_compression_method
    if (len == o) { *ext = b + o; *ext_len = 0; return true; }
    if (len < o + 2) return false;
    size_t n = (size_t) b[o] << 8 | b[o + 1];
    if (len < o + 2 + n) return false;
    *ext = b + o + 2; *ext_len = n;
    return true;
}
static bool find_extension(const unsigned char *e, size_t n, unsigned type, const unsigned char **data, size_t *dlen) {
    size_t o = 0;
    while (o + 4 <= n) {
        unsigned t = (unsigned) e[o] << 8 | e[o + 1]; size_t l = (size_t) e[o + 2] << 8 | e[o + 3];
        if (o + 4 + l > n) return false;
        if (t == type) { *data = e + o + 4; *dlen = l; return true; }
        o += 4 + l;
    }
    return false;
}

static void msg_cb(int write_p, int, int content_type, const void *buf, size_t len, SSL *ssl, void *) {
    OsslConn::Impl *c = conn_of(ssl);
    if (!c || content_type != SSL3_RT_HANDSHAKE || len < 1) return;
    const unsigned char *b = (const unsigned char *) buf;
    if (!c->trace.empty()) c->trace += ' ';
    c->trace += write_p ? 'w' : 'r';
    c->trace += std::to_string((int) b[0]);
    if (b[0] == SSL3_MT_CLIENT_HELLO) c->n_ch++;
    size_t hdr = c->dtls ? 12 : 4;
    bool is_hrr = b[0] == SSL3_MT_SERVER_HELLO && len >= hdr + 2 + 32 && memcmp(b + hdr + 2, HRR_RANDOM, 32) == 0;
    if (is_hrr) c->hrr = true;
    if (!c->dtls && (b[0] == SSL3_MT_CLIENT_HELLO || (b[0] == SSL3_MT_SERVER_HELLO && !is_hrr))) {
        const unsigned char *e = nullptr, *d = nullptr; size_t en = 0, dn = 0;
        bool ok = hello_extensions(b, len, b[0] == SSL3_MT_CLIENT_HELLO, &e, &en);
        if (b[0] == SSL3_MT_SERVER_HELLO) {
            c->sh_key_share = !ok ? -1 : find_extension(e, en, TLSEXT_TYPE_key_share, &d, &dn) ? 1 : 0;
            c->sh_psk = ok && find_extension(e, en, TLSEXT_TYPE_psk, &d, &dn);
        } else {
            c->ch_psk_modes = 0;
            if (ok && find_extension(e, en, TLSEXT_TYPE_psk_kex_modes, &d, &dn) && dn >= 1 && (size_t) d[0] + 1 <= dn)
                for (size_t i = 0; i < d[0]; i++) { if (d[1 + i] == 0 /* psk_ke */) c->ch_psk_modes |= 1; else if (d[1 + i] == 1 /* psk_dhe_ke */) c->ch_psk_modes |= 2; }
        }
    }
}

static int new_session_cb(SSL *ssl, SSL_SESSION *s) {
    OsslConn::Impl *c = conn_of(ssl);
    if (!c) return 0;
    c->sess = std::make_shared<OsslSession>(s); // we keep the reference handed to us
    c->n_tickets++;
    return 1;
}

static unsigned int psk_client_cb(SSL *ssl, const char *, char *identity, unsigned int max_identity_len, unsigned char *psk, unsigned int max_psk_len) {
    OsslConn::Impl *c = conn_of(ssl);
    if (!c) return 0;
    const OsslCtxConfig &cfg = c->cx->cfg;
    if (cfg.psk_identity.size() + 1 > max_identity_len || cfg.psk_key.size() > max_psk_len) return 0;
    memcpy(identity, cfg.psk_identity.c_str(), cfg.psk_identity.size() + 1);
    memcpy(psk, cfg.psk_key.data(), cfg.psk_key.size());
    return (unsigned int) cfg.psk_key.size();
}
static unsigned int psk_server_cb(SSL *ssl, const char *identity, unsigned char *psk, unsigned int max_psk_len) {
    OsslConn::Impl *c = conn_of(ssl);
    if (!c || !identity) return 0;
    const OsslCtxConfig &cfg = c->cx->cfg;
    if (cfg.psk_identity != identity || cfg.psk_key.size() > max_psk_len) return 0;
    memcpy(psk, cfg.psk_key.data(), cfg.psk_key.size());
    return (unsigned int) cfg.psk_key.size();
}
static int cookie_gen_cb(SSL *, unsigned char *cookie, unsigned int *len) { memset(cookie, 0x5c, 16); *len = 16; return 1; }
static int cookie_verify_cb(SSL *, const unsigned char *cookie, unsigned int len) {
    if (len != 16) return 0;
    for (unsigned i = 0; i < 16; i++) if (cookie[i] != 0x5c) return 0;
    return 1;
}

static unsigned int dtls_timer_cb(SSL *, unsigned int) { return 3600u * 1000000u; }

OsslCtx::OsslCtx() : p(new Impl) {}
OsslCtx::~OsslCtx() { if (p) { if (p->ctx) SSL_CTX_free(p->ctx); delete p; } }
const OsslCtxConfig &OsslCtx::config() const { return p->cfg; }

std::unique_ptr<OsslCtx> OsslCtx::create(const OsslCtxConfig &cfg, std::string *err) {
    ossl_global_init();
    ERR_clear_error();
    std::unique_ptr<OsslCtx> o(new OsslCtx());
    o->p->cfg = cfg;
    const SSL_METHOD *m = cfg.dtls ? (cfg.server ? DTLS_server_method() : DTLS_client_method()) : (cfg.server ? TLS_server_method() : TLS_client_method());
    SSL_CTX *ctx = SSL_CTX_new(m);
    auto bad = [&](const char *what) -> std::unique_ptr<OsslCtx> { if (err) *err = std::string(what) + ": " + err_text(); return nullptr; };
    if (!ctx) return bad("SSL_CTX_new");
    o->p->ctx = ctx;
    SSL_CTX_set_security_level(ctx, 0);
    if (cfg.min_version && !SSL_CTX_set_min_proto_version(ctx, cfg.min_version)) return bad("set_min_proto_version");
    if (cfg.max_version && !SSL_CTX_set_max_proto_version(ctx, cfg.max_version)) return bad("set_max_proto_version");
    if (!cfg.cipher_list.empty() && !SSL_CTX_set_cipher_list(ctx, cfg.cipher_list.c_str())) return bad("set_cipher_list");
    if (!cfg.ciphersuites.empty() && !SSL_CTX_set_ciphersuites(ctx, cfg.ciphersuites.c_str())) return bad("set_ciphersuites");
    if (!cfg.groups.empty() && !SSL_CTX_set1_groups_list(ctx, cfg.groups.c_str())) return bad("set1_groups_list");
    if (!cfg.sigalgs.empty() && !SSL_CTX_set1_sigalgs_list(ctx, cfg.sigalgs.c_str())) return bad("set1_sigalgs_list");
    if (!cfg.cert_file.empty()) {
        if (SSL_CTX_use_certificate_chain_file(ctx, cfg.cert_file.c_str()) != 1) return bad("use_certificate_chain_file");
        if (SSL_CTX_use_PrivateKey_file(ctx, cfg.key_file.c_str(), SSL_FILETYPE_PEM) != 1) return bad("use_PrivateKey_file");
        if (SSL_CTX_check_private_key(ctx) != 1) return bad("check_private_key");
    }
    if (!cfg.ca_file.empty()) {
        if (SSL_CTX_load_verify_locations(ctx, cfg.ca_file.c_str(), NULL) != 1) return bad("load_verify_locations");
        if (cfg.server && cfg.verify_peer) {
            STACK_OF(X509_NAME) *names = SSL_load_client_CA_file(cfg.ca_file.c_str());
            if (!names) return bad("load_client_CA_file");
            SSL_CTX_set_client_CA_list(ctx, names);
        }
    }
    if (cfg.verify_peer) SSL_CTX_set_verify(ctx, cfg.server ? (SSL_VERIFY_PEER | SSL_VERIFY_FAIL_IF_NO_PEER_CERT) : SSL_VERIFY_PEER, NULL);
    else SSL_CTX_set_verify(ctx, SSL_VERIFY_NONE, NULL);
    uint64_t on = SSL_OP_NO_RENEGOTIATION; // middlebox compatibility stays at its default (on), like a stock peer
    if (!cfg.tickets) on |= SSL_OP_NO_TICKET;
    if (!cfg.ems) on |= SSL_OP_NO_EXTENDED_MASTER_SECRET;
    if (!cfg.etm) on |= SSL_OP_NO_ENCRYPT_THEN_MAC;
    if (cfg.server_pref) on |= SSL_OP_CIPHER_SERVER_PREFERENCE;
    if (cfg.legacy_server_connect) on |= SSL_OP_LEGACY_SERVER_CONNECT;
    if (cfg.allow_no_dhe_kex) on |= SSL_OP_ALLOW_NO_DHE_KEX;
    if (cfg.dtls) { on |= SSL_OP_NO_QUERY_MTU; if (cfg.dtls_cookie) on |= SSL_OP_COOKIE_EXCHANGE; }
    SSL_CTX_set_options(ctx, on);
    if (cfg.num_tickets >= 0) SSL_CTX_set_num_tickets(ctx, (size_t) cfg.num_tickets);
    if (cfg.max_send_fragment) SSL_CTX_set_max_send_fragment(ctx, cfg.max_send_fragment);
    static const unsigned char sid_ctx[] = "c10-verif";
    SSL_CTX_set_session_id_context(ctx, sid_ctx, sizeof sid_ctx - 1);
    if (cfg.server) SSL_CTX_set_session_cache_mode(ctx, SSL_SESS_CACHE_SERVER);
    else { SSL_CTX_set_session_cache_mode(ctx, SSL_SESS_CACHE_CLIENT | SSL_SESS_CACHE_NO_INTERNAL); SSL_CTX_sess_set_new_cb(ctx, new_session_cb); }
    if (!cfg.psk_key.empty()) { if (cfg.server) SSL_CTX_set_psk_server_callback(ctx, psk_server_cb); else SSL_CTX_set_psk_client_callback(ctx, psk_client_cb); }
    if (cfg.dtls && cfg.server) { SSL_CTX_set_cookie_generate_cb(ctx, cookie_gen_cb); SSL_CTX_set_cookie_verify_cb(ctx, cookie_verify_cb); }
    SSL_CTX_set_info_callback(ctx, info_cb);
    SSL_CTX_set_msg_callback(ctx, msg_cb);
    SSL_CTX_set_mode(ctx, SSL_MODE_AUTO_RETRY | (cfg.auto_chain ? 0 : SSL_MODE_NO_AUTO_CHAIN));
    ERR_clear_error();
    return o;
}

static unsigned int probe_psk_cb(SSL *, const char *, char *, unsigned int, unsigned char *, unsigned int) { return 0; }
bool OsslCtx::supports_cipher(bool tls13, const std::string &name, int wire_version, bool psk) {
    ossl_global_init();
    bool dtls = wire_version == W_DTLS10 || wire_version == W_DTLS12;
    SSL_CTX *ctx = SSL_CTX_new(dtls ? DTLS_client_method() : TLS_client_method());
    if (!ctx) return false;
    SSL_CTX_set_security_level(ctx, 0);
    if (psk) SSL_CTX_set_psk_client_callback(ctx, probe_psk_cb); // PSK suites are only offered when a PSK callback is installed
    bool ok = SSL_CTX_set_min_proto_version(ctx, wire_version) == 1 && SSL_CTX_set_max_proto_version(ctx, wire_version) == 1;
    if (ok) {
        if (tls13) ok = SSL_CTX_set_ciphersuites(ctx, name.c_str()) == 1;
        else { SSL_CTX_set_ciphersuites(ctx, ""); ok = SSL_CTX_set_cipher_list(ctx, name.c_str()) == 1; }
    }
    if (ok) {
        // the suite must also survive the version filter of a real connection
        SSL *s = SSL_new(ctx);
        ok = false;
        if (s) {
            STACK_OF(SSL_CIPHER) *sk = SSL_get1_supported_ciphers(s);
            if (sk) { ok = sk_SSL_CIPHER_num(sk) > 0; sk_SSL_CIPHER_free(sk); }
            SSL_free(s);
        }
    }
    SSL_CTX_free(ctx);
    ERR_clear_error();
    return ok;
}
bool OsslCtx::supports_group(const std::string &name) {
    ossl_global_init();
    SSL_CTX *ctx = SSL_CTX_new(TLS_client_method());
    if (!ctx) return false;
    bool ok = SSL_CTX_set1_groups_list(ctx, name.c_str()) == 1;
    SSL_CTX_free(ctx);
    ERR_clear_error();
    return ok;
}
bool OsslCtx::supports_sigalg(const std::string &name) {
    ossl_global_init();
    SSL_CTX *ctx = SSL_CTX_new(TLS_client_method());
    if (!ctx) return false;
    SSL_CTX_set_security_level(ctx, 0);
    bool ok = SSL_CTX_set1_sigalgs_list(ctx, name.c_str()) == 1;
    SSL_CTX_free(ctx);
    ERR_clear_error();
    return ok;
}

// ------------------------------------------------------------------ connection
OsslConn::OsslConn(OsslCtx &ctx, OsslSessionPtr resume) : p(new Impl) {
    p->cx = ctx.p;
    const OsslCtxConfig &cfg = ctx.p->cfg;
    p->dtls = cfg.dtls;
    ERR_clear_error();
    p->ssl = SSL_new(ctx.p->ctx);
    if (!p->ssl) { p->set_err("SSL_new", 0); return; }
    SSL_set_app_data(p->ssl, p);
    if (cfg.dtls) {
        p->rbio = BIO_new(dq_method()); BIO_set_data(p->rbio, &p->in_q);
        p->wbio = BIO_new(dq_method()); BIO_set_data(p->wbio, &p->out_q);
        SSL_set_mtu(p->ssl, cfg.dtls_mtu ? cfg.dtls_mtu : 1400);
        DTLS_set_timer_cb(p->ssl, dtls_timer_cb); // the link is loss-free: never let the real-time retransmission timer fire
    } else {
        p->rbio = BIO_new(BIO_s_mem()); p->wbio = BIO_new(BIO_s_mem());
        BIO_set_mem_eof_return(p->rbio, -1); BIO_set_mem_eof_return(p->wbio, -1);
    }
    SSL_set_bio(p->ssl, p->rbio, p->wbio);
    if (cfg.server) SSL_set_accept_state(p->ssl);
    else {
        SSL_set_connect_state(p->ssl);
        if (!cfg.sni.empty()) SSL_set_tlsext_host_name(p->ssl, cfg.sni.c_str());
        if (cfg.verify_peer && !cfg.verify_host.empty()) SSL_set1_host(p->ssl, cfg.verify_host.c_str());
        if (resume && resume->s) SSL_set_session(p->ssl, resume->s);
    }
}
OsslConn::~OsslConn() { if (p) { if (p->ssl) { SSL_set_app_data(p->ssl, NULL); SSL_free(p->ssl); } delete p; } }

bool OsslConn::set_groups(const std::string &list) {
    if (!p->ssl) return false;
    ERR_clear_error();
    bool ok = SSL_set1_groups_list(p->ssl, list.c_str()) == 1;
    ERR_clear_error();
    return ok;
}
void OsslConn::feed(const uint8_t *d, size_t n) { if (p->ssl && n && !p->dtls) BIO_write(p->rbio, d, (int) n); }
void OsslConn::feed_dgram(const Bytes &d) { if (p->ssl && p->dtls) p->in_q.push_back(d); }
Bytes OsslConn::take_out() {
    Bytes out;
    if (!p->ssl || p->dtls) return out;
    size_t n = BIO_ctrl_pending(p->wbio);
    out.resize(n);
    if (n) { int r = BIO_read(p->wbio, out.data(), (int) n); out.resize(r > 0 ? (size_t) r : 0); }
    return out;
}
std::vector<Bytes> OsslConn::take_dgrams() { std::vector<Bytes> v(p->out_q.begin(), p->out_q.end()); p->out_q.clear(); return v; }
bool OsslConn::has_out() const { if (!p->ssl) return false; return p->dtls ? !p->out_q.empty() : BIO_ctrl_pending(p->wbio) > 0; }

int OsslConn::handshake() {
    if (!p->ssl || p->fail) return -1;
    if (p->hs_done) return 1;
    ERR_clear_error();
    int r = SSL_do_handshake(p->ssl);
    if (r == 1) { p->hs_done = true; return 1; }
    int e = SSL_get_error(p->ssl, r);
    if (e == SSL_ERROR_WANT_READ || e == SSL_ERROR_WANT_WRITE) return 0;
    p->set_err("SSL_do_handshake", e);
    return -1;
}
int OsslConn::write(const uint8_t *d, size_t n) {
    if (!p->ssl || p->fail) return -1;
    ERR_clear_error();
    size_t off = 0;
    if (n == 0) return 1; // SSL_write of length 0 is undefined behaviour per the manual; nothing to send
    while (off < n) {
        size_t w = 0;
        int r = SSL_write_ex(p->ssl, d + off, n - off, &w);
        if (r == 1) { off += w; continue; }
        int e = SSL_get_error(p->ssl, r);
        if (e == SSL_ERROR_WANT_READ || e == SSL_ERROR_WANT_WRITE) return 0;
        p->set_err("SSL_write", e);
        return -1;
    }
    return 1;
}
int OsslConn::read_all() {
    if (!p->ssl || p->fail) return -1;
    unsigned char buf[17000];
    for (int guard = 0; guard < 100000; guard++) {
        ERR_clear_error();
        size_t got = 0;
        int r = SSL_read_ex(p->ssl, buf, sizeof buf, &got);
        if (r == 1) { received.insert(received.end(), buf, buf + got); read_sizes.push_back(got); if (!p->hs_done && SSL_is_init_finished(p->ssl)) p->hs_done = true; continue; }
        int e = SSL_get_error(p->ssl, r);
        if (!p->hs_done && SSL_is_init_finished(p->ssl)) p->hs_done = true;
        if (e == SSL_ERROR_WANT_READ || e == SSL_ERROR_WANT_WRITE) return 0;
        if (e == SSL_ERROR_ZERO_RETURN) { p->close_notify = true; return 1; }
        p->set_err("SSL_read", e);
        return -1;
    }
    return 0;
}
int OsslConn::shutdown() {
    if (!p->ssl) return -1;
    ERR_clear_error();
    int r = SSL_shutdown(p->ssl);
    if (r >= 0) { p->sent_close = true; return r; }
    int e = SSL_get_error(p->ssl, r);
    if (e == SSL_ERROR_WANT_READ || e == SSL_ERROR_WANT_WRITE) { p->sent_close = true; return 0; }
    p->set_err("SSL_shutdown", e);
    return -1;
}
int OsslConn::key_update(bool request_peer) {
    if (!p->ssl || p->fail) return -1;
    ERR_clear_error();
    if (SSL_key_update(p->ssl, request_peer ? SSL_KEY_UPDATE_REQUESTED : SSL_KEY_UPDATE_NOT_REQUESTED) != 1) { p->set_err("SSL_key_update", 0); return -1; }
    int r = SSL_do_handshake(p->ssl);
    if (r == 1) return 1;
    int e = SSL_get_error(p->ssl, r);
    if (e == SSL_ERROR_WANT_READ || e == SSL_ERROR_WANT_WRITE) return 0;
    p->set_err("SSL_key_update/do_handshake", e);
    return -1;
}

bool OsslConn::handshake_done() const { return p->hs_done; }
bool OsslConn::got_close_notify() const { return p->close_notify || (p->ssl && (SSL_get_shutdown(p->ssl) & SSL_RECEIVED_SHUTDOWN) && p->fatal_recv < 0); }
bool OsslConn::failed() const { return p->fail; }
const std::string &OsslConn::error() const { return p->err; }
const std::vector<OsslAlert> &OsslConn::alerts() const { return p->alerts; }
int OsslConn::fatal_alert_sent() const { return p->fatal_sent; }
int OsslConn::fatal_alert_received() const { return p->fatal_recv; }
std::string OsslConn::version() const { return p->ssl ? SSL_get_version(p->ssl) : ""; }
int OsslConn::version_wire() const { return p->ssl ? SSL_version(p->ssl) : 0; }
std::string OsslConn::cipher_name() const { const char *n = p->ssl ? SSL_get_cipher_name(p->ssl) : nullptr; return n ? n : ""; }
std::string OsslConn::cipher_std_name() const {
    const SSL_CIPHER *c = p->ssl ? SSL_get_current_cipher(p->ssl) : nullptr;
    const char *n = c ? SSL_CIPHER_standard_name(c) : nullptr;
    return n ? n : "";
}
int OsslConn::cipher_id() const { const SSL_CIPHER *c = p->ssl ? SSL_get_current_cipher(p->ssl) : nullptr; return c ? (int) SSL_CIPHER_get_protocol_id(c) : 0; }
bool OsslConn::session_reused() const { return p->ssl && SSL_session_reused(p->ssl) == 1; }
std::string OsslConn::group_name() const {
    if (!p->ssl) return "";
    long id = SSL_get_negotiated_group(p->ssl);
    if (id <= 0) return "";
    if (id & 0x1000000) return "group-" + std::to_string(id & 0xffff); // TLSEXT_nid_unknown
    const char *n = OBJ_nid2sn((int) id);
    return n ? n : "";
}
static std::string sig_name(int have_type, int type, int have_md, int md) {
    if (!have_type) return "";
    std::string s;
    if (type == EVP_PKEY_RSA) s = "RSA";
    else if (type == EVP_PKEY_RSA_PSS) s = "RSA-PSS";
    else if (type == EVP_PKEY_EC) s = "ECDSA";
    else if (type == NID_ED25519) s = "ED25519";
    else if (type == NID_ED448) s = "ED448";
    else s = OBJ_nid2sn(type) ? OBJ_nid2sn(type) : "?";
    if (have_md && md != NID_undef) { s += "+"; s += OBJ_nid2sn(md); }
    return s;
}
std::string OsslConn::peer_sig_name() const {
    if (!p->ssl) return "";
    int t = 0, m = 0;
    int ht = SSL_get_peer_signature_type_nid(p->ssl, &t), hm = SSL_get_peer_signature_nid(p->ssl, &m);
    return sig_name(ht, t, hm, m);
}
std::string OsslConn::own_sig_name() const {
    if (!p->ssl) return "";
    int t = 0, m = 0;
    int ht = SSL_get_signature_type_nid(p->ssl, &t), hm = SSL_get_signature_nid(p->ssl, &m);
    return sig_name(ht, t, hm, m);
}
bool OsslConn::peer_cert_present() const {
    if (!p->ssl) return false;
    X509 *x = SSL_get0_peer_certificate(p->ssl);
    return x != nullptr;
}
long OsslConn::verify_result() const { return p->ssl ? SSL_get_verify_result(p->ssl) : -1; }
bool OsslConn::secure_renegotiation() const { return p->ssl && SSL_get_secure_renegotiation_support(p->ssl) == 1; }
bool OsslConn::ems_negotiated() const { return p->ssl && SSL_get_extms_support(p->ssl) == 1; }
const std::string &OsslConn::hs_trace() const { return p->trace; }
int OsslConn::client_hellos() const { return p->n_ch; }
bool OsslConn::saw_hello_retry() const { return p->hrr; }
int OsslConn::server_hello_key_share() const { return p->sh_key_share; }
bool OsslConn::server_hello_pre_shared_key() const { return p->sh_psk; }
int OsslConn::client_hello_psk_modes() const { return p->ch_psk_modes; }
OsslSessionPtr OsslConn::session() const {
    if (p->sess) return p->sess;
    if (!p->ssl || p->cx->cfg.server) return nullptr;
    return nullptr;
}
int OsslConn::tickets_received() const { return p->n_tickets; }

} // namespace c10
