// puppet12.h - a deliberately small, scriptable TLS 1.2 / TLS 1.1 endpoint ("puppet") written on OpenSSL 3.0
// *libcrypto primitives only* (EVP/HMAC/X509 parsing; no libssl).  All OpenSSL code is in puppet12.cc; this header
// uses plain C++ types only so that it can be included next to MatrixSSL headers.
//
// The puppet is the "malicious but well-keyed peer": it owns its transcript and its keys, so it can emit ANY message
// sequence, sign with ANY key over ANY transcript, put arbitrary plaintext of arbitrary record type under the
// session's real keys, and its Finished is honest for whatever trace it really sent and received.
//
// Usage (imperative scripting; the test is the scheduler):
//     pup::Config pc; pc.role = pup::CLIENT; pc.suite = 0xC02F; pc.client_auth = true;
//     pup::Puppet12 P(pc);
//     for (const pup::Step &s : pup::legal_script(pc)) {     // or any edited list of steps
//         victim.feed(P.emit(s));                            // bytes for this step (may be empty while coalescing)
//         P.feed(victim.take_wire());                        // everything the victim answered
//     }
// Every emit() builds the message *honestly for the puppet's current state* (whatever that state is: missing inputs are
// replaced by documented fall-backs, e.g. an all-zero premaster when no key exchange happened), appends what was
// really sent to the transcript and protects it according to the write state (switched on by the puppet's own CCS).
// Lock-step driving (feed the victim's answer before the next emit) keeps the puppet's transcript in the order in which
// the victim hashes the same messages.
#pragma once
#include <cstdint>
#include <functional>
#include <string>
#include <vector>

namespace pup {
typedef std::vector<uint8_t> Bytes;

enum Role { CLIENT = 0, SERVER = 1 };

// what a Step emits: handshake message types use their wire value
enum Msg : int {
    M_HELLO_REQUEST = 0, M_CLIENT_HELLO = 1, M_SERVER_HELLO = 2, M_HELLO_VERIFY_REQUEST = 3 /* DTLS */, M_NEW_SESSION_TICKET = 4, M_CERTIFICATE = 11,
    M_SERVER_KEY_EXCHANGE = 12, M_CERTIFICATE_REQUEST = 13, M_SERVER_HELLO_DONE = 14, M_CERTIFICATE_VERIFY = 15,
    M_CLIENT_KEY_EXCHANGE = 16, M_FINISHED = 20,
    M_CCS = 0x100,               // ChangeCipherSpec record (body 01, or Step::payload if given); afterwards the puppet's write state is protected (keys derived on demand, sequence number 0)
    M_APPDATA = 0x101,           // application_data record carrying Step::payload
    M_ALERT = 0x102,             // alert record carrying Step::payload (level, description)
    M_RAW_RECORD = 0x103,        // Step::payload is put on the wire verbatim (complete record(s) supplied by the test)
    M_CERTIFICATE_EMPTY = 0x200, // Certificate message with an empty certificate_list
    M_RAW_HANDSHAKE = 0x201,     // handshake message of type Step::hs_type with body Step::payload (enters the transcript)
    M_TYPED_RECORD = 0x202       // record of content type Step::hs_type with plaintext Step::payload, protected per write state
};
const char *msg_name(int m);     // "ClientHello", "CCS", ...

enum Prot { P_STATE = 0, P_CLEAR = 1, P_ENCRYPTED = 2 };  // follow the write state / force plaintext / force protection (keys derived on demand)

struct Step {
    int msg = M_CLIENT_HELLO;
    int type_override = -1;      // handshake only: replace just the type byte of the honest message (body unchanged)
    int flip_bit = -1;           // flip bit (flip_bit mod 8*len) of the handshake body / record payload; -1 = none
    int prot = P_STATE;
    size_t frag = 0;             // handshake only: records carry at most this many bytes of handshake data (0 = as much as fits)
    int frag_count = 0;          // DTLS handshake only: split the body into this many (nearly equal) in-order fragments instead of `frag` bytes each
    bool coalesce = false;       // handshake only: keep the record open; the next handshake message continues in the same record(s)
    bool resend = false;         // send the byte-identical previous instance of this message (a true duplicate) instead of building a new one
    int hs_type = 0;             // M_RAW_HANDSHAKE: handshake type; M_TYPED_RECORD: record content type
    Bytes payload;               // M_APPDATA / M_ALERT / M_RAW_* / M_TYPED_RECORD / optional NewSessionTicket ticket bytes
    uint16_t rec_version = 0;    // record-layer version (0 = negotiated version)
    int body_len = -1;           // handshake only: truncate / zero-extend the honest body to this many bytes (length fields follow); -1 = honest length
    int epoch_override = -1;     // DTLS: epoch written into the record header (and into MAC/AAD/nonce if protected); -1 = the current write epoch
    int seq_skip = 0;            // DTLS handshake: added to the message_seq this message would get (+1 = gap, -1 = repeats the previous number)
    std::function<void(Bytes &)> mutate; // edits the complete handshake message (4-byte header + body) before it enters the transcript
    Step() {}
    explicit Step(int m) : msg(m) {}
};

// resumable session state (session-id resumption)
struct Session {
    Bytes id, master; uint16_t suite = 0, version = 0; bool ems = false;
    bool valid() const { return !id.empty() && master.size() == 48; }
};

struct Config {
    int role = CLIENT;
    uint16_t version = 0x0303;   // 0x0303 TLS 1.2 (SHA-256 PRF), 0x0302 TLS 1.1 (MD5+SHA1 PRF; CBC-SHA suites only)
    bool dtls = false;           // DTLS 1.2 (version 0x0303 rules, wire 0xfefd) / DTLS 1.0 (version 0x0302 rules, wire 0xfeff): 13-byte record header, 12-byte handshake
                                 // header, HelloVerifyRequest, epochs.  One emit() = the records of one step; deliver every record as its own datagram.  No timers:
                                 // drive in lock-step; duplicates (message_seq already seen) from the peer are ignored, fragments are reassembled in order
    bool dtls_cookie = true;     // DTLS server: legal_script() starts with HelloVerifyRequest
    // 0x009C RSA_AES128_GCM_SHA256, 0xC02F ECDHE_RSA_AES128_GCM_SHA256, 0x003C RSA_AES128_CBC_SHA256, 0xC027 ECDHE_RSA_AES128_CBC_SHA256,
    // 0x002F RSA_AES128_CBC_SHA, 0xC013 ECDHE_RSA_AES128_CBC_SHA
    uint16_t suite = 0x009C;
    bool ems = true;             // client: offer extended_master_secret; server: acknowledge it when offered.  Used iff both sides agree.
    bool client_auth = false;    // only used by legal_script(): server sends CertificateRequest / client sends Certificate+CertificateVerify
    uint64_t seed = 1;           // randoms, session ids, IVs (the process-wide OpenSSL RAND is seeded separately by seed_rand())
    std::string pki_dir = "/verif/pki";
    std::string cert_file;       // own certificate, default srv_rsa.pem / cli_rsa.pem by role
    std::string key_file;        // own private key, default srv_rsa.key / cli_rsa.key (RSA decryption, ServerKeyExchange signature, CertificateVerify)
    std::string cv_key_file;     // sign CertificateVerify with this key instead (proof-of-possession defects); "" = key_file
    std::string ca_file;         // server: DN for the CertificateRequest (default ca_rsa.pem)
    Session resume;              // client: offer this session id; server: accept it when the client offers it
    bool offer_ticket_ext = false; // client: send an empty session_ticket extension
    Bytes client_ticket;           // client: with offer_ticket_ext, put these bytes into the extension (a ticket the server never issued)
    bool ack_ticket_ext = false;   // server: acknowledge session_ticket (then NewSessionTicket is a legal message)
    Bytes ticket_master;           // server, 48 bytes: the master secret inside the ticket this server issued; a ClientHello that carries a non-empty ticket is then
                                   // resumed from it (RFC 5077) whatever its session id is; the ServerHello session id is fresh or, with server_empty_session_id, empty
    bool server_empty_session_id = false; // server: ServerHello carries an empty session id (not resumable by id; RFC 5077 ticket-only servers do this)
    Bytes master_override;         // 48 bytes: use this master secret wherever the puppet would take the resumed session's secret (or, lacking any key exchange,
                                   // derive one from an empty premaster) - "wrong session secret" deviations; a ClientKeyExchange still computes the real one
    std::vector<uint16_t> extra_suites; // client: offered in addition to `suite` (after it)
    Bytes server_random_tail;           // server: 8 bytes written over the end of ServerHello.random (RFC 8446 4.1.3 downgrade sentinels); keys follow the random really sent
    bool server_no_extensions = false;  // server: ServerHello without an extensions block (extended master secret is then not acknowledged)
    int server_suite_override = -1;     // server: put this suite in ServerHello regardless of the offer (C07); keys still follow `suite`
};

struct Seen { int type; bool encrypted; size_t len; };   // a handshake message / CCS (0x100) / alert (0x102) / app data (0x101) received

class Puppet12 {
public:
    explicit Puppet12(const Config &cfg);
    ~Puppet12();
    Puppet12(const Puppet12 &) = delete;
    Puppet12 &operator=(const Puppet12 &) = delete;

    // ---- send side: wire bytes for one step (empty while Step::coalesce keeps a record open)
    Bytes emit(const Step &s);
    // ---- receive side: bytes from the peer; parses records (decrypting after the peer's CCS), handshake messages, updates transcript/state
    void feed(const Bytes &wire);
    void feed(const uint8_t *d, size_t n);

    // ---- observations
    const std::vector<Seen> &seen() const;       // everything received, in order
    bool peer_ccs() const;                       // peer's ChangeCipherSpec seen
    bool peer_finished() const;                  // peer's Finished seen
    bool peer_finished_ok() const;               // ... and its verify_data matched the puppet's transcript
    bool resumed() const;                        // abbreviated handshake in progress (session id matched)
    bool ems_active() const;                     // extended master secret negotiated
    bool cert_requested() const;                 // client role: CertificateRequest seen
    bool peer_cert_seen() const;                 // a non-empty peer Certificate was parsed
    int peer_sig_ok() const;                     // ServerKeyExchange / CertificateVerify signature: -1 not seen, 0 bad, 1 good
    int alert_level() const;                     // last alert received (-1 none)
    int alert_desc() const;
    bool fatal_alert() const;                    // a fatal alert was received
    const Bytes &app_in() const;                 // application data received from the peer (decrypted)
    const std::string &error() const;            // first receive-side problem ("" = none): undecryptable record, malformed message...
    uint16_t peer_suite() const;                 // server role: 0; client role: suite in ServerHello
    const std::vector<uint16_t> &offered_suites() const; // server role: the ClientHello list
    const Bytes &client_hello_session_id() const;  // server role: session id offered in the ClientHello
    size_t client_hello_ticket_len() const;        // server role: length of the SessionTicket extension body in the ClientHello (0 = empty or absent)
    bool have_master() const;
    Bytes master_secret() const;
    const Bytes &transcript() const;             // all handshake messages sent and received so far (HelloRequest excluded)
    Session session() const;                     // for resumption in a later connection
    bool write_protected() const;                // the puppet's CCS was sent
    // ---- primitives for custom messages
    Bytes verify_data(bool client_label) const;  // Finished verify_data over the current transcript
    Bytes sign(const Bytes &tbs, const std::string &key_file = "") const; // version-appropriate RSA signature (1.2: PKCS1-SHA256, 1.1: MD5+SHA1) with key_file ("" = own key)
    Bytes protect(uint8_t type, const Bytes &plaintext);                 // one protected record under the write keys (advances the write sequence number)
    const Config &config() const;
    struct Impl;
private:
    Impl *p;
};

// The legal flat trace the puppet sends for a configuration (no application data):
//   client: ClientHello | [Certificate] ClientKeyExchange [CertificateVerify] CCS Finished           (resumed: ClientHello | CCS Finished)
//   server: ServerHello Certificate [ServerKeyExchange] [CertificateRequest] ServerHelloDone | [NewSessionTicket] CCS Finished   (resumed: ServerHello [NewSessionTicket] CCS Finished)
//           NewSessionTicket is included iff cfg.ack_ticket_ext (the caller knows that the client offers the SessionTicket extension)
std::vector<Step> legal_script(const Config &cfg, bool resumed = false);

// Seed the process-wide OpenSSL RAND with a deterministic generator (ephemeral EC keys, PKCS#1 padding); call once per case.
void seed_rand(uint64_t seed);
bool suite_supported(uint16_t suite, uint16_t version);
bool suite_is_ecdhe(uint16_t suite);
} // namespace pup
