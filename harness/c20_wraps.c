/* c20_wraps.c - THREAD-SAFE link-time interposers (ld --wrap) for the C20 concurrency check.
 *
 * harness/wraps.c keeps its entropy stream, counters and clock in unsynchronised globals, which is fine for the
 * single-threaded checks but would itself be a data race under C20.  This variant keeps every piece of mutable
 * state thread-local (or immutable after start-up), so ThreadSanitizer never sees the wrappers race:
 *
 *   psGetEntropy   -> per-thread deterministic stream, keyed by (run seed, thread index); different threads never
 *                     produce the same bytes, so server randoms / session ids / ticket IVs stay distinct
 *   time           -> constant wall clock inside the validity period of /verif/pki (certificate dates)
 *   psLockMutex    -> optional seeded yield/sleep BEFORE the acquire, then the real function
 *   psUnlockMutex  -> the real function, then an optional seeded yield/sleep AFTER the release (with its own, higher
 *                     probability knob: the instant after a release is the interesting one)
 *
 * psGetTime / psDiffMsecs are NOT wrapped: the real monotonic clock is thread-safe and nothing in the check
 * depends on elapsed time (cache lifetimes are hours).
 *
 * Nothing here synchronises threads with each other (no atomics with ordering, no locks), so the wrappers add no
 * happens-before edges that could hide a race in the library. */
#include <stdint.h>
#include <string.h>
#include <time.h>
#include <sched.h>
#include "core/coreApi.h"

static __thread uint64_t tl_ent_key = 0x1234;  /* stream key of this thread */
static __thread uint64_t tl_ent_ctr = 0;
static __thread uint64_t tl_yield_state = 0;   /* 0 = yield injection off for this thread */
static __thread uint32_t tl_yield_per_1024 = 0;
static __thread uint32_t tl_sleep_per_1024 = 0;
static __thread uint32_t tl_unlock_sleep_per_1024 = 0;   /* extra: sleep right after a mutex release */
static __thread uint64_t tl_yields = 0;        /* statistics, read by the owning thread only */
static __thread uint64_t tl_lock_calls = 0;

static uint64_t c20_mix(uint64_t x)
{
    x += 0x9E3779B97F4A7C15ULL;
    x = (x ^ (x >> 30)) * 0xBF58476D1CE4E5B9ULL;
    x = (x ^ (x >> 27)) * 0x94D049BB133111EBULL;
    return x ^ (x >> 31);
}

/* Called by each thread for itself. */
void c20_entropy_seed(uint64_t run_seed, uint32_t thread_index)
{
    tl_ent_key = c20_mix(run_seed * 0x100000001B3ULL + 0xC20) ^ c20_mix(((uint64_t) thread_index + 1) << 40);
    tl_ent_ctr = 0;
}

/* Called by each thread for itself; yield_seed 0 switches injection off. */
void c20_yield_config(uint64_t yield_seed, uint32_t thread_index, uint32_t yield_per_1024, uint32_t sleep_per_1024,
    uint32_t unlock_sleep_per_1024)
{
    tl_unlock_sleep_per_1024 = unlock_sleep_per_1024;
    tl_yield_state = yield_seed ? (c20_mix(yield_seed) ^ c20_mix(0xABCD0000ULL + thread_index)) | 1 : 0;
    tl_yield_per_1024 = yield_per_1024;
    tl_sleep_per_1024 = sleep_per_1024;
    tl_yields = 0;
    tl_lock_calls = 0;
}

uint64_t c20_yield_count(void) { return tl_yields; }
uint64_t c20_lock_calls(void) { return tl_lock_calls; }

/* One schedule perturbation point. */
void c20_maybe_yield(void)
{
    uint64_t x = tl_yield_state;
    uint32_t r;
    if (x == 0)
    {
        return;
    }
    x ^= x << 13; x ^= x >> 7; x ^= x << 17;   /* xorshift64 */
    tl_yield_state = x;
    r = (uint32_t) (x >> 20) & 1023;
    if (r < tl_yield_per_1024)
    {
        tl_yields++;
        sched_yield();
    }
    else if (r < tl_yield_per_1024 + tl_sleep_per_1024)
    {
        struct timespec ts;
        ts.tv_sec = 0;
        ts.tv_nsec = 2000 + (long) ((x >> 33) % 150000);   /* 2 .. 152 microseconds */
        tl_yields++;
        nanosleep(&ts, NULL);
    }
}

int32 __wrap_psGetEntropy(unsigned char *bytes, uint32 size, void *userPtr)
{
    uint32 i = 0;
    (void) userPtr;
    while (i < size)
    {
        uint64_t v = c20_mix(tl_ent_key + 0x9E3779B97F4A7C15ULL * (++tl_ent_ctr));
        uint32 k = size - i < 8 ? size - i : 8;
        memcpy(bytes + i, &v, k);
        i += k;
    }
    return (int32) size;
}

/* 2026-09-21: inside the validity of /verif/pki and of the CRLs in props/C20 (same pin as harness/wraps.c). */
time_t __wrap_time(time_t *t)
{
    const time_t v = (time_t) 1790000000;
    if (t)
    {
        *t = v;
    }
    return v;
}

#ifdef USE_MULTITHREADING
void __real_psLockMutex(psMutex_t *mutex);
void __real_psUnlockMutex(psMutex_t *mutex);

void __wrap_psLockMutex(psMutex_t *mutex)
{
    tl_lock_calls++;
    c20_maybe_yield();
    __real_psLockMutex(mutex);
}

void __wrap_psUnlockMutex(psMutex_t *mutex)
{
    uint64_t x;
    __real_psUnlockMutex(mutex);
    /* The window right after a release is where "flag written after unlock" style bugs live: let another thread
       take the lock before this one continues. */
    x = tl_yield_state;
    if (x != 0 && tl_unlock_sleep_per_1024 != 0)
    {
        x ^= x << 13; x ^= x >> 7; x ^= x << 17;
        tl_yield_state = x;
        if (((uint32_t) (x >> 20) & 1023) < tl_unlock_sleep_per_1024)
        {
            struct timespec ts;
            ts.tv_sec = 0;
            ts.tv_nsec = 20000 + (long) ((x >> 33) % 380000);   /* 20 .. 400 microseconds */
            if (((x >> 12) & 7) == 0)
            {
                ts.tv_nsec = 1000000 + (long) ((x >> 33) % 2000000);   /* one in eight: 1 .. 3 milliseconds */
            }
            tl_yields++;
            nanosleep(&ts, NULL);
            return;
        }
    }
    c20_maybe_yield();
}
#endif

/* ------------------------------------------------------------------------------------------------------------
 * Accessors for the application-owned sslSessionId_t (its layout lives in the library-internal header that the
 * repository's own test programs include the same way; the C++ target only sees the opaque type). */
#include "matrixssl/matrixsslImpl.h"

/* session id bytes; returns the length (0 = none) */
int c20_sid_id(const sslSessionId_t *sid, unsigned char out[SSL_MAX_SESSION_ID_SIZE])
{
    if (sid == NULL || sid->idLen == 0 || sid->idLen > SSL_MAX_SESSION_ID_SIZE)
    {
        return 0;
    }
    memcpy(out, sid->id, sid->idLen);
    return (int) sid->idLen;
}

/* key_name (first 16 octets) of the RFC 5077 / TLS 1.3 ticket held in sid; returns 1 if there is one */
int c20_sid_ticket_key_name(const sslSessionId_t *sid, unsigned char out[16])
{
#ifdef USE_STATELESS_SESSION_TICKETS
    if (sid && sid->sessionTicket && sid->sessionTicketLen >= 16)
    {
        memcpy(out, sid->sessionTicket, 16);
        return 1;
    }
#endif
    (void) sid; (void) out;
    return 0;
}

/* Copy the plain-data part of a session-id credential (id, master secret, cipher id) into a fresh sslSessionId_t. */
void c20_sid_copy_id_credential(sslSessionId_t *dst, const sslSessionId_t *src)
{
    memcpy(dst->id, src->id, sizeof dst->id);
    dst->idLen = src->idLen;
    memcpy(dst->masterSecret, src->masterSecret, sizeof dst->masterSecret);
    dst->cipherId = src->cipherId;
}

/* The trust anchor list of a key set (shared by every session created from it): lets the target hand the SAME list that
   the handshakes use to matrixValidateCerts() from several threads. */
psX509Cert_t *c20_keys_cacerts(sslKeys_t *keys)
{
#if defined(USE_IDENTITY_CERTIFICATES) || defined(USE_CA_CERTIFICATES)
    return keys ? keys->CAcerts : NULL;
#else
    (void) keys;
    return NULL;
#endif
}

int c20_ecflag(int which)
{
    return which ? SSL_OPT_SECP384R1 : SSL_OPT_SECP256R1;
}
