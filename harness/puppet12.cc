// puppet12.cc - scripted TLS 1.2/1.1 endpoint on OpenSSL libcrypto primitives (see puppet12.h).  No libssl, no MatrixSSL headers.
#include "puppet12.h"
#include <cstdio>
#include <cstring>
#include <map>
#include <mutex>
#include <openssl/bio.h>
#include <openssl/core_names.h>
#include <openssl/ec.h>
#include <openssl/err.h>
#include <openssl/evp.h>
#include <openssl/hmac.h>
#include <openssl/pem.h>
#include <openssl/rand.h>
#include <openssl/rsa.h>
#include <openssl/x509.h>
#pragma GCC diagnostic ignored "-Wdeprecated-declarations"

namespace pup {

// ------------------------------------------------------------------ small helpers
static void put16(Bytes &b, unsigned v) { b.push_back((uint8_t) (v >> 8)); b.push_back((uint8_t) v); }
static void put24(Bytes &b, unsigned v) { b.push_back((uint8_t) (v >> 16)); b.push_back((uint8_t) (v >> 8)); b.push_back((uint8_t) v); }
static void put64(Bytes &b, uint64_t v) { for (int i = 7; i >= 0; i--) b.push_back((uint8_t) (v >> (8 * i))); }
static void app(Bytes &b, const Bytes &x) { b.insert(b.end(), x.begin(), x.end()); }
static void app(Bytes &b, const uint8_t *p, size_t n) { b.insert(b.end(), p, p + n); }
static void app(Bytes &b, const char *s) { b.insert(b.end(), s, s + strlen(s)); }

const char *msg_name(int m) {
    switch (m) {
    case M_HELLO_REQUEST: return "HelloRequest"; case M_HELLO_VERIFY_REQUEST: return "HelloVerifyRequest"; case M_CLIENT_HELLO: return "ClientHello"; case M_SERVER_HELLO: return "ServerHello";
    case M_NEW_SESSION_TICKET: return "NewSessionTicket"; case M_CERTIFICATE: return "Certificate"; case M_SERVER_KEY_EXCHANGE: return "ServerKeyExchange";
    case M_CERTIFICATE_REQUEST: return "CertificateRequest"; case M_SERVER_HELLO_DONE: return "ServerHelloDone"; case M_CERTIFICATE_VERIFY: return "CertificateVerify";
    case M_CLIENT_KEY_EXCHANGE: return "ClientKeyExchange"; case M_FINISHED: return "Finished"; case M_CCS: return "CCS"; case M_APPDATA: return "AppData";
    case M_ALERT: return "Alert"; case M_RAW_RECORD: return "RawRecord"; case M_CERTIFICATE_EMPTY: return "EmptyCertificate"; case M_RAW_HANDSHAKE: return "RawHandshake";
    case M_TYPED_RECORD: return "TypedRecord";
    }
    return "?";
}

struct SuiteInfo { uint16_t id; bool ecdhe; bool gcm; int mac; bool tls12_only; };
static const SuiteInfo SUITES[] = {
    { 0x009C, false, true, 0, true }, { 0xC02F, true, true, 0, true }, { 0x003C, false, false, 32, true }, { 0xC027, true, false, 32, true },
    { 0x002F, false, false, 20, false }, { 0xC013, true, false, 20, false },
};
static const SuiteInfo *suite_info(uint16_t id) { for (auto &s : SUITES) if (s.id == id) return &s; return nullptr; }
bool suite_supported(uint16_t suite, uint16_t version) { const SuiteInfo *s = suite_info(suite); return s && (version == 0x0303 || (version == 0x0302 && !s->tls12_only)); }
bool suite_is_ecdhe(uint16_t suite) { const SuiteInfo *s = suite_info(suite); return s && s->ecdhe; }

// ------------------------------------------------------------------ deterministic OpenSSL RAND
static uint64_t g_rand_state = 0x1234;
static uint64_t splitmix(uint64_t &s) { uint64_t z = (s += 0x9E3779B97F4A7C15ULL); z = (z ^ (z >> 30)) * 0xBF58476D1CE4E5B9ULL; z = (z ^ (z >> 27)) * 0x94D049BB133111EBULL; return z ^ (z >> 31); }
static int det_bytes(unsigned char *buf, int num) { for (int i = 0; i < num;) { uint64_t v = splitmix(g_rand_state); for (int k = 0; k < 8 && i < num; k++, i++) buf[i] = (unsigned char) (v >> (8 * k)); } return 1; }
static int det_seed(const void *, int) { return 1; }
static int det_add(const void *, int, double) { return 1; }
static int det_status(void) { return 1; }
static RAND_METHOD g_det_meth = { det_seed, det_bytes, nullptr, det_add, det_bytes, det_status };
void seed_rand(uint64_t seed) {
    static bool installed = false;
    if (!installed) { RAND_set_rand_method(&g_det_meth); installed = true; }
    g_rand_state = seed * 0x100000001B3ULL + 0x5bd1e995;
}

// ------------------------------------------------------------------ PKI cache (files are read once per process)
static std::mutex g_pki_mx;
static EVP_PKEY *load_key(const std::string &path) {
    static std::map<std::string, EVP_PKEY *> &cache = *new std::map<std::string, EVP_PKEY *>;   // never destroyed: stays reachable for LeakSanitizer
    std::lock_guard<std::mutex> lk(g_pki_mx);
    auto it = cache.find(path); if (it != cache.end()) return it->second;
    EVP_PKEY *k = nullptr; BIO *b = BIO_new_file(path.c_str(), "r");
    if (b) { k = PEM_read_bio_PrivateKey(b, nullptr, nullptr, nullptr); BIO_free(b); }
    if (!k) fprintf(stderr, "[puppet12] cannot load private key %s\n", path.c_str());
    cache[path] = k; return k;
}
struct CertInfo { Bytes der, subject_dn; };
static const CertInfo &load_cert(const std::string &path) {
    static std::map<std::string, CertInfo> &cache = *new std::map<std::string, CertInfo>;
    std::lock_guard<std::mutex> lk(g_pki_mx);
    auto it = cache.find(path); if (it != cache.end()) return it->second;
    CertInfo ci; BIO *b = BIO_new_file(path.c_str(), "r");
    if (b) {
        X509 *x = PEM_read_bio_X509(b, nullptr, nullptr, nullptr); BIO_free(b);
        if (x) {
            unsigned char *d = nullptr; int n = i2d_X509(x, &d); if (n > 0) { ci.der.assign(d, d + n); OPENSSL_free(d); }
            d = nullptr; n = i2d_X509_NAME(X509_get_subject_name(x), &d); if (n > 0) { ci.subject_dn.assign(d, d + n); OPENSSL_free(d); }
            X509_free(x);
        }
    }
    if (ci.der.empty()) fprintf(stderr, "[puppet12] cannot load certificate %s\n", path.c_str());
    return cache[path] = ci;
}

// ------------------------------------------------------------------ hashing / PRF
static Bytes digest(const EVP_MD *md, const Bytes &d) { Bytes o(EVP_MD_get_size(md)); unsigned n = 0; EVP_Digest(d.data(), d.size(), o.data(), &n, md, nullptr); o.resize(n); return o; }
static Bytes hmac(const EVP_MD *md, const uint8_t *key, size_t klen, const Bytes &d) {
    Bytes o(EVP_MAX_MD_SIZE); unsigned n = 0; static const uint8_t z = 0;
    HMAC(md, klen ? key : &z, (int) klen, d.data(), d.size(), o.data(), &n); o.resize(n); return o;
}
static Bytes p_hash(const EVP_MD *md, const uint8_t *sec, size_t slen, const Bytes &seed, size_t n) {
    Bytes out, a = seed;
    while (out.size() < n) { a = hmac(md, sec, slen, a); Bytes x = a; app(x, seed); app(out, hmac(md, sec, slen, x)); }
    out.resize(n); return out;
}
static Bytes prf(uint16_t ver, const Bytes &secret, const char *label, const Bytes &seed, size_t n) {
    Bytes ls; app(ls, label); app(ls, seed);
    if (ver >= 0x0303) return p_hash(EVP_sha256(), secret.data(), secret.size(), ls, n);
    size_t half = (secret.size() + 1) / 2;
    Bytes a = p_hash(EVP_md5(), secret.data(), half, ls, n), b = p_hash(EVP_sha1(), secret.data() + (secret.size() - half), half, ls, n);
    for (size_t i = 0; i < n; i++) a[i] ^= b[i];
    return a;
}
static Bytes hs_hash(uint16_t ver, const Bytes &t) {
    if (ver >= 0x0303) return digest(EVP_sha256(), t);
    Bytes a = digest(EVP_md5(), t); app(a, digest(EVP_sha1(), t)); return a;
}

// ------------------------------------------------------------------ signatures
static Bytes rsa_sign(uint16_t ver, EVP_PKEY *key, const Bytes &tbs) {
    Bytes sig; if (!key) return sig;
    if (ver >= 0x0303) {
        EVP_MD_CTX *c = EVP_MD_CTX_new(); size_t n = 0;
        if (EVP_DigestSignInit(c, nullptr, EVP_sha256(), nullptr, key) == 1 && EVP_DigestSign(c, nullptr, &n, tbs.data(), tbs.size()) == 1) {
            sig.resize(n); if (EVP_DigestSign(c, sig.data(), &n, tbs.data(), tbs.size()) == 1) sig.resize(n); else sig.clear();
        }
        EVP_MD_CTX_free(c); return sig;
    }
    Bytes h = hs_hash(ver, tbs);
    EVP_PKEY_CTX *c = EVP_PKEY_CTX_new(key, nullptr); size_t n = 0;
    if (c && EVP_PKEY_sign_init(c) == 1 && EVP_PKEY_CTX_set_rsa_padding(c, RSA_PKCS1_PADDING) == 1 && EVP_PKEY_CTX_set_signature_md(c, EVP_md5_sha1()) == 1 &&
        EVP_PKEY_sign(c, nullptr, &n, h.data(), h.size()) == 1) { sig.resize(n); if (EVP_PKEY_sign(c, sig.data(), &n, h.data(), h.size()) == 1) sig.resize(n); else sig.clear(); }
    EVP_PKEY_CTX_free(c); return sig;
}
static bool rsa_verify(uint16_t ver, EVP_PKEY *key, const Bytes &tbs, const uint8_t *sig, size_t slen, int hash_id) {
    if (!key) return false; bool ok = false;
    if (ver >= 0x0303) {
        const EVP_MD *md = hash_id == 2 ? EVP_sha1() : hash_id == 5 ? EVP_sha384() : hash_id == 6 ? EVP_sha512() : EVP_sha256();
        EVP_MD_CTX *c = EVP_MD_CTX_new();
        ok = EVP_DigestVerifyInit(c, nullptr, md, nullptr, key) == 1 && EVP_DigestVerify(c, sig, slen, tbs.data(), tbs.size()) == 1;
        EVP_MD_CTX_free(c); return ok;
    }
    Bytes h = hs_hash(ver, tbs);
    EVP_PKEY_CTX *c = EVP_PKEY_CTX_new(key, nullptr);
    ok = c && EVP_PKEY_verify_init(c) == 1 && EVP_PKEY_CTX_set_rsa_padding(c, RSA_PKCS1_PADDING) == 1 && EVP_PKEY_CTX_set_signature_md(c, EVP_md5_sha1()) == 1 &&
         EVP_PKEY_verify(c, sig, slen, h.data(), h.size()) == 1;
    EVP_PKEY_CTX_free(c); return ok;
}

// ------------------------------------------------------------------ the endpoint
struct Puppet12::Impl {
    Config cfg; const SuiteInfo *si; uint64_t rng;
    Bytes client_random, server_random, session_id;
    Bytes transcript, premaster, master; bool have_master = false;
    Bytes c_mac, s_mac, c_key, s_key, c_iv, s_iv; bool have_keys = false;
    bool w_enc = false, r_enc = false; uint64_t w_seq = 0, r_seq = 0;
    // DTLS: write epoch / record sequence number within the epoch, handshake message_seq counters, cookie
    unsigned w_epoch = 0; uint64_t w_rseq = 0; unsigned w_msg_seq = 0, r_msg_seq = 0; Bytes cookie; bool hvr_seen = false, ch_sent = false;
    Bytes frag_buf; int frag_type = -1; size_t frag_total = 0;   // DTLS reassembly of the message with message_seq == r_msg_seq
    EVP_PKEY *own_key = nullptr;        // cached, not owned
    EVP_PKEY *peer_key = nullptr;       // owned (from the peer's Certificate)
    EVP_PKEY *ecdh = nullptr;           // owned
    Bytes own_point, peer_point;
    Bytes co_buf;                       // handshake bytes of an open (coalescing) record
    Bytes rbuf, hbuf; bool hbuf_enc = false;
    std::map<int, Bytes> last_sent;
    // negotiated / observed
    bool ems = false, resumed_ = false, client_offers_ems = false, client_reneg = false, client_ticket = false, cr_seen = false, peer_cert = false; size_t ch_ticket_len = 0;
    int sig_ok = -1; bool ccs_seen = false, fin_seen = false, fin_ok = false; int al_level = -1, al_desc = -1; bool fatal = false;
    Bytes app_in; std::string err; std::vector<Seen> seen; uint16_t peer_suite_ = 0; std::vector<uint16_t> offered; Bytes ch_sid;

    explicit Impl(const Config &c) : cfg(c) {
        si = suite_info(cfg.suite); if (!si) si = &SUITES[0];
        rng = cfg.seed * 0x9E3779B97F4A7C15ULL + 77;
        if (cfg.cert_file.empty()) cfg.cert_file = cfg.role == SERVER ? "srv_rsa.pem" : "cli_rsa.pem";
        if (cfg.key_file.empty()) cfg.key_file = cfg.role == SERVER ? "srv_rsa.key" : "cli_rsa.key";
        if (cfg.ca_file.empty()) cfg.ca_file = "ca_rsa.pem";
        own_key = load_key(path(cfg.key_file));
        client_random.assign(32, 0); server_random.assign(32, 0);
    }
    ~Impl() { if (peer_key) EVP_PKEY_free(peer_key); if (ecdh) EVP_PKEY_free(ecdh); }
    std::string path(const std::string &f) const { return f.empty() || f[0] == '/' ? f : cfg.pki_dir + "/" + f; }
    Bytes rnd(size_t n) { Bytes b(n); for (size_t i = 0; i < n;) { uint64_t v = splitmix(rng); for (int k = 0; k < 8 && i < n; k++, i++) b[i] = (uint8_t) (v >> (8 * k)); } return b; }
    void fail(const std::string &e) { if (err.empty()) err = e; }
    bool is_client() const { return cfg.role == CLIENT; }
    bool dtls() const { return cfg.dtls; }
    uint16_t wire_ver() const { return !cfg.dtls ? cfg.version : cfg.version >= 0x0303 ? 0xfefd : 0xfeff; }
    size_t hs_hdr() const { return cfg.dtls ? 12 : 4; }

    // ---- key schedule
    void compute_master() {
        if (ems) master = prf(cfg.version, premaster, "extended master secret", hs_hash(cfg.version, transcript), 48);
        else { Bytes seed = client_random; app(seed, server_random); master = prf(cfg.version, premaster, "master secret", seed, 48); }
        have_master = true; have_keys = false;
    }
    bool override_master() { if (cfg.master_override.size() != 48) return false; master = cfg.master_override; have_master = true; have_keys = false; return true; }
    void ensure_master() { if (!have_master && !override_master()) compute_master(); }   // fall-back: whatever premaster exists (possibly empty)
    void derive_keys() {
        ensure_master();
        Bytes seed = server_random; app(seed, client_random);
        size_t mk = (size_t) si->mac, ek = 16, iv = si->gcm ? 4 : 0;
        Bytes kb = prf(cfg.version, master, "key expansion", seed, 2 * mk + 2 * ek + 2 * iv); size_t o = 0;
        auto cut = [&](size_t n) { Bytes x(kb.begin() + o, kb.begin() + o + n); o += n; return x; };
        c_mac = cut(mk); s_mac = cut(mk); c_key = cut(ek); s_key = cut(ek); c_iv = cut(iv); s_iv = cut(iv);
        have_keys = true;
    }
    void ensure_keys() { if (!have_keys) derive_keys(); }
    Bytes verify_data(bool client_label) { ensure_master(); return prf(cfg.version, master, client_label ? "client finished" : "server finished", hs_hash(cfg.version, transcript), 12); }

    // ---- record protection
    const EVP_MD *mac_md() const { return si->mac == 20 ? EVP_sha1() : EVP_sha256(); }
    // TLS: 5-byte header.  DTLS: 13 bytes, epoch + 48-bit sequence number taken from seq64
    Bytes header(uint8_t type, uint16_t ver, size_t len, uint64_t seq64 = 0) {
        Bytes r; r.push_back(type); put16(r, ver);
        if (cfg.dtls) { Bytes x; put64(x, seq64); app(r, x); }
        put16(r, (unsigned) len); return r;
    }
    // sequence value that enters MAC / AAD / explicit nonce: TLS = implicit counter, DTLS = epoch || 48-bit record sequence number (epoch_override: header lies)
    uint64_t next_seq64(int epoch_override) {
        if (!cfg.dtls) return w_seq;
        unsigned ep = epoch_override >= 0 ? (unsigned) epoch_override : w_epoch;
        return ((uint64_t) ep << 48) | (w_rseq++ & 0xffffffffffffULL);
    }
    Bytes protect(uint8_t type, const Bytes &pt, uint16_t ver, int epoch_override = -1) {
        ensure_keys();
        uint64_t w_seq = next_seq64(epoch_override);   // shadows the TLS counter on purpose
        const Bytes &key = is_client() ? c_key : s_key, &iv = is_client() ? c_iv : s_iv, &mk = is_client() ? c_mac : s_mac;
        Bytes ad; put64(ad, w_seq); ad.push_back(type); put16(ad, ver); put16(ad, (unsigned) pt.size());
        Bytes body;
        if (si->gcm) {
            Bytes nonce = iv; put64(nonce, w_seq);
            EVP_CIPHER_CTX *c = EVP_CIPHER_CTX_new(); Bytes ct(pt.size() + 16); int n = 0, m = 0; uint8_t tag[16];
            EVP_EncryptInit_ex(c, EVP_aes_128_gcm(), nullptr, key.data(), nonce.data());
            EVP_EncryptUpdate(c, nullptr, &n, ad.data(), (int) ad.size());
            if (!pt.empty()) EVP_EncryptUpdate(c, ct.data(), &n, pt.data(), (int) pt.size()); else n = 0;
            EVP_EncryptFinal_ex(c, ct.data() + n, &m);
            EVP_CIPHER_CTX_ctrl(c, EVP_CTRL_GCM_GET_TAG, 16, tag); EVP_CIPHER_CTX_free(c);
            ct.resize(pt.size()); put64(body, w_seq); app(body, ct); app(body, tag, 16);
        } else {
            Bytes md = ad; app(md, pt); Bytes mac = hmac(mac_md(), mk.data(), mk.size(), md);
            Bytes data = pt; app(data, mac); size_t pad = 16 - (data.size() % 16); data.insert(data.end(), pad, (uint8_t) (pad - 1));
            Bytes civ = rnd(16), ct(data.size() + 16); int n = 0, m = 0;
            EVP_CIPHER_CTX *c = EVP_CIPHER_CTX_new(); EVP_EncryptInit_ex(c, EVP_aes_128_cbc(), nullptr, key.data(), civ.data()); EVP_CIPHER_CTX_set_padding(c, 0);
            EVP_EncryptUpdate(c, ct.data(), &n, data.data(), (int) data.size()); EVP_EncryptFinal_ex(c, ct.data() + n, &m); EVP_CIPHER_CTX_free(c);
            ct.resize(data.size()); body = civ; app(body, ct);
        }
        if (!cfg.dtls) this->w_seq++;
        Bytes r = header(type, ver, body.size(), w_seq); app(r, body); return r;
    }
    bool unprotect(uint8_t type, uint16_t ver, const Bytes &in, Bytes &pt, uint64_t seq64 = 0) {
        ensure_keys();
        uint64_t r_seq = cfg.dtls ? seq64 : this->r_seq;
        const Bytes &key = is_client() ? s_key : c_key, &iv = is_client() ? s_iv : c_iv, &mk = is_client() ? s_mac : c_mac;
        if (si->gcm) {
            if (in.size() < 24) return false;
            size_t n = in.size() - 24; Bytes nonce = iv; app(nonce, in.data(), 8);
            Bytes ad; put64(ad, r_seq); ad.push_back(type); put16(ad, ver); put16(ad, (unsigned) n);
            pt.assign(n, 0); int a = 0, b = 0;
            EVP_CIPHER_CTX *c = EVP_CIPHER_CTX_new(); EVP_DecryptInit_ex(c, EVP_aes_128_gcm(), nullptr, key.data(), nonce.data());
            EVP_DecryptUpdate(c, nullptr, &a, ad.data(), (int) ad.size());
            if (n) EVP_DecryptUpdate(c, pt.data(), &a, in.data() + 8, (int) n);
            EVP_CIPHER_CTX_ctrl(c, EVP_CTRL_GCM_SET_TAG, 16, (void *) (in.data() + 8 + n));
            uint8_t dummy[16]; int ok = EVP_DecryptFinal_ex(c, n ? pt.data() + a : dummy, &b); EVP_CIPHER_CTX_free(c);
            if (ok != 1) return false;
        } else {
            size_t ml = (size_t) si->mac;
            if (in.size() < 32 || in.size() % 16) return false;
            Bytes data(in.size() - 16); int a = 0, b = 0;
            EVP_CIPHER_CTX *c = EVP_CIPHER_CTX_new(); EVP_DecryptInit_ex(c, EVP_aes_128_cbc(), nullptr, key.data(), in.data()); EVP_CIPHER_CTX_set_padding(c, 0);
            EVP_DecryptUpdate(c, data.data(), &a, in.data() + 16, (int) data.size()); EVP_DecryptFinal_ex(c, data.data() + a, &b); EVP_CIPHER_CTX_free(c);
            size_t pad = data.back(); if (pad + 1 + ml > data.size()) return false;
            for (size_t i = 0; i <= pad; i++) if (data[data.size() - 1 - i] != pad) return false;
            size_t n = data.size() - pad - 1 - ml;
            Bytes md; put64(md, r_seq); md.push_back(type); put16(md, ver); put16(md, (unsigned) n); app(md, data.data(), n);
            Bytes mac = hmac(mac_md(), mk.data(), mk.size(), md);
            if (memcmp(mac.data(), data.data() + n, ml) != 0) return false;
            pt.assign(data.begin(), data.begin() + n);
        }
        if (!cfg.dtls) this->r_seq++;
        return true;
    }
    Bytes record(uint8_t type, const Bytes &pt, int prot, uint16_t ver, int epoch_override = -1) {
        if (!ver) ver = wire_ver();
        bool enc = prot == P_ENCRYPTED || (prot == P_STATE && w_enc);
        if (enc) return protect(type, pt, ver, epoch_override);
        Bytes r = header(type, ver, pt.size(), next_seq64(epoch_override)); app(r, pt); return r;
    }

    // ---- ECDH
    void ecdh_gen() {
        if (ecdh) return;
        ecdh = EVP_EC_gen("P-256"); own_point.assign(65, 0); size_t n = 0;
        if (!ecdh || EVP_PKEY_get_octet_string_param(ecdh, OSSL_PKEY_PARAM_PUB_KEY, own_point.data(), own_point.size(), &n) != 1) { fail("ecdh keygen failed"); n = 65; }
        own_point.resize(n);
    }
    void ecdh_derive() {   // premaster from own key and peer_point; all-zero fall-back
        premaster.assign(32, 0);
        if (!ecdh || peer_point.empty()) return;
        EVP_PKEY *peer = EVP_PKEY_new(); bool ok = false;
        if (peer && EVP_PKEY_copy_parameters(peer, ecdh) == 1 && EVP_PKEY_set1_encoded_public_key(peer, peer_point.data(), peer_point.size()) == 1) {
            EVP_PKEY_CTX *c = EVP_PKEY_CTX_new(ecdh, nullptr); size_t n = 0;
            if (c && EVP_PKEY_derive_init(c) == 1 && EVP_PKEY_derive_set_peer(c, peer) == 1 && EVP_PKEY_derive(c, nullptr, &n) == 1) {
                Bytes z(n); if (EVP_PKEY_derive(c, z.data(), &n) == 1) { z.resize(n); premaster = z; ok = true; }
            }
            EVP_PKEY_CTX_free(c);
        }
        if (peer) EVP_PKEY_free(peer);
        if (!ok) fail("ecdh derive failed (bad peer point)");
    }

    // ---- message builders (bodies)
    Bytes build_client_hello() {
        if (!(cfg.dtls && ch_sent)) client_random = rnd(32);   // DTLS: the ClientHello that answers a HelloVerifyRequest repeats the first one (RFC 6347 4.2.1)
        ch_sent = true;
        Bytes b; put16(b, wire_ver()); app(b, client_random);
        session_id = cfg.resume.valid() ? cfg.resume.id : Bytes();
        b.push_back((uint8_t) session_id.size()); app(b, session_id);
        if (cfg.dtls) { b.push_back((uint8_t) cookie.size()); app(b, cookie); }
        std::vector<uint16_t> su = { cfg.suite }; for (auto s : cfg.extra_suites) su.push_back(s); su.push_back(0x00FF);
        put16(b, (unsigned) su.size() * 2); for (auto s : su) put16(b, s);
        b.push_back(1); b.push_back(0);
        Bytes e;
        if (cfg.ems) { put16(e, 0x0017); put16(e, 0); }
        { put16(e, 0x000a); put16(e, 4); put16(e, 2); put16(e, 23); }
        { put16(e, 0x000b); put16(e, 2); e.push_back(1); e.push_back(0); }
        if (cfg.version >= 0x0303) { static const uint8_t sa[] = { 4, 1, 5, 1, 6, 1, 2, 1, 4, 3 }; put16(e, 0x000d); put16(e, sizeof sa + 2); put16(e, sizeof sa); app(e, sa, sizeof sa); }
        if (cfg.offer_ticket_ext) { put16(e, 0x0023); put16(e, (unsigned) cfg.client_ticket.size()); app(e, cfg.client_ticket); }
        put16(b, (unsigned) e.size()); app(b, e);
        return b;
    }
    Bytes build_server_hello() {
        server_random = rnd(32);
        if (cfg.server_random_tail.size() == 8) std::copy(cfg.server_random_tail.begin(), cfg.server_random_tail.end(), server_random.begin() + 24);
        if (cfg.resume.valid() && ch_sid == cfg.resume.id) { resumed_ = true; session_id = cfg.resume.id; master = cfg.resume.master; have_master = true; have_keys = false; override_master(); }
        else {
            session_id = cfg.server_empty_session_id ? Bytes() : rnd(32);
            if (cfg.ticket_master.size() == 48 && ch_ticket_len > 0) { resumed_ = true; master = cfg.ticket_master; have_master = true; have_keys = false; override_master(); }   // ticket accepted
        }
        ems = cfg.ems && client_offers_ems && !cfg.server_no_extensions;
        Bytes b; put16(b, wire_ver()); app(b, server_random); b.push_back((uint8_t) session_id.size()); app(b, session_id);
        put16(b, cfg.server_suite_override >= 0 ? (unsigned) cfg.server_suite_override : cfg.suite); b.push_back(0);
        Bytes e;
        if (client_reneg) { put16(e, 0xff01); put16(e, 1); e.push_back(0); }
        if (ems) { put16(e, 0x0017); put16(e, 0); }
        if (cfg.ack_ticket_ext && client_ticket) { put16(e, 0x0023); put16(e, 0); }
        if (!e.empty() && !cfg.server_no_extensions) { put16(b, (unsigned) e.size()); app(b, e); }
        return b;
    }
    Bytes build_certificate(bool empty) {
        Bytes list;
        if (!empty) { const Bytes &der = load_cert(path(cfg.cert_file)).der; put24(list, (unsigned) der.size()); app(list, der); }
        Bytes b; put24(b, (unsigned) list.size()); app(b, list); return b;
    }
    Bytes build_ske() {
        ecdh_gen();
        Bytes params; params.push_back(3); put16(params, 23); params.push_back((uint8_t) own_point.size()); app(params, own_point);
        Bytes tbs = client_random; app(tbs, server_random); app(tbs, params);
        Bytes sig = rsa_sign(cfg.version, own_key, tbs);
        Bytes b = params; if (cfg.version >= 0x0303) { b.push_back(4); b.push_back(1); } put16(b, (unsigned) sig.size()); app(b, sig);
        if (!peer_point.empty()) ecdh_derive();
        return b;
    }
    Bytes build_cert_request() {
        Bytes b; b.push_back(2); b.push_back(1); b.push_back(64);
        if (cfg.version >= 0x0303) { static const uint8_t sa[] = { 4, 1, 5, 1, 6, 1, 2, 1, 4, 3 }; put16(b, sizeof sa); app(b, sa, sizeof sa); }
        const Bytes &dn = load_cert(path(cfg.ca_file)).subject_dn;
        put16(b, (unsigned) dn.size() + 2); put16(b, (unsigned) dn.size()); app(b, dn);
        return b;
    }
    Bytes build_cke() {
        Bytes b;
        if (si->ecdhe) { ecdh_gen(); ecdh_derive(); b.push_back((uint8_t) own_point.size()); app(b, own_point); return b; }
        premaster.clear(); put16(premaster, wire_ver()); app(premaster, rnd(46));
        Bytes ct;
        if (peer_key) {
            EVP_PKEY_CTX *c = EVP_PKEY_CTX_new(peer_key, nullptr); size_t n = 0;
            if (c && EVP_PKEY_encrypt_init(c) == 1 && EVP_PKEY_CTX_set_rsa_padding(c, RSA_PKCS1_PADDING) == 1 && EVP_PKEY_encrypt(c, nullptr, &n, premaster.data(), premaster.size()) == 1) {
                ct.resize(n); if (EVP_PKEY_encrypt(c, ct.data(), &n, premaster.data(), premaster.size()) == 1) ct.resize(n); else ct.clear();
            }
            EVP_PKEY_CTX_free(c);
        }
        if (ct.empty()) ct = rnd(256);   // no server key known: random ciphertext
        put16(b, (unsigned) ct.size()); app(b, ct); return b;
    }
    Bytes build_cv() {
        EVP_PKEY *k = cfg.cv_key_file.empty() ? own_key : load_key(path(cfg.cv_key_file));
        Bytes sig = rsa_sign(cfg.version, k, transcript);
        Bytes b; if (cfg.version >= 0x0303) { b.push_back(4); b.push_back(1); } put16(b, (unsigned) sig.size()); app(b, sig); return b;
    }
    Bytes build_hvr() { cookie = rnd(20); Bytes b; put16(b, wire_ver()); b.push_back((uint8_t) cookie.size()); app(b, cookie); return b; }
    Bytes build_nst(const Bytes &ticket) { Bytes t = ticket.empty() ? rnd(48) : ticket; Bytes b; put16(b, 0); put16(b, 7200); put16(b, (unsigned) t.size()); app(b, t); return b; }

    // ---- emit
    // DTLS: one handshake message (unfragmented form in `full`) -> records, each with its own 12-byte header (fragment_offset / fragment_length)
    Bytes flush_dtls(const Step &s, const Bytes &full) {
        Bytes out; size_t blen = full.size() - 12, chunk = s.frag ? s.frag : 16384, o = 0;
        if (s.frag_count > 0 && blen) chunk = (blen + (size_t) s.frag_count - 1) / (size_t) s.frag_count;
        do {
            size_t k = std::min(chunk, blen - o);
            Bytes part(full.begin(), full.begin() + 6); put24(part, (unsigned) o); put24(part, (unsigned) k); app(part, full.data() + 12 + o, k);
            app(out, record(22, part, s.prot, s.rec_version, s.epoch_override)); o += k;
        } while (o < blen);
        return out;
    }
    Bytes flush(const Step &s) {
        Bytes out; size_t chunk = s.frag ? s.frag : 16384, o = 0;
        while (o < co_buf.size()) { size_t k = std::min(chunk, co_buf.size() - o); Bytes part(co_buf.begin() + o, co_buf.begin() + o + k); app(out, record(22, part, s.prot, s.rec_version)); o += k; }
        co_buf.clear(); return out;
    }
    static void flip(Bytes &b, size_t from, int bit) { if (bit < 0 || b.size() <= from) return; size_t nb = (b.size() - from) * 8, i = (size_t) bit % nb; b[from + i / 8] ^= (uint8_t) (1u << (i % 8)); }
    Bytes emit(const Step &s) {
        Bytes out;
        int m = s.msg;
        bool hs = m < 0x100 || m == M_CERTIFICATE_EMPTY || m == M_RAW_HANDSHAKE;
        if (hs) {
            Bytes full; int type = m == M_CERTIFICATE_EMPTY ? M_CERTIFICATE : m == M_RAW_HANDSHAKE ? s.hs_type : m;
            if (cfg.dtls && s.resend && last_sent.count(m)) return flush_dtls(s, last_sent[m]);   // DTLS retransmission (same message_seq): receivers ignore it, it is not hashed again
            if (s.resend && last_sent.count(m)) full = last_sent[m];
            else {
                Bytes body;
                switch (m) {
                case M_HELLO_REQUEST: case M_SERVER_HELLO_DONE: break;
                case M_HELLO_VERIFY_REQUEST: body = build_hvr(); break;
                case M_CLIENT_HELLO: body = build_client_hello(); break;
                case M_SERVER_HELLO: body = build_server_hello(); break;
                case M_CERTIFICATE: body = build_certificate(false); break;
                case M_CERTIFICATE_EMPTY: body = build_certificate(true); break;
                case M_SERVER_KEY_EXCHANGE: body = build_ske(); break;
                case M_CERTIFICATE_REQUEST: body = build_cert_request(); break;
                case M_CLIENT_KEY_EXCHANGE: body = build_cke(); break;
                case M_CERTIFICATE_VERIFY: body = build_cv(); break;
                case M_FINISHED: body = verify_data(is_client()); break;
                case M_NEW_SESSION_TICKET: body = build_nst(s.payload); break;
                default: body = s.payload; break;
                }
                if (s.body_len >= 0) body.resize((size_t) s.body_len, 0);   // wrong-length body: honest prefix / honest + trailing zero bytes
                full.push_back((uint8_t) type); put24(full, (unsigned) body.size());
                if (cfg.dtls) {   // message_seq, fragment_offset 0, fragment_length = length: the form that enters the transcript
                    int ms = (int) w_msg_seq + s.seq_skip; if (ms < 0) ms = 0;
                    put16(full, (unsigned) ms); put24(full, 0); put24(full, (unsigned) body.size()); w_msg_seq = (unsigned) ms + 1;
                }
                app(full, body);
                if (s.type_override >= 0) full[0] = (uint8_t) s.type_override;
                flip(full, hs_hdr(), s.flip_bit);
                if (s.mutate) s.mutate(full);
            }
            last_sent[m] = full;
            // not part of the handshake hashes: HelloRequest (RFC 5246 7.4.1.1); DTLS: HelloVerifyRequest and every ClientHello before the last one (RFC 6347 4.2.1)
            if (cfg.dtls && full.size() >= 1 && full[0] == M_CLIENT_HELLO) transcript.clear();
            if (!(full.size() >= 1 && (full[0] == M_HELLO_REQUEST || (cfg.dtls && full[0] == M_HELLO_VERIFY_REQUEST)))) app(transcript, full);
            if (m == M_CLIENT_KEY_EXCHANGE) compute_master();   // session hash (RFC 7627) = transcript up to and including ClientKeyExchange
            if (cfg.dtls) return flush_dtls(s, full);
            app(co_buf, full);
            if (s.coalesce) return out;
            return flush(s);
        }
        if (!co_buf.empty()) { Step d; out = flush(d); }   // a non-handshake record closes any open handshake record
        switch (m) {
        case M_CCS: {
            Bytes pt = { 1 }; if (!s.payload.empty()) pt = s.payload; flip(pt, 0, s.flip_bit);
            app(out, record(20, pt, s.prot, s.rec_version, s.epoch_override));
            derive_keys(); w_enc = true; w_seq = 0; if (cfg.dtls) { w_epoch++; w_rseq = 0; } break;   // pending write state becomes current: (re)derive from the present master, sequence number 0
        }
        case M_APPDATA: { Bytes pt = s.payload; flip(pt, 0, s.flip_bit); app(out, record(23, pt, s.prot, s.rec_version, s.epoch_override)); break; }
        case M_ALERT: { Bytes pt = s.payload; if (pt.empty()) pt = { 1, 0 }; app(out, record(21, pt, s.prot, s.rec_version, s.epoch_override)); break; }
        case M_TYPED_RECORD: { Bytes pt = s.payload; flip(pt, 0, s.flip_bit); app(out, record((uint8_t) s.hs_type, pt, s.prot, s.rec_version, s.epoch_override)); break; }
        case M_RAW_RECORD: app(out, s.payload); break;
        default: break;
        }
        return out;
    }

    // ---- receive
    void on_handshake(int type, const Bytes &body, const Bytes &full, bool enc) {
        seen.push_back({ type, enc, full.size() });
        const uint8_t *p = body.data(); size_t n = body.size();
        if (is_client()) {
            switch (type) {
            case M_SERVER_HELLO: {
                if (n < 35) { fail("short ServerHello"); break; }
                server_random.assign(p + 2, p + 34); size_t sl = p[34]; if (35 + sl + 3 > n) { fail("bad ServerHello"); break; }
                Bytes sid(p + 35, p + 35 + sl); size_t o = 35 + sl; peer_suite_ = (uint16_t) (p[o] << 8 | p[o + 1]); o += 3;
                if (cfg.resume.valid() && !sid.empty() && sid == cfg.resume.id) { resumed_ = true; master = cfg.resume.master; have_master = true; have_keys = false; override_master(); }
                session_id = sid; ems = false;
                if (o + 2 <= n) { size_t el = (size_t) (p[o] << 8 | p[o + 1]); o += 2; size_t end = std::min(n, o + el);
                    while (o + 4 <= end) { unsigned et = (unsigned) (p[o] << 8 | p[o + 1]), l = (unsigned) (p[o + 2] << 8 | p[o + 3]); o += 4; if (et == 0x0017) ems = cfg.ems; o += l; } }
                if (peer_suite_ != cfg.suite) fail("server selected another suite");
                break;
            }
            case M_CERTIFICATE: parse_peer_cert(p, n); break;
            case M_SERVER_KEY_EXCHANGE: {
                if (n < 4 || p[0] != 3) { fail("unsupported ServerKeyExchange"); break; }
                size_t pl = p[3]; if (4 + pl > n) { fail("bad ServerKeyExchange"); break; }
                peer_point.assign(p + 4, p + 4 + pl); size_t o = 4 + pl; int hid = 4;
                if (cfg.version >= 0x0303) { if (o + 2 > n) break; hid = p[o]; o += 2; }
                if (o + 2 <= n) { size_t sl = (size_t) (p[o] << 8 | p[o + 1]); o += 2; if (o + sl <= n) { Bytes tbs = client_random; app(tbs, server_random); app(tbs, p, 4 + pl); sig_ok = rsa_verify(cfg.version, peer_key, tbs, p + o, sl, hid) ? 1 : 0; } }
                break;
            }
            case M_CERTIFICATE_REQUEST: cr_seen = true; break;
            case M_HELLO_VERIFY_REQUEST: if (n >= 3 && (size_t) 3 + p[2] <= n) { cookie.assign(p + 3, p + 3 + p[2]); hvr_seen = true; } else fail("bad HelloVerifyRequest"); break;
            case M_FINISHED: on_finished(body, false); break;
            default: break;
            }
        } else {
            switch (type) {
            case M_CLIENT_HELLO: {
                if (n < 35) { fail("short ClientHello"); break; }
                client_random.assign(p + 2, p + 34); size_t sl = p[34], o = 35 + sl; if (o + 2 > n) { fail("bad ClientHello"); break; }
                ch_sid.assign(p + 35, p + 35 + sl);
                if (cfg.dtls) { if (o + 1 > n || o + 1 + p[o] + 2 > n) { fail("bad ClientHello cookie"); break; } o += 1 + p[o]; }
                size_t cl = (size_t) (p[o] << 8 | p[o + 1]); o += 2; offered.clear(); client_reneg = false;
                for (size_t i = 0; i + 1 < cl && o + i + 1 < n; i += 2) { uint16_t s = (uint16_t) (p[o + i] << 8 | p[o + i + 1]); offered.push_back(s); if (s == 0x00FF) client_reneg = true; }
                o += cl; if (o < n) o += 1 + p[o];
                client_offers_ems = client_ticket = false; ch_ticket_len = 0;
                if (o + 2 <= n) { size_t el = (size_t) (p[o] << 8 | p[o + 1]); o += 2; size_t end = std::min(n, o + el);
                    while (o + 4 <= end) { unsigned et = (unsigned) (p[o] << 8 | p[o + 1]), l = (unsigned) (p[o + 2] << 8 | p[o + 3]); o += 4;
                        if (et == 0x0017) client_offers_ems = true; if (et == 0xff01) client_reneg = true; if (et == 0x0023) { client_ticket = true; ch_ticket_len = l; } o += l; } }
                break;
            }
            case M_CERTIFICATE: parse_peer_cert(p, n); break;
            case M_CLIENT_KEY_EXCHANGE: {
                if (si->ecdhe) { if (n < 1 || (size_t) 1 + p[0] > n) { fail("bad ClientKeyExchange"); break; } peer_point.assign(p + 1, p + 1 + p[0]); ecdh_gen(); ecdh_derive(); break; }
                premaster.assign(48, 0);
                if (n < 2) { fail("bad ClientKeyExchange"); break; }
                size_t cl = (size_t) (p[0] << 8 | p[1]); if (2 + cl > n) { fail("bad ClientKeyExchange"); break; }
                EVP_PKEY_CTX *c = EVP_PKEY_CTX_new(own_key, nullptr); size_t ol = 0; bool ok = false;
                if (c && EVP_PKEY_decrypt_init(c) == 1 && EVP_PKEY_CTX_set_rsa_padding(c, RSA_PKCS1_PADDING) == 1 && EVP_PKEY_decrypt(c, nullptr, &ol, p + 2, cl) == 1) {
                    Bytes o(ol); if (EVP_PKEY_decrypt(c, o.data(), &ol, p + 2, cl) == 1 && ol == 48) { o.resize(48); premaster = o; ok = true; }
                }
                EVP_PKEY_CTX_free(c); ERR_clear_error();
                if (!ok) fail("RSA premaster decryption failed");
                break;
            }
            case M_CERTIFICATE_VERIFY: {
                size_t o = 0; int hid = 4; if (cfg.version >= 0x0303) { if (n < 2) break; hid = p[0]; o = 2; }
                if (o + 2 <= n) { size_t sl = (size_t) (p[o] << 8 | p[o + 1]); o += 2; if (o + sl <= n) sig_ok = rsa_verify(cfg.version, peer_key, transcript, p + o, sl, hid) ? 1 : 0; }
                break;
            }
            case M_FINISHED: on_finished(body, true); break;
            default: break;
            }
        }
        if (cfg.dtls && type == M_CLIENT_HELLO) transcript.clear();   // only the last ClientHello is hashed
        if (type != M_HELLO_REQUEST && !(cfg.dtls && type == M_HELLO_VERIFY_REQUEST)) app(transcript, full);
        if (!is_client() && type == M_CLIENT_KEY_EXCHANGE) compute_master();
    }
    void parse_peer_cert(const uint8_t *p, size_t n) {
        if (n < 6) return;   // empty list
        size_t cl = (size_t) (p[3] << 16 | p[4] << 8 | p[5]); if (6 + cl > n) { fail("bad Certificate"); return; }
        const unsigned char *q = p + 6; X509 *x = d2i_X509(nullptr, &q, (long) cl);
        if (!x) { fail("peer certificate does not parse"); ERR_clear_error(); return; }
        if (peer_key) EVP_PKEY_free(peer_key);
        peer_key = X509_get_pubkey(x); X509_free(x); peer_cert = peer_key != nullptr;
    }
    void on_finished(const Bytes &body, bool client_label) { fin_seen = true; fin_ok = body == verify_data(client_label); if (!fin_ok) fail("peer Finished does not verify"); }
    void on_record(uint8_t type, uint16_t ver, const Bytes &raw) {
        Bytes pt; bool enc = r_enc;
        if (enc) { if (!unprotect(type, ver, raw, pt)) { fail("undecryptable record of type " + std::to_string(type)); seen.push_back({ 0x1000 + type, true, raw.size() }); return; } }
        else pt = raw;
        switch (type) {
        case 20: ccs_seen = true; seen.push_back({ M_CCS, enc, pt.size() }); derive_keys(); r_enc = true; r_seq = 0; break;
        case 21: seen.push_back({ M_ALERT, enc, pt.size() }); if (pt.size() >= 2) { al_level = pt[0]; al_desc = pt[1]; if (pt[0] == 2) fatal = true; } break;
        case 23: seen.push_back({ M_APPDATA, enc, pt.size() }); app(app_in, pt); break;
        case 22:
            app(hbuf, pt); hbuf_enc = enc;
            while (hbuf.size() >= 4) {
                size_t l = (size_t) (hbuf[1] << 16 | hbuf[2] << 8 | hbuf[3]); if (hbuf.size() < 4 + l) break;
                Bytes full(hbuf.begin(), hbuf.begin() + 4 + l), body(hbuf.begin() + 4, hbuf.begin() + 4 + l); hbuf.erase(hbuf.begin(), hbuf.begin() + 4 + l);
                on_handshake(full[0], body, full, enc);
            }
            break;
        default: fail("unknown record type"); break;
        }
    }
    // DTLS: records of epoch 0 are plaintext, later epochs are protected with the sequence value of their header; handshake fragments of the expected
    // message_seq are reassembled in order, lower numbers (retransmissions) are ignored
    void on_record_dtls(uint8_t type, uint16_t ver, uint64_t seq64, const Bytes &raw) {
        Bytes pt; bool enc = (seq64 >> 48) != 0;
        if (enc) { if (!unprotect(type, ver, raw, pt, seq64)) { fail("undecryptable record of type " + std::to_string(type)); seen.push_back({ 0x1000 + type, true, raw.size() }); return; } }
        else pt = raw;
        switch (type) {
        case 20: ccs_seen = true; seen.push_back({ M_CCS, enc, pt.size() }); derive_keys(); r_enc = true; break;
        case 21: seen.push_back({ M_ALERT, enc, pt.size() }); if (pt.size() >= 2) { al_level = pt[0]; al_desc = pt[1]; if (pt[0] == 2) fatal = true; } break;
        case 23: seen.push_back({ M_APPDATA, enc, pt.size() }); app(app_in, pt); break;
        case 22: {
            size_t o = 0;
            while (o + 12 <= pt.size()) {
                const uint8_t *h = pt.data() + o; size_t len = (size_t) (h[1] << 16 | h[2] << 8 | h[3]), fo = (size_t) (h[6] << 16 | h[7] << 8 | h[8]), fl = (size_t) (h[9] << 16 | h[10] << 8 | h[11]);
                unsigned ms = (unsigned) (h[4] << 8 | h[5]);
                if (o + 12 + fl > pt.size() || fo + fl > len) { fail("malformed DTLS handshake fragment"); return; }
                if (ms == r_msg_seq) {
                    if (fo == 0) { frag_buf.clear(); frag_type = h[0]; frag_total = len; }
                    if (frag_type == h[0] && fo == frag_buf.size()) app(frag_buf, h + 12, fl);
                    else if (fo > frag_buf.size()) fail("DTLS handshake fragments out of order");
                    if (frag_type == h[0] && frag_buf.size() == frag_total && fo + fl == len) {
                        Bytes full; full.push_back(h[0]); put24(full, (unsigned) len); put16(full, ms); put24(full, 0); put24(full, (unsigned) len); app(full, frag_buf);
                        Bytes body = frag_buf; frag_buf.clear(); frag_type = -1; r_msg_seq++;
                        on_handshake(full[0], body, full, enc);
                    }
                } else if (ms > r_msg_seq) fail("DTLS handshake message from the future");
                o += 12 + fl;
            }
            break;
        }
        default: fail("unknown record type"); break;
        }
    }
    void feed(const uint8_t *d, size_t n) {
        app(rbuf, d, n);
        while (cfg.dtls && rbuf.size() >= 13) {
            size_t l = (size_t) (rbuf[11] << 8 | rbuf[12]); if (rbuf.size() < 13 + l) break;
            uint8_t type = rbuf[0]; uint16_t ver = (uint16_t) (rbuf[1] << 8 | rbuf[2]); uint64_t sq = 0; for (int i = 3; i < 11; i++) sq = sq << 8 | rbuf[i];
            Bytes raw(rbuf.begin() + 13, rbuf.begin() + 13 + l); rbuf.erase(rbuf.begin(), rbuf.begin() + 13 + l);
            on_record_dtls(type, ver, sq, raw);
        }
        if (cfg.dtls) return;
        while (rbuf.size() >= 5) {
            size_t l = (size_t) (rbuf[3] << 8 | rbuf[4]); if (rbuf.size() < 5 + l) break;
            uint8_t type = rbuf[0]; uint16_t ver = (uint16_t) (rbuf[1] << 8 | rbuf[2]);
            Bytes raw(rbuf.begin() + 5, rbuf.begin() + 5 + l); rbuf.erase(rbuf.begin(), rbuf.begin() + 5 + l);
            on_record(type, ver, raw);
        }
    }
};

Puppet12::Puppet12(const Config &cfg) : p(new Impl(cfg)) {}
Puppet12::~Puppet12() { delete p; }
Bytes Puppet12::emit(const Step &s) { return p->emit(s); }
void Puppet12::feed(const Bytes &w) { if (!w.empty()) p->feed(w.data(), w.size()); }
void Puppet12::feed(const uint8_t *d, size_t n) { if (n) p->feed(d, n); }
const std::vector<Seen> &Puppet12::seen() const { return p->seen; }
bool Puppet12::peer_ccs() const { return p->ccs_seen; }
bool Puppet12::peer_finished() const { return p->fin_seen; }
bool Puppet12::peer_finished_ok() const { return p->fin_ok; }
bool Puppet12::resumed() const { return p->resumed_; }
bool Puppet12::ems_active() const { return p->ems; }
bool Puppet12::cert_requested() const { return p->cr_seen; }
bool Puppet12::peer_cert_seen() const { return p->peer_cert; }
int Puppet12::peer_sig_ok() const { return p->sig_ok; }
int Puppet12::alert_level() const { return p->al_level; }
int Puppet12::alert_desc() const { return p->al_desc; }
bool Puppet12::fatal_alert() const { return p->fatal; }
const Bytes &Puppet12::app_in() const { return p->app_in; }
const std::string &Puppet12::error() const { return p->err; }
uint16_t Puppet12::peer_suite() const { return p->peer_suite_; }
const std::vector<uint16_t> &Puppet12::offered_suites() const { return p->offered; }
const Bytes &Puppet12::client_hello_session_id() const { return p->ch_sid; }
size_t Puppet12::client_hello_ticket_len() const { return p->ch_ticket_len; }
bool Puppet12::have_master() const { return p->have_master; }
Bytes Puppet12::master_secret() const { return p->master; }
const Bytes &Puppet12::transcript() const { return p->transcript; }
Session Puppet12::session() const { Session s; s.id = p->session_id; s.master = p->have_master ? p->master : Bytes(); s.suite = p->cfg.suite; s.version = p->cfg.version; s.ems = p->ems; return s; }
bool Puppet12::write_protected() const { return p->w_enc; }
Bytes Puppet12::verify_data(bool client_label) const { return p->verify_data(client_label); }
Bytes Puppet12::sign(const Bytes &tbs, const std::string &key_file) const { return rsa_sign(p->cfg.version, key_file.empty() ? p->own_key : load_key(p->path(key_file)), tbs); }
Bytes Puppet12::protect(uint8_t type, const Bytes &pt) { return p->protect(type, pt, p->cfg.version); }
const Config &Puppet12::config() const { return p->cfg; }

std::vector<Step> legal_script(const Config &cfg, bool resumed) {
    std::vector<Step> s; auto add = [&](int m) { s.emplace_back(m); };
    bool ecdhe = suite_is_ecdhe(cfg.suite);
    if (cfg.role == CLIENT) {
        add(M_CLIENT_HELLO);
        if (cfg.dtls) add(M_CLIENT_HELLO);   // the second one answers the server's HelloVerifyRequest (a MatrixSSL server always sends one)
        if (!resumed) { if (cfg.client_auth) add(M_CERTIFICATE); add(M_CLIENT_KEY_EXCHANGE); if (cfg.client_auth) add(M_CERTIFICATE_VERIFY); }
        add(M_CCS); add(M_FINISHED);
    } else {
        if (cfg.dtls && cfg.dtls_cookie) add(M_HELLO_VERIFY_REQUEST);
        add(M_SERVER_HELLO);
        if (!resumed) { add(M_CERTIFICATE); if (ecdhe) add(M_SERVER_KEY_EXCHANGE); if (cfg.client_auth) add(M_CERTIFICATE_REQUEST); add(M_SERVER_HELLO_DONE); }
        if (cfg.ack_ticket_ext) add(M_NEW_SESSION_TICKET);
        add(M_CCS); add(M_FINISHED);
    }
    return s;
}
} // namespace pup
