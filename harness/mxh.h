// mxh.h - in-memory MatrixSSL endpoint driver used by the TLS/DTLS property checks.
//
// An Endpoint wraps one ssl_t and follows the documented caller contract of matrixsslApi.c:
//   * never copies more than matrixSslGetReadbuf() offered, reports exactly what it copied;
//   * after MATRIXSSL_APP_DATA / MATRIXSSL_RECEIVED_ALERT always calls matrixSslProcessedData();
//   * drains output with GetOutdata/SentData (DTLS: matrixDtlsGetOutdata/matrixDtlsSentData).
// Every API call is observed (events, delivered plaintext, emitted bytes) so properties can state
// invariants over the history.  Entropy and clock are pinned by harness/wraps.c.
#pragma once
#include "vf.h"
#include <algorithm>
#include <deque>
#include <memory>
extern "C" {
#include "matrixssl/matrixsslApi.h"
void vfh_entropy_reset(uint64_t seed);
int vfh_entropy_select(int stream);
void vfh_clock_set_ms(int64_t ms);
int64_t vfh_clock_get_ms(void);
void vfh_clock_advance_ms(int64_t d);
void vfh_epoch_set(int64_t base);
extern uint64_t vfh_entropy_calls, vfh_entropy_bytes;
extern int vfh_trace;
extern void (*vfh_entropy_tap)(const unsigned char *bytes, uint32_t size);
}

namespace mxh {
typedef std::vector<uint8_t> Bytes;

inline std::string verif_dir() { const char *e = getenv("VERIF_DIR"); return e ? e : "/verif"; }

enum Ver { TLS11 = 0, TLS12 = 1, TLS13 = 2, DTLS10 = 3, DTLS12 = 4, NVER = 5 };
inline const char *ver_name(int v) { static const char *n[] = { "TLS1.1", "TLS1.2", "TLS1.3", "DTLS1.0", "DTLS1.2" }; return n[v]; }
inline psProtocolVersion_t ver_bit(int v) {
    switch (v) { case TLS11: return v_tls_1_1; case TLS12: return v_tls_1_2; case TLS13: return v_tls_1_3;
                 case DTLS10: return v_dtls_1_0; default: return v_dtls_1_2; }
}
inline bool is_dtls(int v) { return v == DTLS10 || v == DTLS12; }

// ------------------------------------------------------------------ keys
enum Auth { AUTH_RSA = 0, AUTH_EC = 1, AUTH_PSK = 2, AUTH_ECRSA = 3 };

struct KeyStore {
    // server identities (with CA list that authenticates *clients*), client identities (with CA list for servers)
    sslKeys_t *srv[4] = { 0, 0, 0, 0 }, *cli[4] = { 0, 0, 0, 0 }, *cli_noid[4] = { 0, 0, 0, 0 };
    sslKeys_t *cli_wrongca = 0; // client that trusts only ca_other
    bool ok = false;
    static int load(sslKeys_t **k, const char *cert, const char *key, const char *ca) {
        std::string d = verif_dir() + "/pki/";
        if (matrixSslNewKeys(k, NULL) < 0) return -1;
        std::string c = cert ? d + cert : "", p = key ? d + key : "", a = ca ? d + ca : "";
        int rc = matrixSslLoadKeys(*k, cert ? c.c_str() : NULL, key ? p.c_str() : NULL, NULL, ca ? a.c_str() : NULL, NULL);
        if (rc < 0) fprintf(stderr, "[mxh] matrixSslLoadKeys(%s,%s,%s) = %d\n", cert ? cert : "-", key ? key : "-", ca ? ca : "-", rc);
        return rc;
    }
    // session-ticket keys for servers (RFC 5077 tickets and TLS 1.3 NewSessionTicket are only issued when these are loaded)
    static int load_ticket_keys(sslKeys_t *k, uint8_t variant = 0) {
        unsigned char name[16], sym[32], mac[32];
        for (int i = 0; i < 16; i++) name[i] = (unsigned char) (0xA0 + i + variant);
        for (int i = 0; i < 32; i++) { sym[i] = (unsigned char) (i * 7 + 1 + variant); mac[i] = (unsigned char) (i * 11 + 3 + variant); }
        return matrixSslLoadSessionTicketKeys(k, name, sym, 32, mac, 32);
    }
    static const unsigned char *psk_key() { static const unsigned char k[16] = { 1, 2, 3, 4, 5, 6, 7, 8, 9, 10, 11, 12, 13, 14, 15, 16 }; return k; }
    static const unsigned char *psk_id() { static const unsigned char i[8] = { 'v', 'e', 'r', 'i', 'f', 'p', 's', 'k' }; return i; }
    // A freshly loaded key set (own ephemeral-key cache, ticket keys...). Caller frees with matrixSslDeleteKeys.
    static sslKeys_t *fresh(bool server, int auth, bool with_identity) {
        sslKeys_t *k = nullptr; int rc = 0;
        static const char *sc[] = { "srv_rsa", "srv_ec", nullptr, "srv_ecrsa" }, *cc[] = { "cli_rsa", "cli_ec", nullptr, "cli_rsa" }, *ca[] = { "ca_rsa.pem", "ca_ec.pem", nullptr, "ca_rsa.pem" };
        if (auth == AUTH_PSK) { if (matrixSslNewKeys(&k, NULL) < 0) return nullptr; rc = matrixSslLoadPsk(k, psk_key(), 16, psk_id(), 8); }
        else if (server || with_identity) { std::string n = server ? sc[auth] : cc[auth]; rc = load(&k, (n + ".pem").c_str(), (n + ".key").c_str(), ca[auth]); }
        else rc = load(&k, NULL, NULL, ca[auth]);
        if (rc < 0) { if (k) matrixSslDeleteKeys(k); return nullptr; }
        if (server && load_ticket_keys(k) < 0) { matrixSslDeleteKeys(k); return nullptr; }
        return k;
    }
    void init() {
        if (ok) return;
        int rc = 0;
        rc |= load(&srv[AUTH_RSA], "srv_rsa.pem", "srv_rsa.key", "ca_rsa.pem");
        rc |= load(&srv[AUTH_EC], "srv_ec.pem", "srv_ec.key", "ca_ec.pem");
        rc |= load(&srv[AUTH_ECRSA], "srv_ecrsa.pem", "srv_ecrsa.key", "ca_rsa.pem");
        rc |= load(&cli[AUTH_RSA], "cli_rsa.pem", "cli_rsa.key", "ca_rsa.pem");
        rc |= load(&cli[AUTH_EC], "cli_ec.pem", "cli_ec.key", "ca_ec.pem");
        rc |= load(&cli[AUTH_ECRSA], "cli_rsa.pem", "cli_rsa.key", "ca_rsa.pem");
        rc |= load(&cli_noid[AUTH_RSA], NULL, NULL, "ca_rsa.pem");
        rc |= load(&cli_noid[AUTH_EC], NULL, NULL, "ca_ec.pem");
        rc |= load(&cli_noid[AUTH_ECRSA], NULL, NULL, "ca_rsa.pem");
        rc |= load(&cli_wrongca, NULL, NULL, "ca_other.pem");
        if (matrixSslNewKeys(&srv[AUTH_PSK], NULL) < 0 || matrixSslNewKeys(&cli[AUTH_PSK], NULL) < 0) rc = -1;
        else {
            rc |= matrixSslLoadPsk(srv[AUTH_PSK], psk_key(), 16, psk_id(), 8);
            rc |= matrixSslLoadPsk(cli[AUTH_PSK], psk_key(), 16, psk_id(), 8);
            cli_noid[AUTH_PSK] = cli[AUTH_PSK];
        }
        for (int i = 0; i < 4; i++) if (srv[i]) rc |= load_ticket_keys(srv[i]);
        if (rc < 0) { fprintf(stderr, "[mxh] key store initialisation failed\n"); abort(); }
        ok = true;
    }
};
inline KeyStore &keystore() { static KeyStore k; return k; }

// ------------------------------------------------------------------ suites
struct Suite { uint16_t id; const char *name; int auth; bool tls13; bool aead; bool sha2_only; };
inline const std::vector<Suite> &suites() {
    static const std::vector<Suite> s = {
        { 0x002F, "RSA_AES128_CBC_SHA", AUTH_RSA, false, false, false },
        { 0x0035, "RSA_AES256_CBC_SHA", AUTH_RSA, false, false, false },
        { 0x003C, "RSA_AES128_CBC_SHA256", AUTH_RSA, false, false, true },
        { 0x009C, "RSA_AES128_GCM_SHA256", AUTH_RSA, false, true, true },
        { 0x009D, "RSA_AES256_GCM_SHA384", AUTH_RSA, false, true, true },
        { 0xC013, "ECDHE_RSA_AES128_CBC_SHA", AUTH_RSA, false, false, false },
        { 0xC027, "ECDHE_RSA_AES128_CBC_SHA256", AUTH_RSA, false, false, true },
        { 0xC028, "ECDHE_RSA_AES256_CBC_SHA384", AUTH_RSA, false, false, true },
        { 0xC02F, "ECDHE_RSA_AES128_GCM_SHA256", AUTH_RSA, false, true, true },
        { 0xC030, "ECDHE_RSA_AES256_GCM_SHA384", AUTH_RSA, false, true, true },
        { 0xC009, "ECDHE_ECDSA_AES128_CBC_SHA", AUTH_EC, false, false, false },
        { 0xC023, "ECDHE_ECDSA_AES128_CBC_SHA256", AUTH_EC, false, false, true },
        { 0xC02B, "ECDHE_ECDSA_AES128_GCM_SHA256", AUTH_EC, false, true, true },
        { 0xC02C, "ECDHE_ECDSA_AES256_GCM_SHA384", AUTH_EC, false, true, true },
        { 0xC004, "ECDH_ECDSA_AES128_CBC_SHA", AUTH_EC, false, false, false },
        { 0xC02D, "ECDH_ECDSA_AES128_GCM_SHA256", AUTH_EC, false, true, true },
        { 0xC00E, "ECDH_RSA_AES128_CBC_SHA", AUTH_ECRSA, false, false, false },
        { 0xC031, "ECDH_RSA_AES128_GCM_SHA256", AUTH_ECRSA, false, true, true },
        { 0x008C, "PSK_AES128_CBC_SHA", AUTH_PSK, false, false, false },
        { 0x00AE, "PSK_AES128_CBC_SHA256", AUTH_PSK, false, false, true },
        { 0x1301, "TLS13_AES128_GCM_SHA256", AUTH_RSA, true, true, true },
        { 0x1302, "TLS13_AES256_GCM_SHA384", AUTH_RSA, true, true, true },
        { 0x1303, "TLS13_CHACHA20_POLY1305_SHA256", AUTH_RSA, true, true, true },
    };
    return s;
}
// suites usable with a given version
inline std::vector<Suite> suites_for(int ver) {
    std::vector<Suite> r;
    for (auto &s : suites()) {
        if (ver == TLS13) { if (s.tls13) r.push_back(s); continue; }
        if (s.tls13) continue;
        if (s.sha2_only && (ver == TLS11 || ver == DTLS10)) continue;
        r.push_back(s);
    }
    return r;
}

// ------------------------------------------------------------------ events
enum EvKind { EV_HS_COMPLETE = 1, EV_ALERT_RECV, EV_APP_DATA, EV_ERROR, EV_REQ_CLOSE, EV_ENCODE_OK, EV_ENCODE_FAIL, EV_ALERT_SENT };
struct Event { int kind; int a; int b; };

// certificate callback that accepts exactly what internal validation accepted ("strict")
inline int32_t cb_strict(ssl_t *, psX509Cert_t *, int32_t alert) { return alert; }

struct Endpoint;
typedef std::function<void(Endpoint &, const uint8_t *, size_t)> AppDataHook;

struct Config {
    bool client = true;
    std::vector<int> versions;      // priority order; empty = library default
    std::vector<uint16_t> suites;   // client: offered list (empty = all)
    int auth = AUTH_RSA;            // which key store entry
    sslKeys_t *keys = nullptr;      // override
    bool client_auth = false;       // server: request a client certificate; client: present an identity
    sslSessionId_t *sid = nullptr;  // client resumption handle
    sslCertCb_t cert_cb = nullptr;
    const char *expected_name = "localhost";
    int ems = 0;                    // 0 default, -1 disable
    bool tickets = false;           // client: request RFC5077 ticket
    int entropy_stream = 0;
    uint32_t max_early_data = 0;    // server: tls13SessionMaxEarlyData
    std::function<void(sslSessOpts_t &)> tweak;
};

struct Endpoint {
    ssl_t *ssl = nullptr;
    Config cfg;
    bool dtls = false;
    Bytes delivered;                 // all application plaintext handed to the "application"
    std::vector<Bytes> delivered_msgs;
    Bytes wire_out;                  // every byte this endpoint emitted (TLS)
    std::deque<Bytes> dgram_out;     // DTLS: emitted datagrams not yet taken by the net
    std::vector<Event> events;
    bool complete_evt = false;       // HANDSHAKE_COMPLETE was reported
    bool failed = false;             // a negative return code was seen from a receive call
    int last_rc = 0;
    int fatal_alert_recv = -1, alert_sent = -1;
    bool close_notify_recv = false;
    bool req_close = false;
    AppDataHook on_app_data;
    uint64_t api_calls = 0;

    Endpoint() {}
    Endpoint(const Endpoint &) = delete;
    Endpoint &operator=(const Endpoint &) = delete;
    ~Endpoint() { close(); }
    void close() { if (ssl) { sel(); matrixSslDeleteSession(ssl); ssl = nullptr; } }
    void sel() { vfh_entropy_select(cfg.entropy_stream); api_calls++; }
    bool hs_complete() const { return ssl && matrixSslHandshakeIsComplete(ssl) == PS_TRUE; }
    // no error, no fatal alert either way, no closure seen
    bool alive() const { return ssl && !failed && fatal_alert_recv < 0 && !close_notify_recv && !req_close; }

    int open(const Config &c) {
        cfg = c;
        KeyStore &ks = keystore(); ks.init();
        sslSessOpts_t o; memset(&o, 0, sizeof o);
        psProtocolVersion_t vs[8]; int nv = 0;
        bool d12 = false;
        for (int v : cfg.versions) { if (is_dtls(v)) { dtls = true; if (v == DTLS12) d12 = true; } else vs[nv++] = ver_bit(v); }
        if (dtls) { nv = 0; o.versionFlag = SSL_FLAGS_DTLS | (d12 ? SSL_FLAGS_TLS_1_2 : 0); } // DTLS is selected through versionFlag only (as apps/dtls does)
        if (cfg.ems) o.extendedMasterSecret = (short) cfg.ems;
        if (cfg.tickets) o.ticketResumption = 1;
        if (cfg.max_early_data) o.tls13SessionMaxEarlyData = (psSize_t) cfg.max_early_data;
        int32_t rc;
        sel();
        if (cfg.client) {
            if (nv) { rc = matrixSslSessOptsSetClientTlsVersions(&o, vs, nv); if (rc < 0) return rc; }
            if (cfg.tweak) cfg.tweak(o);
            sslKeys_t *k = cfg.keys ? cfg.keys : (cfg.client_auth ? ks.cli[cfg.auth] : ks.cli_noid[cfg.auth]);
            psCipher16_t cs[32]; uint8_t n = 0;
            for (auto s : cfg.suites) if (n < 32) cs[n++] = s;
            rc = matrixSslNewClientSession(&ssl, k, cfg.sid, n ? cs : NULL, n, cfg.cert_cb, cfg.expected_name, NULL, NULL, &o);
            if (rc < 0) { ssl = nullptr; return rc; }
            out_pending = true; pump_out();
            return rc;
        }
        if (nv) { rc = matrixSslSessOptsSetServerTlsVersions(&o, vs, nv); if (rc < 0) return rc; }
        if (cfg.tweak) cfg.tweak(o);
        sslKeys_t *k = cfg.keys ? cfg.keys : ks.srv[cfg.auth];
        rc = matrixSslNewServerSession(&ssl, k, cfg.client_auth ? cfg.cert_cb : NULL, &o);
        if (rc < 0) { ssl = nullptr; return rc; }
        return rc;
    }

    // ---- output side
    // Move everything currently in the library's output buffer to wire_out / dgram_out, in pieces of at most max_piece.
    // DTLS: matrixDtlsGetOutdata on an empty buffer *is* the retransmission timer, so the harness only enters the
    // documented "call until it returns 0" loop when output is known to be pending (after REQUEST_SEND, a successful
    // encode, or session creation); timeouts are fired explicitly with dtls_timeout().
    bool out_pending = false;
    size_t out_piece = (size_t) -1;   // default piece size for partial sends
    bool defer_pump = false;          // do not drain inside receive processing (output accumulates in the library)
    bool use_readbuf_of_size = false; // TLS: ask for a read buffer as large as the data at hand instead of taking what matrixSslGetReadbuf offers
    void pump_out(size_t max_piece = 0) {
        if (!ssl) return;
        if (max_piece == 0) max_piece = out_piece;
        if (dtls) { if (!out_pending) return; out_pending = false; dtls_drain(); return; }
        for (int guard = 0; guard < 100000; guard++) {
            unsigned char *b = nullptr; sel();
            int32 n = matrixSslGetOutdata(ssl, &b);
            if (n <= 0) return;
            size_t k = std::min((size_t) n, max_piece);
            wire_out.insert(wire_out.end(), b, b + k);
            sel();
            int32 rc = matrixSslSentData(ssl, (uint32) k);
            note_sent_rc(rc);
        }
    }
    // documented DTLS send loop: GetOutdata/SentData until GetOutdata returns 0. Returns number of datagrams produced.
    int dtls_drain() {
        int n_dg = 0;
        for (int guard = 0; guard < 10000; guard++) {
            unsigned char *b = nullptr; sel();
            int32 n = matrixDtlsGetOutdata(ssl, &b);
            if (n <= 0) { if (n < 0) { events.push_back({ EV_ERROR, n, 3 }); } return n_dg; }
            dgram_out.emplace_back(b, b + n); n_dg++;
            sel();
            int32 rc = matrixDtlsSentData(ssl, (uint32) n);
            note_sent_rc(rc);
        }
        return n_dg;
    }
    // retransmission timer fired: enter the send loop although nothing is pending
    int dtls_timeout() { if (!ssl || !dtls) return 0; out_pending = false; return dtls_drain(); }
    void note_sent_rc(int32 rc) {
        if (rc == MATRIXSSL_REQUEST_CLOSE) { req_close = true; events.push_back({ EV_REQ_CLOSE, 0, 0 }); }
        else if (rc == MATRIXSSL_HANDSHAKE_COMPLETE) { complete_evt = true; events.push_back({ EV_HS_COMPLETE, 1, 0 }); }
        else if (rc < 0) { events.push_back({ EV_ERROR, rc, 1 }); }
    }
    Bytes take_wire() { Bytes b; b.swap(wire_out); return b; }

    // ---- input side
    // One receive call with k bytes (k must be <= what GetReadbuf offers; enforced). Returns final rc after the process loop.
    int recv_step(const uint8_t *d, size_t k, size_t *consumed) {
        *consumed = 0;
        if (!ssl) return PS_ARG_FAIL;
        unsigned char *buf = nullptr; sel();
        int32 room = matrixSslGetReadbuf(ssl, &buf);
        if (room <= 0 || !buf) { events.push_back({ EV_ERROR, room, 2 }); failed = true; last_rc = room < 0 ? room : PS_FAILURE; return last_rc; }
        if (!dtls && use_readbuf_of_size && (size_t) room < k) {   // the application asks for room for everything it has read (matrixSslGetReadbufOfSize)
            sel(); int32 r2 = matrixSslGetReadbufOfSize(ssl, (int32) std::min(k, (size_t) SSL_MAX_BUF_SIZE), &buf);
            if (r2 > 0 && buf) room = r2; else { events.push_back({ EV_ERROR, r2, 2 }); failed = true; last_rc = r2 < 0 ? r2 : PS_FAILURE; return last_rc; }
        }
        if (dtls && (size_t) room < k) {
            sel(); room = matrixSslGetReadbufOfSize(ssl, (int32) k, &buf);
            if (room < (int32) k) { *consumed = k; return MATRIXSSL_REQUEST_RECV; } // datagram does not fit: dropped (legal for a datagram transport)
        }
        size_t n = std::min(k, (size_t) room);
        if (n) memcpy(buf, d, n); *consumed = n;
        unsigned char *pt = nullptr; uint32 ptlen = 0; sel();
        int32 rc = matrixSslReceivedData(ssl, (uint32) n, &pt, &ptlen);
        return process_loop(rc, pt, ptlen);
    }
    int process_loop(int32 rc, unsigned char *pt, uint32 ptlen) {
        for (int guard = 0; guard < 100000; guard++) {
            last_rc = rc;
            if (rc == MATRIXSSL_APP_DATA || rc == MATRIXSSL_APP_DATA_COMPRESSED) {
                events.push_back({ EV_APP_DATA, (int) ptlen, 0 });
                if (on_app_data) on_app_data(*this, pt, ptlen);
                delivered.insert(delivered.end(), pt, pt + ptlen);
                delivered_msgs.emplace_back(pt, pt + ptlen);
                sel(); rc = matrixSslProcessedData(ssl, &pt, &ptlen);
                continue;
            }
            if (rc == MATRIXSSL_RECEIVED_ALERT) {
                int lvl = ptlen >= 1 ? pt[0] : -1, desc = ptlen >= 2 ? pt[1] : -1;
                events.push_back({ EV_ALERT_RECV, lvl, desc });
                if (lvl == SSL_ALERT_LEVEL_FATAL) fatal_alert_recv = desc;
                else if (desc == SSL_ALERT_CLOSE_NOTIFY) close_notify_recv = true;
                sel(); rc = matrixSslProcessedData(ssl, &pt, &ptlen);
                continue;
            }
            if (rc == MATRIXSSL_HANDSHAKE_COMPLETE) { complete_evt = true; events.push_back({ EV_HS_COMPLETE, 0, 0 }); return rc; }
            if (rc == MATRIXSSL_REQUEST_SEND) { out_pending = true; if (!defer_pump) pump_out(); return rc; }
            if (rc < 0) { failed = true; events.push_back({ EV_ERROR, rc, 0 }); if (!dtls && !defer_pump) pump_out(); return rc; }
            return rc; // SUCCESS / REQUEST_RECV / REQUEST_CLOSE
        }
        return last_rc;
    }
    // Feed a byte stream (TLS) in chunks of at most max_chunk; stops at the first negative return code unless keep_going.
    int feed(const uint8_t *d, size_t n, size_t max_chunk = (size_t) -1, bool keep_going = false) {
        size_t off = 0; int rc = 0;
        while (off < n) {
            size_t c = 0;
            rc = recv_step(d + off, std::min(n - off, max_chunk), &c);
            if (c == 0) break;
            off += c;
            if (rc < 0 && !keep_going) break;
        }
        return rc;
    }
    int feed(const Bytes &b, size_t max_chunk = (size_t) -1, bool keep_going = false) { return feed(b.data(), b.size(), max_chunk, keep_going); }
    int feed_dgram(const Bytes &b) { size_t c; return recv_step(b.data(), b.size(), &c); }

    // ---- application sends
    int send(const uint8_t *d, size_t n, int api = 0) {
        if (!ssl) return PS_ARG_FAIL;
        int32 rc;
        if (api == 0) { sel(); rc = matrixSslEncodeToOutdata(ssl, (unsigned char *) d, (uint32) n); }
        else {
            unsigned char *wb = nullptr; sel();
            int32 room = matrixSslGetWritebuf(ssl, &wb, (uint32) n);
            if (room <= 0) { events.push_back({ EV_ENCODE_FAIL, room, api }); return room < 0 ? room : PS_FAILURE; }
            size_t k = std::min((size_t) room, n);
            memcpy(wb, d, k); sel();
            rc = matrixSslEncodeWritebuf(ssl, (uint32) k);
        }
        events.push_back({ rc >= 0 ? EV_ENCODE_OK : EV_ENCODE_FAIL, rc, api });
        if (rc >= 0) { out_pending = true; pump_out(); }
        return rc;
    }
    int send(const Bytes &b, int api = 0) { return send(b.data(), b.size(), api); }
    int send_close() { if (!ssl) return PS_ARG_FAIL; sel(); int32 rc = matrixSslEncodeClosureAlert(ssl); if (rc >= 0) { out_pending = true; pump_out(); } return rc; }
};

// ------------------------------------------------------------------ pair driver (TLS streams and DTLS datagrams, loss-free)
struct Pair {
    Endpoint c, s;
    // optional in-flight transformer (man in the middle): dir 0 = client->server, 1 = server->client
    std::function<void(int dir, Bytes &)> mitm;
    int rounds = 0;
    // Shuttle data until both quiescent. Returns true if both report completion.
    bool run(int max_rounds = 200, size_t chunk = (size_t) -1) {
        for (rounds = 0; rounds < max_rounds; rounds++) {
            bool moved = false;
            moved |= shuttle(c, s, 0, chunk);
            moved |= shuttle(s, c, 1, chunk);
            if (!moved) break;
        }
        return c.hs_complete() && s.hs_complete();
    }
    bool shuttle(Endpoint &from, Endpoint &to, int dir, size_t chunk) {
        bool moved = false;
        from.pump_out();
        if (from.dtls) {
            while (!from.dgram_out.empty()) {
                Bytes d = from.dgram_out.front(); from.dgram_out.pop_front();
                if (mitm) mitm(dir, d);
                if (!d.empty() && to.ssl) to.feed_dgram(d);
                moved = true;
            }
        } else if (!from.wire_out.empty()) {
            Bytes d = from.take_wire();
            if (mitm) mitm(dir, d);
            if (!d.empty() && to.ssl && !to.failed) to.feed(d, chunk);
            moved = true;
        }
        return moved;
    }
};

// Open a client/server pair for one version + suite and run the handshake to completion (loss-free).
inline bool connect_pair(Pair &p, int ver, const Suite &su, bool client_auth = false, sslSessionId_t *sid = nullptr,
                         int estream = 1, sslCertCb_t srv_cb = nullptr) {
    Config cc, sc;
    cc.client = true; sc.client = false;
    cc.versions = sc.versions = { ver };
    cc.suites = { su.id }; cc.auth = sc.auth = su.auth;
    cc.entropy_stream = estream; sc.entropy_stream = estream + 1;
    cc.sid = sid; cc.client_auth = sc.client_auth = client_auth; sc.cert_cb = srv_cb;
    if (p.s.open(sc) < 0) return false;
    if (p.c.open(cc) < 0) return false;
    return p.run() && p.c.alive() && p.s.alive();
}

// ------------------------------------------------------------------ record parsing helpers (wire level)
struct Rec { size_t off; uint8_t type; uint16_t ver; size_t len; size_t hdr; uint16_t epoch; uint64_t seq; };
inline std::vector<Rec> parse_records(const Bytes &w, bool dtls) {
    std::vector<Rec> r; size_t o = 0; size_t h = dtls ? 13 : 5;
    while (o + h <= w.size()) {
        Rec x; x.off = o; x.type = w[o]; x.ver = (uint16_t) (w[o + 1] << 8 | w[o + 2]); x.hdr = h; x.epoch = 0; x.seq = 0;
        if (dtls) { x.epoch = (uint16_t) (w[o + 3] << 8 | w[o + 4]); for (int i = 0; i < 6; i++) x.seq = x.seq << 8 | w[o + 5 + i]; x.len = (size_t) (w[o + 11] << 8 | w[o + 12]); }
        else x.len = (size_t) (w[o + 3] << 8 | w[o + 4]);
        if (o + h + x.len > w.size()) break;
        r.push_back(x); o += h + x.len;
    }
    return r;
}

inline void global_open() {
    static bool done = false; if (done) return; done = true;
    vf::leak_check_interval() = 25;  // periodic in-process leak check (each costs a heap scan); exit-time leaks are bisected by bin/check
    vfh_entropy_reset(1);
    if (matrixSslOpen() < 0) { fprintf(stderr, "[mxh] matrixSslOpen failed\n"); abort(); }
    keystore().init();
}
} // namespace mxh
