/* Read-only accessors for internal session state (the repository's own sslTest.c includes matrixssllib.h the same way). */
#include "matrixssl/matrixsslImpl.h"
#include <string.h>

int vfh_hs_state(const ssl_t *ssl) { return ssl->hsState; }
unsigned vfh_flags(const ssl_t *ssl) { return ssl->flags; }
int vfh_inlen(const ssl_t *ssl) { return ssl->inlen; }
int vfh_insize(const ssl_t *ssl) { return ssl->insize; }
/* lengths of fixed-size arrays embedded in ssl_t: an overrun of these stays inside the object and is invisible to ASan */
int vfh_session_id_len(const ssl_t *ssl) { return ssl->sessionIdLen; }
int vfh_outlen(const ssl_t *ssl) { return ssl->outlen; }
int vfh_outsize(const ssl_t *ssl) { return ssl->outsize; }
/* fingerprint material: master secret (TLS <= 1.2) */
int vfh_master_secret(const ssl_t *ssl, unsigned char *out, int max)
{
    int n = SSL_HS_MASTER_SIZE < max ? SSL_HS_MASTER_SIZE : max;
    memcpy(out, ssl->sec.masterSecret, n);
    return n;
}
#ifdef USE_DTLS
void vfh_dtls_replay_state(const ssl_t *ssl, unsigned long *bitmap, unsigned char lastRsn[6], unsigned char expEpoch[2])
{
    *bitmap = ssl->dtlsBitmap;
    memcpy(lastRsn, ssl->lastRsn, 6);
    memcpy(expEpoch, ssl->expectedEpoch, 2);
}
#endif
/* AES-CBC write key of the active cipher (0 when the suite is not AES-CBC): lets a property re-pad a genuine CBC record */
int vfh_aes_cbc_write_key(const ssl_t *ssl, unsigned char *key, int max)
{
    const sslCipherSpec_t *cs = ssl->cipher;
    if (cs == NULL || cs->blockSize != 16 || !(cs->flags & CRYPTO_FLAGS_AES) ||
        (cs->flags & (CRYPTO_FLAGS_GCM | CRYPTO_FLAGS_CHACHA)) || cs->keySize > max)
    {
        return 0;
    }
    memcpy(key, ssl->sec.writeKey, cs->keySize);
    return cs->keySize;
}
/* TLS 1.3: SignatureScheme of the CertificateVerify this endpoint sent / verified (0 = none) */
int vfh_tls13_cv_sigalg(const ssl_t *ssl, int peer) { return peer ? ssl->sec.tls13PeerCvSigAlg : ssl->sec.tls13CvSigAlg; }
