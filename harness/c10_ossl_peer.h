// c10_ossl_peer.h - an in-process OpenSSL 3.0 TLS/DTLS endpoint over memory BIOs, used as the
// *independent* peer of property C10 (interoperability).  All OpenSSL code lives in c10_ossl_peer.cc;
// this header exposes plain C++ types only, so that it can be included next to MatrixSSL headers.
//
// Determinism: ossl_seed() installs a counter-mode RAND_METHOD, so everything OpenSSL draws (randoms,
// ephemeral keys, ticket keys, IVs, ECDSA nonces) is a pure function of the seed.  OpenSSL still reads
// the real clock (certificate validity, session lifetime); the PKI is valid 2020..2045.
#pragma once
#include <cstdint>
#include <memory>
#include <string>
#include <vector>

namespace c10 {
typedef std::vector<uint8_t> Bytes;

// Wire protocol versions
enum : int { W_TLS10 = 0x0301, W_TLS11 = 0x0302, W_TLS12 = 0x0303, W_TLS13 = 0x0304, W_DTLS10 = 0xfeff, W_DTLS12 = 0xfefd };

void ossl_global_init();
void ossl_seed(uint64_t seed);           // re-seed the deterministic RAND
std::string ossl_version_text();         // OpenSSL_version(OPENSSL_VERSION)

struct OsslCtxConfig {
    bool server = false;
    bool dtls = false;
    int min_version = 0, max_version = 0;    // wire values (W_*), 0 = library default bound
    std::string cipher_list;                 // TLS<=1.2 OpenSSL cipher string ("" = keep default)
    std::string ciphersuites;                // TLS 1.3 suites ("" = keep default)
    std::string groups;                      // e.g. "P-256:X25519" ("" = default)
    std::string sigalgs;                     // SSL_CTX_set1_sigalgs_list ("" = default)
    std::string cert_file, key_file;         // own identity (PEM), "" = none
    std::string ca_file;                     // trust anchors for verifying the peer
    bool verify_peer = false;                // client: verify the server chain (+ host); server: require a client certificate
    std::string verify_host;                 // client: expected DNS name ("" = no name check)
    std::string sni;                         // client: server_name to send ("" = none)
    bool tickets = true;                     // false = SSL_OP_NO_TICKET
    int num_tickets = -1;                    // server, TLS 1.3: SSL_CTX_set_num_tickets (-1 = default 2)
    bool ems = true;                         // false = SSL_OP_NO_EXTENDED_MASTER_SECRET
    bool etm = true;                         // false = SSL_OP_NO_ENCRYPT_THEN_MAC
    bool server_pref = false;                // SSL_OP_CIPHER_SERVER_PREFERENCE
    bool legacy_server_connect = false;      // client: SSL_OP_LEGACY_SERVER_CONNECT (talk to servers without RFC 5746 renegotiation_info)
    bool auto_chain = true;                  // false = SSL_MODE_NO_AUTO_CHAIN: send only the configured chain file, do not append issuers found in the trust store
    int max_send_fragment = 0;               // 512..16384, 0 = default
    std::string psk_identity; Bytes psk_key; // TLS<=1.2 PSK suites (callbacks installed when psk_key non-empty)
    int dtls_mtu = 0;                        // DTLS: link MTU (0 = 1400)
    bool dtls_cookie = false;                // DTLS server: HelloVerifyRequest cookie exchange
    bool allow_no_dhe_kex = false;           // SSL_OP_ALLOW_NO_DHE_KEX: TLS 1.3 client also offers / server also accepts the PSK-only mode psk_ke
};

// An OpenSSL session handle (SSL_SESSION with a reference), opaque here.
struct OsslSession;
typedef std::shared_ptr<OsslSession> OsslSessionPtr;

struct OsslAlert { bool sent; int level; int desc; };

class OsslCtx {
public:
    // returns nullptr and fills err when OpenSSL refuses the configuration
    static std::unique_ptr<OsslCtx> create(const OsslCtxConfig &cfg, std::string *err);
    ~OsslCtx();
    const OsslCtxConfig &config() const;
    // capability probes (answered by OpenSSL itself, at the context's security level 0)
    static bool supports_cipher(bool tls13, const std::string &name, int wire_version, bool psk = false);
    static bool supports_group(const std::string &name);
    static bool supports_sigalg(const std::string &name);
    struct Impl; Impl *p;
private:
    OsslCtx();
};

class OsslConn {
public:
    // resume: client only, session to offer (may be null)
    OsslConn(OsslCtx &ctx, OsslSessionPtr resume = nullptr);
    ~OsslConn();
    OsslConn(const OsslConn &) = delete;
    OsslConn &operator=(const OsslConn &) = delete;

    // per-connection override of the context's group list (SSL_set1_groups_list); call before the handshake starts.
    // An OpenSSL 3.0 server selects psk_ke only when resumption is possible, SSL_OP_ALLOW_NO_DHE_KEX is set, the client offered
    // psk_ke and there is no (EC)DHE group in common, so "no common group on the resumed connection" is how psk_ke is forced.
    bool set_groups(const std::string &list);

    // ---- transport: TLS = byte stream; DTLS = whole datagrams
    void feed(const uint8_t *d, size_t n);          // TLS: append bytes received from the peer
    void feed_dgram(const Bytes &d);                // DTLS: one received datagram
    Bytes take_out();                               // TLS: everything OpenSSL wants to send
    std::vector<Bytes> take_dgrams();               // DTLS: datagrams OpenSSL wants to send
    bool has_out() const;

    // ---- driving.  Return: 1 = done/ok, 0 = needs more input, -1 = fatal error (see error())
    int handshake();
    int write(const uint8_t *d, size_t n);          // returns 1 when all n bytes were accepted
    int read_all();                                 // drains every plaintext byte currently available into received
    int shutdown();                                 // sends close_notify; 1 = both directions closed, 0 = ours sent
    int key_update(bool request_peer);              // TLS 1.3 only

    // ---- observations
    Bytes received;                                 // all application plaintext delivered by SSL_read
    std::vector<size_t> read_sizes;                 // size of every successful SSL_read (DTLS: one per datagram)
    bool handshake_done() const;
    bool got_close_notify() const;                  // peer's close_notify seen (SSL_RECEIVED_SHUTDOWN)
    bool failed() const;
    const std::string &error() const;               // first fatal error text (OpenSSL error queue)
    const std::vector<OsslAlert> &alerts() const;   // every alert sent or received (incl. close_notify warnings)
    int fatal_alert_sent() const;                   // -1 = none
    int fatal_alert_received() const;               // -1 = none
    std::string version() const;                    // SSL_get_version: "TLSv1.2", "DTLSv1.2", ...
    int version_wire() const;                       // SSL_version
    std::string cipher_name() const;                // OpenSSL name
    std::string cipher_std_name() const;            // RFC name
    int cipher_id() const;                          // 16-bit protocol id
    bool session_reused() const;
    std::string group_name() const;                 // negotiated key-exchange group ("" = none / not applicable)
    std::string peer_sig_name() const;              // e.g. "RSA-PSS+SHA256", "ECDSA+SHA384", "ED25519", "RSA+SHA1" ("" = none)
    std::string own_sig_name() const;
    bool peer_cert_present() const;
    long verify_result() const;                     // X509_V_OK = 0
    bool secure_renegotiation() const;              // peer supports RFC 5746 (SSL_get_secure_renegotiation_support)
    bool ems_negotiated() const;                    // SSL_get_extms_support
    // handshake message types in order of appearance, 'r' (received) / 'w' (written) + decimal type, e.g. "w1 r2 r11 ..."
    const std::string &hs_trace() const;
    int client_hellos() const;                      // number of ClientHello messages seen in either direction (2 = HelloRetryRequest or HelloVerifyRequest round)
    bool saw_hello_retry() const;                   // a ServerHello carrying the HelloRetryRequest random was seen
    // TLS (not DTLS) hello observations, parsed from the handshake messages themselves:
    int server_hello_key_share() const;             // last real (non-HRR) ServerHello: 1 = has key_share, 0 = has none (TLS 1.3: psk_ke), -1 = no ServerHello seen / unparsable
    bool server_hello_pre_shared_key() const;       // last real ServerHello carries pre_shared_key
    int client_hello_psk_modes() const;             // last ClientHello's psk_key_exchange_modes: bit 0 = psk_ke, bit 1 = psk_dhe_ke; 0 = extension absent
    // client: newest session usable for resumption (TLS 1.3: from NewSessionTicket), may be null
    OsslSessionPtr session() const;
    int tickets_received() const;                   // client: number of new-session callbacks
    struct Impl; Impl *p;
};

} // namespace c10
