/* C19: link-time interposers (ld --wrap) for the libc allocator family plus a few verification entry points.
 *
 * psMalloc/psCalloc/psRealloc/psFree are macros over malloc/calloc/realloc/free in this configuration, so wrapping
 * the libc names intercepts every MatrixSSL allocation (the library objects come from static archives).  C++ harness
 * code allocates through operator new (ASan runtime / libstdc++.so), which is not affected by --wrap; direct
 * malloc() calls from harness objects *are* wrapped, which is why faults and the ledger only apply while the window
 * is ARMED (c19_arm/c19_disarm around every MatrixSSL API call).
 *
 *   fault plan   : fail the k-th armed allocation (single), every armed allocation from the k-th on (sticky), or a
 *                  pseudo-random subset from the k-th on (random, 1/den each).
 *   site log     : return address, size and a cheap calling-context id (return address x stack depth) of every armed
 *                  allocation (for run 0: call-site classes per k).  MatrixSSL is built with -fomit-frame-pointer, so
 *                  full backtraces (glibc backtrace(), unwind tables) are only taken where they are needed:
 *   fault log    : backtrace of the first injected faults (root-cause grouping).
 *   trace        : backtrace of the allocation with a chosen sequence number (the parent re-runs a leaking case to
 *                  learn where the leaked block was allocated).
 *   live ledger  : every armed allocation that has not been freed yet (leak oracle).
 *   auth facts   : counts of signature verifications / certificate validations and how many succeeded.
 */
#include <stdint.h>
#include <stddef.h>
#include <string.h>
#include <execinfo.h>
#include "matrixssl/matrixsslApi.h"

#define NOSAN __attribute__((no_sanitize("address", "undefined"))) __attribute__((noinline))

void *__real_malloc(size_t n);
void *__real_calloc(size_t a, size_t b);
void *__real_realloc(void *p, size_t n);
void __real_free(void *p);

#define C19_SITES_MAX (1u << 17)
#define C19_STACK 24
#define C19_FAULTLOG 4
#define C19_TAB (1u << 16)          /* live ledger capacity (open addressing) */

typedef struct { void *ptr; uint64_t size; uint64_t seq; void *site; } c19_live_t;
typedef struct { uint64_t seq; uint64_t size; int kind; int depth; void *stack[C19_STACK]; } c19_fault_t;

volatile int c19_armed = 0;
static uint64_t g_count;            /* armed allocation calls so far (1-based index of the last one) */
static int g_mode;                  /* 0 none, 1 single, 2 sticky, 3 random */
static uint64_t g_k, g_seed; static uint32_t g_den;
static void *g_site[C19_SITES_MAX]; static uint32_t g_size[C19_SITES_MAX]; static uint32_t g_ctx[C19_SITES_MAX];
static uint64_t g_trace_seq; static c19_fault_t g_trace;
static c19_fault_t g_flog_own[C19_FAULTLOG]; static uint64_t g_faults_own;
/* the harness may point these into memory shared with its parent process so that the log survives a crash */
static c19_fault_t *g_flog = g_flog_own; static uint64_t *g_faults_p = &g_faults_own;
static c19_live_t g_tab[C19_TAB]; static size_t g_live, g_tomb; static int g_tab_overflow;
#define TOMB ((void *) 1)
#define g_faults (*g_faults_p)

/* authentication facts */
uint64_t c19_verify_calls, c19_verify_ok, c19_validate_calls, c19_validate_ok;

void c19_arm(void) { c19_armed++; }
void c19_disarm(void) { if (c19_armed > 0) c19_armed--; }
void c19_reset(void)
{
    c19_armed = 0; g_count = 0; g_mode = 0; g_k = 0; g_seed = 0; g_den = 1; g_faults = 0;
    memset(g_flog, 0, sizeof g_flog_own); g_trace_seq = 0; memset(&g_trace, 0, sizeof g_trace);
    memset(g_tab, 0, sizeof g_tab); g_live = 0; g_tomb = 0; g_tab_overflow = 0;
    c19_verify_calls = c19_verify_ok = c19_validate_calls = c19_validate_ok = 0;
}
void c19_set_log(c19_fault_t *log, uint64_t *nfaults) { g_flog = log ? log : g_flog_own; g_faults_p = nfaults ? nfaults : &g_faults_own; }
void c19_plan(int mode, uint64_t k, uint64_t seed, uint32_t den) { g_mode = mode; g_k = k; g_seed = seed; g_den = den ? den : 1; }
void c19_plan_off(void) { g_mode = 0; }
uint64_t c19_alloc_count(void) { return g_count; }
uint64_t c19_fault_count(void) { return g_faults; }
void *const *c19_sites(void) { return g_site; }
const uint32_t *c19_sizes(void) { return g_size; }
const uint32_t *c19_ctxs(void) { return g_ctx; }
void c19_trace_seq(uint64_t seq) { g_trace_seq = seq; }
const c19_fault_t *c19_trace(void) { return &g_trace; }
void c19_warmup(void) { void *b[4]; (void) backtrace(b, 4); }   /* backtrace() loads libgcc on first use: do that outside any armed window */
const c19_fault_t *c19_fault_log(void) { return g_flog; }
size_t c19_live_count(void) { return g_live; }
int c19_ledger_overflow(void) { return g_tab_overflow; }
size_t c19_live_dump(c19_live_t *out, size_t max)
{
    size_t i, n = 0;
    for (i = 0; i < C19_TAB && n < max; i++) if (g_tab[i].ptr && g_tab[i].ptr != TOMB) out[n++] = g_tab[i];
    return n;
}

static NOSAN uint64_t mix(uint64_t x)
{
    x += 0x9E3779B97F4A7C15ULL; x = (x ^ (x >> 30)) * 0xBF58476D1CE4E5B9ULL; x = (x ^ (x >> 27)) * 0x94D049BB133111EBULL;
    return x ^ (x >> 31);
}
static NOSAN void snap(c19_fault_t *f, uint64_t seq, size_t n, int kind, void *site)
{
    void *b[C19_STACK + 4]; int d, i, from = -1;
    d = backtrace(b, C19_STACK + 4);      /* leading frames: snap, account, __wrap_*; the stack proper starts at the wrap's return address */
    for (i = 0; i < d && i < 5; i++) if (b[i] == site) { from = i; break; }
    f->seq = seq; f->size = n; f->kind = kind; f->depth = 0;
    if (from < 0) { f->stack[f->depth++] = site; from = d; }
    for (i = from; i < d && f->depth < C19_STACK; i++) f->stack[f->depth++] = b[i];
}
static NOSAN size_t slot(void *p) { return (size_t) (mix((uint64_t) (uintptr_t) p) & (C19_TAB - 1)); }
static NOSAN void led_add(void *p, size_t n, uint64_t seq, void *site)
{
    size_t i, s;
    if (g_live + g_tomb >= C19_TAB - (C19_TAB >> 3))
    {
        /* rebuild without tombstones */
        static c19_live_t tmp[C19_TAB];
        size_t m = 0;
        for (i = 0; i < C19_TAB; i++) if (g_tab[i].ptr && g_tab[i].ptr != TOMB) tmp[m++] = g_tab[i];
        memset(g_tab, 0, sizeof g_tab); g_tomb = 0; g_live = 0;
        if (m >= C19_TAB - (C19_TAB >> 3)) { g_tab_overflow = 1; return; }
        for (i = 0; i < m; i++) { s = slot(tmp[i].ptr); while (g_tab[s].ptr) s = (s + 1) & (C19_TAB - 1); g_tab[s] = tmp[i]; g_live++; }
    }
    s = slot(p);
    while (g_tab[s].ptr && g_tab[s].ptr != TOMB) s = (s + 1) & (C19_TAB - 1);
    if (g_tab[s].ptr == TOMB) g_tomb--;
    g_tab[s].ptr = p; g_tab[s].size = n; g_tab[s].seq = seq; g_tab[s].site = site;
    g_live++;
}
static NOSAN int led_del(void *p, c19_live_t *old)
{
    size_t s = slot(p), probes = 0;
    while (g_tab[s].ptr && probes++ < C19_TAB)
    {
        if (g_tab[s].ptr == p) { if (old) *old = g_tab[s]; g_tab[s].ptr = TOMB; g_tomb++; g_live--; return 1; }
        s = (s + 1) & (C19_TAB - 1);
    }
    return 0;
}
/* decide whether the armed allocation that was just counted fails */
static NOSAN int should_fail(void)
{
    switch (g_mode)
    {
    case 1: return g_count == g_k;
    case 2: return g_count >= g_k;
    case 3: return g_count == g_k || (g_count > g_k && (mix(g_seed ^ (g_count * 0x100000001B3ULL)) % g_den) == 0);
    default: return 0;
    }
}
static NOSAN int account(size_t n, int kind, void *site, void *frame)
{
    g_count++;
    if (g_count <= C19_SITES_MAX)
    {
        g_site[g_count - 1] = site; g_size[g_count - 1] = (uint32_t) n;
        g_ctx[g_count - 1] = (uint32_t) (mix((uint64_t) (uintptr_t) site ^ ((uint64_t) (uintptr_t) frame * 0x9E3779B97F4A7C15ULL)) >> 32);
    }
    if (g_count == g_trace_seq) snap(&g_trace, g_count, n, kind, site);
    if (should_fail())
    {
        if (g_faults < C19_FAULTLOG) snap(&g_flog[g_faults], g_count, n, kind, site);
        g_faults++;
        return 1;
    }
    return 0;
}

NOSAN void *__wrap_malloc(size_t n)
{
    void *st = __builtin_return_address(0), *p;
    if (!c19_armed) return __real_malloc(n);
    if (account(n, 0, st, __builtin_frame_address(0))) return NULL;
    p = __real_malloc(n);
    if (p) led_add(p, n, g_count, st);
    return p;
}
NOSAN void *__wrap_calloc(size_t a, size_t b)
{
    void *st = __builtin_return_address(0), *p;
    if (!c19_armed) return __real_calloc(a, b);
    if (account(a * b, 1, st, __builtin_frame_address(0))) return NULL;
    p = __real_calloc(a, b);
    if (p) led_add(p, a * b, g_count, st);
    return p;
}
NOSAN void *__wrap_realloc(void *old, size_t n)
{
    void *st = __builtin_return_address(0), *p; c19_live_t e; int tracked;
    if (!c19_armed)
    {
        /* keep following an object that was allocated inside an armed window */
        tracked = old ? led_del(old, &e) : 0;
        p = __real_realloc(old, n);
        if (tracked) { if (p) led_add(p, n, e.seq, e.site); else if (n) led_add(old, e.size, e.seq, e.site); }
        return p;
    }
    if (account(n, 2, st, __builtin_frame_address(0))) return NULL;        /* the old block stays valid, exactly like a failing realloc */
    tracked = old ? led_del(old, &e) : 0;
    p = __real_realloc(old, n);
    if (p) led_add(p, n, g_count, st);
    else if (tracked && n) led_add(old, e.size, e.seq, e.site);
    return p;
}
NOSAN void __wrap_free(void *p)
{
    if (p) (void) led_del(p, NULL);
    __real_free(p);
}

/* ---- authentication facts ------------------------------------------------------------------------------------- */
psRes_t __real_psVerifySig(psPool_t *pool, const unsigned char *msgIn, psSizeL_t msgInLen, const unsigned char *sig, psSize_t sigLen,
                           psPubKey_t *key, int32_t signatureAlgorithm, psBool_t *verifyResult, psVerifyOptions_t *opts);
psRes_t __wrap_psVerifySig(psPool_t *pool, const unsigned char *msgIn, psSizeL_t msgInLen, const unsigned char *sig, psSize_t sigLen,
                           psPubKey_t *key, int32_t signatureAlgorithm, psBool_t *verifyResult, psVerifyOptions_t *opts)
{
    psRes_t rc = __real_psVerifySig(pool, msgIn, msgInLen, sig, sigLen, key, signatureAlgorithm, verifyResult, opts);
    c19_verify_calls++;
    if (rc == PS_SUCCESS && verifyResult && *verifyResult == PS_TRUE) c19_verify_ok++;
    return rc;
}
psRes_t __real_psVerify(psPool_t *pool, const unsigned char *dataBegin, const psSizeL_t dataLen, const unsigned char *sig, psSize_t sigLen,
                        psPubKey_t *key, int32_t signatureAlgorithm, psBool_t *verifyResult, psVerifyOptions_t *opts);
psRes_t __wrap_psVerify(psPool_t *pool, const unsigned char *dataBegin, const psSizeL_t dataLen, const unsigned char *sig, psSize_t sigLen,
                        psPubKey_t *key, int32_t signatureAlgorithm, psBool_t *verifyResult, psVerifyOptions_t *opts)
{
    psRes_t rc = __real_psVerify(pool, dataBegin, dataLen, sig, sigLen, key, signatureAlgorithm, verifyResult, opts);
    c19_verify_calls++;
    if (rc == PS_SUCCESS && verifyResult && *verifyResult == PS_TRUE) c19_verify_ok++;
    return rc;
}
int32 __real_matrixValidateCertsExt(psPool_t *pool, psX509Cert_t *subjectCerts, psX509Cert_t *issuerCerts, char *expectedName,
                                    psX509Cert_t **foundIssuer, void *hwCtx, void *poolUserPtr, const matrixValidateCertsOptions_t *opts);
int32 __wrap_matrixValidateCertsExt(psPool_t *pool, psX509Cert_t *subjectCerts, psX509Cert_t *issuerCerts, char *expectedName,
                                    psX509Cert_t **foundIssuer, void *hwCtx, void *poolUserPtr, const matrixValidateCertsOptions_t *opts)
{
    int32 rc = __real_matrixValidateCertsExt(pool, subjectCerts, issuerCerts, expectedName, foundIssuer, hwCtx, poolUserPtr, opts);
    c19_validate_calls++;
    if (rc >= 0) c19_validate_ok++;
    return rc;
}
