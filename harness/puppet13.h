// puppet13.h - a deliberately small, *scriptable* TLS 1.3 (RFC 8446) endpoint built on OpenSSL 3.0 libcrypto
// primitives only (SHA-256, HMAC, AES-128-GCM, X25519 / P-256 ECDH, RSA-PSS / ECDSA) - no libssl, no MatrixSSL code.
//
// It is the "malicious but well-keyed peer" of the TLS 1.3 checks: it owns its transcript and key schedule, so a test
// can make it emit ANY message sequence, sign with ANY key over ANY transcript, seal arbitrary plaintext with an
// arbitrary inner content type under the real handshake / application traffic keys (or wrong keys, or in the clear),
// and still compute an honest Finished over whatever trace it really sent and received.
//
// This header exposes plain C++ types only (std::vector<uint8_t>, ints) so that it can be included next to MatrixSSL
// headers; all OpenSSL code lives in puppet13.cc.
//
// Scope: TLS_AES_128_GCM_SHA256 (0x1301); key_share x25519 and secp256r1; certificate authentication with
// rsa_pss_rsae_sha256 / ecdsa_secp256r1_sha256 (any PEM identity); both roles; optional client authentication;
// HelloRetryRequest (server role can emit one, client role answers one); NewSessionTicket emission (opaque ticket,
// PSK resumption itself is not implemented).
//
// Usage model (see props/C06/seq13.cc):
//     p13::Puppet pup(cfg);
//     pup.recv(bytes_from_victim);                       // parses records, decrypts, reassembles, follows the key schedule
//     Bytes wire = pup.emit(step);                       // one scripted step -> TLS records (maybe empty while coalescing)
// A Step names a message (or CCS / application data / alert / raw bytes) and how to send it: under which keys, with
// which handshake type byte, with one bit flipped, fragmented over records, coalesced with the next step, padded,
// recorded in the transcript or not.  Everything the puppet observed from the peer is in seen().
//
// Determinism: every random value (hello random, session id, ephemeral keys, wrong keys, tickets) is derived from
// Config::seed; p13::deterministic_rand(seed) additionally pins OpenSSL's RAND (RSA-PSS salts, ECDSA nonces).
#pragma once
#include <cstdint>
#include <memory>
#include <string>
#include <utility>
#include <vector>

namespace p13 {
typedef std::vector<uint8_t> Bytes;

// handshake message types (RFC 8446 B.3 + the TLS 1.2 ones used as foreign messages)
enum : uint8_t {
    HS_HELLO_REQUEST = 0, HS_CLIENT_HELLO = 1, HS_SERVER_HELLO = 2, HS_NEW_SESSION_TICKET = 4, HS_END_OF_EARLY_DATA = 5,
    HS_ENCRYPTED_EXTENSIONS = 8, HS_CERTIFICATE = 11, HS_SERVER_KEY_EXCHANGE = 12, HS_CERTIFICATE_REQUEST = 13,
    HS_SERVER_HELLO_DONE = 14, HS_CERTIFICATE_VERIFY = 15, HS_CLIENT_KEY_EXCHANGE = 16, HS_FINISHED = 20, HS_KEY_UPDATE = 24,
    HS_MESSAGE_HASH = 254
};
enum : uint8_t { CT_CCS = 20, CT_ALERT = 21, CT_HANDSHAKE = 22, CT_APPDATA = 23 };
enum : uint16_t { GROUP_SECP256R1 = 0x0017, GROUP_SECP384R1 = 0x0018, GROUP_SECP521R1 = 0x0019, GROUP_X25519 = 0x001d };
enum : uint16_t { SIG_RSA_PKCS1_SHA256 = 0x0401, SIG_ECDSA_SECP256R1_SHA256 = 0x0403, SIG_RSA_PSS_RSAE_SHA256 = 0x0804 };

// which keys protect a record
enum Epoch { EP_AUTO = -1,      // the epoch the puppet's own honest state machine is in
             EP_PLAIN = 0,      // no protection: TLSPlaintext with the real content type
             EP_HANDSHAKE = 1,  // [sender]_handshake_traffic_secret
             EP_APP = 2,        // [sender]_application_traffic_secret_0
             EP_WRONG = 3 };    // keys unrelated to the session (derived from the seed)

// what a step emits
enum Msg { M_CLIENT_HELLO, M_SERVER_HELLO, M_HELLO_RETRY_REQUEST, M_ENCRYPTED_EXTENSIONS, M_CERTIFICATE_REQUEST, M_CERTIFICATE,
           M_CERTIFICATE_VERIFY, M_FINISHED, M_NEW_SESSION_TICKET, M_KEY_UPDATE, M_END_OF_EARLY_DATA,
           M_HELLO_REQUEST, M_SERVER_KEY_EXCHANGE, M_SERVER_HELLO_DONE, M_CLIENT_KEY_EXCHANGE,   // foreign (TLS 1.2) messages
           M_RAW_HANDSHAKE,   // handshake message of type raw_type with body payload
           M_CCS,             // change_cipher_spec record (payload, default {0x01}); EP_PLAIN/EP_AUTO = plaintext record, other epochs = protected with inner type 20
           M_APP_DATA,        // payload as application data (inner type 23)
           M_ALERT,           // payload = {level, description}
           M_RAW_RECORDS,     // payload = complete wire bytes, sent verbatim
           M_NMSG };
const char *msg_name(int m);
const char *hs_type_name(int t);

struct Identity;                                   // certificate chain + private key (opaque, OpenSSL objects)
typedef std::shared_ptr<Identity> IdentityPtr;
IdentityPtr load_identity(const std::string &cert_pem_path, const std::string &key_pem_path, std::string *err = nullptr);
const std::vector<Bytes> &identity_chain(const Identity &id);   // DER certificates, leaf first
bool identity_is_ec(const Identity &id);

// Pin OpenSSL's RAND to a counter-mode generator (process-wide; RSA-PSS salts and ECDSA nonces become reproducible).
void deterministic_rand(uint64_t seed);

struct Step {
    int msg = M_FINISHED;
    int keys = EP_AUTO;             // epoch used to protect this step's record(s)
    int type_override = -1;         // >= 0: replace the handshake type byte (body unchanged)
    long flip_bit = -1;             // >= 0: flip bit (flip_bit mod 8*len) of the complete handshake message (header included)
    bool flip_body_only = false;    // flip within the body only (skip the 4 header bytes)
    bool in_transcript = true;      // add the bytes really sent to the puppet's transcript (handshake messages only)
    bool advance = true;            // let an emitted ServerHello / Finished move the puppet's key schedule and write epoch
    size_t max_frag = 0;            // > 0: split the plaintext into records of at most max_frag bytes (applies to the flush that ends with this step)
    size_t pad = 0;                 // TLSInnerPlaintext zero padding per protected record
    bool coalesce = false;          // keep this message pending and put it in the same record(s) as the next step (same epoch + content type)
    int inner_type = -1;            // >= 0: override the (inner) content type
    uint16_t rec_version = 0x0303;  // legacy_record_version
    Bytes payload;                  // M_APP_DATA / M_ALERT / M_CCS / M_RAW_* content
    uint8_t raw_type = 0;           // M_RAW_HANDSHAKE: handshake type
    // authentication overrides
    IdentityPtr identity;           // M_CERTIFICATE / M_CERTIFICATE_VERIFY: use this identity instead of Config::identity
    bool empty_certificate = false; // M_CERTIFICATE: empty certificate_list
    uint16_t sig_scheme = 0;        // M_CERTIFICATE_VERIFY: SignatureScheme (0 = Config / by key type)
    Bytes transcript_hash;          // M_CERTIFICATE_VERIFY / M_FINISHED: sign / MAC this value instead of the real transcript hash
    // hello overrides
    uint16_t group = 0;             // M_HELLO_RETRY_REQUEST: selected_group (0 = Config::group); M_SERVER_HELLO: group of the key_share (0 = by the client's shares)
    uint16_t cipher_suite = 0;      // M_HELLO_RETRY_REQUEST / M_SERVER_HELLO: cipher_suite field (0 = 0x1301; the puppet's record protection stays AES-128-GCM/SHA-256)
    Bytes body_override;            // any handshake message: send this body instead of the built one (the step keeps the semantics of msg: key schedule, transcript, epoch)
    bool use_body_override = false; // (set it to send an empty body)
    Step() {}
    explicit Step(int m, int k = EP_AUTO) : msg(m), keys(k) {}
};

struct Config {
    bool server = false;
    uint64_t seed = 1;
    uint16_t group = GROUP_X25519;            // client: the key_share offered (and first supported group); server: preferred group
    std::vector<uint16_t> groups;             // client: supported_groups (default {x25519, secp256r1})
    IdentityPtr identity;                     // own certificate + key
    uint16_t sig_scheme = 0;                  // 0 = rsa_pss_rsae_sha256 for RSA keys, ecdsa_secp256r1_sha256 for EC keys
    std::string sni = "localhost";            // client: server_name ("" = none)
    bool compat_session_id = true;            // client: 32 byte legacy_session_id (middlebox compatibility mode)
    Bytes psk_identity;                       // client: non-empty = offer this PskIdentity in a pre_shared_key extension (last extension of the ClientHello)
    uint32_t psk_obfuscated_age = 0;          //         with this obfuscated_ticket_age
    Bytes psk_binder;                         //         and this binder (empty = 32 seed-derived bytes; the puppet holds no PSK, so a server must decline the offer)
    bool trace = false;                       // print what is sent / received to stderr
};

struct Alert { int level, desc; bool encrypted; int epoch; };

// Everything the puppet observed from its peer.
struct Seen {
    std::vector<uint8_t> hs_types;            // handshake messages received, in order
    std::vector<int> hs_epochs;               // epoch each of them was protected with
    std::vector<Alert> alerts;
    Bytes app_data;                           // decrypted application data (inner type 23)
    int ccs_records = 0;
    int undecryptable = 0;                    // protected records no key of the session opened
    int malformed = 0;                        // records / messages the puppet could not parse
    bool client_hello = false, server_hello = false, hello_retry_request = false, encrypted_extensions = false;
    bool certificate_request = false, certificate = false, certificate_empty = false, certificate_verify = false, finished = false;
    int cv_ok = -1;                           // peer's CertificateVerify: -1 not seen, 0 bad, 1 verified against the leaf it sent
    int finished_ok = -1;                     // peer's Finished: -1 not seen, 0 bad, 1 matches the puppet's transcript
    uint16_t cv_scheme = 0;
    uint16_t cipher_suite = 0, selected_group = 0, selected_version = 0;
    int selected_psk = -1;                    // client role: selected_identity of a pre_shared_key extension in the ServerHello (-1 = none)
    Bytes peer_random, session_id;
    std::vector<uint16_t> offered_suites, offered_groups, offered_sigalgs, offered_versions;
    std::vector<std::pair<uint16_t, Bytes>> key_shares;   // client shares / the server share
    Bytes cert_request_context;
    std::vector<Bytes> peer_chain;            // DER, leaf first
    std::vector<Bytes> tickets;               // NewSessionTicket bodies
    int key_updates = 0;
    bool fatal_alert() const { for (auto &a : alerts) if (a.desc != 0 && a.desc != 90) return true; return false; }
    int last_alert() const { return alerts.empty() ? -1 : alerts.back().desc; }
};

class Puppet {
public:
    explicit Puppet(const Config &cfg);
    ~Puppet();
    Puppet(const Puppet &) = delete;
    Puppet &operator=(const Puppet &) = delete;

    // ---- scripted sending: returns the TLS records to hand to the peer (empty while a coalesced message is pending)
    Bytes emit(const Step &s);
    Bytes flush(size_t max_frag = 0, size_t pad = 0, uint16_t rec_version = 0x0303);

    // ---- receiving: consumes complete records (a partial tail is kept), decrypts with the session's keys, reassembles
    // handshake messages, appends them to the transcript and follows the honest key schedule.
    void recv(const Bytes &wire);
    const Seen &seen() const;

    // ---- message builders (complete handshake messages with header; no state is changed)
    Bytes make_client_hello() const;
    Bytes make_server_hello() const;                      // needs a received ClientHello (else uses defaults)
    Bytes make_hello_retry_request(uint16_t group) const;
    Bytes make_encrypted_extensions() const;
    Bytes make_certificate_request() const;
    Bytes make_certificate(const Identity *id, const Bytes &context, bool empty_list = false) const;
    Bytes make_certificate_verify(const Identity &id, uint16_t scheme, bool server_context, const Bytes &transcript_hash) const;
    Bytes make_finished(bool server_side, const Bytes &transcript_hash);
    Bytes make_new_session_ticket();
    static Bytes hs_msg(uint8_t type, const Bytes &body);

    // ---- transcript and key schedule
    const Bytes &transcript() const;                      // concatenation of all handshake messages sent/received so far
    Bytes transcript_hash() const;
    void transcript_append(const Bytes &msg);
    void transcript_set(const Bytes &t);
    bool handshake_keys_ready() const;
    bool app_keys_ready() const;
    void derive_handshake_keys();                         // from the ECDHE secret and the *current* transcript (normally ClientHello..ServerHello)
    void derive_app_keys();                               // from the current transcript (normally ClientHello..server Finished)
    Bytes secret(const std::string &name) const;          // "ecdhe","early","handshake","master","c hs","s hs","c ap","s ap","res master" (empty if not derived)
    int write_epoch() const;
    int read_epoch() const;
    void set_write_epoch(int e);
    void set_read_epoch(int e);

    // ---- record layer
    Bytes seal(int epoch, uint8_t inner_type, const Bytes &plaintext, size_t pad = 0, uint16_t rec_version = 0x0303);   // one TLSCiphertext record
    static Bytes plain_record(uint8_t type, const Bytes &payload, uint16_t rec_version = 0x0303);
    uint64_t write_seq(int epoch) const;
    void set_write_seq(int epoch, uint64_t seq);

private:
    struct Impl;
    std::unique_ptr<Impl> d;
};

// self-contained primitives (exposed for reuse by other checks)
Bytes sha256(const Bytes &b);
Bytes hmac_sha256(const Bytes &key, const Bytes &data);
Bytes hkdf_extract(const Bytes &salt, const Bytes &ikm);
Bytes hkdf_expand_label(const Bytes &secret, const std::string &label, const Bytes &context, size_t len);
bool verify_signature(const Bytes &leaf_der, uint16_t scheme, const Bytes &content, const Bytes &sig);
Bytes certificate_verify_content(bool server_context, const Bytes &transcript_hash);
} // namespace p13
