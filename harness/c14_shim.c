/* C14 shim: read (and, for the attacker commands acting on a stored credential, edit) resumption state that the public
 * API does not expose.  Same technique as harness/shim.c: include the library's internal header like its own sslTest.c does.
 * Nothing here changes server-side state; the edit functions only touch the *client's* sslSessionId_t (attacker-owned data). */
#include "matrixssl/matrixsslImpl.h"
#include <string.h>

/* ---- server / client session (ssl_t) readers ---- */
int c14_master_secret(const ssl_t *ssl, unsigned char out[SSL_HS_MASTER_SIZE])
{
    memcpy(out, ssl->sec.masterSecret, SSL_HS_MASTER_SIZE);
    return SSL_HS_MASTER_SIZE;
}
/* raw SSL_FLAGS_RESUMED (TLS <= 1.2) – also meaningful while a handshake is still in progress or has failed */
int c14_flag_resumed(const ssl_t *ssl) { return (ssl->flags & SSL_FLAGS_RESUMED) ? 1 : 0; }
int c14_flag_error(const ssl_t *ssl) { return (ssl->flags & SSL_FLAGS_ERROR) ? 1 : 0; }
int c14_session_id(const ssl_t *ssl, unsigned char out[SSL_MAX_SESSION_ID_SIZE])
{
    int n = ssl->sessionIdLen;
    if (n < 0) n = 0;
    if (n > SSL_MAX_SESSION_ID_SIZE) n = SSL_MAX_SESSION_ID_SIZE;
    memcpy(out, ssl->sessionId, n);
    return n;
}
int c14_ems(const ssl_t *ssl) { return ssl->extFlags.extended_master_secret ? 1 : 0; }
int c14_cipher_id(const ssl_t *ssl) { return ssl->cipher ? (int) ssl->cipher->ident : -1; }
/* TLS 1.3: PSK chosen for this handshake (server and client); returns key length, 0 if none */
int c14_tls13_chosen_psk(const ssl_t *ssl, unsigned char *out, int max, int *is_resumption)
{
#ifdef USE_TLS_1_3
    const psTls13Psk_t *p = ssl->sec.tls13ChosenPsk;
    if (!ssl->sec.tls13UsingPsk || p == NULL || p->pskKey == NULL) return 0;
    int n = p->pskLen < max ? p->pskLen : max;
    memcpy(out, p->pskKey, n);
    if (is_resumption) *is_resumption = p->isResumptionPsk ? 1 : 0;
    return n;
#else
    (void) ssl; (void) out; (void) max; (void) is_resumption; return 0;
#endif
}
int c14_is_tls13(const ssl_t *ssl)
{
#ifdef USE_TLS_1_3
    return NGTD_VER(ssl, v_tls_1_3_any) ? 1 : 0;
#else
    (void) ssl; return 0;
#endif
}
/* the session-ticket state machine of a server session (0 if it has no sid) */
int c14_srv_ticket_state(const ssl_t *ssl) { return ssl->sid ? (int) ssl->sid->sessionTicketState : -1; }

/* ---- client credential (sslSessionId_t) readers ---- */
int c14_sid_id(const sslSessionId_t *s, unsigned char out[SSL_MAX_SESSION_ID_SIZE])
{
    int n = s->idLen > SSL_MAX_SESSION_ID_SIZE ? SSL_MAX_SESSION_ID_SIZE : s->idLen;
    memcpy(out, s->id, n);
    return n;
}
int c14_sid_master(const sslSessionId_t *s, unsigned char out[SSL_HS_MASTER_SIZE]) { memcpy(out, s->masterSecret, SSL_HS_MASTER_SIZE); return SSL_HS_MASTER_SIZE; }
int c14_sid_cipher(const sslSessionId_t *s) { return (int) s->cipherId; }
int c14_sid_ticket(const sslSessionId_t *s, unsigned char *out, int max)
{
    int n = s->sessionTicketLen;
    if (s->sessionTicket == NULL || n <= 0) return 0;
    if (out) memcpy(out, s->sessionTicket, n < max ? n : max);
    return n;
}
int c14_sid_ticket_state(const sslSessionId_t *s) { return (int) s->sessionTicketState; }
unsigned c14_sid_ticket_hint(const sslSessionId_t *s) { return (unsigned) s->sessionTicketLifetimeHint; }
/* TLS 1.3 resumption PSK stored with the credential */
int c14_sid_psk_key(const sslSessionId_t *s, unsigned char *out, int max)
{
#ifdef USE_TLS_1_3
    if (s->psk == NULL || s->psk->pskKey == NULL) return 0;
    int n = s->psk->pskLen < max ? s->psk->pskLen : max;
    memcpy(out, s->psk->pskKey, n);
    return n;
#else
    (void) s; (void) out; (void) max; return 0;
#endif
}
int c14_sid_psk_id(const sslSessionId_t *s, unsigned char *out, int max)
{
#ifdef USE_TLS_1_3
    if (s->psk == NULL || s->psk->pskId == NULL) return 0;
    int n = s->psk->pskIdLen;
    if (out) memcpy(out, s->psk->pskId, n < max ? n : max);
    return n;
#else
    (void) s; (void) out; (void) max; return 0;
#endif
}
unsigned c14_sid_psk_lifetime(const sslSessionId_t *s)
{
#ifdef USE_TLS_1_3
    return (s->psk && s->psk->params) ? (unsigned) s->psk->params->ticketLifetime : 0;
#else
    (void) s; return 0;
#endif
}
int c14_sid_psk_cipher(const sslSessionId_t *s)
{
#ifdef USE_TLS_1_3
    return (s->psk && s->psk->params) ? (int) s->psk->params->cipherId : 0;
#else
    (void) s; return 0;
#endif
}

/* ---- attacker edits of the client's own stored credential ---- */
void c14_sid_set_id(sslSessionId_t *s, const unsigned char *id, int len)
{
    if (len > SSL_MAX_SESSION_ID_SIZE) len = SSL_MAX_SESSION_ID_SIZE;
    memset(s->id, 0, SSL_MAX_SESSION_ID_SIZE);
    memcpy(s->id, id, len);
    s->idLen = (psSize_t) len;
}
void c14_sid_set_master(sslSessionId_t *s, const unsigned char *ms) { memcpy(s->masterSecret, ms, SSL_HS_MASTER_SIZE); }
void c14_sid_set_cipher(sslSessionId_t *s, unsigned id) { s->cipherId = id; }
int c14_sid_set_ticket(sslSessionId_t *s, const unsigned char *t, int len)
{
    unsigned char *n = psMalloc(s->pool, len > 0 ? len : 1);
    if (n == NULL) return -1;
    memcpy(n, t, len);
    if (s->sessionTicket) psFree(s->sessionTicket, s->pool);
    s->sessionTicket = n;
    s->sessionTicketLen = (psSize_t) len;
    s->sessionTicketState = SESS_TICKET_STATE_USING_TICKET;
    return 0;
}
int c14_sid_set_psk_id(sslSessionId_t *s, const unsigned char *id, int len)
{
#ifdef USE_TLS_1_3
    if (s->psk == NULL) return -1;
    unsigned char *n = psMalloc(s->pool, len > 0 ? len : 1);
    if (n == NULL) return -1;
    memcpy(n, id, len);
    if (s->psk->pskId) psFree(s->psk->pskId, s->pool);
    s->psk->pskId = n;
    s->psk->pskIdLen = (psSize_t) len;
    return 0;
#else
    (void) s; (void) id; (void) len; return -1;
#endif
}
int c14_sid_set_psk_key(sslSessionId_t *s, const unsigned char *k, int len)
{
#ifdef USE_TLS_1_3
    if (s->psk == NULL || s->psk->pskKey == NULL || len != s->psk->pskLen) return -1;
    memcpy(s->psk->pskKey, k, len);
    return 0;
#else
    (void) s; (void) k; (void) len; return -1;
#endif
}

/* ---- server key set: names of the loaded ticket keys, in list order (first = key used to seal new tickets) ---- */
int c14_ticket_key_names(const sslKeys_t *k, unsigned char (*names)[16], int max)
{
    int n = 0;
#if defined(USE_SERVER_SIDE_SSL) && defined(USE_STATELESS_SESSION_TICKETS)
    const psSessionTicketKeys_t *t = k->sessTickets;
    while (t && n < max) { memcpy(names[n++], t->name, 16); t = t->next; }
#else
    (void) k; (void) names; (void) max;
#endif
    return n;
}
int c14_session_table_size(void) { return SSL_SESSION_TABLE_SIZE; }
long c14_session_entry_life_ms(void) { return (long) SSL_SESSION_ENTRY_LIFE; }
int c14_tls13_ticket_lifetime_s(void)
{
#ifdef USE_TLS_1_3
    return TLS_1_3_TICKET_LIFETIME;
#else
    return 0;
#endif
}

/* ---- TLS 1.3 resumption PSK snapshots (so the model can re-install a credential into a client's sslSessionId_t) ---- */
void *c14_psk_clone_from_sid(const sslSessionId_t *s)
{
#ifdef USE_TLS_1_3
    if (s->psk == NULL) return NULL;
    return tls13NewPsk(s->psk->pskKey, s->psk->pskLen, s->psk->pskId, s->psk->pskIdLen, s->psk->isResumptionPsk, s->psk->params);
#else
    (void) s; return NULL;
#endif
}
void c14_psk_free(void *p)
{
#ifdef USE_TLS_1_3
    if (p) tls13FreePsk((psTls13Psk_t *) p, NULL);
#else
    (void) p;
#endif
}
/* replace the PSK held by sid with a copy of the snapshot */
int c14_sid_install_psk(sslSessionId_t *s, const void *snap)
{
#ifdef USE_TLS_1_3
    const psTls13Psk_t *p = (const psTls13Psk_t *) snap;
    psTls13Psk_t *n;
    if (p == NULL) return -1;
    n = tls13NewPsk(p->pskKey, p->pskLen, p->pskId, p->pskIdLen, p->isResumptionPsk, p->params);
    if (n == NULL) return -1;
    if (s->psk) tls13FreePsk(s->psk, s->pool);
    s->psk = n;
    s->cipherId = p->params ? p->params->cipherId : 0;
    return 0;
#else
    (void) s; (void) snap; return -1;
#endif
}

/* The peer of the endpoint under test sends a FATAL alert with an arbitrary description under its current write keys
 * (TLS <= 1.2; the public API can only send a warning close_notify).  Uses the library's own error-alert path: an
 * error marked on the connection is answered with writeAlert(FATAL, err). */
int c14_send_fatal_alert(ssl_t *ssl, int desc)
{
    sslBuf_t sbuf;
    uint32 reqLen = 0;
    int32 rc;

    if (ssl->outbuf == NULL || ssl->outsize - ssl->outlen < 128)
    {
        return PS_FAILURE;
    }
    sbuf.buf = sbuf.start = sbuf.end = ssl->outbuf + ssl->outlen;
    sbuf.size = ssl->outsize - ssl->outlen;
    ssl->err = desc;
    rc = sslEncodeResponse(ssl, &sbuf, &reqLen);
    if (rc < 0)
    {
        return rc;
    }
    ssl->outlen += sbuf.end - sbuf.start;
    return PS_SUCCESS;
}
